(* C04 -- the invariant of the instrumented machine over all histories. *)
From PV Require Import C04.Spec C04.ProofsTable C04.ProofsLoop.

(* ---------------------------------------------------------------- entering the body *)
Lemma nodup_app {A} (l1 l2 : list A) :
  NoDup l1 -> NoDup l2 -> (forall x, In x l1 -> ~ In x l2) -> NoDup (l1 ++ l2).
Proof.
  induction l1 as [|a l1 IH]; intros H1 H2 Hd; [exact H2|].
  inversion H1 as [|? ? Hni Hnd]; subst. cbn [app]. constructor.
  - rewrite in_app_iff. intros [H|H]; [contradiction|]. apply (Hd a); [now left|exact H].
  - apply IH; [exact Hnd|exact H2|]. intros x Hx. apply Hd. now right.
Qed.

Opaque nodup.
Lemma start_inv valid t pmap0 reused0 a n pm ls low :
  gen_start t pmap0 reused0 = Val (pm, ls, low) ->
  J valid t {| f_attrs := a; f_list := listing t; f_cache := pmap0; f_marked := reused0; f_heap0 := n |}
    [] pm ls [] n.
Proof.
  unfold gen_start, pids_sorted.
  destruct (zsort (listing t)) as [|lo r] eqn:E; [discriminate|].
  cbn [obind fst snd]. intros H. injection H as Hpm Hls Hlow. clear Hlow.
  set (a0 := nodup Z.eq_dec (lo :: r)) in *.
  set (b := dkeys pmap0) in *.
  set (gone := filter (fun p => negb (zmem p a0)) b) in *.
  set (new := filter (fun p => negb (zmem p b)) a0) in *.
  assert (Ha0 : forall p, In p a0 <-> In p (listing t)).
  { intros p. unfold a0. rewrite nodup_In. rewrite <- E. apply zsort_In. }
  assert (F1 : forall q o, dget q pm = Some o ->
                 dget q pmap0 = Some o /\ ~ In q reused0 /\ In q (listing t)).
  { intros q o Hg. rewrite <- Hpm in Hg. rewrite dget_ddel_all in Hg.
    destruct (zmem q reused0) eqn:Mr; [discriminate|]. rewrite dget_ddel_all in Hg.
    destruct (zmem q gone) eqn:Mg; [discriminate|].
    split; [exact Hg|]. split; [now apply zmem_false|].
    apply Ha0. apply zmem_false in Mg.
    destruct (zmem q a0) eqn:Ma; [now apply zmem_In|].
    exfalso. apply Mg. unfold gone. apply filter_In. split.
    - unfold b. apply dkeys_In. now exists o.
    - now rewrite Ma. }
  assert (F2 : forall q o, dget q pmap0 = Some o -> In q (listing t) -> ~ In q reused0 -> dget q pm = Some o).
  { intros q o Hg Hl Hr. rewrite <- Hpm. rewrite dget_ddel_all.
    apply zmem_false in Hr. rewrite Hr. rewrite dget_ddel_all.
    assert (Mg : zmem q gone = false).
    { apply zmem_false. unfold gone. rewrite filter_In. intros [_ Hn].
      apply Ha0 in Hl. apply zmem_In in Hl. rewrite Hl in Hn. discriminate. }
    now rewrite Mg. }
  assert (Hin : forall q po, In (q, po) ls <->
            (exists o, po = Some o /\ dget q pm = Some o) \/ (po = None /\ In q new)).
  { intros q po. rewrite <- Hls. rewrite isort_In, in_app_iff, !in_map_iff. split.
    - intros [[[k v] [He Hi]]|[p [He Hi]]].
      + cbn [fst snd] in He. injection He as Hq Hpo. subst q po. left. exists v. split; [reflexivity|].
        apply ditems_In. rewrite Hpm in Hi. exact Hi.
      + injection He as Hq Hpo. subst p po. now right.
    - intros [[o [He Hg]]|[He Hi]].
      + subst po. left. exists (q, o). split; [reflexivity|]. rewrite Hpm. now apply ditems_In.
      + subst po. right. now exists q. }
  constructor.
  - rewrite <- Hls. apply isort_strict. rewrite map_app, !map_map. cbn [fst].
    apply nodup_app.
    + change (map (fun x : Z * nat => fst x) (ditems (ddel_all reused0 (ddel_all gone pmap0))))
        with (map fst (ditems (ddel_all reused0 (ddel_all gone pmap0)))). apply ditems_NoDup.
    + rewrite map_id. unfold new. apply NoDup_filter. unfold a0. apply NoDup_nodup.
    + intros x Hx. rewrite map_id.
      change (In x (dkeys (ddel_all reused0 (ddel_all gone pmap0)))) in Hx.
      apply dkeys_In in Hx as [o Ho]. rewrite Hpm in Ho. apply F1 in Ho as [Ho _].
      unfold new. rewrite filter_In. intros [_ Hn].
      assert (Hb : zmem x b = true) by (apply zmem_In; unfold b; apply dkeys_In; now exists o).
      rewrite Hb in Hn. discriminate.
  - intros q po Hi. apply Hin in Hi as [[o [He Hg]]|[He Hi]]; subst po; cbn [f_list f_cache f_marked].
    + destruct (F1 q o Hg) as [H1 [H2 H3]]. repeat split; assumption.
    + unfold new in Hi. apply filter_In in Hi as [Hi Hn]. split; [now apply Ha0|].
      apply dkeys_not_In. apply negb_true_iff in Hn. now apply zmem_false in Hn.
  - intros y q po [].
  - intros p o Hg. cbn [f_list f_cache f_marked f_heap0]. destruct (F1 p o Hg) as [H1 [H2 H3]].
    split; [exact H3|]. left. now split.
  - intros y [].
  - cbn [f_list f_cache f_marked]. intros p Hp. right.
    destruct (dget p pmap0) as [o|] eqn:Eg.
    + destruct (zmem p reused0) eqn:Mr.
      * right; right. split; [now exists o|]. left. now apply zmem_In.
      * left. exists (Some o). apply Hin. left. exists o. split; [reflexivity|].
        apply F2; [exact Eg|exact Hp|now apply zmem_false].
    + left. exists None. apply Hin. right. split; [reflexivity|].
      unfold new. apply filter_In. split; [now apply Ha0|].
      apply negb_true_iff. apply zmem_false. unfold b. now apply dkeys_not_In.
  - cbn [f_list]. intros p Hp. left. now apply alive_listed.
  - cbn [f_heap0]. lia.
  - constructor.
  - constructor.
  - cbn [f_marked f_cache]. intros p Hm [o Hc].
    assert (Hnone : dget p pm = None).
    { rewrite <- Hpm. rewrite dget_ddel_all. apply zmem_In in Hm. now rewrite Hm. }
    split; [exact Hnone|]. split; [|intros []].
    intros po Hi. apply Hin in Hi as [[o2 [He Hg]]|[He Hi]]; [congruence|].
    unfold new in Hi. apply filter_In in Hi as [_ Hn]. apply negb_true_iff in Hn. apply zmem_false in Hn.
    apply Hn. unfold b. apply dkeys_In. now exists o.
Qed.
Transparent nodup.

(* ---------------------------------------------------------------- the invariant *)
Definition yields_fin (valid : list Z) (gh : ghost) : Prop :=
  StronglySorted Z.gt (map ypid (gh_yields gh)) /\ Forall (yield_ok valid (frame_of gh)) (gh_yields gh).

Definition ginv (valid : list Z) (s : st) (gn : gen) (gh : ghost) : Prop :=
  match gn with
  | GFresh a => gh_started gh = false /\ gh_done gh = false /\ gh_attrs gh = a /\ gh_yields gh = []
  | GRun a pm rest =>
    gh_started gh = true /\ gh_done gh = false /\ gh_attrs gh = a /\
    J valid (tbl s) (frame_of gh) (gh_vanished gh) pm rest (gh_yields gh) (nobj s)
  | GDone =>
    gh_done gh = true /\ yields_fin valid gh /\
    (gh_exhausted gh = true ->
     forall p, In p (gh_list gh) ->
       In p (map ypid (gh_yields gh)) \/ In p (gh_vanished gh) \/ stale_risk valid (frame_of gh) p)
  end.

Definition Inv (valid : list Z) (sg : st * ghosts) : Prop :=
  forall g, ginv valid (fst sg) (gens (fst sg) g) (snd sg g).

Lemma ginv_yields valid s gn gh : ginv valid s gn gh -> yields_fin valid gh.
Proof.
  destruct gn as [a|a pm rest|]; cbn [ginv].
  - intros [_ [_ [_ Hy]]]. unfold yields_fin. rewrite Hy. split; constructor.
  - intros [_ [_ [_ HJ]]]. split; [apply (j_ysorted _ _ _ _ _ _ _ _ HJ)|apply (j_yok _ _ _ _ _ _ _ _ HJ)].
  - intros [_ [Hy _]]. exact Hy.
Qed.

Lemma J_stable valid t t' fr V V' pm rest Y n n' :
  J valid t fr V pm rest Y n ->
  (forall p, alive t p = true -> alive t' p = true \/ In p V') -> incl V V' -> (n <= n')%nat ->
  J valid t' fr V' pm rest Y n'.
Proof.
  intros H Ha Hv Hn. constructor.
  - apply (j_sorted _ _ _ _ _ _ _ _ H).
  - apply (j_rest _ _ _ _ _ _ _ _ H).
  - apply (j_ylt _ _ _ _ _ _ _ _ H).
  - apply (j_pm _ _ _ _ _ _ _ _ H).
  - apply (j_ypm _ _ _ _ _ _ _ _ H).
  - intros p Hp. destruct (j_comp _ _ _ _ _ _ _ _ H p Hp) as [Hy|[Hr|[Hvv|Hst]]]; [now left|right; now left| |right; right; now right].
    right; right; left. now apply Hv.
  - intros p Hp. destruct (j_tbl _ _ _ _ _ _ _ _ H p Hp) as [Hal|Hvv]; [now apply Ha|right; now apply Hv].
  - pose proof (j_h0 _ _ _ _ _ _ _ _ H). lia.
  - apply (j_ysorted _ _ _ _ _ _ _ _ H).
  - apply (j_yok _ _ _ _ _ _ _ _ H).
  - apply (j_mc _ _ _ _ _ _ _ _ H).
Qed.

(* a state change that keeps every listed PID alive, never shrinks the token counter and
   leaves a generator alone keeps that generator's invariant *)
Lemma ginv_stable valid s s' gn gh :
  ginv valid s gn gh ->
  (forall p, alive (tbl s) p = true -> alive (tbl s') p = true) -> (nobj s <= nobj s')%nat ->
  ginv valid s' gn gh.
Proof.
  intros H Ha Hn. destruct gn as [a|a pm rest|]; cbn [ginv] in *; [exact H| |exact H].
  destruct H as [H1 [H2 [H3 HJ]]]. split; [exact H1|]. split; [exact H2|]. split; [exact H3|].
  eapply J_stable; [exact HJ| |apply incl_refl|exact Hn]. intros p Hp. left. now apply Ha.
Qed.

(* ---------------------------------------------------------------- resuming a generator *)
Lemma run_loop_inv valid s g a pm rest gh :
  gh_attrs gh = a -> gh_started gh = true -> gh_done gh = false ->
  J valid (tbl s) (frame_of gh) (gh_vanished gh) pm rest (gh_yields gh) (nobj s) ->
  let r := run_loop valid s g a pm rest in
  tbl (fst r) = tbl s /\ (nobj s <= nobj (fst r))%nat /\ ngen (fst r) = ngen s /\
  (forall g', g' <> g -> gens (fst r) g' = gens s g') /\
  ginv valid (fst r) (gens (fst r) g) (gh_after s gh (snd r)) /\
  (snd r = OStop \/ (exists e, snd r = OExc e) -> Jfin valid (frame_of gh) (pmap (fst r)) (gh_yields gh)) /\
  (forall e, snd r = OExc e -> exists l, a = Some l /\ exc_reason valid l e) /\
  (snd r <> ONone /\ snd r <> OBad /\ (forall l, snd r <> OPids l) /\ (forall b, snd r <> OBool b)) /\
  (forall p ob i, snd r = OYield p ob i -> pmap (fst r) = pmap s).
Proof.
  intros Ha Hst Hdn HJ r. subst r. unfold run_loop.
  pose proof (loop_inv valid (tbl s) (frame_of gh) (gh_vanished gh) rest
                {| l_pm := pm; l_hp := heap s; l_n := nobj s; l_ru := reused s |} (gh_yields gh) HJ) as HL.
  cbn [l_pm l_n frame_of f_attrs] in HL. rewrite Ha in HL.
  assert (Hother : forall x g', g' <> g -> set_gen s g x g' = gens s g').
  { intros x g' Hne. unfold set_gen. apply Nat.eqb_neq in Hne. now rewrite Hne. }
  assert (Hself : forall x, set_gen s g x g = x).
  { intros x. unfold set_gen. now rewrite Nat.eqb_refl. }
  assert (Hneq : forall o0 : out, (exists p ob i, o0 = OYield p ob i) \/ o0 = OStop \/ (exists e, o0 = OExc e) \/ o0 = OOom ->
            o0 <> ONone /\ o0 <> OBad /\ (forall l, o0 <> OPids l) /\ (forall b, o0 <> OBool b)).
  { intros o0 [[p [ob [i H]]]|[H|[[e H]|H]]]; subst o0; repeat split; intros; discriminate. }
  destruct (gen_loop (tbl s) valid a _ rest) as [x' rest' p o i|x'|x' e|x']; cbn [loop_post] in HL;
    cbn [fst snd mk tbl nobj ngen gens pmap gh_after].
  - destruct HL as [HJ' Hn].
    split; [reflexivity|]. split; [exact Hn|]. split; [reflexivity|].
    split; [intros g' Hne; now apply Hother|].
    split.
    { rewrite Hself. cbn [ginv]. split; [exact Hst|]. split; [exact Hdn|]. split; [exact Ha|]. exact HJ'. }
    split; [intros [H|[e H]]; discriminate|].
    split; [intros e H; discriminate|].
    split; [apply Hneq; left; now exists p, o, i|].
    intros; reflexivity.
  - destruct HL as [HJ' Hn].
    split; [reflexivity|]. split; [exact Hn|]. split; [reflexivity|].
    split; [intros g' Hne; now apply Hother|].
    split.
    { rewrite Hself. cbn [ginv gh_finish gh_done gh_exhausted gh_list gh_yields gh_vanished]. split; [reflexivity|].
      split; [split; [apply (j_ysorted _ _ _ _ _ _ _ _ HJ')|apply (j_yok _ _ _ _ _ _ _ _ HJ')]|].
      intros _ p0 Hp. destruct (j_comp _ _ _ _ _ _ _ _ HJ' p0 Hp) as [Hy|[[po []]|[Hv|Hs]]];
        [now left|right; now left|right; now right]. }
    split; [intros _; exact (J_Jfin _ _ _ _ _ _ _ _ HJ')|].
    split; [intros e H; discriminate|].
    split; [apply Hneq; right; now left|].
    intros; discriminate.
  - destruct HL as [HF [Hn [l [Hl Hbad]]]].
    split; [reflexivity|]. split; [exact Hn|]. split; [reflexivity|].
    split; [intros g' Hne; now apply Hother|].
    split.
    { rewrite Hself. cbn [ginv gh_finish gh_done gh_exhausted]. split; [reflexivity|].
      split; [split; [apply (f_ysorted _ _ _ _ HF)|apply (f_yok _ _ _ _ HF)]|discriminate]. }
    split; [intros _; exact HF|].
    split.
    { intros e0 H0. injection H0 as H0. subst e0. exists l. cbn [frame_of f_attrs] in Hl. rewrite Ha in Hl. now split. }
    split; [apply Hneq; right; right; left; now exists e|].
    intros; discriminate.
  - split; [reflexivity|]. split; [exact HL|]. split; [reflexivity|].
    split; [intros g' Hne; now apply Hother|].
    split.
    { rewrite Hself. cbn [ginv gh_finish gh_done gh_exhausted]. split; [reflexivity|].
      split; [split; [apply (j_ysorted _ _ _ _ _ _ _ _ HJ)|apply (j_yok _ _ _ _ _ _ _ _ HJ)]|discriminate]. }
    split; [intros [H|[e H]]; discriminate|].
    split; [intros e H; discriminate|].
    split; [apply Hneq; right; right; now right|].
    intros; discriminate.
Qed.

(* ---------------------------------------------------------------- one step keeps the invariant *)
Lemma alive_cons k t p : alive t p = true -> alive (k :: t) p = true.
Proof. rewrite !alive_listed. cbn [listing map]. now right. Qed.

Lemma alive_same_listing t t' p : listing t' = listing t -> alive t' p = alive t p.
Proof.
  intros H. destruct (alive t p) eqn:E.
  - apply alive_listed. rewrite H. now apply alive_listed.
  - apply alive_false. rewrite H. now apply alive_false.
Qed.

Lemma alive_reap t p q :
  alive t q = true -> q <> p -> alive (filter (fun k => negb (k_pid k =? p)) t) q = true.
Proof.
  rewrite !alive_listed. unfold listing. rewrite !in_map_iff. intros [k [Hk Hin]] Hne.
  exists k. split; [exact Hk|]. apply filter_In. split; [exact Hin|].
  apply negb_true_iff. apply Z.eqb_neq. congruence.
Qed.

Lemma Inv_frame valid s G s' :
  Inv valid (s, G) -> gens s' = gens s ->
  (forall p, alive (tbl s) p = true -> alive (tbl s') p = true) -> (nobj s <= nobj s')%nat ->
  Inv valid (s', G).
Proof.
  intros H Hg Ha Hn g. cbn [fst snd]. rewrite Hg. eapply ginv_stable; [apply (H g)|exact Ha|exact Hn].
Qed.

Lemma gset_same G g x : gset G g x g = x.
Proof. unfold gset. now rewrite Nat.eqb_refl. Qed.
Lemma gset_other G g x g' : g' <> g -> gset G g x g' = G g'.
Proof. intros H. unfold gset. apply Nat.eqb_neq in H. now rewrite H. Qed.
Lemma set_gen_same s g x : set_gen s g x g = x.
Proof. unfold set_gen. now rewrite Nat.eqb_refl. Qed.
Lemma set_gen_other s g x g' : g' <> g -> set_gen s g x g' = gens s g'.
Proof. intros H. unfold set_gen. apply Nat.eqb_neq in H. now rewrite H. Qed.

Lemma gen_start_exc t pm ru e : gen_start t pm ru = Exc e -> e = IndexError /\ t = [].
Proof.
  unfold gen_start, pids_sorted. destruct (zsort (listing t)) eqn:E; cbn [obind]; [|discriminate].
  intros H. injection H as H. subst e. split; [reflexivity|].
  apply (proj1 (zsort_nil _)) in E. unfold listing in E. now apply map_eq_nil in E.
Qed.

Lemma gen_start_oom t pm ru : gen_start t pm ru <> OutOfModel.
Proof. unfold gen_start, pids_sorted. destruct (zsort (listing t)); cbn [obind]; discriminate. Qed.

(* IterNext on a generator that exists, as a function of its frame *)
Lemma next_inv valid s G g :
  Inv valid (s, G) -> (ngen s <=? g)%nat = false ->
  let r := step valid s (IterNext g) in
  let G' := gupd s (IterNext g) (snd r) G in
  Inv valid (fst r, G') /\
  (forall x, snd r = OExc x ->
     (exists l, gh_attrs (G g) = Some l /\ exc_reason valid l x)
     \/ (x = IndexError /\ tbl s = [])) /\
  (gh_done (G g) = false -> gh_done (G' g) = true -> snd r <> OOom -> (tbl s <> [] \/ snd r = OStop) ->
     Jfin valid (frame_of (G' g)) (pmap (fst r)) (gh_yields (G' g))) /\
  (snd r <> ONone /\ snd r <> OBad /\ (forall l, snd r <> OPids l) /\ (forall b, snd r <> OBool b)) /\
  (forall p ob i, snd r = OYield p ob i -> pmap (fst r) = pmap s).
Proof.
  intros HI Hg r G'. subst r G'. cbn [step gupd]. rewrite Hg.
  pose proof (HI g) as Hgi. cbn [fst snd] in Hgi.
  destruct (gens s g) as [a|a pm rest|] eqn:Eg; cbn [ginv] in Hgi.
  - (* body entered now *)
    destruct Hgi as [Hst [Hdn [Hat Hy]]]. rewrite Hdn, Hst.
    destruct (gen_start (tbl s) (pmap s) (reused s)) as [[[pm ls] low]|e|] eqn:Es.
    + set (s1 := mk s (tbl s) (pmap s) [] (Some low) (heap s) (nobj s) (gens s) (ngen s)).
      pose proof (start_inv valid (tbl s) (pmap s) (reused s) (gh_attrs (G g)) (nobj s) pm ls low Es) as HJ.
      pose proof (run_loop_inv valid s1 g a pm ls (gh_enter s (G g)) Hat eq_refl eq_refl HJ) as HR.
      cbn zeta in HR. destruct HR as [Ht [Hn [Hng [Hoth [Hinv [Hfin [Hexc [Hneq Hyp]]]]]]]].
      split.
      { intros g'. cbn [fst snd]. destruct (Nat.eq_dec g' g) as [->|Hne].
        - rewrite gset_same. exact Hinv.
        - rewrite gset_other by exact Hne. rewrite (Hoth g' Hne).
          change (gens s1 g') with (gens s g').
          eapply ginv_stable; [apply (HI g')| |exact Hn].
          intros p Hp. rewrite Ht. exact Hp. }
      split.
      { intros x Hx. left. destruct (Hexc x Hx) as [l [Hl Hb]]. exists l.
        rewrite Hat. now split. }
      split.
      { intros _ Hd Hoom _. rewrite gset_same in *.
        destruct (snd (run_loop valid s1 g a pm ls)) eqn:Eo; cbn [gh_after gh_push gh_finish gh_done gh_enter] in Hd;
          try discriminate.
        - apply Hfin. now left.
        - apply Hfin. right. now exists e.
        - congruence. }
      split; [exact Hneq|]. exact Hyp.
    + destruct (gen_start_exc _ _ _ _ Es) as [He Ht]. subst e. cbn [fst snd].
      split.
      { intros g'. cbn [fst snd with_gen mk gens tbl nobj]. destruct (Nat.eq_dec g' g) as [->|Hne].
        - rewrite gset_same, set_gen_same. cbn [ginv gh_finish gh_done gh_exhausted gh_enter]. split; [reflexivity|].
          split; [split; constructor|discriminate].
        - rewrite gset_other, set_gen_other by exact Hne. apply (HI g'). }
      split; [intros x Hx; injection Hx as Hx; subst x; right; now split|].
      split; [intros _ _ _ [Hne|Hne]; [contradiction|discriminate]|].
      split; [repeat split; intros; discriminate|]. intros; discriminate.
    + exfalso. exact (gen_start_oom _ _ _ Es).
  - (* resumed *)
    destruct Hgi as [Hst [Hdn [Hat HJ]]]. rewrite Hdn, Hst.
    pose proof (run_loop_inv valid s g a pm rest (G g) Hat Hst Hdn HJ) as HR.
    cbn zeta in HR. destruct HR as [Ht [Hn [Hng [Hoth [Hinv [Hfin [Hexc [Hneq Hyp]]]]]]]].
    split.
    { intros g'. cbn [fst snd]. destruct (Nat.eq_dec g' g) as [->|Hne].
      - rewrite gset_same. exact Hinv.
      - rewrite gset_other by exact Hne. rewrite (Hoth g' Hne).
        eapply ginv_stable; [apply (HI g')| |exact Hn].
        intros p Hp. rewrite Ht. exact Hp. }
    split.
    { intros x Hx. left. destruct (Hexc x Hx) as [l [Hl Hb]]. exists l.
      rewrite Hat. now split. }
    split.
    { intros _ Hd Hoom _. rewrite gset_same in *.
      destruct (snd (run_loop valid s g a pm rest)) eqn:Eo; cbn [gh_after gh_push gh_finish gh_done] in Hd;
        try congruence.
      - apply Hfin. now left.
      - apply Hfin. right. now exists e. }
    split; [exact Hneq|]. exact Hyp.
  - (* finished generator *)
    destruct Hgi as [Hdn _]. rewrite Hdn. cbn [fst snd].
    split; [exact HI|]. split; [intros x Hx; discriminate|].
    split; [intros Hd; congruence|]. split; [repeat split; intros; discriminate|]. intros; discriminate.
Qed.


Lemma Inv_step valid sg e : Inv valid sg -> Inv valid (fst (istep valid sg e)).
Proof.
  destruct sg as [s G]. intros HI. unfold istep. cbn [fst snd].
  destruct (step valid s e) as [s' o] eqn:Es. cbn [fst].
  assert (Hs' : s' = fst (step valid s e)) by now rewrite Es.
  assert (Ho : o = snd (step valid s e)) by now rewrite Es.
  destruct e.
  - (* Spawn *)
    cbn [gupd]. cbn [step] in Hs'.
    destruct ((0 <=? pid) && (pid <=? PIDMAX) && id_free (tbl s) pid); cbn [fst] in Hs'; subst s'; [|exact HI].
    apply (Inv_frame _ s); [exact HI|reflexivity| |cbn; lia].
    intros p Hp. cbn [with_tbl mk tbl]. now apply alive_cons.
  - (* Exit *)
    cbn [gupd]. cbn [step fst] in Hs'. subst s'.
    apply (Inv_frame _ s); [exact HI|reflexivity| |cbn; lia].
    intros p Hp. cbn [with_tbl mk tbl]. erewrite alive_same_listing; [exact Hp|].
    apply listing_map_same. intros k. destruct (k_pid k =? pid); reflexivity.
  - (* Reap *)
    cbn [gupd]. cbn [step fst] in Hs'. subst s'.
    destruct (alive (tbl s) pid) eqn:Ea.
    + intros g. cbn [fst snd with_tbl mk gens tbl nobj]. pose proof (HI g) as Hg. cbn [fst snd] in Hg.
      unfold gh_vanish.
      destruct (gens s g) as [a|a pm rest|]; cbn [ginv] in *.
      * destruct Hg as [H1 [H2 [H3 H4]]]. rewrite H1. cbn [andb]. now repeat split.
      * destruct Hg as [H1 [H2 [H3 HJ]]]. rewrite H1, H2. cbn [andb negb gh_started gh_done gh_attrs gh_yields gh_vanished].
        split; [reflexivity|]. split; [reflexivity|]. split; [exact H3|].
        eapply J_stable; [exact HJ| | |apply Nat.le_refl].
        -- intros p Hp. destruct (Z.eq_dec p pid) as [->|Hne]; [right; now left|left; now apply alive_reap].
        -- intros x Hx. now right.
      * destruct Hg as [H1 H2]. rewrite H1. rewrite andb_false_r. now split.
    + apply (Inv_frame _ s); [exact HI|reflexivity| |cbn; lia].
      intros p Hp. cbn [with_tbl mk tbl]. apply alive_reap; [exact Hp|]. intros ->. congruence.
  - (* Thread *)
    cbn [gupd]. cbn [step] in Hs'.
    destruct ((1 <=? tid) && (tid <=? PIDMAX) && id_free (tbl s) tid); cbn [fst] in Hs'; subst s'; [|exact HI].
    apply (Inv_frame _ s); [exact HI|reflexivity| |cbn; lia].
    intros p Hp. cbn [with_tbl mk tbl]. erewrite alive_same_listing; [exact Hp|].
    apply listing_map_same. intros k. destruct ((k_pid k =? pid) && negb (k_zombie k)); reflexivity.
  - (* ThreadExit *)
    cbn [gupd]. cbn [step fst] in Hs'. subst s'.
    apply (Inv_frame _ s); [exact HI|reflexivity| |cbn; lia].
    intros p Hp. cbn [with_tbl mk tbl]. erewrite alive_same_listing; [exact Hp|].
    apply listing_map_same. reflexivity.
  - (* Pids *)
    cbn [gupd]. cbn [step] in Hs'.
    destruct (pids_sorted (listing (tbl s))) as [[l low]| |]; cbn [fst] in Hs'; subst s'; exact HI.
  - (* PidExists *)
    cbn [gupd]. cbn [step] in Hs'.
    destruct (n <? 0); cbn [fst] in Hs'; [subst s'; exact HI|].
    destruct (n =? 0); cbn [fst] in Hs'; [|subst s'; exact HI].
    destruct (pids_sorted (listing (tbl s))) as [[l low]| |]; cbn [fst] in Hs'; subst s'; exact HI.
  - (* IterNew *)
    cbn [gupd]. cbn [step fst] in Hs'. subst s'.
    intros g. cbn [fst snd mk gens tbl nobj]. destruct (Nat.eq_dec g (ngen s)) as [->|Hne].
    + rewrite gset_same, set_gen_same. cbn [ginv gh_fresh gh_started gh_done gh_attrs gh_yields]. now repeat split.
    + rewrite gset_other, set_gen_other by exact Hne. apply (HI g).
  - (* IterNext *)
    destruct (Nat.leb (ngen s) g) eqn:Hg.
    + cbn [gupd]. rewrite Hg. cbn [step] in Hs'. rewrite Hg in Hs'. cbn [fst] in Hs'. subst s'. exact HI.
    + subst s' o. exact (proj1 (next_inv valid s G g HI Hg)).
  - (* IterClose *)
    cbn [gupd]. cbn [step] in Hs'.
    destruct (Nat.leb (ngen s) g) eqn:Hg; cbn [fst] in Hs'; [subst s'; exact HI|].
    pose proof (HI g) as Hgi. cbn [fst snd] in Hgi.
    destruct (gens s g) as [a|a pm rest|] eqn:Eg; cbn [ginv] in Hgi; cbn [fst] in Hs'; subst s'.
    + destruct Hgi as [H1 [H2 [H3 H4]]]. rewrite H2.
      intros g'. cbn [fst snd with_gen mk gens tbl nobj]. destruct (Nat.eq_dec g' g) as [->|Hne].
      * rewrite gset_same, set_gen_same. cbn [ginv gh_finish gh_done gh_exhausted]. split; [reflexivity|].
        split; [|discriminate]. unfold yields_fin. cbn [gh_finish gh_yields]. rewrite H4. split; constructor.
      * rewrite gset_other, set_gen_other by exact Hne. apply (HI g').
    + destruct Hgi as [H1 [H2 [H3 HJ]]]. rewrite H2.
      intros g'. cbn [fst snd mk gens tbl nobj]. destruct (Nat.eq_dec g' g) as [->|Hne].
      * rewrite gset_same, set_gen_same. cbn [ginv gh_finish gh_done gh_exhausted]. split; [reflexivity|].
        split; [|discriminate]. split; [apply (j_ysorted _ _ _ _ _ _ _ _ HJ)|apply (j_yok _ _ _ _ _ _ _ _ HJ)].
      * rewrite gset_other, set_gen_other by exact Hne.
        eapply ginv_stable; [apply (HI g')|intros p Hp; exact Hp|apply Nat.le_refl].
    + destruct Hgi as [H1 H2]. rewrite H1.
      intros g'. cbn [fst snd with_gen mk gens tbl nobj]. destruct (Nat.eq_dec g' g) as [->|Hne].
      * rewrite set_gen_same. cbn [ginv]. now split.
      * rewrite set_gen_other by exact Hne. apply (HI g').
  - (* CacheClear *)
    cbn [gupd]. cbn [step fst] in Hs'. subst s'.
    apply (Inv_frame _ s); [exact HI|reflexivity|intros p Hp; exact Hp|cbn; lia].
  - (* IsRunning *)
    cbn [gupd]. cbn [step] in Hs'.
    destruct (Nat.leb (nobj s) o0); cbn [fst] in Hs'; [subst s'; exact HI|].
    destruct (is_running_obj _ _ _ _) as [[r ob'] ru']. cbn [fst] in Hs'. subst s'.
    apply (Inv_frame _ s); [exact HI|reflexivity|intros p Hp; exact Hp|cbn; lia].
  - (* PidExistsF *)
    cbn [gupd]. cbn [step] in Hs'.
    destruct (n <? 0); cbn [fst] in Hs'; [subst s'; exact HI|].
    destruct (n =? 0); cbn [fst] in Hs';
      [destruct (pids_sorted (listing (tbl s))) as [[l low]| |]; cbn [fst] in Hs'; subst s'; exact HI|].
    destruct (_ && _); cbn [fst] in Hs'; subst s'; exact HI.
Qed.

Lemma Inv_init valid : Inv valid (init, fun _ => gh_none).
Proof.
  intros g. cbn. split; [reflexivity|]. split; [split; constructor|discriminate].
Qed.

Lemma Inv_fold valid h : forall sg, Inv valid sg -> Inv valid (fold_left (fun sg e => fst (istep valid sg e)) h sg).
Proof.
  induction h as [|e h IH]; intros sg H; [exact H|]. cbn [fold_left]. apply IH. now apply Inv_step.
Qed.

Theorem Inv_irun valid h : Inv valid (irun valid h).
Proof. apply Inv_fold. apply Inv_init. Qed.

(* the machine inside the instrumented machine *)
Lemma irun_fst_fold valid h : forall sg,
  fst (fold_left (fun sg e => fst (istep valid sg e)) h sg) = fold_left (fun s e => fst (step valid s e)) h (fst sg).
Proof.
  induction h as [|e h IH]; intros sg; [reflexivity|]. cbn [fold_left]. rewrite IH. f_equal.
  unfold istep. destruct (step valid (fst sg) e). reflexivity.
Qed.

Lemma irun_final valid h : fst (irun valid h) = final valid h.
Proof. unfold irun, final. now rewrite irun_fst_fold. Qed.
