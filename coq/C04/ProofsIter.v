(* C04 -- the invariant of the instrumented machine over all histories. *)
From PV Require Import C04.Spec C04.ProofsTable C04.ProofsLoop.

(* ---------------------------------------------------------------- entering the body *)
Lemma nodup_app {A} (l1 l2 : list A) :
  NoDup l1 -> NoDup l2 -> (forall x, In x l1 -> ~ In x l2) -> NoDup (l1 ++ l2).
Proof.
  induction l1 as [|a l1 IH]; intros H1 H2 Hd; [exact H2|].
  inversion H1 as [|? ? Hni Hnd]; subst. cbn [app]. constructor.
  - rewrite in_app_iff. intros [H|H]; [contradiction|]. apply (Hd a); [now left|exact H].
  - apply IH; [exact Hnd|exact H2|]. intros x Hx. apply Hd. now right.
Qed.

Opaque nodup.
Lemma start_inv valid t pmap0 reused0 a n pm ls low :
  gen_start t pmap0 reused0 = Val (pm, ls, low) ->
  J valid t {| f_attrs := a; f_list := listing t; f_cache := pmap0; f_marked := reused0; f_heap0 := n |}
    [] pm ls [] n.
Proof.
  unfold gen_start, pids_sorted.
  destruct (zsort (listing t)) as [|lo r] eqn:E; [discriminate|].
  cbn [obind fst snd]. intros H. injection H as Hpm Hls Hlow. clear Hlow.
  set (a0 := nodup Z.eq_dec (lo :: r)) in *.
  set (b := dkeys pmap0) in *.
  set (gone := filter (fun p => negb (zmem p a0)) b) in *.
  set (new := filter (fun p => negb (zmem p b)) a0) in *.
  assert (Ha0 : forall p, In p a0 <-> In p (listing t)).
  { intros p. unfold a0. rewrite nodup_In. rewrite <- E. apply zsort_In. }
  assert (F1 : forall q o, dget q pm = Some o ->
                 dget q pmap0 = Some o /\ ~ In q reused0 /\ In q (listing t)).
  { intros q o Hg. rewrite <- Hpm in Hg. rewrite dget_ddel_all in Hg.
    destruct (zmem q reused0) eqn:Mr; [discriminate|]. rewrite dget_ddel_all in Hg.
    destruct (zmem q gone) eqn:Mg; [discriminate|].
    split; [exact Hg|]. split; [now apply zmem_false|].
    apply Ha0. apply zmem_false in Mg.
    destruct (zmem q a0) eqn:Ma; [now apply zmem_In|].
    exfalso. apply Mg. unfold gone. apply filter_In. split.
    - unfold b. apply dkeys_In. now exists o.
    - now rewrite Ma. }
  assert (F2 : forall q o, dget q pmap0 = Some o -> In q (listing t) -> ~ In q reused0 -> dget q pm = Some o).
  { intros q o Hg Hl Hr. rewrite <- Hpm. rewrite dget_ddel_all.
    apply zmem_false in Hr. rewrite Hr. rewrite dget_ddel_all.
    assert (Mg : zmem q gone = false).
    { apply zmem_false. unfold gone. rewrite filter_In. intros [_ Hn].
      apply Ha0 in Hl. apply zmem_In in Hl. rewrite Hl in Hn. discriminate. }
    now rewrite Mg. }
  assert (Hin : forall q po, In (q, po) ls <->
            (exists o, po = Some o /\ dget q pm = Some o) \/ (po = None /\ In q new)).
  { intros q po. rewrite <- Hls. rewrite isort_In, in_app_iff, !in_map_iff. split.
    - intros [[[k v] [He Hi]]|[p [He Hi]]].
      + cbn [fst snd] in He. injection He as Hq Hpo. subst q po. left. exists v. split; [reflexivity|].
        apply ditems_In. rewrite Hpm in Hi. exact Hi.
      + injection He as Hq Hpo. subst p po. now right.
    - intros [[o [He Hg]]|[He Hi]].
      + subst po. left. exists (q, o). split; [reflexivity|]. rewrite Hpm. now apply ditems_In.
      + subst po. right. now exists q. }
  constructor.
  - rewrite <- Hls. apply isort_strict. rewrite map_app, !map_map. cbn [fst].
    apply nodup_app.
    + change (map (fun x : Z * nat => fst x) (ditems (ddel_all reused0 (ddel_all gone pmap0))))
        with (map fst (ditems (ddel_all reused0 (ddel_all gone pmap0)))). apply ditems_NoDup.
    + rewrite map_id. unfold new. apply NoDup_filter. unfold a0. apply NoDup_nodup.
    + intros x Hx. rewrite map_id.
      change (In x (dkeys (ddel_all reused0 (ddel_all gone pmap0)))) in Hx.
      apply dkeys_In in Hx as [o Ho]. rewrite Hpm in Ho. apply F1 in Ho as [Ho _].
      unfold new. rewrite filter_In. intros [_ Hn].
      assert (Hb : zmem x b = true) by (apply zmem_In; unfold b; apply dkeys_In; now exists o).
      rewrite Hb in Hn. discriminate.
  - intros q po Hi. apply Hin in Hi as [[o [He Hg]]|[He Hi]]; subst po; cbn [f_list f_cache f_marked].
    + destruct (F1 q o Hg) as [H1 [H2 H3]]. repeat split; assumption.
    + unfold new in Hi. apply filter_In in Hi as [Hi Hn]. split; [now apply Ha0|].
      apply dkeys_not_In. apply negb_true_iff in Hn. now apply zmem_false in Hn.
  - intros y q po [].
  - intros p o Hg. cbn [f_list f_cache f_marked f_heap0]. destruct (F1 p o Hg) as [H1 [H2 H3]].
    split; [exact H3|]. left. now split.
  - intros y [].
  - cbn [f_list f_cache f_marked]. intros p Hp. right.
    destruct (dget p pmap0) as [o|] eqn:Eg.
    + destruct (zmem p reused0) eqn:Mr.
      * right; right. split; [now exists o|]. left. now apply zmem_In.
      * left. exists (Some o). apply Hin. left. exists o. split; [reflexivity|].
        apply F2; [exact Eg|exact Hp|now apply zmem_false].
    + left. exists None. apply Hin. right. split; [reflexivity|].
      unfold new. apply filter_In. split; [now apply Ha0|].
      apply negb_true_iff. apply zmem_false. unfold b. now apply dkeys_not_In.
  - cbn [f_list]. intros p Hp. left. now apply alive_listed.
  - cbn [f_heap0]. lia.
  - constructor.
  - constructor.
Qed.
Transparent nodup.

(* ---------------------------------------------------------------- the invariant *)
Definition yields_fin (valid : list Z) (gh : ghost) : Prop :=
  StronglySorted Z.gt (map ypid (gh_yields gh)) /\ Forall (yield_ok valid (frame_of gh)) (gh_yields gh).

Definition ginv (valid : list Z) (s : st) (gn : gen) (gh : ghost) : Prop :=
  match gn with
  | GFresh a => gh_started gh = false /\ gh_done gh = false /\ gh_attrs gh = a /\ gh_yields gh = []
  | GRun a pm rest =>
    gh_started gh = true /\ gh_done gh = false /\ gh_attrs gh = a /\
    J valid (tbl s) (frame_of gh) (gh_vanished gh) pm rest (gh_yields gh) (nobj s)
  | GDone =>
    gh_done gh = true /\ yields_fin valid gh /\
    (gh_exhausted gh = true ->
     forall p, In p (gh_list gh) ->
       In p (map ypid (gh_yields gh)) \/ In p (gh_vanished gh) \/ stale_risk valid (frame_of gh) p)
  end.

Definition Inv (valid : list Z) (sg : st * ghosts) : Prop :=
  forall g, ginv valid (fst sg) (gens (fst sg) g) (snd sg g).

Lemma ginv_yields valid s gn gh : ginv valid s gn gh -> yields_fin valid gh.
Proof.
  destruct gn as [a|a pm rest|]; cbn [ginv].
  - intros [_ [_ [_ Hy]]]. unfold yields_fin. rewrite Hy. split; constructor.
  - intros [_ [_ [_ HJ]]]. split; [apply (j_ysorted _ _ _ _ _ _ _ _ HJ)|apply (j_yok _ _ _ _ _ _ _ _ HJ)].
  - intros [_ [Hy _]]. exact Hy.
Qed.

Lemma J_stable valid t t' fr V V' pm rest Y n n' :
  J valid t fr V pm rest Y n ->
  (forall p, alive t p = true -> alive t' p = true \/ In p V') -> incl V V' -> (n <= n')%nat ->
  J valid t' fr V' pm rest Y n'.
Proof.
  intros H Ha Hv Hn. constructor.
  - apply (j_sorted _ _ _ _ _ _ _ _ H).
  - apply (j_rest _ _ _ _ _ _ _ _ H).
  - apply (j_ylt _ _ _ _ _ _ _ _ H).
  - apply (j_pm _ _ _ _ _ _ _ _ H).
  - apply (j_ypm _ _ _ _ _ _ _ _ H).
  - intros p Hp. destruct (j_comp _ _ _ _ _ _ _ _ H p Hp) as [Hy|[Hr|[Hvv|Hst]]]; [now left|right; now left| |right; right; now right].
    right; right; left. now apply Hv.
  - intros p Hp. destruct (j_tbl _ _ _ _ _ _ _ _ H p Hp) as [Hal|Hvv]; [now apply Ha|right; now apply Hv].
  - pose proof (j_h0 _ _ _ _ _ _ _ _ H). lia.
  - apply (j_ysorted _ _ _ _ _ _ _ _ H).
  - apply (j_yok _ _ _ _ _ _ _ _ H).
Qed.

(* a state change that keeps every listed PID alive, never shrinks the token counter and
   leaves a generator alone keeps that generator's invariant *)
Lemma ginv_stable valid s s' gn gh :
  ginv valid s gn gh ->
  (forall p, alive (tbl s) p = true -> alive (tbl s') p = true) -> (nobj s <= nobj s')%nat ->
  ginv valid s' gn gh.
Proof.
  intros H Ha Hn. destruct gn as [a|a pm rest|]; cbn [ginv] in *; [exact H| |exact H].
  destruct H as [H1 [H2 [H3 HJ]]]. repeat split; try assumption.
  eapply J_stable; [exact HJ| |apply incl_refl|exact Hn]. intros p Hp. left. now apply Ha.
Qed.

(* ---------------------------------------------------------------- resuming a generator *)
Definition gnext (gh : ghost) (o : out) : ghost :=
  match o with
  | OYield p ob i => gh_push gh (p, ob, i)
  | OStop => gh_finish gh true
  | OExc _ => gh_finish gh false
  | OOom => gh_finish gh false
  | _ => gh
  end.

Lemma run_loop_inv valid s g a pm rest gh :
  gh_attrs gh = a -> gh_started gh = true -> gh_done gh = false ->
  J valid (tbl s) (frame_of gh) (gh_vanished gh) pm rest (gh_yields gh) (nobj s) ->
  let r := run_loop valid s g a pm rest in
  tbl (fst r) = tbl s /\ (nobj s <= nobj (fst r))%nat /\ ngen (fst r) = ngen s /\
  (forall g', g' <> g -> gens (fst r) g' = gens s g') /\
  ginv valid (fst r) (gens (fst r) g) (gnext gh (snd r)) /\
  (snd r = OStop \/ (exists e, snd r = OExc e) -> Jfin valid (frame_of gh) (pmap (fst r)) (gh_yields gh)) /\
  (forall e, snd r = OExc e -> e = ValueError /\ exists l, a = Some l /\ attrs_valid valid l = false) /\
  (snd r <> ONone /\ snd r <> OBad /\ (forall l, snd r <> OPids l) /\ (forall b, snd r <> OBool b)) /\
  (forall p ob i, snd r = OYield p ob i -> pmap (fst r) = pmap s).
Proof.
  intros Ha Hst Hdn HJ r. subst r. unfold run_loop.
  pose proof (loop_inv valid (tbl s) (frame_of gh) (gh_vanished gh) rest
                {| l_pm := pm; l_hp := heap s; l_n := nobj s; l_ru := reused s |} (gh_yields gh) HJ) as HL.
  cbn [l_pm l_n frame_of f_attrs] in HL. rewrite Ha in HL.
  assert (Hother : forall x g', g' <> g -> set_gen s g x g' = gens s g').
  { intros x g' Hne. unfold set_gen. apply Nat.eqb_neq in Hne. now rewrite Hne. }
  assert (Hself : forall x, set_gen s g x g = x).
  { intros x. unfold set_gen. now rewrite Nat.eqb_refl. }
  destruct (gen_loop (tbl s) valid a _ rest) as [x' rest' p o i|x'|x' e|x']; cbn [loop_post] in HL;
    cbn [fst snd mk tbl nobj ngen gens pmap gnext].
  - destruct HL as [HJ' Hn]. repeat split; try assumption; try discriminate.
    + intros g' Hne. now apply Hother.
    + rewrite Hself. cbn [ginv]. repeat split; try assumption. exact HJ'.
    + intros [H|[e H]]; discriminate.
  - destruct HL as [HJ' Hn]. repeat split; try assumption; try discriminate.
    + intros g' Hne. now apply Hother.
    + rewrite Hself. cbn [ginv gh_finish gh_done gh_exhausted gh_list gh_yields gh_vanished]. split; [reflexivity|].
      split; [split; [apply (j_ysorted _ _ _ _ _ _ _ _ HJ')|apply (j_yok _ _ _ _ _ _ _ _ HJ')]|].
      intros _ p0 Hp. destruct (j_comp _ _ _ _ _ _ _ _ HJ' p0 Hp) as [Hy|[[po []]|[Hv|Hs]]]; auto.
    + intros _. exact (J_Jfin _ _ _ _ _ _ _ _ HJ').
  - destruct HL as [HF [Hn [He [l [Hl Hbad]]]]]. repeat split; try assumption; try discriminate.
    + intros g' Hne. now apply Hother.
    + rewrite Hself. cbn [ginv gh_finish gh_done gh_exhausted]. split; [reflexivity|].
      split; [split; [apply (f_ysorted _ _ _ _ HF)|apply (f_yok _ _ _ _ HF)]|discriminate].
    + intros e0 H0. inversion H0; subst e0. exact He.
    + inversion H. subst e0. exists l. now split.
  - repeat split; try assumption; try discriminate.
    + intros g' Hne. now apply Hother.
    + rewrite Hself. cbn [ginv gh_finish gh_done gh_exhausted]. split; [reflexivity|].
      split; [split; [apply (j_ysorted _ _ _ _ _ _ _ _ HJ)|apply (j_yok _ _ _ _ _ _ _ _ HJ)]|discriminate].
    + intros [H|[e H]]; discriminate.
    + intros e H; discriminate.
Qed.
