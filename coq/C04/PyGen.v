(* C04 -- three tiny statement languages + interpreters that cover exactly the shape of
     psutil.pid_exists()               (the guard chain in front of the platform call),
     psutil.process_iter() prologue    (private copy, pid sets, differences, evictions, sorted merge),
     psutil.process_iter() loop        (for pid, proc in ls: try ... except NoSuchProcess: remove(pid)).
   The programs are GENERATED from the source of the tree under check (props/_c04_gen.py ->
   coq/Gen/C04_Tables.v); C04/ProofsGen.v proves the interpreters on the generated programs equal to the
   hand-written model (C04/Model.v: step (PidExists n), gen_start, gen_loop).  No proofs here. *)
From PV Require Export C04.Model.

Scheme Equality for exn.          (* exn_beq : exn -> exn -> bool *)

(* ===================================================================== *)
(* 1. pid_exists(pid): if / elif / else chain of returns                  *)
(* ===================================================================== *)
Inductive pe_guard :=
| PELt0                           (* pid < 0 *)
| PEEq0                           (* pid == 0 and POSIX      (POSIX is True on the platform under check) *)
| PEElse.                         (* else: / statement after the chain *)
Inductive pe_ret :=
| PERetFalse                      (* return False *)
| PERetTrue                       (* return True *)
| PERetInPids                     (* return pid in pids() *)
| PERetPlat.                      (* return _psplatform.pid_exists(pid) *)
Definition pe_prog := list (pe_guard * pe_ret).

Definition pe_holds (g : pe_guard) (pid : Z) : bool :=
  match g with PELt0 => pid <? 0 | PEEq0 => pid =? 0 | PEElse => true end.
Fixpoint pe_select (p : pe_prog) (pid : Z) : option pe_ret :=
  match p with
  | [] => None                                                    (* falls off the end: returns None *)
  | (g, r) :: p' => if pe_holds g pid then Some r else pe_select p' pid
  end.

Definition pe_exec (p : pe_prog) (s : st) (n : Z) : st * out :=
  match pe_select p n with
  | Some PERetFalse => (s, OBool false)
  | Some PERetTrue => (s, OBool true)
  | Some PERetInPids =>                                           (* psutil.pids(): sorted, sets _LOWEST_PID, ret[0] *)
    match pids_sorted (listing (tbl s)) with
    | Val (l, low) => (with_lowest s low, OBool (zmem n l))
    | Exc e => (s, OExc e)
    | OutOfModel => (s, OOom)
    end
  | Some PERetPlat => (s, OBool (sys_pid_exists (tbl s) n))
  | None => (s, OBad)
  end.

(* ===================================================================== *)
(* 2. the prologue of process_iter()                                      *)
(* ===================================================================== *)
(* set-valued local variables are numbered by the translator in order of first assignment *)
Inductive pstmt :=
| PCopy                           (* pmap = _pmap.copy() *)
| PSetPids (v : nat)              (* v = set(pids()) *)
| PSetKeys (v : nat)              (* v = set(pmap.keys()) *)
| PDiff (v x y : nat)             (* v = x - y *)
| PForRemove (v : nat)            (* for pid in v: remove(pid)            [remove(pid) = pmap.pop(pid, None)] *)
| PDrainReused                    (* while _pids_reused: pid = _pids_reused.pop() (KeyError: break); remove(pid) *)
| PSortedMerge (v : nat).         (* ls = sorted(list(pmap.items()) + list(dict.fromkeys(v).items())) *)

Record penv := {
  e_pm : option dict;                               (* the local pmap, None = not assigned yet *)
  e_sets : nat -> option (list Z);
  e_ru : list Z;                                    (* the global _pids_reused *)
  e_low : option Z;                                 (* _LOWEST_PID written by pids() *)
  e_ls : option (list (Z * option nat)) }.

Definition penv_init (ru : list Z) : penv :=
  {| e_pm := None; e_sets := fun _ => None; e_ru := ru; e_low := None; e_ls := None |}.
Definition set_var (e : penv) (v : nat) (l : list Z) : penv :=
  {| e_pm := e_pm e; e_sets := fun w => if Nat.eqb w v then Some l else e_sets e w;
     e_ru := e_ru e; e_low := e_low e; e_ls := e_ls e |}.
Definition set_pm (e : penv) (pm : dict) : penv :=
  {| e_pm := Some pm; e_sets := e_sets e; e_ru := e_ru e; e_low := e_low e; e_ls := e_ls e |}.
Definition remove_each (ks : list Z) (pm : dict) : dict := fold_left (fun d k => ddel k d) ks pm.

(* an unbound local (UnboundLocalError) is outside the model *)
Definition pexec (t : list kproc) (pmap0 : dict) (s : pstmt) (e : penv) : outcome penv :=
  match s with
  | PCopy => Val (set_pm e pmap0)
  | PSetPids v =>
    do pl <- pids_sorted (listing t);
    Val (set_var {| e_pm := e_pm e; e_sets := e_sets e; e_ru := e_ru e; e_low := Some (snd pl); e_ls := e_ls e |}
                 v (nodup Z.eq_dec (fst pl)))
  | PSetKeys v =>
    match e_pm e with Some pm => Val (set_var e v (dkeys pm)) | None => OutOfModel end
  | PDiff v x y =>
    match e_sets e x, e_sets e y with
    | Some lx, Some ly => Val (set_var e v (filter (fun p => negb (zmem p ly)) lx))
    | _, _ => OutOfModel
    end
  | PForRemove v =>
    match e_sets e v, e_pm e with
    | Some ks, Some pm => Val (set_pm e (remove_each ks pm))
    | _, _ => OutOfModel
    end
  | PDrainReused =>
    match e_pm e with
    | Some pm => Val {| e_pm := Some (remove_each (e_ru e) pm); e_sets := e_sets e; e_ru := []; e_low := e_low e;
                        e_ls := e_ls e |}
    | None => OutOfModel
    end
  | PSortedMerge v =>
    match e_sets e v, e_pm e with
    | Some newp, Some pm =>
      Val {| e_pm := e_pm e; e_sets := e_sets e; e_ru := e_ru e; e_low := e_low e;
             e_ls := Some (isort (fun x : Z * option nat => fst x)
                                 (map (fun kv => (fst kv, Some (snd kv))) (ditems pm) ++ map (fun p => (p, None)) newp)) |}
    | _, _ => OutOfModel
    end
  end.

Fixpoint pexec_all (t : list kproc) (pmap0 : dict) (p : list pstmt) (e : penv) : outcome penv :=
  match p with
  | [] => Val e
  | s :: r => do e' <- pexec t pmap0 s e; pexec_all t pmap0 r e'
  end.

(* what the loop starts from: (local pmap, ls, _LOWEST_PID) and the global _pids_reused afterwards *)
Definition prologue_run (p : list pstmt) (t : list kproc) (pmap0 : dict) (ru : list Z)
  : outcome (dict * list (Z * option nat) * Z * list Z) :=
  do e <- pexec_all t pmap0 p (penv_init ru);
  match e_pm e, e_ls e, e_low e with
  | Some pm, Some ls, Some low => Val (pm, ls, low, e_ru e)
  | _, _, _ => OutOfModel
  end.

(* ===================================================================== *)
(* 3. the loop of process_iter()                                          *)
(* ===================================================================== *)
Inductive cond :=
| CIsNone                         (* proc is None *)
| CPidReused.                     (* proc._pid_reused *)
Inductive bguard :=
| GAlways
| GAnyOf (cs : list cond)         (* if c1 or c2 or ...:   (left to right, short-circuit) *)
| GAttrs.                         (* if attrs is not None: *)
Inductive bact :=
| AAdd                            (* proc = add(pid)        [proc = Process(pid); pmap[proc.pid] = proc] *)
| AInfo                           (* proc.info = proc.as_dict(attrs=attrs, ad_value=ad_value) *)
| AYield.                         (* yield proc *)
Inductive hact :=
| HRemove                         (* remove(pid) *)
| HPass.
Record body := { b_stmts : list (bguard * bact); b_handlers : list (exn * hact) }.

Inductive bres :=
| RNext (po : option nat) (x : lstate)
| RYield (x : lstate) (o : nat)
| RExc (x : lstate) (e : exn)
| ROom (x : lstate).

Definition eval_cond (hp : nat -> obj) (po : option nat) (c : cond) : outcome bool :=
  match c, po with
  | CIsNone, None => Val true
  | CIsNone, Some _ => Val false
  | CPidReused, Some o => Val (o_reused (hp o))
  | CPidReused, None => Exc AttributeError                        (* None._pid_reused *)
  end.
Fixpoint eval_any (hp : nat -> obj) (po : option nat) (cs : list cond) : outcome bool :=
  match cs with
  | [] => Val false
  | c :: r =>
    match eval_cond hp po c with
    | Val true => Val true
    | Val false => eval_any hp po r
    | Exc e => Exc e
    | OutOfModel => OutOfModel
    end
  end.
Definition eval_guard (attrs : attrs_t) (hp : nat -> obj) (po : option nat) (g : bguard) : outcome bool :=
  match g with
  | GAlways => Val true
  | GAnyOf cs => eval_any hp po cs
  | GAttrs => Val (match attrs with Some _ => true | None => false end)
  end.

Definition exec_act (t : list kproc) (valid : list Z) (attrs : attrs_t) (pid : Z) (a : bact)
           (po : option nat) (x : lstate) : bres :=
  match a with
  | AAdd =>
    match find_proc t pid with
    | Some k => RNext (Some (l_n x))
                      {| l_pm := dset pid (l_n x) (l_pm x);
                         l_hp := upd_heap (l_hp x) (l_n x) (new_obj pid (k_start k));
                         l_n := S (l_n x); l_ru := l_ru x |}
    | None => RExc x NoSuchProcess                                 (* Process(pid) raises *)
    end
  | AInfo =>
    match po, attrs with
    | Some o, Some l =>
      let '(r, ob', ru') := as_dict t valid (l_ru x) pid (l_hp x o) l in
      match r with
      | Val keys => RNext po {| l_pm := l_pm x; l_hp := upd_heap (l_hp x) o (set_info ob' (Some keys));
                                l_n := l_n x; l_ru := ru' |}
      | Exc e => RExc {| l_pm := l_pm x; l_hp := upd_heap (l_hp x) o ob'; l_n := l_n x; l_ru := ru' |} e
      | OutOfModel => ROom x
      end
    | _, _ => ROom x                  (* as_dict(attrs=None) = every attribute / None.as_dict: not modelled *)
    end
  | AYield => match po with Some o => RYield x o | None => ROom x end
  end.

Fixpoint run_body (t : list kproc) (valid : list Z) (attrs : attrs_t) (pid : Z) (ss : list (bguard * bact))
         (po : option nat) (x : lstate) : bres :=
  match ss with
  | [] => RNext po x
  | (g, a) :: r =>
    match eval_guard attrs (l_hp x) po g with
    | Val true =>
      match exec_act t valid attrs pid a po x with
      | RNext po' x' => run_body t valid attrs pid r po' x'
      | other => other
      end
    | Val false => run_body t valid attrs pid r po x
    | Exc e => RExc x e
    | OutOfModel => ROom x
    end
  end.

Fixpoint handler_for (hs : list (exn * hact)) (e : exn) : option hact :=
  match hs with
  | [] => None
  | (e', h) :: r => if exn_beq e' e then Some h else handler_for r e
  end.

Fixpoint run_for (t : list kproc) (valid : list Z) (attrs : attrs_t) (b : body) (x : lstate)
         (rest : list (Z * option nat)) : lres :=
  match rest with
  | [] => LStop x
  | (pid, po) :: rest' =>
    match run_body t valid attrs pid (b_stmts b) po x with
    | RYield x' o => LYield x' rest' pid o (o_info (l_hp x' o))
    | RNext _ x' => run_for t valid attrs b x' rest'
    | RExc x' e =>
      match handler_for (b_handlers b) e with
      | Some HRemove =>
        run_for t valid attrs b {| l_pm := ddel pid (l_pm x'); l_hp := l_hp x'; l_n := l_n x'; l_ru := l_ru x' |} rest'
      | Some HPass => run_for t valid attrs b x' rest'
      | None => LExc x' e
      end
    | ROom x' => LOom x'
    end
  end.

(* ===================================================================== *)
(* 4. _psposix.pid_exists(pid): 'if pid == 0: return b', then try: os.kill(pid, 0) with its handler ladder *)
(* ===================================================================== *)
Inductive xcls := XProcessLookupError | XOverflowError | XPermissionError | XOSError.
Record px_prog := {
  px_zero : option bool;                           (* if pid == 0: return <bool>   (None = no such statement) *)
  px_handlers : list (list xcls * bool);           (* except (classes): return <bool>, in source order *)
  px_else : bool }.                                (* else: return <bool>  (os.kill succeeded) *)

(* what os.kill(pid, 0) raises: ESRCH -> ProcessLookupError, EPERM -> PermissionError, pid beyond pid_t -> OverflowError *)
Definition raised_by (k : killres) : option xcls :=
  match k with KOk => None | KEsrch => Some XProcessLookupError | KEperm => Some XPermissionError
             | KOverflow => Some XOverflowError end.
(* does 'except h' catch an instance of class r (ProcessLookupError and PermissionError are subclasses of OSError) *)
Definition catches (h r : xcls) : bool :=
  match h, r with
  | XProcessLookupError, XProcessLookupError => true
  | XOverflowError, XOverflowError => true
  | XPermissionError, XPermissionError => true
  | XOSError, XProcessLookupError => true
  | XOSError, XPermissionError => true
  | XOSError, XOSError => true
  | _, _ => false
  end.
Fixpoint px_handle (hs : list (list xcls * bool)) (r : xcls) : outcome bool :=
  match hs with
  | [] => Exc (match r with XOverflowError => OverflowError | _ => OSError end)     (* propagates *)
  | (cs, b) :: rest => if existsb (fun c => catches c r) cs then Val b else px_handle rest r
  end.
Definition px_run (p : px_prog) (pid : Z) (k : killres) : outcome bool :=
  match (if pid =? 0 then px_zero p else None) with
  | Some b => Val b
  | None =>
    match raised_by k with
    | None => Val (px_else p)
    | Some r => px_handle (px_handlers p) r
    end
  end.
