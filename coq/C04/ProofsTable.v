(* C04 -- the process table stays well formed; pids() and pid_exists() are exact. *)
From PV Require Import C04.Spec.

Lemma find_proc_some t p k : find_proc t p = Some k -> In k t /\ k_pid k = p.
Proof.
  unfold find_proc. intros H. apply find_some in H as [H1 H2]. apply Z.eqb_eq in H2. auto.
Qed.

Lemma find_proc_none t p : find_proc t p = None -> ~ In p (listing t).
Proof.
  unfold find_proc, listing. intros H Hin. apply in_map_iff in Hin as [k [Hk Hin]].
  pose proof (find_none _ _ H k Hin) as Hf. cbn in Hf. apply Z.eqb_neq in Hf. congruence.
Qed.

Lemma alive_listed t p : alive t p = true <-> In p (listing t).
Proof.
  unfold alive. destruct (find_proc t p) as [k|] eqn:E; split; intros H; try reflexivity; try discriminate.
  - apply find_proc_some in E as [Hin Hp]. subst p. unfold listing. now apply in_map.
  - exfalso. now apply (find_proc_none _ _ E).
Qed.

Lemma alive_false t p : alive t p = false <-> ~ In p (listing t).
Proof. rewrite <- alive_listed. destruct (alive t p); split; intros; try congruence; tauto. Qed.

Lemma task_tgid_none t n :
  task_tgid t n = None -> ~ In n (listing t) /\ (forall k, In k t -> ~ In n (k_tids k)).
Proof.
  unfold task_tgid. destruct (find _ t) as [k|] eqn:E; [discriminate|]. intros _. split.
  - unfold listing. intros Hin. apply in_map_iff in Hin as [k [Hk Hin]].
    pose proof (find_none _ _ E k Hin) as Hf. cbn in Hf. apply orb_false_iff in Hf as [Hf _].
    apply Z.eqb_neq in Hf. congruence.
  - intros k Hin Ht. pose proof (find_none _ _ E k Hin) as Hf. cbn in Hf.
    apply orb_false_iff in Hf as [_ Hf]. apply zmem_false in Hf. contradiction.
Qed.

Lemma id_free_spec t n :
  id_free t n = true -> ~ In n (listing t) /\ (forall k, In k t -> ~ In n (k_tids k)).
Proof.
  unfold id_free. destruct (task_tgid t n) eqn:E; [discriminate|]. intros _. now apply task_tgid_none.
Qed.

(* ---- the psutil calls never touch the table *)
Lemma tbl_run_loop valid s g a pm rest : tbl (fst (run_loop valid s g a pm rest)) = tbl s.
Proof. unfold run_loop. destruct (gen_loop _ _ _ _ _); reflexivity. Qed.

Definition kernel_ev (e : ev) : bool :=
  match e with Spawn _ _ | Exit _ | Reap _ | Thread _ _ | ThreadExit _ => true | _ => false end.

Lemma step_tbl_call valid s e : kernel_ev e = false -> tbl (fst (step valid s e)) = tbl s.
Proof.
  destruct e; cbn [kernel_ev]; try discriminate; intros _; cbn [step].
  - destruct (pids_sorted _) as [[l low]| |]; reflexivity.
  - destruct (n <? 0); [reflexivity|]. destruct (n =? 0); [|reflexivity].
    destruct (pids_sorted _) as [[l low]| |]; reflexivity.
  - reflexivity.
  - destruct (Nat.leb _ _); [reflexivity|]. destruct (gens s g) as [a|a pm rest|]; [| |reflexivity].
    + destruct (gen_start _ _ _) as [[[pm ls] low]|e|]; [|reflexivity|reflexivity].
      rewrite tbl_run_loop. reflexivity.
    + apply tbl_run_loop.
  - destruct (Nat.leb _ _); [reflexivity|]. destruct (gens s g); reflexivity.
  - reflexivity.
  - destruct (Nat.leb _ _); [reflexivity|].
    destruct (is_running_obj _ _ _ _) as [[r ob'] ru']. reflexivity.
  - destruct (n <? 0); [reflexivity|].
    destruct (n =? 0); [destruct (pids_sorted _) as [[l low]| |]; reflexivity|]. destruct (_ && _); reflexivity.
Qed.

(* ---- kernel events keep the table well formed *)
Lemma listing_map_same (f : kproc -> kproc) t :
  (forall k, k_pid (f k) = k_pid k) -> listing (map f t) = listing t.
Proof.
  intros H. unfold listing. rewrite map_map. apply map_ext. exact H.
Qed.

Lemma NoDup_listing_filter f t : NoDup (listing t) -> NoDup (listing (filter f t)).
Proof.
  unfold listing. induction t as [|k t IH]; intros H; [constructor|].
  cbn [map] in H. inversion H as [|? ? Hni Hnd]; subst.
  cbn [filter]. destruct (f k); [|now apply IH].
  cbn [map]. constructor; [|now apply IH].
  intros Hin. apply Hni. apply in_map_iff in Hin as [k' [Hk Hin]]. apply filter_In in Hin as [Hin _].
  apply in_map_iff. eauto.
Qed.

Lemma listing_filter_In f t n : In n (listing (filter f t)) -> In n (listing t).
Proof.
  unfold listing. intros H. apply in_map_iff in H as [k [Hk Hin]]. apply filter_In in Hin as [Hin _].
  apply in_map_iff. eauto.
Qed.

Lemma wf_step valid s e : wf_tbl (tbl s) -> wf_tbl (tbl (fst (step valid s e))).
Proof.
  intros Hwf. destruct (kernel_ev e) eqn:K; [|now rewrite step_tbl_call].
  destruct Hwf as [Hnd [Hrange Htid]].
  destruct e; cbn [kernel_ev] in K; try discriminate; cbn [step].
  - (* Spawn *)
    destruct ((0 <=? pid) && (pid <=? PIDMAX) && id_free (tbl s) pid) eqn:G;
      [|exact (conj Hnd (conj Hrange Htid))].
    apply andb_true_iff in G as [G Hfree]. apply andb_true_iff in G as [G1 G2].
    apply id_free_spec in Hfree as [Hnl Hnt].
    cbn [fst with_tbl mk tbl]. repeat split.
    + cbn [listing map k_pid]. constructor; assumption.
    + destruct H as [H|H]; [subst k; cbn [k_pid]; lia|now apply Hrange].
    + destruct H as [H|H]; [subst k; cbn [k_pid]; lia|now apply Hrange].
    + intros k n [Hk|Hk] Hn.
      * subst k. cbn [k_tids] in Hn. destruct Hn.
      * cbn [listing map k_pid]. intros [Hp|Hp].
        -- subst n. now apply (Hnt k Hk).
        -- now apply (Htid k n Hk Hn).
  - (* Exit *)
    cbn [fst with_tbl mk tbl].
    assert (Hl : listing (map (fun k => if k_pid k =? pid
              then {| k_pid := k_pid k; k_start := k_start k; k_zombie := true; k_tids := [] |} else k) (tbl s))
              = listing (tbl s)).
    { apply listing_map_same. intros k. destruct (k_pid k =? pid); reflexivity. }
    repeat split.
    + now rewrite Hl.
    + apply in_map_iff in H as [k0 [Hk Hin]]. specialize (Hrange k0 Hin).
      destruct (k_pid k0 =? pid); subst k; cbn [k_pid]; lia.
    + apply in_map_iff in H as [k0 [Hk Hin]]. specialize (Hrange k0 Hin).
      destruct (k_pid k0 =? pid); subst k; cbn [k_pid]; lia.
    + intros k n Hk Hn. rewrite Hl. apply in_map_iff in Hk as [k0 [Hk Hin]].
      destruct (k_pid k0 =? pid); subst k; [destruct Hn|now apply (Htid k0 n Hin Hn)].
  - (* Reap *)
    cbn [fst with_tbl mk tbl]. repeat split.
    + now apply NoDup_listing_filter.
    + apply filter_In in H as [H _]. now apply Hrange.
    + apply filter_In in H as [H _]. now apply Hrange.
    + intros k n Hk Hn Hl. apply filter_In in Hk as [Hk _]. apply listing_filter_In in Hl.
      now apply (Htid k n Hk Hn).
  - (* Thread *)
    destruct ((1 <=? tid) && (tid <=? PIDMAX) && id_free (tbl s) tid) eqn:G;
      [|exact (conj Hnd (conj Hrange Htid))].
    apply andb_true_iff in G as [G Hfree]. apply id_free_spec in Hfree as [Hnl Hnt].
    cbn [fst with_tbl mk tbl].
    assert (Hl : listing (map (fun k => if (k_pid k =? pid) && negb (k_zombie k)
              then {| k_pid := k_pid k; k_start := k_start k; k_zombie := false; k_tids := tid :: k_tids k |}
              else k) (tbl s)) = listing (tbl s)).
    { apply listing_map_same. intros k. destruct ((k_pid k =? pid) && negb (k_zombie k)); reflexivity. }
    repeat split.
    + now rewrite Hl.
    + apply in_map_iff in H as [k0 [Hk Hin]]. specialize (Hrange k0 Hin).
      destruct ((k_pid k0 =? pid) && negb (k_zombie k0)); subst k; cbn [k_pid]; lia.
    + apply in_map_iff in H as [k0 [Hk Hin]]. specialize (Hrange k0 Hin).
      destruct ((k_pid k0 =? pid) && negb (k_zombie k0)); subst k; cbn [k_pid]; lia.
    + intros k n Hk Hn. rewrite Hl. apply in_map_iff in Hk as [k0 [Hk Hin]].
      destruct ((k_pid k0 =? pid) && negb (k_zombie k0)); subst k.
      * cbn [k_tids] in Hn. destruct Hn as [Hn|Hn]; [subst n; exact Hnl|now apply (Htid k0 n Hin Hn)].
      * now apply (Htid k0 n Hin Hn).
  - (* ThreadExit *)
    cbn [fst with_tbl mk tbl].
    assert (Hl : listing (map (fun k => {| k_pid := k_pid k; k_start := k_start k; k_zombie := k_zombie k;
                  k_tids := filter (fun x => negb (x =? tid)) (k_tids k) |}) (tbl s)) = listing (tbl s)).
    { apply listing_map_same. reflexivity. }
    repeat split.
    + now rewrite Hl.
    + apply in_map_iff in H as [k0 [Hk Hin]]. specialize (Hrange k0 Hin). subst k; cbn [k_pid]; lia.
    + apply in_map_iff in H as [k0 [Hk Hin]]. specialize (Hrange k0 Hin). subst k; cbn [k_pid]; lia.
    + intros k n Hk Hn. rewrite Hl. apply in_map_iff in Hk as [k0 [Hk Hin]]. subst k. cbn [k_tids] in Hn.
      apply filter_In in Hn as [Hn _]. now apply (Htid k0 n Hin Hn).
Qed.

Lemma wf_init : wf_tbl (tbl init).
Proof. repeat split; cbn; try constructor; intros; contradiction. Qed.

Lemma wf_fold valid h : forall s, wf_tbl (tbl s) -> wf_tbl (tbl (fold_left (fun s e => fst (step valid s e)) h s)).
Proof.
  induction h as [|e h IH]; intros s H; [exact H|]. cbn [fold_left]. apply IH. now apply wf_step.
Qed.

Theorem wf_final valid h : wf_tbl (tbl (final valid h)).
Proof. apply wf_fold. apply wf_init. Qed.

(* ---- pids() *)
Theorem pids_exact valid s :
  wf_tbl (tbl s) -> tbl s <> [] ->
  exists l, snd (step valid s Pids) = OPids l
            /\ StronglySorted Z.lt l
            /\ (forall n, In n l <-> listed (tbl s) n)
            /\ (exists low r, l = low :: r /\ lowest (fst (step valid s Pids)) = Some low
                              /\ forall n, listed (tbl s) n -> low <= n).
Proof.
  intros [Hnd _] Hne. cbn [step]. unfold pids_sorted.
  destruct (zsort (listing (tbl s))) as [|low r] eqn:E.
  - apply (proj1 (zsort_nil _)) in E. unfold listing in E. apply map_eq_nil in E. contradiction.
  - exists (low :: r). split; [reflexivity|].
    split; [rewrite <- E; now apply zsort_strict|].
    split; [intros n; rewrite <- E; apply zsort_In|].
    exists low, r. split; [reflexivity|]. split; [reflexivity|].
    intros n Hn. assert (Hs : StronglySorted Z.le (low :: r)) by (rewrite <- E; apply zsort_sorted).
    apply (sorted_head_min _ _ Hs). rewrite <- E. now apply zsort_In.
Qed.

(* ---- pid_exists() *)
Lemma sys_pid_exists_exact t n :
  wf_tbl t -> sys_pid_exists t n = listedb t n.
Proof.
  intros [Hnd [Hrange Htid]]. unfold sys_pid_exists, listedb.
  destruct (PIDMAX <? n) eqn:Hbig.
  - apply Z.ltb_lt in Hbig. symmetry. apply zmem_false. unfold listing. intros Hin.
    apply in_map_iff in Hin as [k [Hk Hin]]. specialize (Hrange k Hin). lia.
  - unfold task_tgid. destruct (find _ t) as [k|] eqn:E; cbn [option_map].
    + apply find_some in E as [Hin Hf]. cbn in Hf. apply orb_true_iff in Hf as [Hf|Hf].
      * apply Z.eqb_eq in Hf. rewrite Hf, Z.eqb_refl. symmetry. apply zmem_In.
        unfold listing. rewrite <- Hf. now apply in_map.
      * apply zmem_In in Hf. pose proof (Htid k n Hin Hf) as Hnl.
        assert (Hne : k_pid k <> n).
        { intros He. apply Hnl. unfold listing. rewrite <- He. now apply in_map. }
        apply Z.eqb_neq in Hne. rewrite Hne. symmetry. now apply zmem_false.
    + symmetry. apply zmem_false. unfold listing. intros Hin. apply in_map_iff in Hin as [k [Hk Hin]].
      pose proof (find_none _ _ E k Hin) as Hf. cbn in Hf. apply orb_false_iff in Hf as [Hf _].
      apply Z.eqb_neq in Hf. congruence.
Qed.

Theorem pid_exists_spec valid s n :
  wf_tbl (tbl s) -> (n = 0 -> tbl s <> []) ->
  snd (step valid s (PidExists n)) = OBool (spec_pid_exists (tbl s) n).
Proof.
  intros Hwf Hne. cbn [step]. unfold spec_pid_exists.
  destruct (n <? 0) eqn:Hneg.
  - apply Z.ltb_lt in Hneg. cbn [snd]. f_equal. symmetry. apply zmem_false.
    destruct Hwf as [_ [Hrange _]]. unfold listing. intros Hin.
    apply in_map_iff in Hin as [k [Hk Hin]]. specialize (Hrange k Hin). lia.
  - destruct (n =? 0) eqn:Hz.
    + apply Z.eqb_eq in Hz. subst n. unfold pids_sorted.
      destruct (zsort (listing (tbl s))) as [|low r] eqn:E.
      * apply (proj1 (zsort_nil _)) in E. unfold listing in E. apply map_eq_nil in E.
        exfalso. now apply Hne.
      * cbn [snd]. f_equal. unfold listedb. rewrite <- E.
        destruct (zmem 0 (listing (tbl s))) eqn:M.
        -- apply zmem_In. apply zsort_In. now apply zmem_In.
        -- apply zmem_false. rewrite zsort_In. now apply zmem_false.
    + cbn [snd]. f_equal. now apply sys_pid_exists_exact.
Qed.

(* thread ids, negative numbers and numbers beyond pid_t are never listed *)
Lemma tid_not_listed t n : wf_tbl t -> is_tid t n -> listedb t n = false.
Proof.
  intros [_ [_ Htid]] [k [Hk Hn]]. apply zmem_false. now apply (Htid k n Hk Hn).
Qed.

Lemma out_of_range_not_listed t n : wf_tbl t -> n < 0 \/ PIDMAX < n -> listedb t n = false.
Proof.
  intros [_ [Hrange _]] Hn. apply zmem_false. unfold listing. intros Hin.
  apply in_map_iff in Hin as [k [Hk Hin]]. specialize (Hrange k Hin). lia.
Qed.

(* pid_exists(n) when /proc/<n>/status cannot be opened or read (any errno) or has no Tgid line *)
Lemma zmem_zsort n l : zmem n (zsort l) = zmem n l.
Proof.
  destruct (zmem n l) eqn:M.
  - apply zmem_In. apply zsort_In. now apply zmem_In.
  - apply zmem_false. rewrite zsort_In. now apply zmem_false.
Qed.

Theorem pid_exists_fault_spec valid s n f :
  wf_tbl (tbl s) -> (n = 0 -> tbl s <> []) ->
  snd (step valid s (PidExistsF n f)) = OBool (spec_pid_exists (tbl s) n).
Proof.
  intros Hwf Hne. cbn [step]. unfold spec_pid_exists.
  destruct (n <? 0) eqn:Hneg.
  - apply Z.ltb_lt in Hneg. cbn [snd]. f_equal. symmetry. apply (out_of_range_not_listed _ _ Hwf). now left.
  - destruct (n =? 0) eqn:Hz.
    + apply Z.eqb_eq in Hz. subst n. unfold pids_sorted.
      destruct (zsort (listing (tbl s))) as [|low r] eqn:E.
      * apply (proj1 (zsort_nil _)) in E. unfold listing in E. apply map_eq_nil in E. exfalso. now apply Hne.
      * cbn [snd]. f_equal. unfold listedb. rewrite <- E. apply zmem_zsort.
    + destruct ((n <=? PIDMAX) && negb (id_free (tbl s) n)) eqn:C; [reflexivity|].
      cbn [snd]. f_equal. symmetry. apply andb_false_iff in C as [C|C].
      * apply Z.leb_gt in C. apply (out_of_range_not_listed _ _ Hwf). now right.
      * apply negb_false_iff in C. apply id_free_spec in C as [Hnl _]. now apply zmem_false.
Qed.
