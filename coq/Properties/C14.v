(* C14 -- open_files(), num_fds(), io_counters() reflect the descriptor table.
   Statements only; proofs live in C14/Proofs*.v.  Model: C14/Model.v
   (transcription of psutil/_pslinux.py), specification: C14/Spec.v. *)
From PV Require Import C14.Spec C14.Mounts C14.PyMini C14.PyLoop C14.PyPath Gen.C14_Tables C14.Proofs C14.ProofsIO C14.ProofsMounts C14.ProofsGen.

(* the mode string is the one the flags imply, for every flag word; access mode 3
   (which has no documented mode string) is a KeyError in the code as written *)
Theorem C14_mode_table : forall flags, 0 <= flags ->
  file_flags_to_mode flags = of_option KeyError (spec_mode flags).
Proof. exact mode_table. Qed.
Print Assumptions C14_mode_table.

(* every descriptor table of a live process: exactly the regular, absolute-path,
   still-open descriptors, with fd, offset, flags and mode; closes during the scan
   are left out; the call does not fail (tables without a listed access-mode-3 file) *)
Theorem C14_open_files_exact : forall es alive,
  forallb wf_kfd es = true -> no_mode3 es = true ->
  alive = true \/ has_closing es = false ->
  open_files (map to_model es) alive = Val (spec_rows es).
Proof. exact open_files_exact. Qed.
Print Assumptions C14_open_files_exact.

(* ... and when the process is gone the only other outcome is NoSuchProcess *)
Theorem C14_open_files_total : forall es alive,
  forallb wf_kfd es = true -> no_mode3 es = true ->
  open_files (map to_model es) alive = Val (spec_rows es)
  \/ (alive = false /\ has_closing es = true /\
      open_files (map to_model es) alive = Exc NoSuchProcess).
Proof. exact open_files_total. Qed.
Print Assumptions C14_open_files_total.

(* known finding: a listed regular file opened with access mode 3 makes the call fail *)
Theorem C14_open_files_mode3_refuted :
  exists es, forallb wf_kfd es = true /\ open_files (map to_model es) true = Exc KeyError.
Proof. exact open_files_mode3_refuted. Qed.
Print Assumptions C14_open_files_mode3_refuted.

Theorem C14_num_fds_counts_all : forall es, num_fds (map to_model es) = Z.of_nat (length es).
Proof. exact num_fds_counts_all. Qed.
Print Assumptions C14_num_fds_counts_all.

(* io_counters: the six counters, last occurrence wins, blank / colon-free /
   non-numeric extra lines tolerated (repaired code, strict = false) *)
Theorem C14_io_roundtrip : forall items,
  forallb ioitem_ok items = true -> io_counters false (k_io items) = spec_io items.
Proof. exact io_roundtrip. Qed.
Print Assumptions C14_io_roundtrip.

(* the code before the repair (strict = true) failed on "foo: bar" *)
Theorem C14_io_strict_refuted :
  exists items, forallb ioitem_ok items = true /\ spec_io items = Val [3; 4; 5; 6; 1; 2]
                /\ io_counters true (k_io items) = Exc ValueError.
Proof. exact io_strict_refuted. Qed.
Print Assumptions C14_io_strict_refuted.

(* a Process object answers from the procfs mount it was created under: whatever the module-level
   PROCFS_PATH points at later (another container's view of the same PID) changes nothing ... *)
Theorem C14_mounts_frame : forall strict m m', m_bound m = m_bound m' ->
  proc_open_files m = proc_open_files m' /\ proc_num_fds m = proc_num_fds m'
  /\ proc_io_counters strict m = proc_io_counters strict m'.
Proof. exact mounts_frame. Qed.
Print Assumptions C14_mounts_frame.

(* ... and the answer is the exact one for the bound mount's table *)
Theorem C14_mounts_exact : forall es alive io cur,
  forallb wf_kfd es = true -> no_mode3 es = true ->
  alive = true \/ has_closing es = false ->
  proc_open_files {| m_bound := {| v_fds := map to_model es; v_alive := alive; v_io := io |};
                     m_current := cur |} = Val (spec_rows es).
Proof. exact mounts_exact. Qed.
Print Assumptions C14_mounts_exact.

(* tie to the source by translation: the statement list that props/C14.py (gen_tables) translates from
   the CURRENT psutil/_pslinux.py:file_flags_to_mode on every run computes, for every flag word, the
   mode of the hand-written model (to which all theorems above refer) *)
Theorem C14_translated_mode_is_model : forall flags, 0 <= flags ->
  run_prog gen_mode_prog flags = omap fmode_bytes (file_flags_to_mode flags).
Proof. exact gen_mode_prog_correct. Qed.
Print Assumptions C14_translated_mode_is_model.

(* ... and hence the mode string the flags imply *)
Theorem C14_translated_mode_table : forall flags, 0 <= flags ->
  run_prog gen_mode_prog flags = omap fmode_bytes (of_option KeyError (spec_mode flags)).
Proof. exact gen_mode_prog_table. Qed.
Print Assumptions C14_translated_mode_table.

(* the keys, their order in the pio(...) call, the key/value separator and the result's field names
   translated from Process.io_counters are those of the model / the documentation *)
Theorem C14_translated_io_tables :
  gen_pio_keys = io_keys /\ gen_io_sep = colon_sp /\
  gen_pio_fields = [bs "read_count"; bs "write_count"; bs "read_bytes"; bs "write_bytes"; bs "read_chars"; bs "write_chars"].
Proof. exact gen_io_tables_correct. Qed.
Print Assumptions C14_translated_io_tables.

(* the real kernel (live cases): fs/proc/fd.c reports the open(2) flags without the creation flags and with
   O_LARGEFILE / the close-on-exec bit ([k_open_flags], validated against the running kernel on every run);
   that word keeps the access mode and O_APPEND, so the mode string says how the file was opened *)
Theorem C14_kernel_keeps_mode : forall req cloexec, 0 <= req ->
  spec_mode (k_open_flags req cloexec) = spec_mode req.
Proof. exact kernel_keeps_mode. Qed.
Print Assumptions C14_kernel_keeps_mode.

(* tie to the source by translation, io_counters: the body of `for line in f:` as translated from the CURRENT source
   (gen_io_loop, a program of coq/C14/PyLoop.v) updates the dictionary exactly like the model's io_line, for every line
   and dictionary; hence io_counters assembled from the translated pieces is the model's function on every content ... *)
Theorem C14_translated_io_line_is_model : forall d line,
  io_line_gen gen_io_loop d line = io_line false d line.
Proof. exact gen_io_loop_correct. Qed.
Print Assumptions C14_translated_io_line_is_model.

Theorem C14_translated_io_counters_is_model : forall content,
  io_counters_gen content = io_counters false content.
Proof. exact io_counters_gen_correct. Qed.
Print Assumptions C14_translated_io_counters_is_model.

(* ... and therefore meets the specification on every kernel-formatted file *)
Theorem C14_translated_io_roundtrip : forall items,
  forallb ioitem_ok items = true -> io_counters_gen (k_io items) = spec_io items.
Proof. exact io_counters_gen_roundtrip. Qed.
Print Assumptions C14_translated_io_roundtrip.

(* tie to the source by translation, readlink(): the statement list translated from the CURRENT
   psutil/_pslinux.py:readlink computes the model's readlink_clean for every link target and probe answer *)
Theorem C14_translated_readlink_is_model : forall raw ex,
  run_readlink gen_readlink raw ex = Val (readlink_clean raw ex).
Proof. exact gen_readlink_correct. Qed.
Print Assumptions C14_translated_readlink_is_model.

(* ... and the stat helpers translated from psutil/_common.py: a permission failure is re-raised, EVERY other
   OSError of stat() means "not there / not a regular file", which is what the model's isfile/exists answers assume *)
Theorem C14_translated_strict_helpers :
  (forall s, strict_answer gen_isfile_strict s =
             match s with StOk r => SBool r | StErr EPerm => SDenied | StErr _ => SBool false end) /\
  (forall s, strict_answer gen_path_exists_strict s =
             match s with StOk _ => SBool true | StErr EPerm => SDenied | StErr _ => SBool false end).
Proof. exact gen_strict_helpers_correct. Qed.
Print Assumptions C14_translated_strict_helpers.
