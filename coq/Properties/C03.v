(* C03 -- a process vanishing or being denied mid-call yields only psutil errors.
   Statements only; proofs live in C03/Proofs.v and C03/Table.v.  Model: C03/Model.v (access scripts
   transcribing psutil/_pslinux.py and psutil/__init__.py), fault model and allowed outcomes:
   C03/Spec.v, guard analysis: C03/Guard.v, the harness's concrete worlds: C03/Run.v. *)
From PV Require Import Base.Prelude C03.Model C03.Spec C03.Guard C03.Proofs C03.Run C03.Table.

(* soundness of the guard for ALL worlds of the fault model: any base answers respecting [opt], any
   vanish index, any SET of refused accesses (single faults and every two-fault sequence included),
   any listing sizes and contents: a guarded script returns a value or raises NoSuchProcess -- and then
   the process is gone --, ZombieProcess or AccessDenied, with the object's own pid; nothing else escapes *)
Theorem C03_well_guarded_sound : forall (w : world) (opt : label -> oclass),
  base_ok opt w -> forall p : prog, well_guarded opt p = true ->
  forall s, s_cache s = false -> allowed (fst (run w p s)) (gone w (snd (run w p s))).
Proof. exact well_guarded_sound_w. Qed.
Print Assumptions C03_well_guarded_sound.

(* the analysis itself is sound: whatever a script does in a world of the fault model is among its abstract results *)
Theorem C03_analysis_sound : forall (w : world) (opt : label -> oclass), base_ok opt w ->
  forall p cx s sg s', exec w p cx s = (sg, s') -> In (abs_sig sg, alpha w s') (an opt p cx (alpha w s)).
Proof. exact an_sound. Qed.
Print Assumptions C03_analysis_sound.

(* every single-process Linux query (and as_dict() over all of them) in a world where descriptors, threads
   and smaps_rollup may disappear under a live process *)
Theorem C03_live_methods_sound : forall w, base_ok opt_race w ->
  forall p, In p (as_dict_all :: linux_scripts) ->
  forall s, s_cache s = false -> allowed (fst (run w p s)) (gone w (snd (run w p s))).
Proof. exact live_methods_sound. Qed.
Print Assumptions C03_live_methods_sound.

(* kernel thread (exe link reports ENOENT): every query except exe() *)
Theorem C03_kthread_methods_sound : forall w, base_ok opt_exe w ->
  forall p, In p (backend_scripts ++ link_scripts ++ [ f_create_time; f_is_running ]) ->
  forall s, s_cache s = false -> allowed (fst (run w p s)) (gone w (snd (run w p s))).
Proof. exact kthread_methods_sound. Qed.
Print Assumptions C03_kthread_methods_sound.

(* zombie (exe and cwd links report ENOENT): every query except exe() and cwd() *)
Theorem C03_zombie_methods_sound : forall w, base_ok opt_links w ->
  forall p, In p (backend_scripts ++ [ f_create_time; f_is_running ]) ->
  forall s, s_cache s = false -> allowed (fst (run w p s)) (gone w (snd (run w p s))).
Proof. exact zombie_methods_sound. Qed.
Print Assumptions C03_zombie_methods_sound.

(* once the process is gone every OS-consulting query raises NoSuchProcess with the object's pid *)
Theorem C03_gone_sticky : forall w, base_ok opt_links w -> forall p, In p consulting_scripts ->
  forall s, s_cache s = false -> gone w s = true -> fst (run w p s) = RExc (XNSP Self).
Proof. exact gone_sticky. Qed.
Print Assumptions C03_gone_sticky.

(* ppid() (and as_dict() including it): psutil errors only -- but see C03_ppid_refuted.
   Full statement that is FALSE of the code: allowed (fst (run w f_ppid s)) (gone w (snd (run w f_ppid s))). *)
Theorem C03_ppid_partial : forall w, base_ok opt_links w ->
  forall s, s_cache s = false -> allowed_weak (fst (run w f_ppid s)).
Proof. exact ppid_partial. Qed.
Print Assumptions C03_ppid_partial.
Theorem C03_as_dict_ppid_partial : forall w, base_ok opt_race w ->
  forall s, s_cache s = false -> allowed_weak (fst (run w as_dict_all_ppid s)).
Proof. exact as_dict_ppid_partial. Qed.
Print Assumptions C03_as_dict_ppid_partial.

(* parent() / parents(): no bare error escapes (errors may carry the parent's pid) *)
Theorem C03_parent_tree_guarded : forallb (tree_guarded opt_race) [ f_parent; f_parents ] = true.
Proof. exact tree_table. Qed.
Print Assumptions C03_parent_tree_guarded.

(* the harness's worlds (all four base kinds, every fault schedule) are worlds of the theorems *)
Theorem C03_worlds_in_fault_model : forall y v d ln gu,
  base_ok opt_none (mk_world y 0 v d ln gu) /\ base_ok opt_exe (mk_world y 1 v d ln gu) /\
  base_ok opt_links (mk_world y 2 v d ln gu) /\ base_ok opt_race (mk_world y 3 v d ln gu).
Proof. exact base_ok_worlds. Qed.
Print Assumptions C03_worlds_in_fault_model.

(* ---- defects: the faithful scripts break the property on single-fault schedules *)
Theorem C03_exe_kthread_refuted :
  fst (run (mk_world y0 1 None [1%nat] true false) f_exe st0) = RExc XFnf.
Proof. exact exe_kthread_refuted. Qed.
Print Assumptions C03_exe_kthread_refuted.
Theorem C03_children_refuted :
  fst (run (mk_world y0 0 None [5%nat] true false) f_children st0) = RExc XPerm.
Proof. exact children_refuted. Qed.
Print Assumptions C03_children_refuted.
Theorem C03_ppid_refuted :
  let w := mk_world y0 0 None [0%nat] true false in
  fst (run w f_ppid st0) = RExc (XNSP Self) /\ gone w (snd (run w f_ppid st0)) = false.
Proof. exact ppid_refuted. Qed.
Print Assumptions C03_ppid_refuted.
(* outside the property's quantifier (two refusals), recorded because cwd() is left out of the zombie theorem *)
Theorem C03_cwd_zombie_two_refusals_refuted :
  fst (run (mk_world y0 2 None [1%nat; 2%nat] true false) i_cwd st0) = RExc XFnf.
Proof. exact cwd_zombie_two_refusals_refuted. Qed.
Print Assumptions C03_cwd_zombie_two_refusals_refuted.
