(* C03 -- a process vanishing or being denied mid-call yields only psutil errors.
   Statements only; proofs live in C03/Proofs.v and C03/Table.v.  Model: C03/Model.v (access scripts
   transcribing psutil/_pslinux.py and psutil/__init__.py), fault model and allowed outcomes:
   C03/Spec.v, guard analysis: C03/Guard.v, the harness's concrete worlds: C03/Run.v. *)
From PV Require Import Base.Prelude C03.Model C03.Spec C03.Guard C03.Proofs C03.Run C03.Table.

(* soundness of the guard for ALL worlds of the fault model: any base answers respecting [opt], any
   vanish index, any SET of refused accesses (single faults and every two-fault sequence included),
   any listing sizes and contents: a guarded script returns a value or raises NoSuchProcess -- and then
   the process is gone --, ZombieProcess or AccessDenied, with the object's own pid; nothing else escapes *)
Theorem C03_well_guarded_sound : forall (w : world) (opt : label -> oclass),
  base_ok opt w -> forall p : prog, well_guarded opt p = true ->
  forall s, s_cache s = false -> allowed (fst (run w p s)) (gone w (snd (run w p s))).
Proof. exact well_guarded_sound_w. Qed.
Print Assumptions C03_well_guarded_sound.

(* the analysis itself is sound: whatever a script does in a world of the fault model is among its abstract results *)
Theorem C03_analysis_sound : forall (w : world) (opt : label -> oclass), base_ok opt w ->
  forall p cx s sg s', exec w p cx s = (sg, s') -> In (abs_sig sg, alpha w s') (an opt p cx (alpha w s)).
Proof. exact an_sound. Qed.
Print Assumptions C03_analysis_sound.

(* every single-process Linux query -- exe(), cwd(), ppid() included -- and as_dict() over all of them, in every
   world where the exe/cwd links may report ENOENT (kernel thread, zombie) and descriptors, threads and
   smaps_rollup may disappear under a live process *)
Theorem C03_linux_methods_sound : forall w, base_ok opt_links w ->
  forall p, In p (as_dict_all :: linux_scripts) ->
  forall s, s_cache s = false -> allowed (fst (run w p s)) (gone w (snd (run w p s))).
Proof. exact linux_methods_sound. Qed.
Print Assumptions C03_linux_methods_sound.

(* parent(), parents(), children(): the same, except that NoSuchProcess / ZombieProcess / AccessDenied raised by a
   query on the parent or a child carries that process's pid *)
Theorem C03_tree_methods_sound : forall w, base_ok opt_links w -> forall p, In p tree_scripts ->
  forall s, s_cache s = false -> allowed_tree (fst (run w p s)) (gone w (snd (run w p s))).
Proof. exact tree_methods_sound. Qed.
Print Assumptions C03_tree_methods_sound.

(* once the process is gone every OS-consulting query raises NoSuchProcess with the object's pid *)
Theorem C03_gone_sticky : forall w, base_ok opt_links w -> forall p, In p consulting_scripts ->
  forall s, s_cache s = false -> gone w s = true -> fst (run w p s) = RExc (XNSP Self).
Proof. exact gone_sticky. Qed.
Print Assumptions C03_gone_sticky.

(* the harness's worlds (all four base kinds, every fault schedule) are worlds of these theorems *)
Theorem C03_worlds_in_fault_model : forall y kind v d ln gu, (kind <= 3)%nat ->
  base_ok opt_links (mk_world y kind v d ln gu).
Proof. exact base_ok_worlds_links. Qed.
Print Assumptions C03_worlds_in_fault_model.

(* ---- repaired defects (commits 1c63e73, 4ee76b0, a4fac6f): the scripts of the code before the repairs
        break the property on single-refusal schedules *)
Theorem C03_legacy_exe_kthread_refuted :
  fst (run (mk_world y0 1 None [1%nat] true false) legacy_f_exe st0) = RExc XFnf.
Proof. exact legacy_exe_kthread_refuted. Qed.
Print Assumptions C03_legacy_exe_kthread_refuted.
Theorem C03_legacy_children_refuted :
  fst (run (mk_world y0 0 None [5%nat] true false) legacy_f_children st0) = RExc XPerm.
Proof. exact legacy_children_refuted. Qed.
Print Assumptions C03_legacy_children_refuted.
Theorem C03_legacy_ppid_refuted :
  let w := mk_world y0 0 None [0%nat] true false in
  fst (run w legacy_f_ppid st0) = RExc (XNSP Self) /\ gone w (snd (run w legacy_f_ppid st0)) = false.
Proof. exact legacy_ppid_refuted. Qed.
Print Assumptions C03_legacy_ppid_refuted.
