(* C03 -- a process vanishing or being denied mid-call yields only psutil errors.
   Statements only; proofs live in C03/Proofs.v and C03/Table.v.  Model: C03/Model.v (access scripts
   transcribing psutil/_pslinux.py and psutil/__init__.py), fault model and allowed outcomes:
   C03/Spec.v, guard analysis: C03/Guard.v, the harness's concrete worlds: C03/Run.v. *)
From PV Require Import Base.Prelude C03.Model C03.Spec C03.Guard C03.Proofs C03.Run C03.Table C03.Native C03.NativeProofs C03.History C03.Access C03.PyGen C03.ProofsGen Gen.C03_Tables.

(* soundness of the guard for ALL worlds of the fault model: any base answers respecting [opt], any vanish index of
   the process -- whole directory or half-removed (only the entries below /proc/<pid> go, issue 2418) --, any
   vanish indexes of OTHER processes, any SET of refused accesses (single faults and every
   two-fault sequence included), any listing sizes and contents, any process tree: a guarded script returns a
   value or raises NoSuchProcess -- and then the process is gone --, ZombieProcess or AccessDenied, with the
   object's own pid; nothing else escapes *)
Theorem C03_well_guarded_sound : forall (w : world) (opt : label -> oclass),
  base_ok opt w -> forall p : prog, well_guarded opt p = true ->
  forall s, s_cache s = false -> allowed (fst (run w p s)) (gone w (snd (run w p s))).
Proof. exact well_guarded_sound_w. Qed.
Print Assumptions C03_well_guarded_sound.

(* the analysis itself is sound: whatever a script does in a world of the fault model, started in a state whose
   abstraction is in A, is among the abstract results for A *)
Theorem C03_analysis_sound : forall (w : world) (opt : label -> oclass), base_ok opt w ->
  forall p cx A s sg s', In (alpha w s) A -> exec w p cx s = (sg, s') -> In (abs_sig sg, alpha w s') (an opt p cx A).
Proof. exact an_sound. Qed.
Print Assumptions C03_analysis_sound.

(* every single-process Linux query -- exe(), cwd(), ppid() included --, as_dict() over all attributes, and
   oneshot() blocks around them (first exception leaves the block / every call in try-except psutil.Error), in
   every world where the exe/cwd links may report ENOENT (kernel thread, zombie), descriptors, threads and
   smaps_rollup may disappear under a live process and the files outside procfs may be missing *)
Theorem C03_linux_methods_sound : forall w, base_ok opt_half w ->
  forall p, In p (block_scripts ++ linux_scripts) ->
  forall s, s_cache s = false -> allowed (fst (run w p s)) (gone w (snd (run w p s))).
Proof. exact linux_methods_sound. Qed.
Print Assumptions C03_linux_methods_sound.

(* ... and any HISTORY of such calls on one object (the object's fields carry over from call to call, faults may sit
   anywhere in the history): every call of the history ends as the property allows *)
Theorem C03_history_sound : forall w, base_ok opt_half w ->
  forall ps, (forall p, In p ps -> In p (block_scripts ++ linux_scripts)) ->
  forall s, s_cache s = false ->
  Forall (fun rs => allowed (fst rs) (gone w (snd rs))) (run_hist w ps s).
Proof. exact history_sound. Qed.
Print Assumptions C03_history_sound.

(* parent(), parents(), children(), children(recursive=True), process_iter(attrs) -- in worlds where the OTHER
   processes (parent, children, listed pids) may vanish at any access too: the same, except that an AccessDenied
   raised by a query on another Process object carries that process's pid; NoSuchProcess / ZombieProcess about
   another process never escape (a relative that vanished is left out; parents() ends its chain, commit 671469c) *)
Theorem C03_tree_methods_sound : forall w, base_ok opt_half w -> forall p, In p tree_scripts ->
  forall s, s_cache s = false -> allowed_tree (fst (run w p s)) (gone w (snd (run w p s))).
Proof. exact tree_methods_sound. Qed.
Print Assumptions C03_tree_methods_sound.

(* wait(timeout=0) on a non-child (no /proc access: os.waitpid + os.kill(pid, 0)): additionally TimeoutExpired,
   only while the process is still there *)
Theorem C03_wait_sound : forall w, base_ok opt_half w ->
  forall s, s_cache s = false -> allowed_wait (fst (run w f_wait s)) (gone w (snd (run w f_wait s))).
Proof. exact wait_sound. Qed.
Print Assumptions C03_wait_sound.

(* once the process is gone -- its directory removed or half-removed -- every OS-consulting query (cwd(), exe(), ppid()
   included) raises NoSuchProcess with the object's pid *)
Theorem C03_gone_sticky : forall w, base_ok opt_half w -> forall p, In p consulting_scripts ->
  forall s, s_cache s = false -> gone w s = true -> fst (run w p s) = RExc (XNSP Self).
Proof. exact gone_sticky. Qed.
Print Assumptions C03_gone_sticky.

(* ... the exemptions, as facts about the script table: the memoising front-end accessors exe(), create_time(),
   wait() answer from the object's memo WITHOUT any OS access once it is set, and are the OS-consulting scripts of
   C03_gone_sticky (exe, create_time) while it is empty *)
Theorem C03_cached_accessors : forall f body, In (f, body) cached_table ->
  (forall w s, flag_on s f = true -> run w (cached f body) s = (RVal, s)) /\
  (forall w s, flag_on s f = false -> run w (cached f body) s = run w body s) /\
  (f <> F_EXITCODE -> In body consulting_scripts).
Proof. exact cached_accessors. Qed.
Print Assumptions C03_cached_accessors.
(* ... and is_running() / wait() answer (False / None) instead of raising once the process is gone *)
Theorem C03_gone_exempt : forall w, base_ok opt_half w -> forall p, In p [ f_is_running; wait_body ] ->
  forall s, s_cache s = false -> gone w s = true -> fst (run w p s) = RVal.
Proof. exact gone_exempt. Qed.
Print Assumptions C03_gone_exempt.

(* the harness's worlds (all four base kinds, every fault schedule) are worlds of these theorems *)
Theorem C03_worlds_in_fault_model : forall y kind v h d ov ln gu, (kind <= 3)%nat ->
  base_ok opt_half (mk_world y kind v h d ov ln gu).
Proof. exact base_ok_worlds_half. Qed.
Print Assumptions C03_worlds_in_fault_model.

(* ---- objects with a history ([h_*] scripts: nothing assumed about _gone / _pid_reused; W_REUSED = the pid now
        belongs to another process).  Once the object knows that its process is gone or its pid recycled
        (is_running() said so), parent() / parents() / children() / children(recursive) / ppid() raise NoSuchProcess
        before anything else -- in EVERY world: whatever the cached lowest pid (W_ISLOWEST), boot time or caches *)
Theorem C03_knows_then_nsp : forall w p, In p guarded_calls ->
  forall s, knows_gone s -> s_cache s = false -> fst (run w p s) = RExc (XNSP Self).
Proof. exact knows_then_nsp. Qed.
Print Assumptions C03_knows_then_nsp.
(* is_running() on a vanished process (directory removed or half-removed) answers and marks the object ... *)
Theorem C03_is_running_marks_gone : forall w s, gone w s = true ->
  fst (run w h_is_running s) = RVal /\ knows_gone (snd (run w h_is_running s)).
Proof. exact is_running_marks_gone. Qed.
Print Assumptions C03_is_running_marks_gone.
(* ... hence the history (vanish ; is_running() -> False ; guarded call) ends in NoSuchProcess for every pid *)
Theorem C03_gone_is_running_then_nsp : forall w p, In p guarded_calls -> forall s, gone w s = true ->
  map fst (run_hist w [h_is_running; p] s) = [RVal; RExc (XNSP Self)].
Proof. exact gone_is_running_then_nsp. Qed.
Print Assumptions C03_gone_is_running_then_nsp.

(* ---- terminal(): the device nodes outside procfs.  A script can only make the accesses written in it ... *)
Theorem C03_script_accesses : forall w p cx s sg s', exec w p cx s = (sg, s') ->
  grows (fun f => In f (files_of p)) s s'.
Proof. exact exec_files. Qed.
Print Assumptions C03_script_accesses.
(* ... so terminal() with a memoised (possibly stale) terminal map touches /proc/<pid>/stat and nothing else: no
   /dev/pts/<N> probe that could fail while the exiting process is still readable ... *)
Theorem C03_terminal_only_stat : forall w s, grows (fun f => f = FStat) s (snd (run w i_terminal_warm s)).
Proof. exact terminal_warm_only_stat. Qed.
Print Assumptions C03_terminal_only_stat.
(* ... and under ANY fault of the model -- vanish (both modes), refusals anywhere incl. the /dev nodes, a tty node
   unlinked under the scan (ENOENT) -- terminal(), cold or memoised map, hit or miss, ends in a value,
   NoSuchProcess (gone), ZombieProcess or AccessDenied; as_dict / oneshot / process_iter over it: theorems 3 and 4 *)
Theorem C03_terminal_sound : forall w, base_ok opt_half w -> forall p, In p [ i_terminal; i_terminal_warm ] ->
  forall s, s_cache s = false -> allowed (fst (run w p s)) (gone w (snd (run w p s))).
Proof. exact terminal_sound. Qed.
Print Assumptions C03_terminal_sound.

(* ---- the native part behind nice(): psutil_posix_getpriority with errno explicit (C03/Native.v).  For every kernel
        answer and EVERY errno left by earlier, unrelated calls of the thread the query answers what the target alone
        determines: each nice value (-1 included) exactly, a refusal as its psutil error *)
Theorem C03_nice_meets_spec : forall errno0 k, wf_kans k -> nice_query errno0 k = spec_nice k.
Proof. exact nice_meets_spec. Qed.
Print Assumptions C03_nice_meets_spec.
Theorem C03_nice_exact : forall errno0 n, nice_query errno0 (KNice n) = Val n.
Proof. exact nice_exact. Qed.
Print Assumptions C03_nice_exact.
Theorem C03_nice_prior_independent : forall e1 e2 k, nice_query e1 k = nice_query e2 k.
Proof. exact nice_prior_independent. Qed.
Print Assumptions C03_nice_prior_independent.
(* the C idiom without `errno = 0` is wrong exactly for nice value -1 after an earlier failed call *)
Theorem C03_idiom_no_reset_refuted :
  nice_with (c_getpriority false TestBoth) ESRCH_ (KNice (-1)) = Exc NoSuchProcess /\
  (forall n, n <> -1 -> forall e, nice_with (c_getpriority false TestBoth) e (KNice n) = Val n) /\
  (forall n, nice_with (c_getpriority false TestBoth) 0 (KNice n) = Val n).
Proof. exact idiom_no_reset_refuted. Qed.
Print Assumptions C03_idiom_no_reset_refuted.

(* ---- repaired defects (commits 1c63e73, 4ee76b0, a4fac6f, 1195393): the scripts of the code before the repairs
        break the property on single-refusal schedules *)
Theorem C03_legacy_exe_kthread_refuted :
  fst (run (mk_world y0 1 None false [1%nat] [] true true) legacy_f_exe st0) = RExc XFnf.
Proof. exact legacy_exe_kthread_refuted. Qed.
Print Assumptions C03_legacy_exe_kthread_refuted.
Theorem C03_legacy_children_refuted :
  fst (run (mk_world y0 0 None false [5%nat] [] true true) legacy_f_children st0) = RExc XPerm.
Proof. exact legacy_children_refuted. Qed.
Print Assumptions C03_legacy_children_refuted.
Theorem C03_legacy_ppid_refuted :
  let w := mk_world y0 0 None false [0%nat] [] true true in
  fst (run w legacy_f_ppid st0) = RExc (XNSP Self) /\ gone w (snd (run w legacy_f_ppid st0)) = false.
Proof. exact legacy_ppid_refuted. Qed.
Print Assumptions C03_legacy_ppid_refuted.
(* commit 1195393: with the probe on /proc/<pid> itself cwd() answered '' for a half-removed process *)
Theorem C03_legacy_cwd_half_removed_refuted :
  let w := mk_world y0 0 (Some 0%nat) true [] [] true true in
  fst (run w legacy_dir_i_cwd st0) = RVal /\ gone w (snd (run w legacy_dir_i_cwd st0)) = true.
Proof. exact legacy_cwd_half_removed_refuted. Qed.
Print Assumptions C03_legacy_cwd_half_removed_refuted.

(* ---- round 2: the exception-translation layer is TRANSLATED from the current psutil/_pslinux.py on every run
        (coq/Gen/C03_Tables.v: wrap_exceptions.wrapper, Process._is_zombie, _raise_if_zombie, _raise_if_not_alive as
        terms of C03/PyGen.v) and means exactly the model's scripts: for the Process object of any process in focus
        and ANY decorated method body the translated wrapper is Model.wrapped_at (clause order, zombie probe,
        os.path.exists probe of the stat file, which psutil error with whose pid) ... *)
Theorem C03_gen_wrap_exceptions : forall (x : who) (st : fid) (body : prog),
  c_wrapper gen_src x st body = Some (wrapped_at x st body).
Proof. exact gen_wrap_exceptions_eq. Qed.
Print Assumptions C03_gen_wrap_exceptions.
Theorem C03_gen_raise_if_zombie : forall (x : who) (st : fid),
  c_raise_if_zombie gen_src x st = Some (raise_if_zombie x st).
Proof. exact gen_raise_if_zombie_eq. Qed.
Print Assumptions C03_gen_raise_if_zombie.
Theorem C03_gen_raise_if_not_alive : c_raise_if_not_alive gen_src = Some raise_if_not_alive.
Proof. exact gen_raise_if_not_alive_eq. Qed.
Print Assumptions C03_gen_raise_if_not_alive.
(* ... and therefore runs as they do, in every world of the fault model, from every state *)
Theorem C03_gen_wrap_exceptions_exec : forall (w : world) (x : who) (st : fid) (body : prog) (cx : xc) (s : Model.st),
  py_exec w (c_wrapper gen_src x st body) cx s = Some (exec w (wrapped_at x st body) cx s).
Proof. exact gen_wrap_exceptions_exec. Qed.
Print Assumptions C03_gen_wrap_exceptions_exec.
(* Process._readlink(path, fallback) translated: ENOENT/ESRCH of the link -> os.lstat probe of /proc/<pid>/stat
   (only ENOENT/ESRCH of the probe mean gone, a refusal propagates), zombie check, fallback, else re-raise ... *)
Theorem C03_gen_readlink : forall (f del : fid), c_readlink gen_src f del true = Some (readlink_fb f del).
Proof. exact gen_readlink_eq. Qed.
Print Assumptions C03_gen_readlink.
(* ... and the platform methods exe() / cwd() (decorator + call with a fallback) are the scripts i_exe / i_cwd *)
Theorem C03_gen_exe : c_method gen_src (py_exe gen_src) = Some i_exe.
Proof. exact gen_exe_eq. Qed.
Print Assumptions C03_gen_exe.
Theorem C03_gen_cwd : c_method gen_src (py_cwd gen_src) = Some i_cwd.
Proof. exact gen_cwd_eq. Qed.
Print Assumptions C03_gen_cwd.
