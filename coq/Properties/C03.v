(* C03 -- a process vanishing or being denied mid-call yields only psutil errors.
   Statements only; proofs live in C03/Proofs*.v.  Model: C03/Model.v (access scripts transcribing
   psutil/_pslinux.py and psutil/__init__.py), fault model and allowed outcomes: C03/Spec.v,
   guard analysis: C03/Guard.v. *)
From PV Require Import Base.Prelude C03.Model C03.Spec C03.Guard C03.Proofs.

(* soundness of the guard for ALL worlds of the fault model: any base answers respecting [opt], any
   vanish index, any set of refused accesses (single faults and every two-fault sequence included),
   any listing sizes: a guarded script returns a value or raises NoSuchProcess -- and then the process
   is gone --, ZombieProcess or AccessDenied, with the object's own pid; nothing else escapes *)
Theorem C03_well_guarded_sound : forall (w : world) (opt : label -> bool),
  base_ok opt w -> forall p : prog, well_guarded opt p = true ->
  forall s, s_cache s = false -> allowed (fst (run w p s)) (gone w (snd (run w p s))).
Proof. exact well_guarded_sound_w. Qed.
Print Assumptions C03_well_guarded_sound.
