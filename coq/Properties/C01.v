(* C01 -- Signals and setters never reach a recycled PID or a process group.
   Statements only; proofs live in Proc/Proofs*.v.  Model of psutil: Proc/Model.v (transcription of
   psutil/__init__.py and psutil/_pslinux.py); kernel, ghost incarnations and demanded answers: Proc/Spec.v.

   Reading guide.  [h] is a history: kernel events (Spawn pid start ppid comm, any name | SpawnThread pid |
   Exit pid -> zombie | Reap pid | ClockStep d) interleaved with psutil calls (Process(pid), is_running, ==, hash, every signal method and
   setter, ppid, create_time, boot_time, process_iter); [wf_hist h]: a PID is handed out only when free and two
   starts of one PID never carry the same start tick, and /proc/<pid>/stat is readable (no Deny event: with an
   unreadable stat file psutil has no identity to compare, see Properties/C02.v).  [run h] is the world after [h]; object [o] is the o-th
   Process object created in [h]; [g_inc w o] is the incarnation (process start) it was created for (ghost);
   [alive w i]: incarnation i is in the process table (zombie included); [owner w p]: the incarnation that
   would receive a system call aimed at PID p now.  [Set_ o s] is a signal or setter call [s] on object [o]
   (send_signal(sig), suspend, resume, terminate, kill, nice(v), ionice(cls, v), rlimit(res, limits),
   cpu_affinity(cpus), for every argument).  [effects_of] lists every system call psutil attempted during the
   call (os.kill / setpriority / ioprio_set / prlimit / sched_setaffinity) with the incarnation that received it
   (None: the kernel answered ESRCH).  Objects also come from process_iter() and from psutil.Popen; a Popen whose
   child was already gone carries as ghost a negative token (never in the table): it is "not alive" from birth. *)
From PV Require Import Proc.Spec Proc.Live Proc.Proofs Proc.ProofsIter Proc.ProofsAsserts.
From PV Require Import Gen.C01_Tables.

(* the process is gone and the PID belongs to another process: NoSuchProcess, and no system call at all *)
Theorem C01_no_effect_on_new_owner : forall h o s,
  wf_hist h = true -> has_obj (run h) o = true ->
  alive (run h) (g_inc (run h) o) = false ->
  owner (run h) (obj_pid (run h) o) <> None ->
  outcome_of (run h) (EC (Set_ o s)) = Exc NoSuchProcess /\ effects_of (run h) (EC (Set_ o s)) = [].
Proof. exact no_effect_on_new_owner. Qed.
Print Assumptions C01_no_effect_on_new_owner.

(* the process is gone and nobody has the PID: NoSuchProcess (ValueError only for arguments the interface
   rejects), nothing delivered; the only system call possibly attempted is the requested one, answered ESRCH *)
Theorem C01_gone_not_reused : forall h o s,
  wf_hist h = true -> has_obj (run h) o = true ->
  alive (run h) (g_inc (run h) o) = false ->
  owner (run h) (obj_pid (run h) o) = None ->
  (outcome_of (run h) (EC (Set_ o s)) = Exc NoSuchProcess
   \/ (outcome_of (run h) (EC (Set_ o s)) = Exc ValueError /\ valid_args (obj_pid (run h) o) s = false))
  /\ delivered (effects_of (run h) (EC (Set_ o s))) = []
  /\ (effects_of (run h) (EC (Set_ o s)) = []
      \/ effects_of (run h) (EC (Set_ o s)) = [(intended (obj_pid (run h) o) s, None)]).
Proof. exact gone_not_reused. Qed.
Print Assumptions C01_gone_not_reused.

(* no psutil call of any kind, at any point of any history, calls os.kill with pid <= 0 *)
Theorem C01_never_group : forall h e c,
  wf_hist h = true -> In c (effects_of (run h) e) ->
  match fst c with SKill p _ => p <=? 0 | _ => false end = false.
Proof. exact never_group. Qed.
Print Assumptions C01_never_group.

(* a negative pid is rejected at construction (in every world, reachable or not): no object, no system call *)
Theorem C01_negative_pid_rejected : forall w pid, pid < 0 ->
  outcome_of w (EC (New pid)) = Exc ValueError /\ effects_of w (EC (New pid)) = []
  /\ objs (ms (next w (EC (New pid)))) = objs (ms w).
Proof. exact negative_pid_rejected. Qed.
Print Assumptions C01_negative_pid_rejected.

(* a signal method on an object for PID 0 is refused before os.kill *)
Theorem C01_pid0_refused : forall h o s,
  wf_hist h = true -> has_obj (run h) o = true -> obj_pid (run h) o = 0 ->
  (exists sig, intended 0 s = SKill 0 sig) ->
  (outcome_of (run h) (EC (Set_ o s)) = Exc ValueError \/ outcome_of (run h) (EC (Set_ o s)) = Exc NoSuchProcess)
  /\ effects_of (run h) (EC (Set_ o s)) = [].
Proof. exact pid0_refused. Qed.
Print Assumptions C01_pid0_refused.

(* at most one system call per signal/setter call; it names exactly the PID of the object and exactly the
   requested signal/value; and if the kernel delivered it, the receiver is the very process the object was
   created for *)
Theorem C01_exact_delivery : forall h o s,
  wf_hist h = true -> has_obj (run h) o = true ->
  effects_of (run h) (EC (Set_ o s)) = []
  \/ effects_of (run h) (EC (Set_ o s)) = [(intended (obj_pid (run h) o) s, None)]
  \/ effects_of (run h) (EC (Set_ o s)) = [(intended (obj_pid (run h) o) s, Some (g_inc (run h) o))].
Proof. exact exact_delivery. Qed.
Print Assumptions C01_exact_delivery.

(* while the process is in the table (zombie included) the request is delivered, exactly once, for valid
   arguments; invalid arguments are a ValueError without any system call *)
Theorem C01_delivered_when_alive : forall h o s,
  wf_hist h = true -> has_obj (run h) o = true ->
  alive (run h) (g_inc (run h) o) = true ->
  if valid_args (obj_pid (run h) o) s
  then outcome_of (run h) (EC (Set_ o s)) = Val RNone
       /\ effects_of (run h) (EC (Set_ o s)) = [(intended (obj_pid (run h) o) s, Some (g_inc (run h) o))]
  else outcome_of (run h) (EC (Set_ o s)) = Exc ValueError /\ effects_of (run h) (EC (Set_ o s)) = [].
Proof. exact delivered_when_alive. Qed.
Print Assumptions C01_delivered_when_alive.

(* ---- the call taken apart.  [ER o s ks]: the identity probe (_raise_if_pid_reused), then the kernel events
   [ks] -- the window between psutil's check and its system call --, then the argument checks and the system call.
   (All theorems above are about the atomic call [EC (Set_ o s)].) *)

(* no kernel event in the window: the two-step call is the atomic call (same answer, same system calls), so
   every theorem above carries over *)
Theorem C01_two_step_no_event_between : forall w o s, has_obj w o = true ->
  outcome_of w (ER o s []) = outcome_of w (EC (Set_ o s))
  /\ effects_of w (ER o s []) = effects_of w (EC (Set_ o s)).
Proof. exact race_no_event_between. Qed.
Print Assumptions C01_two_step_no_event_between.

(* the process gone and the PID taken AT THE TIME OF THE PROBE: NoSuchProcess and no system call, whatever
   happens afterwards *)
Theorem C01_two_step_no_effect_on_new_owner : forall h o s ks,
  wf_hist h = true -> has_obj (run h) o = true ->
  alive (run h) (g_inc (run h) o) = false ->
  owner (run h) (obj_pid (run h) o) <> None ->
  outcome_of (run h) (ER o s ks) = Exc NoSuchProcess /\ effects_of (run h) (ER o s ks) = [].
Proof. exact race_no_effect_on_new_owner. Qed.
Print Assumptions C01_two_step_no_effect_on_new_owner.

(* "a delivered request reaches the process the object was created for" with its hypothesis spelled out:
   no kernel event separates probe and system call ... *)
Theorem C01_two_step_receiver_is_own_process : forall h o s ks c i,
  wf_hist h = true -> has_obj (run h) o = true -> ks = [] ->
  In (c, Some i) (effects_of (run h) (ER o s ks)) ->
  i = g_inc (run h) o /\ c = intended (obj_pid (run h) o) s.
Proof. exact race_receiver_own_explicit. Qed.
Print Assumptions C01_two_step_receiver_is_own_process.

(* ... and WITHOUT that hypothesis the statement is false: the process is reaped and the PID handed out again
   inside the window, the probe has passed, SIGKILL reaches the new owner (incarnation 1, object made for 0).
   This is the TOCTOU inherent in PIDs; the property cannot be had for non-atomic calls *)
Theorem C01_two_step_receiver_refuted :
  wf_hist (ex_race_hist ++ [ER 0%nat Kill ex_race_window]) = true
  /\ has_obj (run ex_race_hist) 0 = true
  /\ g_inc (run ex_race_hist) 0 = 0
  /\ alive (run ex_race_hist) 0 = true
  /\ outcome_of (run ex_race_hist) (ER 0%nat Kill ex_race_window) = Val RNone
  /\ effects_of (run ex_race_hist) (ER 0%nat Kill ex_race_window) = [(SKill 5 9, Some 1)].
Proof. exact race_receiver_refuted. Qed.
Print Assumptions C01_two_step_receiver_refuted.

(* what survives any window (any world, any events, well formed or not): at most one system call, and it names
   exactly the PID of the object and exactly the requested signal/value *)
Theorem C01_two_step_names_own_pid : forall w o s ks, has_obj w o = true ->
  effects_of w (ER o s ks) = []
  \/ exists t, effects_of w (ER o s ks) = [(intended (obj_pid w o) s, t)].
Proof. exact race_names_own_pid. Qed.
Print Assumptions C01_two_step_names_own_pid.

(* process_iter(): after ANY history in which no generator is resumed between other calls (events otherwise
   arbitrary, well formed or not; list(process_iter()) is one call) the branch added by b70d950 (replace a cached
   instance whose _pid_reused is set) is never taken -- the call equals the loop without that branch.  (Every
   cached object with _pid_reused has its PID in _pids_reused, and those PIDs are dropped from the copy first.) *)
Theorem C01_process_iter_stale_branch_unreachable : forall h, overlap_free h = true ->
  proc_iter (view_of (run h)) (ms (run h)) = proc_iter_nostale (view_of (run h)) (ms (run h)).
Proof. exact stale_branch_unreachable. Qed.
Print Assumptions C01_process_iter_stale_branch_unreachable.

(* ... and with a generator suspended across an is_running() call the branch IS taken: the cached object 1 of the
   recycled PID 5 is replaced by a new object 2 for the new process; object 1, which the caller still holds, keeps
   its binding (incarnation 1), is not running and differs from object 2 *)
Theorem C01_process_iter_stale_branch_reached :
  wf_hist ex_overlap = true
  /\ outcome_of (run ex_overlap) (EC (IterNext 0)) = Val (RObj 2)
  /\ g_inc (next (run ex_overlap) (EC (IterNext 0))) 1 = 1
  /\ g_inc (next (run ex_overlap) (EC (IterNext 0))) 2 = 2
  /\ outcome_of (next (run ex_overlap) (EC (IterNext 0))) (EC (IsRunning 1)) = Val (RBool false)
  /\ outcome_of (next (run ex_overlap) (EC (IterNext 0))) (EC (EqC 1 2)) = Val (RBool false).
Proof. exact stale_branch_reached. Qed.
Print Assumptions C01_process_iter_stale_branch_reached.

(* ---- "with exactly the value asked for, for every setter argument" THROUGH THE C EXTENSION (Proc/Live.v: the C
   conversions as functions on Z with their widths -- PyLong_AsLong, no narrowing; "i" for nice/ionice --, the
   CPU_SET range test, the argument checks of _pslinux.py, the kernel's EINVAL / clamping).  [elig]: the CPUs the
   process may use; [cur]: its state before the call. *)

(* cpu_affinity([n]) for EVERY integer n: the mask becomes exactly {n} when n is a CPU the process may use;
   otherwise ValueError and the mask is unchanged -- never another CPU *)
Theorem C01_live_affinity_single_exact : forall elig cur n,
  (forall c, In c elig -> 0 <= c < CPU_SETSIZE) ->
  affinity_live elig cur [n] = (if memz n elig then (Val RNone, [n]) else (Exc ValueError, cur)).
Proof. exact affinity_single_exact. Qed.
Print Assumptions C01_live_affinity_single_exact.

(* in particular no wrap-around at the integer widths: k * 2^32 + c (k <> 0, so also c - 2^32, 2^40 + c) and
   2^31 + c name no CPU, whatever eligible c they are congruent to *)
Theorem C01_live_affinity_no_wraparound : forall elig cur c k,
  (forall c, In c elig -> 0 <= c < CPU_SETSIZE) -> In c elig -> k <> 0 ->
  affinity_live elig cur [k * 4294967296 + c] = (Exc ValueError, cur)
  /\ affinity_live elig cur [2147483648 + c] = (Exc ValueError, cur).
Proof. exact affinity_no_wraparound. Qed.
Print Assumptions C01_live_affinity_no_wraparound.

(* nice(v): a value the kernel accepts is set exactly; one that does not fit a C int is an OverflowError and
   nothing changes (values in between are clamped by the kernel to -20..19, as setpriority(2) documents) *)
Theorem C01_live_nice_exact : forall cur v,
  (-20 <= v <= 19 -> nice_live cur v = (Val RNone, v))
  /\ (v < -2147483648 \/ 2147483647 < v -> nice_live cur v = (Exc OverflowError, cur)).
Proof. exact nice_exact. Qed.
Print Assumptions C01_live_nice_exact.

(* ionice(cls, v): accepted arguments (class 0..3, value 0..7, no value for classes 0 and 3) are set exactly;
   every other pair of integers, of any size, is a ValueError and nothing changes *)
Theorem C01_live_ionice_exact : forall cur cls v,
  ionice_live cur cls v = (if ionice_ok cls v then (Val RNone, (cls, match v with Some n => n | None => 0 end))
                           else (Exc ValueError, cur))
  /\ (ionice_ok cls v = true -> 0 <= cls <= 3 /\ 0 <= match v with Some n => n | None => 0 end <= 7).
Proof. intros cur cls v. split; [apply ionice_exact|apply ionice_ok_small]. Qed.
Print Assumptions C01_live_ionice_exact.

(* rlimit(res, (s, h)): a pair the caller may set is set exactly; beyond 64 bits OverflowError, soft > hard
   ValueError, both with nothing changed *)
Theorem C01_live_rlimit_exact : forall cur s h,
  (0 <= s <= h -> h <= LONG_MAX -> rl_le h (snd cur) = true -> rlimit_live cur [s; h] = (Val RNone, (s, h)))
  /\ (LONG_MAX < s \/ LONG_MAX < h -> rlimit_live cur [s; h] = (Exc OverflowError, cur))
  /\ (0 <= h < s -> s <= LONG_MAX -> rlimit_live cur [s; h] = (Exc ValueError, cur)).
Proof. exact rlimit_exact. Qed.
Print Assumptions C01_live_rlimit_exact.

(* the answers the harness demands of the implementation on a live process (lspec) are met by the model *)
Theorem C01_live_model_meets_spec : forall elig st op,
  (forall c, In c elig -> 0 <= c < CPU_SETSIZE) ->
  match lspec elig st op with Some a => lstep elig st op = a | None => True end.
Proof. exact lstep_meets_lspec. Qed.
Print Assumptions C01_live_model_meets_spec.

(* ---- copies.  [Copy o how true]: copy.copy(o) / copy.deepcopy(o) / a pickle round trip of o produces an object
   (index n).  It is another handle on the same incarnation (Properties/C02.v: C02_copy_binding), so every theorem
   above holds for it.  Spelled out for the dangerous case -- the original is stale (its process gone, nobody has
   probed since) when the copy is made: the copy is not running, equals its original, and every signal/setter on it
   raises NoSuchProcess without a system call when the PID has a new owner *)
Theorem C01_copy_of_stale_object : forall h o hw n s,
  wf_hist h = true -> outcome_of (run h) (EC (Copy o hw true)) = Val (RObj n) ->
  alive (run h) (g_inc (run h) o) = false ->
  let w' := run (h ++ [EC (Copy o hw true)]) in
  outcome_of w' (EC (IsRunning n)) = Val (RBool false)
  /\ outcome_of w' (EC (EqC n o)) = Val (RBool true)
  /\ (owner (run h) (obj_pid (run h) o) <> None ->
      outcome_of w' (EC (Set_ n s)) = Exc NoSuchProcess /\ effects_of w' (EC (Set_ n s)) = []).
Proof. exact copy_of_stale_object. Qed.
Print Assumptions C01_copy_of_stale_object.

(* ---- interpreter modes (python -O / -OO / PYTHONOPTIMIZE): every assert statement, and every call made inside
   one, vanishes.  [guard_asserts] (coq/Gen/C01_Tables.v) is generated by ast from the tree under test on every run:
   all assert statements in the functions on the path of the guard (_raise_if_pid_reused, is_running, _send_signal,
   the signal methods and setters, Process.__init__/_init/_get_ident/__eq__/__hash__/ppid/wait/oneshot/as_dict,
   Popen, process_iter, wait_procs, _psposix.pid_exists/wait_pid, the _pslinux counterparts, wrap_exceptions,
   memoize_when_activated ...), each with the flag "contains a Call, :=, await or yield". *)

(* no assert on the guard path does anything: stripping them removes no call -- the guard cannot live in an assert.
   (Moving `self._raise_if_pid_reused()` or `self.is_running()` into an assert breaks this obligation.) *)
Theorem C01_guard_asserts_are_pure : forallb (fun a => negb (snd a)) guard_asserts = true.
Proof. exact guard_asserts_pure. Qed.
Print Assumptions C01_guard_asserts_are_pure.

Theorem C01_guard_functions_scanned : (40 <= length guard_functions)%nat.
Proof. exact guard_functions_scanned. Qed.
Print Assumptions C01_guard_functions_scanned.

(* the one assert there is (`assert not self.pid < 0` in _send_signal) never fails for an object of a reachable
   world: the method with the assert stripped (do_setter_O) answers exactly like the method with it, so all
   theorems above hold under -O as well *)
Theorem C01_guard_same_without_asserts : forall h o x s,
  wf_hist h = true -> nth_error (objs (ms (run h))) o = Some x ->
  do_setter_O (view_of (run h)) x s = do_setter (view_of (run h)) x s.
Proof. exact guard_same_without_asserts. Qed.
Print Assumptions C01_guard_same_without_asserts.

(* the pid attribute of an object is the PID its process was started under, and fits a pid_t *)
Theorem C01_obj_pid_is_creation_pid : forall h o,
  wf_hist h = true -> has_obj (run h) o = true ->
  obj_pid (run h) o = g_pid (run h) o /\ 0 <= obj_pid (run h) o < PID_MAX.
Proof. exact obj_pid_creation. Qed.
Print Assumptions C01_obj_pid_is_creation_pid.

(* the answers the harness demands of the implementation (spec_call) are met by the model in every reachable world *)
Theorem C01_model_meets_spec : forall h c, wf_hist h = true ->
  match spec_call (run h) c with
  | Some l => In (outcome_of (run h) (EC c), delivered (effects_of (run h) (EC c))) l
  | None => True
  end.
Proof. exact step_meets_spec. Qed.
Print Assumptions C01_model_meets_spec.

(* the hypotheses are satisfiable: a PID recycled after is_running() had said False (the history on which the
   code before 32d3689 delivered SIGKILL to the new owner), and a process that is simply gone *)
Theorem C01_example_reuse :
  wf_hist ex_reuse = true /\ has_obj (run ex_reuse) 0 = true
  /\ alive (run ex_reuse) (g_inc (run ex_reuse) 0) = false
  /\ owner (run ex_reuse) (obj_pid (run ex_reuse) 0) = Some 1
  /\ outcome_of (run ex_reuse) (EC (Set_ 0%nat Kill)) = Exc NoSuchProcess
  /\ effects_of (run ex_reuse) (EC (Set_ 0%nat Kill)) = [].
Proof. exact ex_reuse_ok. Qed.
Print Assumptions C01_example_reuse.

Theorem C01_example_gone :
  wf_hist ex_gone = true /\ has_obj (run ex_gone) 0 = true
  /\ alive (run ex_gone) (g_inc (run ex_gone) 0) = false
  /\ owner (run ex_gone) (obj_pid (run ex_gone) 0) = None
  /\ outcome_of (run ex_gone) (EC (Set_ 0%nat Terminate)) = Exc NoSuchProcess
  /\ effects_of (run ex_gone) (EC (Set_ 0%nat Terminate)) = [(SKill 5 15, None)]
  /\ outcome_of (run ex_gone) (EC (IsRunning 0)) = Val (RBool false).
Proof. exact ex_gone_ok. Qed.
Print Assumptions C01_example_gone.
