(* C10 -- nowrap=True counters never decrease while their device stays present.
   Statements only; proofs live in C10/Proofs.v.  Model: C10/Model.v (transcription
   of psutil/_common.py:_WrapNumbers and of the two callers in psutil/__init__.py),
   specification (ghost history per function name): C10/Spec.v.
   run() and cache_clear() execute under one lock, so a concurrent execution is a
   sequence of these atomic steps in SOME order: the sequence theorems quantify
   over all sequences, hence over all such orders.  The platform read of a public
   call is a separate step: the two-thread theorems at the end split every call
   into read and wrap step and quantify over all schedules. *)
From PV Require Import C10.Spec C10.Proofs C10.ProofsConc.

(* every sequence of wrap_numbers(d, name) / cache_clear(name) / cache_clear() calls
   (unique keys, one tuple width per name): no call fails and every answer is, per
   device and counter, raw + the earlier readings at each decrease inside the
   device's current presence run since the last clear of that name *)
Theorem C10_wrap_value : forall W ops, forallb (wop_ok W) ops = true ->
  wtrace [] ops = map Val (spec_wtrace [] ops).
Proof. exact wrap_value. Qed.
Print Assumptions C10_wrap_value.

(* two consecutive nowrap answers under one name (other names may be served in
   between): a counter of a device present in both does not decrease *)
Theorem C10_wrap_monotone : forall W pre f d1 mid d2 s0 s1 o1 s1' s2 o2 k u1 u2 i,
  forallb (wop_ok W) pre = true -> dict_ok (W f) d1 = true ->
  forallb (wop_ok W) mid = true -> dict_ok (W f) d2 = true -> untouched f mid = true ->
  wexec [] pre = Val s0 -> run s0 f d1 = Val (s1, o1) ->
  wexec s1 mid = Val s1' -> run s1' f d2 = Val (s2, o2) ->
  nonneg_dict d2 = true -> (i < W f)%nat ->
  lookup k o1 = Some u1 -> lookup k o2 = Some u2 ->
  nth i u1 0 <= nth i u2 0.
Proof. exact monotone. Qed.
Print Assumptions C10_wrap_monotone.

(* a device absent from the previous snapshot of this name starts afresh *)
Theorem C10_reappear_fresh : forall W ops s f d s' o dprev h k t,
  forallb (wop_ok W) ops = true -> dict_ok (W f) d = true ->
  wexec [] ops = Val s -> run s f d = Val (s', o) ->
  gget (spec_wexec [] ops) f = dprev :: h -> lookup k dprev = None ->
  lookup k d = Some t -> lookup k o = Some t.
Proof. exact reappear_fresh. Qed.
Print Assumptions C10_reappear_fresh.

(* cache_clear(name) and cache_clear() forget all history of the name *)
Theorem C10_clear_forgets : forall W ops c mid s f d s' o,
  c = WClear f \/ c = WClearAll ->
  forallb (wop_ok W) ops = true -> forallb (wop_ok W) mid = true -> untouched f mid = true ->
  dict_ok (W f) d = true ->
  wexec [] (ops ++ c :: mid) = Val s -> run s f d = Val (s', o) -> o = d.
Proof. exact clear_forgets. Qed.
Print Assumptions C10_clear_forgets.

(* the first call under a name answers the raw dict *)
Theorem C10_first_call_raw : forall W ops s f d s' o,
  forallb (wop_ok W) ops = true -> untouched f ops = true -> dict_ok (W f) d = true ->
  wexec [] ops = Val s -> run s f d = Val (s', o) -> o = d.
Proof. exact first_call_raw. Qed.
Print Assumptions C10_first_call_raw.

(* a call that does not concern name f leaves f's cache, reminders and reminder keys alone *)
Theorem C10_frame_state : forall s o f s' a,
  touches f o = false -> wstep s o = Val (s', a) -> lookup f s' = lookup f s.
Proof. exact frame_state. Qed.
Print Assumptions C10_frame_state.

(* the answers under name f in any interleaving with other names are the answers
   of f's own calls run alone *)
Theorem C10_names_independent : forall W ops f, forallb (wop_ok W) ops = true ->
  answers_for f ops (wtrace [] ops) = wtrace [] (filter (touches f) ops).
Proof. exact names_independent. Qed.
Print Assumptions C10_names_independent.

(* net_io_counters / disk_io_counters as they are now (after commit e278b23): EVERY call
   sequence over both functions, any pernic/perdisk and nowrap values, cache_clear
   anywhere, listings that may be empty: every answer is the demanded one *)
Theorem C10_public_exact : forall ops, forallb pop_ok ops = true ->
  ptrace false [] ops = map Val (spec_ptrace [] ops).
Proof. exact public_exact. Qed.
Print Assumptions C10_public_exact.

(* a device absent from the previous nowrap=True listing of this function -- also
   when that listing was empty, i.e. every device had gone -- starts afresh *)
Theorem C10_public_reappear_fresh : forall ops s f per raw s' a dprev h k t,
  forallb pop_ok ops = true -> dict_ok (width f) raw = true ->
  pexec false [] ops = Val s -> pstep false s (PCall f per true raw) = Val (s', a) ->
  gget (spec_pexec [] ops) (fname f) = dprev :: h -> lookup k dprev = None ->
  lookup k raw = Some t ->
  exists o, a = present f per o /\ lookup k o = Some t.
Proof. exact public_reappear_fresh. Qed.
Print Assumptions C10_public_reappear_fresh.

(* the all-devices-gone case spelled out: after a nowrap=True call that listed no
   device, the next nowrap=True answer is the raw listing *)
Theorem C10_public_all_gone_fresh : forall ops s f per raw s' a h,
  forallb pop_ok ops = true -> dict_ok (width f) raw = true ->
  pexec false [] ops = Val s -> pstep false s (PCall f per true raw) = Val (s', a) ->
  gget (spec_pexec [] ops) (fname f) = [] :: h ->
  a = present f per raw.
Proof. exact public_all_gone_fresh. Qed.
Print Assumptions C10_public_all_gone_fresh.

(* fixed finding nowrap-empty-snapshot: the code before e278b23 (legacy = true: the
   empty test came before the wrap step) answered 105 where 5 is demanded when the
   only device vanished and came back with a smaller reading; the code as it is
   now answers 5 *)
Theorem C10_public_before_repair_refuted :
  exists ops, forallb pop_ok ops = true /\
    nth 2 (ptrace true [] ops) OutOfModel = Val (PDict [(bs "eth0", [0; 105; 0; 0; 0; 0; 0; 0])]) /\
    nth 2 (spec_ptrace [] ops) PNone = PDict [(bs "eth0", [0; 5; 0; 0; 0; 0; 0; 0])] /\
    nth 2 (ptrace false [] ops) OutOfModel = Val (PDict [(bs "eth0", [0; 5; 0; 0; 0; 0; 0; 0])]).
Proof. exact public_before_repair_refuted. Qed.
Print Assumptions C10_public_before_repair_refuted.

(* nowrap=False answers the raw values and leaves all history alone *)
Theorem C10_nowrap_false_raw : forall legacy s f per raw, raw_ok f raw = true ->
  pstep legacy s (PCall f per false raw) = Val (s, present f per raw).
Proof. exact nowrap_false_raw. Qed.
Print Assumptions C10_nowrap_false_raw.

(* two threads, every call split into platform read (what the kernel shows now) and
   wrap step, code as it is now (commit 3202409: a nowrap=True call holds _nowrap_lock
   from its read to the end of its wrap step -- the schedules satisfying lock_ok):
   for EVERY such schedule each answer is the one demanded by the raw kernel readings
   in the order they were read (no cache_clear while a nowrap=True call is in flight) *)
Theorem C10_two_threads_locked_exact : forall sched,
  sched_ok (None, None) sched = true -> lock_ok (None, None) sched = true -> clear_ok (None, None) sched = true ->
  ctrace [] (None, None) sched = map Val (spec_ctrace [] (None, None) sched).
Proof. exact locked_exact. Qed.
Print Assumptions C10_two_threads_locked_exact.

(* fixed finding read-outside-lock: without the lock thread A can be pre-empted between
   its read (150) and its wrap step while B reads 200 and wraps: the readings never go
   backwards (demanded: the raw readings), A is answered 350 and the next call 410 *)
Theorem C10_two_threads_unlocked_refuted :
  exists sched, sched_ok (None, None) sched = true /\ clear_ok (None, None) sched = true /\
    lock_ok (None, None) sched = false /\
    spec_ctrace [] (None, None) sched =
      [(false, PDict (eth 100)); (true, PDict (eth 200)); (false, PDict (eth 150)); (true, PDict (eth 210))] /\
    ctrace [] (None, None) sched =
      [Val (false, PDict (eth 100)); Val (true, PDict (eth 200)); Val (false, PDict (eth 350)); Val (true, PDict (eth 410))].
Proof. exact unlocked_refuted. Qed.
Print Assumptions C10_two_threads_unlocked_refuted.
