(* C10 -- nowrap=True counters never decrease while their device stays present.
   Statements only; proofs live in C10/Proofs.v.  Model: C10/Model.v (transcription
   of psutil/_common.py:_WrapNumbers and of the two callers in psutil/__init__.py),
   specification (ghost history per function name): C10/Spec.v.
   run() and cache_clear() execute under one lock, so a concurrent execution is a
   sequence of these atomic steps in SOME order: the sequence theorems quantify
   over all sequences, hence over all such orders.  The platform read of a public
   call is a separate step: the thread theorems at the end split every call into
   read and wrap step and quantify over all schedules of any number of threads. *)
From PV Require Import C10.Spec C10.Proofs C10.ProofsWidth C10.ProofsConc C10.ProofsAbort C10.ProofsFork Gen.C10_Tables.

(* every sequence of wrap_numbers(d, name) / cache_clear(name) / cache_clear() calls
   (unique keys, one tuple width per name): no call fails and every answer is, per
   device and counter, raw + the earlier readings at each decrease inside the
   device's current presence run since the last clear of that name *)
Theorem C10_wrap_value : forall W ops, forallb (wop_ok W) ops = true ->
  wtrace [] ops = map Val (spec_wtrace [] ops).
Proof. exact wrap_value. Qed.
Print Assumptions C10_wrap_value.

(* two consecutive nowrap answers under one name (other names may be served in
   between): a counter of a device present in both does not decrease *)
Theorem C10_wrap_monotone : forall W pre f d1 mid d2 s0 s1 o1 s1' s2 o2 k u1 u2 i,
  forallb (wop_ok W) pre = true -> dict_ok (W f) d1 = true ->
  forallb (wop_ok W) mid = true -> dict_ok (W f) d2 = true -> untouched f mid = true ->
  wexec [] pre = Val s0 -> run s0 f d1 = Val (s1, o1) ->
  wexec s1 mid = Val s1' -> run s1' f d2 = Val (s2, o2) ->
  nonneg_dict d2 = true -> (i < W f)%nat ->
  lookup k o1 = Some u1 -> lookup k o2 = Some u2 ->
  nth i u1 0 <= nth i u2 0.
Proof. exact monotone. Qed.
Print Assumptions C10_wrap_monotone.

(* a device absent from the previous snapshot of this name starts afresh *)
Theorem C10_reappear_fresh : forall W ops s f d s' o dprev h k t,
  forallb (wop_ok W) ops = true -> dict_ok (W f) d = true ->
  wexec [] ops = Val s -> run s f d = Val (s', o) ->
  gget (spec_wexec [] ops) f = dprev :: h -> lookup k dprev = None ->
  lookup k d = Some t -> lookup k o = Some t.
Proof. exact reappear_fresh. Qed.
Print Assumptions C10_reappear_fresh.

(* cache_clear(name) and cache_clear() forget all history of the name *)
Theorem C10_clear_forgets : forall W ops c mid s f d s' o,
  c = WClear f \/ c = WClearAll ->
  forallb (wop_ok W) ops = true -> forallb (wop_ok W) mid = true -> untouched f mid = true ->
  dict_ok (W f) d = true ->
  wexec [] (ops ++ c :: mid) = Val s -> run s f d = Val (s', o) -> o = d.
Proof. exact clear_forgets. Qed.
Print Assumptions C10_clear_forgets.

(* the first call under a name answers the raw dict *)
Theorem C10_first_call_raw : forall W ops s f d s' o,
  forallb (wop_ok W) ops = true -> untouched f ops = true -> dict_ok (W f) d = true ->
  wexec [] ops = Val s -> run s f d = Val (s', o) -> o = d.
Proof. exact first_call_raw. Qed.
Print Assumptions C10_first_call_raw.

(* a call that does not concern name f leaves f's cache, reminders and reminder keys alone *)
Theorem C10_frame_state : forall s o f s' a,
  touches f o = false -> wstep s o = Val (s', a) -> lookup f s' = lookup f s.
Proof. exact frame_state. Qed.
Print Assumptions C10_frame_state.

(* the answers under name f in any interleaving with other names are the answers
   of f's own calls run alone *)
Theorem C10_names_independent : forall W ops f, forallb (wop_ok W) ops = true ->
  answers_for f ops (wtrace [] ops) = wtrace [] (filter (touches f) ops).
Proof. exact names_independent. Qed.
Print Assumptions C10_names_independent.

(* net_io_counters / disk_io_counters as they are now (after commit e278b23): EVERY call
   sequence over both functions, any pernic/perdisk and nowrap values, cache_clear
   anywhere, listings that may be empty: every answer is the demanded one *)
Theorem C10_public_exact : forall ops, forallb pop_ok ops = true ->
  ptrace false [] ops = map Val (spec_ptrace [] ops).
Proof. exact public_exact. Qed.
Print Assumptions C10_public_exact.

(* a device absent from the previous nowrap=True listing of this function -- also
   when that listing was empty, i.e. every device had gone -- starts afresh *)
Theorem C10_public_reappear_fresh : forall ops s f per raw s' a dprev h k t,
  forallb pop_ok ops = true -> dict_ok (width f) raw = true ->
  pexec false [] ops = Val s -> pstep false s (PCall f per true raw) = Val (s', a) ->
  gget (spec_pexec [] ops) (fname f) = dprev :: h -> lookup k dprev = None ->
  lookup k raw = Some t ->
  exists o, a = present f per o /\ lookup k o = Some t.
Proof. exact public_reappear_fresh. Qed.
Print Assumptions C10_public_reappear_fresh.

(* the all-devices-gone case spelled out: after a nowrap=True call that listed no
   device, the next nowrap=True answer is the raw listing *)
Theorem C10_public_all_gone_fresh : forall ops s f per raw s' a h,
  forallb pop_ok ops = true -> dict_ok (width f) raw = true ->
  pexec false [] ops = Val s -> pstep false s (PCall f per true raw) = Val (s', a) ->
  gget (spec_pexec [] ops) (fname f) = [] :: h ->
  a = present f per raw.
Proof. exact public_all_gone_fresh. Qed.
Print Assumptions C10_public_all_gone_fresh.

(* fixed finding nowrap-empty-snapshot: the code before e278b23 (legacy = true: the
   empty test came before the wrap step) answered 105 where 5 is demanded when the
   only device vanished and came back with a smaller reading; the code as it is
   now answers 5 *)
Theorem C10_public_before_repair_refuted :
  exists ops, forallb pop_ok ops = true /\
    nth 2 (ptrace true [] ops) OutOfModel = Val (PDict [(bs "eth0", [0; 105; 0; 0; 0; 0; 0; 0])]) /\
    nth 2 (spec_ptrace [] ops) PNone = PDict [(bs "eth0", [0; 5; 0; 0; 0; 0; 0; 0])] /\
    nth 2 (ptrace false [] ops) OutOfModel = Val (PDict [(bs "eth0", [0; 5; 0; 0; 0; 0; 0; 0])]).
Proof. exact public_before_repair_refuted. Qed.
Print Assumptions C10_public_before_repair_refuted.

(* nowrap=False answers the raw values and leaves all history alone *)
Theorem C10_nowrap_false_raw : forall legacy s f per raw, raw_ok f raw = true ->
  pstep legacy s (PCall f per false raw) = Val (s, present f per raw).
Proof. exact nowrap_false_raw. Qed.
Print Assumptions C10_nowrap_false_raw.

(* tuple widths changing under one name (no width hypothesis, unique keys only): the answers
   of EVERY call sequence, up to and including the first exception: a tuple not longer than
   the previous tuple of its key is answered as demanded (surplus old fields ignored), the
   first longer one raises IndexError *)
Theorem C10_wrap_value_total : forall ops, forallb keys_ok ops = true ->
  wtrace [] ops = spec_wtrace_total [] ops.
Proof. exact wrap_value_total. Qed.
Print Assumptions C10_wrap_value_total.

(* cache_info() shows the ghost state: a name is listed in the three maps iff it has history
   since its last clear; cache[name] is the last snapshot; reminders[name][(k, i)] reads (default
   0) the offset accumulated by counter (k, i) in its presence run; every non-zero reminder is
   indexed by reminder_keys[name][k], and every indexed reminder exists *)
Theorem C10_cache_info_shows_ghost : forall W ops s f,
  forallb (wop_ok W) ops = true -> wexec [] ops = Val s ->
  let c := fst (fst (cache_info s)) in let r := snd (fst (cache_info s)) in let rk := snd (cache_info s) in
  let h := gget (spec_wexec [] ops) f in
  match h with
  | [] => lookup f c = None /\ lookup f r = None /\ lookup f rk = None
  | d :: _ => exists rm rkm,
      lookup f c = Some d /\ lookup f r = Some rm /\ lookup f rk = Some rkm /\
      (forall k i, rem_get rm (k, i) = spec_offset k i h) /\
      (forall k i, rem_get rm (k, i) <> 0 -> In i (rk_get rkm k)) /\
      (forall k i, In i (rk_get rkm k) -> rem_mem rm (k, i) = true)
  end.
Proof. exact cache_info_shows_ghost. Qed.
Print Assumptions C10_cache_info_shows_ghost.

(* public functions: after f.cache_clear(), whatever follows that does not feed f's history
   (nowrap=False calls, the other function, more clears), the next nowrap=True answer is raw *)
Theorem C10_public_clear_forgets : forall ops mid f per raw s s' a,
  forallb pop_ok (ops ++ PClear f :: mid) = true -> no_feed f mid = true ->
  dict_ok (width f) raw = true ->
  pexec false [] (ops ++ PClear f :: mid) = Val s -> pstep false s (PCall f per true raw) = Val (s', a) ->
  a = present f per raw.
Proof. exact public_clear_forgets. Qed.
Print Assumptions C10_public_clear_forgets.

(* ANY number of threads, both functions, every call split into platform read (what the kernel
   shows now) and wrap step, cache_clear at any point -- also between the read and the wrap step
   of a call in flight.  Every well-formed schedule is linearised by [lin] (each call at its wrap
   step, i.e. between its read and its return; each clear at its own step): the answers are
   exactly those of the sequential specification on that history *)
Theorem C10_threads_linearised : forall sched, sched_ok idle sched = true ->
  ctrace [] idle sched =
  map Val (combine (map fst (lin idle sched)) (spec_ptrace [] (map snd (lin idle sched)))).
Proof. exact threads_linearised. Qed.
Print Assumptions C10_threads_linearised.

(* ... and under _nowrap_lock (code now, commit 3202409: the schedules satisfying lock_ok) the
   nowrap=True listings enter that history in the order in which they were read from the kernel
   (tail = the one call possibly still in flight at the end) *)
Theorem C10_threads_locked_kernel_order : forall sched,
  sched_ok idle sched = true -> lock_ok None sched = true ->
  exists tail, reads_nowrap sched = nowrap_calls (map snd (lin idle sched)) ++ tail /\ (length tail <= 1)%nat.
Proof. exact threads_locked_kernel_order. Qed.
Print Assumptions C10_threads_locked_kernel_order.

(* cache_clear() forgets all history, in every interleaving: if in the history a clear of f is
   followed -- after steps that do not feed f's history -- by a nowrap=True call of f, that call
   is answered with its raw listing (so a clear racing with a call in flight either precedes its
   wrap step: raw answer, new history starts with it; or follows it: the next call is raw) *)
Theorem C10_threads_clear_forgets : forall sched L1 t L2 t' f per raw L3,
  sched_ok idle sched = true ->
  lin idle sched = L1 ++ (t, PClear f) :: L2 ++ (t', PCall f per true raw) :: L3 ->
  no_feed f (map snd L2) = true ->
  exists before after, ctrace [] idle sched = before ++ Val (t', present f per raw) :: after /\
                       length before = (length L1 + 1 + length L2)%nat.
Proof. exact threads_clear_forgets. Qed.
Print Assumptions C10_threads_clear_forgets.

(* read-time reading: under the lock, with no cache_clear while a nowrap=True call is in flight,
   every answer is the one fixed when the call read the kernel (sequential answer against the
   listings read so far) *)
Theorem C10_threads_locked_exact : forall sched,
  sched_ok idle sched = true -> lock_ok None sched = true -> clear_ok None sched = true ->
  ctrace [] idle sched = map Val (spec_ctrace [] idle sched).
Proof. exact locked_exact. Qed.
Print Assumptions C10_threads_locked_exact.

(* fixed finding read-outside-lock: without the lock thread 0 can be pre-empted between its read
   (150) and its wrap step while thread 1 reads 200 and wraps: the listings never go backwards
   in read order, reach the history out of order, thread 0 is answered 350 and the next call 410 *)
Theorem C10_threads_unlocked_refuted :
  exists sched, sched_ok idle sched = true /\ clear_ok None sched = true /\ lock_ok None sched = false /\
    reads_nowrap sched = [PCall Net true true (eth 100); PCall Net true true (eth 150);
                          PCall Net true true (eth 200); PCall Net true true (eth 210)] /\
    nowrap_calls (map snd (lin idle sched)) = [PCall Net true true (eth 100); PCall Net true true (eth 200);
                                                PCall Net true true (eth 150); PCall Net true true (eth 210)] /\
    spec_ctrace [] idle sched =
      [(0%nat, PDict (eth 100)); (1%nat, PDict (eth 200)); (0%nat, PDict (eth 150)); (1%nat, PDict (eth 210))] /\
    ctrace [] idle sched =
      [Val (0%nat, PDict (eth 100)); Val (1%nat, PDict (eth 200)); Val (0%nat, PDict (eth 350)); Val (1%nat, PDict (eth 410))].
Proof. exact unlocked_refuted. Qed.
Print Assumptions C10_threads_unlocked_refuted.

(* exception-atomicity of run().  run() as a sequence of state updates with a possible abort
   after each ([run_points]): an exception before the first update leaves the state untouched *)
Theorem C10_abort_first_untouched : forall s f inp, hd s (run_points s f inp) = s.
Proof. exact abort_first_untouched. Qed.
Print Assumptions C10_abort_first_untouched.

(* ... the last point is the completed call ... *)
Theorem C10_abort_last_is_run : forall s f inp s' o,
  run s f inp = Val (s', o) -> last (run_points s f inp) s = s'.
Proof. exact abort_last_is_run. Qed.
Print Assumptions C10_abort_last_is_run.

(* ... and an exception between the offset update and the cache store would leave neither: the next
   call counts the wrap 100 -> 10 again (210 answered; 110 demanded whether or not the failed call is
   taken to have happened).  So the code relies on that section never raising: *)
Theorem C10_abort_in_commit_section_refuted :
  exists s p, wexec [] abort_pre = Val s /\ nth_error (run_points s (bs "n") abort_call) 1 = Some p /\
    wtrace p [WRun (bs "n") abort_call] = [Val (ODict [(bs "a", [210])])] /\
    spec_wtrace_total [] (abort_pre ++ [WRun (bs "n") abort_call]) =
      [Val (ODict [(bs "a", [100])]); Val (ODict [(bs "a", [110])])] /\
    spec_wtrace_total [] (abort_pre ++ [WRun (bs "n") abort_call; WRun (bs "n") abort_call]) =
      [Val (ODict [(bs "a", [100])]); Val (ODict [(bs "a", [110])]); Val (ODict [(bs "a", [110])])].
Proof. exact abort_in_commit_section_refuted. Qed.
Print Assumptions C10_abort_in_commit_section_refuted.

(* ... which holds of the source under test (table generated from psutil/_common.py by ast on every
   run): every call / raise / assert / yield in the commit sections of run (from the call of
   _remove_dead_reminders to the store into self.cache), _remove_dead_reminders (from its first del
   on) and _add_dict (from its first store on) is one of the operations that cannot raise there
   (no I/O, no logging, no user callback); the translator fails closed when a section is not found *)
Theorem C10_commit_section_cannot_raise :
  forallb op_safe gen_wrap_ops = true /\
  existsb (fun fo => beqb (fst fo) (bs "run") && beqb (snd fo) (bs "._remove_dead_reminders")) gen_wrap_ops = true.
Proof. exact commit_section_cannot_raise. Qed.
Print Assumptions C10_commit_section_cannot_raise.

(* os.fork().  [FFork child] in the history language: the process forks and the child makes the
   calls [child].  Every history of calls and forks: the parent's and every child's answers are the
   demanded ones, the child continuing the history as of the fork (fork = identity on the wrap state) *)
Theorem C10_fork_exact : forall ops, forallb fop_ok ops = true ->
  ftrace [] ops = (map Val (fst (spec_ftrace [] ops)), map (map Val) (snd (spec_ftrace [] ops))).
Proof. exact fork_exact. Qed.
Print Assumptions C10_fork_exact.

(* the child's answers equal those of the unforked continuation *)
Theorem C10_fork_child_continues : forall pre child,
  snd (spec_ftrace [] (map FCall pre ++ [FFork child])) = [skipn (length pre) (spec_ptrace [] (pre ++ child))].
Proof. exact fork_child_continues. Qed.
Print Assumptions C10_fork_child_continues.

(* the parent's answers do not depend on its forks *)
Theorem C10_fork_parent_unaffected : forall ops g, fst (spec_ftrace g ops) = spec_ptrace g (calls_of ops).
Proof. exact fork_parent_unaffected. Qed.
Print Assumptions C10_fork_parent_unaffected.

(* the model's "fork = identity" holds of the source under test (table generated by ast on every run):
   no handler passed to os.register_at_fork in psutil/_common.py / psutil/__init__.py touches cache,
   reminders, reminder_keys, cache_clear, re-creates _wn or cannot be resolved (locks may be
   taken, released or re-created) *)
Theorem C10_fork_handlers_keep_history : forallb handler_safe gen_fork_handlers = true.
Proof. exact fork_handlers_keep_history. Qed.
Print Assumptions C10_fork_handlers_keep_history.
