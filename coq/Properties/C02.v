(* C02 -- Process ==, hash() and is_running() follow the process, not the PID.
   Statements only; proofs live in Proc/Proofs*.v.  Model of psutil: Proc/Model.v; kernel, ghost incarnations
   and demanded answers: Proc/Spec.v.  See the reading guide in Properties/C01.v.

   Histories [h] contain, besides spawn/exit/reap/PID reuse, ClockStep events (the boot time the kernel
   publishes changes) and arbitrary interleaved psutil calls: boot_time(), create_time(), process_iter(),
   is_running()/ppid()/signals/setters on any object.  Every theorem is quantified over all of them, so the
   answers do not depend on clock adjustments or on other calls made in between.  Objects are those created at
   any point of the history, by Process(pid) or by process_iter(). *)
(* NOTE on [wf_hist]: besides "a PID is handed out only when free" and "distinct start ticks per PID" it excludes
   Deny events: the theorems stated over well-formed histories are for a kernel that lets psutil read
   /proc/<pid>/stat.  Without that psutil cannot tell a process from a later owner of its PID (is_running() stays
   True, == is False against identified objects); what is demanded and proved there -- for EVERY history -- is in
   the second group of theorems below (C02_identity_never_changes ... C02_example_no_identity). *)
From PV Require Import Proc.Spec Proc.ProofsInv Proc.ProofsStep Proc.Proofs Proc.ProofsPure.

(* a == b exactly when both objects were created for the same process start ... *)
Theorem C02_eq_iff_same_incarnation : forall h a b,
  wf_hist h = true -> has_obj (run h) a = true -> has_obj (run h) b = true ->
  outcome_of (run h) (EC (EqC a b)) = Val (RBool (g_inc (run h) a =? g_inc (run h) b)).
Proof. exact eq_iff_same_incarnation. Qed.
Print Assumptions C02_eq_iff_same_incarnation.

(* (objects of one process start necessarily carry the same PID) *)
Theorem C02_same_incarnation_same_pid : forall h a b,
  wf_hist h = true -> has_obj (run h) a = true -> has_obj (run h) b = true ->
  g_inc (run h) a = g_inc (run h) b -> obj_pid (run h) a = obj_pid (run h) b.
Proof. exact same_incarnation_same_pid. Qed.
Print Assumptions C02_same_incarnation_same_pid.

(* objects with different PIDs are never equal and hash differently -- also when the start ticks coincide *)
Theorem C02_different_pid_not_equal : forall h a b,
  wf_hist h = true -> has_obj (run h) a = true -> has_obj (run h) b = true ->
  obj_pid (run h) a <> obj_pid (run h) b ->
  outcome_of (run h) (EC (EqC a b)) = Val (RBool false)
  /\ outcome_of (run h) (EC (HashEq a b)) = Val (RHash false true).
Proof. exact different_pid_not_equal. Qed.
Print Assumptions C02_different_pid_not_equal.

(* == against something that is not a Process (an int, a tuple equal to the identity, any object): False,
   nothing changes (any world) *)
Theorem C02_eq_non_process : forall w o, has_obj w o = true ->
  outcome_of w (EC (EqOther o)) = Val (RBool false) /\ effects_of w (EC (EqOther o)) = []
  /\ ms (next w (EC (EqOther o))) = ms w.
Proof. exact eq_other_false. Qed.
Print Assumptions C02_eq_non_process.

(* psutil.Popen whose child is gone before the object is built (the only public way to an object without
   identity): Process(pid) raises, Popen gives an object bound to no process -- ghost = the negative token of
   its PID, never alive; so by C02_is_running_spec / C02_is_running_monotone is_running() is False for ever, by
   C02_eq_iff_same_incarnation it equals exactly the other such objects of the same PID (the code's answer; the
   property text says nothing about objects without a process), and by the C01 theorems every signal/setter on
   it raises NoSuchProcess without a system call *)
Theorem C02_popen_gone_child : forall h pid,
  wf_hist h = true -> 0 <= pid < PID_MAX -> owner (run h) pid = None ->
  let n := length (objs (ms (run h))) in
  let w' := next (run h) (EC (NewPopen pid)) in
  outcome_of (run h) (EC (New pid)) = Exc NoSuchProcess
  /\ outcome_of (run h) (EC (NewPopen pid)) = Val (RObj n)
  /\ has_obj w' n = true /\ obj_pid w' n = pid /\ g_inc w' n = -1 - pid
  /\ alive w' (g_inc w' n) = false.
Proof. exact popen_gone_child. Qed.
Print Assumptions C02_popen_gone_child.

(* ... hash(a) == hash(b) exactly then too, and each hash() equals the value it had the first time *)
Theorem C02_hash_follows_eq : forall h a b,
  wf_hist h = true -> has_obj (run h) a = true -> has_obj (run h) b = true ->
  outcome_of (run h) (EC (HashEq a b)) = Val (RHash (g_inc (run h) a =? g_inc (run h) b) true).
Proof. exact hash_follows_eq. Qed.
Print Assumptions C02_hash_follows_eq.

(* what "created for" means: Process(pid) binds the new object to the process that owns the PID at that
   moment, with that PID ... *)
Theorem C02_new_records_owner : forall h pid n,
  wf_hist h = true -> outcome_of (run h) (EC (New pid)) = Val (RObj n) ->
  n = length (objs (ms (run h))) /\ has_obj (next (run h) (EC (New pid))) n = true
  /\ owner (run h) pid = Some (g_inc (next (run h) (EC (New pid))) n)
  /\ obj_pid (next (run h) (EC (New pid))) n = pid.
Proof. exact new_records_owner. Qed.
Print Assumptions C02_new_records_owner.

(* ... and neither that binding nor the pid attribute ever changes, whatever happens afterwards *)
Theorem C02_binding_stable : forall h1 h2 o,
  wf_hist (h1 ++ h2) = true -> has_obj (run h1) o = true ->
  has_obj (run (h1 ++ h2)) o = true /\ g_inc (run (h1 ++ h2)) o = g_inc (run h1) o
  /\ obj_pid (run (h1 ++ h2)) o = obj_pid (run h1) o.
Proof. exact ginc_stable. Qed.
Print Assumptions C02_binding_stable.

(* is_running() is True exactly while that very process is in the process table (zombie included) *)
Theorem C02_is_running_spec : forall h o,
  wf_hist h = true -> has_obj (run h) o = true ->
  outcome_of (run h) (EC (IsRunning o)) = Val (RBool (alive (run h) (g_inc (run h) o))).
Proof. exact is_running_answer. Qed.
Print Assumptions C02_is_running_spec.

(* once False, False ever after -- also when the PID is alive again under a new process *)
Theorem C02_is_running_monotone : forall h1 h2 o,
  wf_hist (h1 ++ h2) = true -> has_obj (run h1) o = true ->
  outcome_of (run h1) (EC (IsRunning o)) = Val (RBool false) ->
  outcome_of (run (h1 ++ h2)) (EC (IsRunning o)) = Val (RBool false).
Proof. exact is_running_monotone. Qed.
Print Assumptions C02_is_running_monotone.

(* wait() / wait_procs() on a PID that os.kill / os.waitpid do not see in the caller's PID namespace (PROCFS_PATH
   points at a foreign procfs): [Wait o false] returns None at once -- and every later is_running(), on that
   object or any other, still follows the process table (all theorems above are over histories that contain
   such calls; this spells one instance out) *)
Theorem C02_wait_foreign_harmless : forall h o o',
  wf_hist h = true -> has_obj (run h) o = true -> has_obj (run h) o' = true -> 0 < obj_pid (run h) o ->
  (outcome_of (run h) (EC (Wait o false)) = Val RNone)
  /\ outcome_of (next (run h) (EC (Wait o false))) (EC (IsRunning o'))
     = Val (RBool (alive (run h) (g_inc (run h) o'))).
Proof. exact wait_foreign_harmless. Qed.
Print Assumptions C02_wait_foreign_harmless.

(* wait_procs([o], timeout=0), whether or not the caller's namespace sees the PID: a process still in the table
   is not reported gone; a process gone whose PID nobody has is *)
Theorem C02_wait_procs_follows_table : forall w o vis, Inv w -> has_obj w o = true -> 0 < obj_pid w o ->
  (alive w (g_inc w o) = true -> outcome_of w (EC (WaitProcs o vis)) = Val (RBool false))
  /\ (alive w (g_inc w o) = false -> owner w (obj_pid w o) = None ->
      outcome_of w (EC (WaitProcs o vis)) = Val (RBool true)).
Proof. exact wait_procs_answer. Qed.
Print Assumptions C02_wait_procs_follows_table.

(* ---- consistency and stability of ==, hash() and is_running() over the whole life of ONE object, after EVERY
   history: events in any order, well formed or not, including Deny/Allow events (the stat file of a PID cannot be
   read: EACCES) -- so including objects built while the file was unreadable (_ident = (pid, None)), compared or
   probed before and after it becomes readable, with the PID recycled in between.  No hypothesis at all. *)

(* the identity (pid, start ticks or None) an object was built with never changes: hash() repeats for ever,
   membership in a set or dict built earlier cannot change, nothing is adopted from a later owner of the PID *)
Theorem C02_identity_never_changes : forall h1 h2 o id,
  obj_ident (run h1) o = Some id -> obj_ident (run (h1 ++ h2)) o = Some id.
Proof. exact identity_never_changes. Qed.
Print Assumptions C02_identity_never_changes.

(* hash agrees with == in every world: the two answers are the same boolean, and each hash() equals the hash
   of the object's identity (second component true); in particular equal objects hash alike *)
Theorem C02_hash_agrees_with_eq : forall h a b,
  has_obj (run h) a = true -> has_obj (run h) b = true ->
  exists e, outcome_of (run h) (EC (EqC a b)) = Val (RBool e)
            /\ outcome_of (run h) (EC (HashEq a b)) = Val (RHash e true).
Proof. exact hash_agrees_with_eq. Qed.
Print Assumptions C02_hash_agrees_with_eq.

Theorem C02_equal_implies_same_hash : forall h a b,
  has_obj (run h) a = true -> has_obj (run h) b = true ->
  outcome_of (run h) (EC (EqC a b)) = Val (RBool true) ->
  outcome_of (run h) (EC (HashEq a b)) = Val (RHash true true).
Proof. exact equal_implies_same_hash. Qed.
Print Assumptions C02_equal_implies_same_hash.

(* copies (copy.copy / copy.deepcopy / pickle round trip, where the tree under test produces one -- [Copy o how true]):
   in ANY world the copy carries exactly the identity of its original, which keeps its own; with
   C02_identity_never_changes both keep it for ever, so copy == original and hash alike for ever
   (C02_hash_agrees_with_eq), and a copy of a stale object is never given the identity of the PID's new owner *)
Theorem C02_copy_has_identity_of_original : forall w o hw n,
  outcome_of w (EC (Copy o hw true)) = Val (RObj n) ->
  obj_ident (next w (EC (Copy o hw true))) n = obj_ident w o /\ obj_ident w o <> None
  /\ obj_ident (next w (EC (Copy o hw true))) o = obj_ident w o.
Proof. exact copy_has_identity_of_original. Qed.
Print Assumptions C02_copy_has_identity_of_original.

(* ... and (well-formed histories) it is bound to the incarnation its original is bound to: every theorem of this
   file and of Properties/C01.v that speaks about "an object of a reachable world" speaks about copies too *)
Theorem C02_copy_binding : forall h o hw n,
  wf_hist h = true -> outcome_of (run h) (EC (Copy o hw true)) = Val (RObj n) ->
  let w' := run (h ++ [EC (Copy o hw true)]) in
  has_obj w' n = true /\ has_obj (run h) o = true
  /\ g_inc w' n = g_inc (run h) o /\ obj_pid w' n = obj_pid (run h) o
  /\ (forall i, alive w' i = alive (run h) i) /\ (forall p, owner w' p = owner (run h) p).
Proof. exact copy_binding. Qed.
Print Assumptions C02_copy_binding.

(* once an is_running() call has answered False, every later one answers False -- whatever happens in between *)
Theorem C02_is_running_false_for_ever : forall h1 h2 o,
  outcome_of (run h1) (EC (IsRunning o)) = Val (RBool false) ->
  outcome_of (run (h1 ++ EC (IsRunning o) :: h2)) (EC (IsRunning o)) = Val (RBool false).
Proof. exact is_running_false_for_ever. Qed.
Print Assumptions C02_is_running_false_for_ever.

(* an object without identity equals no object that has one: not a fresh object for the very same process, not
   an object of a later owner of the PID (psutil cannot know; it never guesses) *)
Theorem C02_no_identity_equals_none_with_identity : forall h a b x y,
  nth_error (objs (ms (run h))) a = Some x -> nth_error (objs (ms (run h))) b = Some y ->
  ostart x = None -> ostart y <> None ->
  outcome_of (run h) (EC (EqC a b)) = Val (RBool false)
  /\ outcome_of (run h) (EC (EqC b a)) = Val (RBool false).
Proof. exact no_identity_equals_none_with. Qed.
Print Assumptions C02_no_identity_equals_none_with_identity.

(* the class is inhabited: stat of PID 5 unreadable while object 0 is built (no identity), hash taken, the PID
   recycled, the file readable again, a fresh object 1 for the new owner: identity and hash of object 0 unchanged,
   0 != 1, is_running() of object 0 False (and the identity still (5, None) after further calls) *)
Theorem C02_example_no_identity :
  obj_ident (run ex_blind) 0 = Some (5, None) /\ obj_ident (run ex_blind) 1 = Some (5, Some 101)
  /\ outcome_of (run ex_blind) (EC (HashEq 0 0)) = Val (RHash true true)
  /\ outcome_of (run ex_blind) (EC (EqC 0 1)) = Val (RBool false)
  /\ outcome_of (run ex_blind) (EC (IsRunning 0)) = Val (RBool false)
  /\ obj_ident (run (ex_blind ++ [EC (IsRunning 0); EC (HashEq 0 1)])) 0 = Some (5, None).
Proof. exact ex_blind_ok. Qed.
Print Assumptions C02_example_no_identity.

(* the answers the harness demands of the implementation (spec_call) are met by the model in every reachable world *)
Theorem C02_model_meets_spec : forall h c, wf_hist h = true ->
  match spec_call (run h) c with
  | Some l => In (outcome_of (run h) (EC c), delivered (effects_of (run h) (EC c))) l
  | None => True
  end.
Proof. exact step_meets_spec. Qed.
Print Assumptions C02_model_meets_spec.

(* the hypotheses are satisfiable: two objects for one process, the second created after a clock step and
   boot_time() (the history on which the code before 5d0422d answered != and is_running() False); the process is
   a zombie at the end and still running for psutil *)
Theorem C02_example_clock_step :
  wf_hist ex_live = true /\ has_obj (run ex_live) 0 = true /\ has_obj (run ex_live) 1 = true
  /\ alive (run ex_live) (g_inc (run ex_live) 0) = true
  /\ outcome_of (run ex_live) (EC (EqC 0 1)) = Val (RBool true)
  /\ outcome_of (run ex_live) (EC (IsRunning 0)) = Val (RBool true)
  /\ outcome_of (run ex_live) (EC (Set_ 0%nat Kill)) = Val RNone
  /\ effects_of (run ex_live) (EC (Set_ 0%nat Kill)) = [(SKill 5 9, Some 0)].
Proof. exact ex_live_ok. Qed.
Print Assumptions C02_example_clock_step.


(* Wave 8 -- no process-wide "who am I" state.  Process() without argument in a process whose own os.getpid() is [me]
   (Model.process_noarg: the only use the code makes of the caller's PID), [me] being a number of the table psutil reads
   (PROCFS_PATH on a foreign PID namespace; a forked child; one's own entry after it was reused): with no entry for [me]
   the construction raises NoSuchProcess; otherwise the new object is bound to whoever owns [me] in the table at that
   moment, and is_running() on it is "that incarnation is in the table" -- so, with C02_binding_stable,
   C02_is_running_spec / _monotone and C02_eq_iff_same_incarnation (all quantified over every object of every history,
   handles on one's own number included), an old handle on one's own number is not running and unequal to a fresh one
   once the entry was recycled. *)
Theorem C02_own_pid_handle_follows_table : forall h me,
  wf_hist h = true -> 0 <= me < PID_MAX ->
  (owner (run h) me = None -> outcome_of (run h) (EC (process_noarg me)) = Exc NoSuchProcess)
  /\ (forall n, outcome_of (run h) (EC (process_noarg me)) = Val (RObj n) ->
        let h' := h ++ [EC (process_noarg me)] in
        wf_hist h' = true /\ has_obj (run h') n = true /\ obj_pid (run h') n = me
        /\ owner (run h) me = Some (g_inc (run h') n)
        /\ outcome_of (run h') (EC (IsRunning n)) = Val (RBool (alive (run h') (g_inc (run h') n)))).
Proof. exact own_pid_handle_follows_table. Qed.
Print Assumptions C02_own_pid_handle_follows_table.
