(* C06 -- per-process kernel facts are exact, whatever bytes the process or thread
   name contains.  Statements only; proofs live in C06/Proofs*.v.
   Model: C06/Model.v (transcription of psutil/_pslinux.py, _psposix.get_terminal_map),
   specification: C06/Spec.v (kernel formats from proc(5) / fs/proc/array.c),
   generated table: Gen/C06_Tables.v (PROC_STATUSES of the tree under test). *)
From PV Require Import C06.Spec C06.ProofsStat C06.ProofsThreads C06.ProofsStatus C06.ProofsTty.
From Coq Require Import Permutation.

(* /proc/<pid>/stat: for EVERY comm (any bytes, any length: spaces, parentheses,
   newlines, non-UTF-8), every pid, every list of >= 37 printed fields after the
   name, the parser yields exactly the proc(5) fields (3) (4) (7) (14)-(17) (22) (39)
   and (42) (absent on old kernels) and the name *)
Theorem C06_stat_roundtrip : forall r,
  wf_kstat r = true ->
  exists x, spec_pstat r = Some x /\ parse_stat_file (k_stat r) = Val x.
Proof. exact stat_roundtrip. Qed.
Print Assumptions C06_stat_roundtrip.

(* ... and a record that is too short raises IndexError, nothing else *)
Theorem C06_stat_short_records : forall r,
  is_dec (k_pid r) && forallb fld_ok (k_after r) = true ->
  parse_stat_file (k_stat r) = of_option IndexError (spec_pstat r).
Proof. exact parse_stat_spec. Qed.
Print Assumptions C06_stat_short_records.

Theorem C06_name_exact : forall r, wf_kstat r = true -> name (k_stat r) = Val (k_comm r).
Proof. exact name_exact. Qed.
Print Assumptions C06_name_exact.

Theorem C06_ppid_exact : forall r d,
  wf_kstat r = true -> fld 4 r = Some d -> is_dec d = true -> ppid (k_stat r) = Val (dec_val d).
Proof. exact ppid_exact. Qed.
Print Assumptions C06_ppid_exact.

Theorem C06_cpu_num_exact : forall r d,
  wf_kstat r = true -> fld 39 r = Some d -> is_dec d = true -> cpu_num (k_stat r) = Val (dec_val d).
Proof. exact cpu_num_exact. Qed.
Print Assumptions C06_cpu_num_exact.

(* the twelve documented letters, in the table dumped from the code, give the documented constants *)
Theorem C06_status_letters_total :
  forallb (fun e => beqb (status_get proc_statuses [fst e]) (snd e)) documented_statuses = true.
Proof. exact status_letters_total. Qed.
Print Assumptions C06_status_letters_total.

Theorem C06_status_exact : forall r c s,
  wf_kstat r = true -> fld 3 r = Some [c] -> spec_status documented_statuses c = Some s ->
  status (k_stat r) = Val s.
Proof. exact status_exact. Qed.
Print Assumptions C06_status_exact.

(* clock ticks divided by the tick rate, exactly (any magnitude, any tick rate) *)
Theorem C06_cpu_times_exact : forall clk r ut stm cut cst,
  wf_kstat r = true ->
  fld 14 r = Some ut -> fld 15 r = Some stm -> fld 16 r = Some cut -> fld 17 r = Some cst ->
  is_dec ut = true -> is_dec stm = true -> is_dec cut = true -> is_dec cst = true ->
  match fld 42 r with Some b => is_dec b = true | None => True end ->
  cpu_times clk (k_stat r) = Val (spec_cpu_times clk ut stm cut cst (fld 42 r)).
Proof. exact cpu_times_exact. Qed.
Print Assumptions C06_cpu_times_exact.

(* start time offset by boot time *)
Theorem C06_create_time_exact : forall clk bt r st,
  wf_kstat r = true -> fld 22 r = Some st -> is_dec st = true ->
  create_time clk bt (k_stat r) = Val (spec_create_time clk bt st).
Proof. exact create_time_exact. Qed.
Print Assumptions C06_create_time_exact.

(* psutil.Process(pid) reads the start time first; on a kernel record that never fails, so
   every statement above about an accessor is a statement about the public call *)
Theorem C06_front_transparent : forall (A : Type) r st (o : outcome A),
  wf_kstat r = true -> fld 22 r = Some st -> is_dec st = true -> front (k_stat r) o = o.
Proof. exact @front_transparent. Qed.
Print Assumptions C06_front_transparent.

Theorem C06_example_hostile_stat :
  wf_kstat ex_kstat = true /\ fld 3 ex_kstat = Some [116] /\ fld 4 ex_kstat = Some (bs "7")
  /\ spec_status documented_statuses 116 = Some (bs "tracing-stop")
  /\ fld 42 ex_kstat = Some (bs "9") /\ fld 39 ex_kstat = Some (bs "3").
Proof. exact ex_kstat_wf. Qed.
Print Assumptions C06_example_hostile_stat.

(* tty number -> device path.  The number in stat is the one os.stat() reports for the node ... *)
Theorem C06_tty_encode_agree : forall M m,
  0 <= M < 4096 -> 0 <= m < 4294967296 -> kernel_encode_dev M m = glibc_makedev M m.
Proof. exact tty_encode_agree. Qed.
Print Assumptions C06_tty_encode_agree.

(* ... so terminal() is the path of the listed node with the task's (major, minor), for every
   /dev listing of device nodes and every minor of the kernel's range (20 bits) *)
Theorem C06_terminal_exact : forall devs r M m t,
  wf_kstat r = true -> forallb wf_dev devs = true ->
  1 <= M < 4096 -> 0 <= m < 1048576 ->
  fld 7 r = Some t -> parse_int t = Some (as_int32 (kernel_encode_dev M m)) ->
  terminal true (map dev_entry devs) (k_stat r) = Val (spec_terminal M m devs None).
Proof. exact terminal_exact. Qed.
Print Assumptions C06_terminal_exact.

Theorem C06_terminal_none : forall devs r,
  wf_kstat r = true -> forallb wf_dev devs = true -> fld 7 r = Some [48] ->
  terminal true (map dev_entry devs) (k_stat r) = Val None.
Proof. exact terminal_none. Qed.
Print Assumptions C06_terminal_none.

Theorem C06_example_terminal :
  wf_kstat ex_kstat = true /\ forallb wf_dev ex_devs = true /\ fld 7 ex_kstat = Some (bs "34816")
  /\ parse_int (bs "34816") = Some (as_int32 (kernel_encode_dev 136 0))
  /\ spec_terminal 136 0 ex_devs None = Some (bs "/dev/pts/0").
Proof. exact ex_terminal. Qed.
Print Assumptions C06_example_terminal.

(* the code before the repair 2414912 (masked = false) failed this for minor >= 2^19: the kernel
   prints its `int tty_nr` negative and the lookup missed the node; the repaired code finds it *)
Theorem C06_terminal_signed_refuted :
  exists r devs M m t,
    wf_kstat r = true /\ forallb wf_dev devs = true /\ 1 <= M < 4096 /\ 0 <= m < 1048576 /\
    fld 7 r = Some t /\ parse_int t = Some (as_int32 (kernel_encode_dev M m)) /\
    spec_terminal M m devs None = Some (bs "/dev/pts/524288") /\
    terminal false (map dev_entry devs) (k_stat r) = Val None /\
    terminal true (map dev_entry devs) (k_stat r) = Val (Some (bs "/dev/pts/524288")).
Proof. exact terminal_signed_refuted. Qed.
Print Assumptions C06_terminal_signed_refuted.

(* threads(): any number of threads, each with its own name (any bytes); one row per
   thread still there, exact times; vanished threads left out; never fails for a live process *)
Theorem C06_threads_roundtrip : forall clk ts alive own,
  forallb wf_kthread ts = true ->
  alive = true \/ any_gone ts = false ->
  threads clk (map task_entry ts) alive own = Val (spec_trows clk (sort_by t_tid ts)).
Proof. exact threads_roundtrip. Qed.
Print Assumptions C06_threads_roundtrip.

Theorem C06_threads_total : forall clk ts alive own,
  forallb wf_kthread ts = true ->
  threads clk (map task_entry ts) alive own = Val (spec_trows clk (sort_by t_tid ts))
  \/ (alive = false /\ any_gone ts = true /\
      (threads clk (map task_entry ts) alive own = Exc NoSuchProcess
       \/ threads clk (map task_entry ts) alive own = Exc ZombieProcess)).
Proof. exact threads_total. Qed.
Print Assumptions C06_threads_total.

(* the order of the rows is a rearrangement of the kernel's threads (sorted by directory name) *)
Theorem C06_threads_order_perm : forall ts : list kthread, Permutation (sort_by t_tid ts) ts.
Proof. exact threads_order_perm. Qed.
Print Assumptions C06_threads_order_perm.

Theorem C06_example_hostile_threads :
  forallb wf_kthread ex_threads = true /\
  spec_trows 100 (sort_by t_tid ex_threads) = [TRow 10 (1 # 100) (2 # 100); TRow 9 (14 # 100) (12 # 100)].
Proof. exact ex_threads_wf. Qed.
Print Assumptions C06_example_hostile_threads.

(* ppid_map(): every process, any name *)
Theorem C06_ppid_map_roundtrip : forall ps,
  forallb wf_kproc ps = true -> ppid_map (map proc_entry ps) = Val (spec_ppid_map ps).
Proof. exact ppid_map_roundtrip. Qed.
Print Assumptions C06_ppid_map_roundtrip.

(* /proc/<pid>/status: for EVERY comm (any bytes, any length) *)
Theorem C06_uids_exact : forall r, wf_kstatus r = true -> uids (k_status r) = Val (spec_uids r).
Proof. exact uids_exact. Qed.
Print Assumptions C06_uids_exact.

Theorem C06_gids_exact : forall r, wf_kstatus r = true -> gids (k_status r) = Val (spec_gids r).
Proof. exact gids_exact. Qed.
Print Assumptions C06_gids_exact.

Theorem C06_num_threads_exact : forall r,
  wf_kstatus r = true -> num_threads (k_status r) = Val (spec_num_threads r).
Proof. exact num_threads_exact. Qed.
Print Assumptions C06_num_threads_exact.

(* the unanchored ctxt_switches pattern: exact for every comm of at most 15 bytes
   (NotImplementedError when the kernel does not print the two lines) *)
Theorem C06_num_ctx_switches_exact : forall r,
  wf_kstatus r = true -> comm_len_ok (s_comm r) = true ->
  num_ctx_switches (k_status r) = spec_ctx r.
Proof. exact num_ctx_switches_exact. Qed.
Print Assumptions C06_num_ctx_switches_exact.

Theorem C06_example_hostile_status :
  wf_kstatus (ex_kstatus (bs "Uid:" ++ [9; 48; 9; 48; 9; 48])) = true
  /\ wf_kstatus (ex_kstatus (bs "Threads:" ++ [9; 57; 57])) = true
  /\ wf_kstatus (ex_kstatus (bs "ctxt_switches:" ++ [9])) = true
  /\ comm_len_ok (bs "ctxt_switches:" ++ [9]) = true.
Proof. exact ex_kstatus_wf. Qed.
Print Assumptions C06_example_hostile_status.

(* the bound 15 is sharp: a 16-byte name (only kernel workqueue threads have one) is read as a counter *)
Theorem C06_ctx_long_name_refuted :
  exists r, wf_kstatus r = true /\ length (s_comm r) = 16%nat
            /\ spec_ctx r = Val (18446744073709551615, 7)
            /\ num_ctx_switches (k_status r) = Val (9, 18446744073709551615).
Proof. exact ctx_long_name_refuted. Qed.
Print Assumptions C06_ctx_long_name_refuted.
