(* C06 -- per-process kernel facts are exact, whatever bytes the process or thread
   name contains.  Statements only; proofs live in C06/Proofs*.v.
   Model: C06/Model.v (transcription of psutil/_pslinux.py, _psposix.get_terminal_map),
   specification: C06/Spec.v (kernel formats from proc(5) / fs/proc/array.c),
   generated table: Gen/C06_Tables.v (PROC_STATUSES of the tree under test). *)
From PV Require Import C06.Spec C06.ProofsStat C06.ProofsThreads C06.ProofsStatus C06.ProofsTty C06.ProofsMisc C06.ProofsCodec C06.ProofsName C06.ProofsSites.
From Coq Require Import Permutation.

(* /proc/<pid>/stat: for EVERY comm (any bytes, any length: spaces, parentheses,
   newlines, non-UTF-8), every pid, every list of >= 37 printed fields after the
   name, the parser yields exactly the proc(5) fields (3) (4) (7) (14)-(17) (22) (39)
   and (42) (absent on old kernels) and the name *)
Theorem C06_stat_roundtrip : forall r,
  wf_kstat r = true ->
  exists x, spec_pstat r = Some x /\ parse_stat_file (k_stat r) = Val x.
Proof. exact stat_roundtrip. Qed.
Print Assumptions C06_stat_roundtrip.

(* ... and a record that is too short raises IndexError, nothing else *)
Theorem C06_stat_short_records : forall r,
  is_dec (k_pid r) && forallb fld_ok (k_after r) = true ->
  parse_stat_file (k_stat r) = of_option IndexError (spec_pstat r).
Proof. exact parse_stat_spec. Qed.
Print Assumptions C06_stat_short_records.

(* every record length N >= 39 (N = 39, 40, 41: kernels without delayacct_blkio_ticks): the
   nine fields and the name are reported whatever N is; field (42) exactly when N >= 42 *)
Theorem C06_stat_fields_by_N : forall r,
  wf_kstat r = true ->
  exists x, parse_stat_file (k_stat r) = Val x /\
    ps_name x = k_comm r /\
    fld 3 r = Some (ps_status x) /\ fld 4 r = Some (ps_ppid x) /\ fld 7 r = Some (ps_ttynr x) /\
    fld 14 r = Some (ps_utime x) /\ fld 15 r = Some (ps_stime x) /\
    fld 16 r = Some (ps_cutime x) /\ fld 17 r = Some (ps_cstime x) /\
    fld 22 r = Some (ps_ctime x) /\ fld 39 r = Some (ps_cpunum x) /\
    ((nfields r < 42)%nat -> ps_blkio x = None) /\
    ((42 <= nfields r)%nat -> exists b, fld 42 r = Some b /\ ps_blkio x = Some b).
Proof. exact stat_fields_by_N. Qed.
Print Assumptions C06_stat_fields_by_N.

(* wf_kstat is: decimal pid, printed fields, and N >= 39 *)
Theorem C06_wf_kstat_N : forall r, wf_kstat r = true -> (39 <= nfields r)%nat.
Proof. exact wf_kstat_N. Qed.
Print Assumptions C06_wf_kstat_N.

Theorem C06_example_record_lengths :
  wf_kstat (ex_short 39) = true /\ nfields (ex_short 39) = 39%nat /\ fld 42 (ex_short 39) = None
  /\ wf_kstat (ex_short 41) = true /\ nfields (ex_short 41) = 41%nat /\ fld 42 (ex_short 41) = None
  /\ wf_kstat (ex_short 42) = true /\ nfields (ex_short 42) = 42%nat /\ fld 42 (ex_short 42) = Some (bs "7")
  /\ wf_kstat (ex_short 38) = false.
Proof. exact ex_short_N. Qed.
Print Assumptions C06_example_record_lengths.

Theorem C06_name_exact : forall r, wf_kstat r = true -> name (k_stat r) = Val (k_comm r).
Proof. exact name_exact. Qed.
Print Assumptions C06_name_exact.

(* name() is a str: decode(comm) under the file-system encoding the interpreter started with
   (utf-8, ascii in the C locale, latin-1) + surrogateescape = os.fsdecode(comm) ... *)
Theorem C06_name_str_exact : forall e r,
  wf_kstat r = true -> name_str e (k_stat r) = Val (fs_decode e (k_comm r)).
Proof. exact name_str_exact. Qed.
Print Assumptions C06_name_str_exact.

(* ... os.fsencode(os.fsdecode(b)) = b for EVERY byte string and each of the three encodings ... *)
Theorem C06_fs_roundtrip : forall e l, wf_bytes l = true -> fs_encode e (fs_decode e l) = Some l.
Proof. exact fs_roundtrip. Qed.
Print Assumptions C06_fs_roundtrip.

(* ... so the returned str always encodes back to the bytes the kernel publishes, and different
   names give different strs *)
Theorem C06_name_str_roundtrip : forall e r,
  wf_kstat r = true -> wf_bytes (k_comm r) = true ->
  exists s, name_str e (k_stat r) = Val s /\ fs_encode e s = Some (k_comm r).
Proof. exact name_str_roundtrip. Qed.
Print Assumptions C06_name_str_roundtrip.

Theorem C06_fs_decode_injective : forall e a b,
  wf_bytes a = true -> wf_bytes b = true -> fs_decode e a = fs_decode e b -> a = b.
Proof. exact fs_decode_injective. Qed.
Print Assumptions C06_fs_decode_injective.

(* the answer depends on the encoding: bytes >= 0x80 that form valid UTF-8 ("caf\xc3\xa9") are one
   character under utf-8, two escaped bytes under ascii, two characters under latin-1 *)
Theorem C06_example_fs_decode :
  fs_decode Utf8 (bs "caf" ++ [195; 169]) = [99; 97; 102; 233]
  /\ fs_decode Ascii (bs "caf" ++ [195; 169]) = [99; 97; 102; 56515; 56489]
  /\ fs_decode Latin1 (bs "caf" ++ [195; 169]) = [99; 97; 102; 195; 169]
  /\ fs_decode Utf8 (bs "a" ++ [226; 130] ++ bs ")" ++ [255; 237; 160; 128]) = [97; 56546; 56450; 41; 56575; 56557; 56480; 56448].
Proof. exact fs_decode_cafe. Qed.
Print Assumptions C06_example_fs_decode.

(* the public name() on ONE object over time.  The object remembers its last answer (self._name);
   on POSIX no read path may consult it: the answer is the same whatever is remembered ... *)
Theorem C06_name_step_memoryless : forall mem mem' k,
  fst (name_step false mem k) = fst (name_step false mem' k).
Proof. exact name_step_memoryless. Qed.
Print Assumptions C06_name_step_memoryless.

(* ... so every answer of a history (any length, any sequence of kernel states: exec to a program
   sharing the 15-byte comm, argv[0] matching or not, zombie, cmdline denied or gone, PID reuse)
   is a function of the kernel state at that moment only ... *)
Theorem C06_name_hist_independent : forall mem ks,
  name_hist false mem ks = map (fun k => fst (name_step false None k)) ks.
Proof. exact name_hist_independent. Qed.
Print Assumptions C06_name_hist_independent.

Theorem C06_name_hist_any_past : forall mem mem' ks, name_hist false mem ks = name_hist false mem' ks.
Proof. exact name_hist_any_past. Qed.
Print Assumptions C06_name_hist_any_past.

(* ... namely the documented one: comm, or the base name of argv[0] when comm is >= 15 bytes and
   that name starts with it; comm for a zombie or a denied cmdline *)
Theorem C06_name_now_exact : forall mem k x,
  wf_kstat (n_stat k) = true -> spec_name_now k = Some x ->
  fst (name_step false mem (now_state k)) = Val x.
Proof. exact name_now_exact. Qed.
Print Assumptions C06_name_now_exact.

Theorem C06_name_hist_exact : forall mem ks xs,
  forallb (fun k => wf_kstat (n_stat k)) ks = true ->
  map spec_name_now ks = map Some xs ->
  name_hist false mem (map now_state ks) = map Val xs.
Proof. exact name_hist_exact. Qed.
Print Assumptions C06_name_hist_exact.

(* a front end that answers from its memory (the Windows branch, windows = true) IS history dependent *)
Theorem C06_name_cached_refuted :
  exists mem k, fst (name_step true mem k) <> fst (name_step true None k).
Proof. exact name_cached_refuted. Qed.
Print Assumptions C06_name_cached_refuted.

Theorem C06_example_name_history :
  forallb (fun k => wf_kstat (n_stat k)) ex_history = true /\
  map spec_name_now ex_history
  = map Some [bs "gnome-keyring-daemon"; bs "gnome-keyring-dump"; bs "gnome-keyring-d"; bs "gnome-keyring-d"; bs "gnome-keyring-d"].
Proof. exact ex_history_spec. Qed.
Print Assumptions C06_example_name_history.

Theorem C06_ppid_exact : forall r d,
  wf_kstat r = true -> fld 4 r = Some d -> is_dec d = true -> ppid (k_stat r) = Val (dec_val d).
Proof. exact ppid_exact. Qed.
Print Assumptions C06_ppid_exact.

Theorem C06_cpu_num_exact : forall r d,
  wf_kstat r = true -> fld 39 r = Some d -> is_dec d = true -> cpu_num (k_stat r) = Val (dec_val d).
Proof. exact cpu_num_exact. Qed.
Print Assumptions C06_cpu_num_exact.

(* the twelve documented letters, in the table dumped from the code, give the documented constants *)
Theorem C06_status_letters_total :
  forallb (fun e => beqb (status_get proc_statuses [fst e]) (snd e)) documented_statuses = true.
Proof. exact status_letters_total. Qed.
Print Assumptions C06_status_letters_total.

(* ... and the table holds NOTHING else: every entry of PROC_STATUSES is one documented
   letter with its documented constant; STATUS_ZOMBIE is "zombie" *)
Theorem C06_status_table_sound :
  forallb (fun e => match fst e with
                    | [c] => match spec_status documented_statuses c with
                             | Some v => beqb v (snd e)
                             | None => false
                             end
                    | _ => false
                    end) proc_statuses = true
  /\ beqb status_zombie (bs "zombie") = true.
Proof. exact (conj status_table_sound status_zombie_const). Qed.
Print Assumptions C06_status_table_sound.

(* hence, for EVERY token: the code's lookup is the documented mapping, '?' elsewhere *)
Theorem C06_status_get_total : forall t, status_get proc_statuses t = spec_status_tok t.
Proof. exact status_get_total. Qed.
Print Assumptions C06_status_get_total.

(* status() for every ASCII state token (documented letter, unknown letter, longer token) *)
Theorem C06_status_total : forall r t,
  wf_kstat r = true -> fld 3 r = Some t -> is_ascii t = true ->
  status (k_stat r) = Val (spec_status_tok t).
Proof. exact status_total. Qed.
Print Assumptions C06_status_total.

(* the public Process.status(): unchanged without a read fault ... *)
Theorem C06_status_front_plain : forall r t s2 s3 e1 e2,
  wf_kstat r = true -> fld 3 r = Some t -> is_ascii t = true ->
  status_public (wrapped status (SData (k_stat r)) s2 s3 e1 e2) = Val (spec_status_tok t).
Proof. exact status_front_plain. Qed.
Print Assumptions C06_status_front_plain.

(* ... and when the read fails (ESRCH / ENOENT) while the re-read shows state Z, the front end
   turns ZombieProcess into STATUS_ZOMBIE = the documented constant of the letter Z *)
Theorem C06_status_front_zombie : forall r first third e1 e2,
  wf_kstat r = true -> fld 3 r = Some [90] -> first = SESRCH \/ first = SENOENT ->
  status_public (wrapped status first (SData (k_stat r)) third e1 e2) = Val (bs "zombie")
  /\ spec_status documented_statuses 90 = Some (bs "zombie").
Proof. exact status_front_zombie. Qed.
Print Assumptions C06_status_front_zombie.

Theorem C06_status_exact : forall r c s,
  wf_kstat r = true -> fld 3 r = Some [c] -> spec_status documented_statuses c = Some s ->
  status (k_stat r) = Val s.
Proof. exact status_exact. Qed.
Print Assumptions C06_status_exact.

(* clock ticks divided by the tick rate, exactly (any magnitude, any tick rate) *)
Theorem C06_cpu_times_exact : forall clk r ut stm cut cst,
  wf_kstat r = true ->
  fld 14 r = Some ut -> fld 15 r = Some stm -> fld 16 r = Some cut -> fld 17 r = Some cst ->
  is_dec ut = true -> is_dec stm = true -> is_dec cut = true -> is_dec cst = true ->
  match fld 42 r with Some b => is_dec b = true | None => True end ->
  cpu_times clk (k_stat r) = Val (spec_cpu_times clk ut stm cut cst (fld 42 r)).
Proof. exact cpu_times_exact. Qed.
Print Assumptions C06_cpu_times_exact.

(* iowait: 0 on kernels without field (42), delayacct_blkio_ticks / CLK otherwise *)
Theorem C06_cpu_times_old_kernel : forall clk r ut stm cut cst,
  wf_kstat r = true -> (nfields r < 42)%nat ->
  fld 14 r = Some ut -> fld 15 r = Some stm -> fld 16 r = Some cut -> fld 17 r = Some cst ->
  is_dec ut = true -> is_dec stm = true -> is_dec cut = true -> is_dec cst = true ->
  cpu_times clk (k_stat r) = Val [secs clk ut; secs clk stm; secs clk cut; secs clk cst; 0 # clk].
Proof. exact cpu_times_old_kernel. Qed.
Print Assumptions C06_cpu_times_old_kernel.

Theorem C06_cpu_times_iowait : forall clk r ut stm cut cst b,
  wf_kstat r = true -> fld 42 r = Some b ->
  fld 14 r = Some ut -> fld 15 r = Some stm -> fld 16 r = Some cut -> fld 17 r = Some cst ->
  is_dec ut = true -> is_dec stm = true -> is_dec cut = true -> is_dec cst = true -> is_dec b = true ->
  cpu_times clk (k_stat r) = Val [secs clk ut; secs clk stm; secs clk cut; secs clk cst; secs clk b].
Proof. exact cpu_times_iowait. Qed.
Print Assumptions C06_cpu_times_iowait.

(* start time offset by boot time *)
Theorem C06_create_time_exact : forall clk bt r st,
  wf_kstat r = true -> fld 22 r = Some st -> is_dec st = true ->
  create_time clk bt (k_stat r) = Val (spec_create_time clk bt st).
Proof. exact create_time_exact. Qed.
Print Assumptions C06_create_time_exact.

(* the monotonic variant (used for the process identity) *)
Theorem C06_create_time_mono_exact : forall clk r st,
  wf_kstat r = true -> fld 22 r = Some st -> is_dec st = true ->
  create_time_mono clk (k_stat r) = Val (secs clk st).
Proof. exact create_time_mono_exact. Qed.
Print Assumptions C06_create_time_mono_exact.

(* boot_time(): the btime line of /proc/stat, wherever it stands *)
Theorem C06_boot_time_exact : forall b,
  wf_kprocstat b = true -> boot_time (k_procstat b) = Val (dec_val (b_btime b)).
Proof. exact boot_time_exact. Qed.
Print Assumptions C06_boot_time_exact.

(* the public create_time(): start ticks / CLK + btime of /proc/stat *)
Theorem C06_create_time_full_exact : forall clk b r st,
  wf_kstat r = true -> fld 22 r = Some st -> is_dec st = true -> wf_kprocstat b = true ->
  create_time_full clk (k_procstat b) (k_stat r) = Val (spec_create_time clk (dec_val (b_btime b)) st).
Proof. exact create_time_full_exact. Qed.
Print Assumptions C06_create_time_full_exact.

(* exact values of different tick counts are at least one tick apart ... *)
Theorem C06_create_time_ticks_apart : forall clk bt s s',
  dec_val s < dec_val s' ->
  (spec_create_time clk bt s + (1 # clk) <= spec_create_time clk bt s')%Q.
Proof. exact create_time_ticks_apart. Qed.
Print Assumptions C06_create_time_ticks_apart.

Theorem C06_secs_ticks_apart : forall clk s s',
  dec_val s < dec_val s' -> (secs clk s + (1 # clk) <= secs clk s')%Q.
Proof. exact secs_ticks_apart. Qed.
Print Assumptions C06_secs_ticks_apart.

(* ... and the float tolerance of the correspondence run, tol x = 2^-48 * max(1,|x|), taken twice
   is narrower than one tick for |x| <= 2^36 s and CLK <= 1024: an off-by-one tick never hides in it *)
Theorem C06_tolerance_below_half_tick : forall clk x,
  (Qabs x <= 68719476736)%Q -> (Zpos clk <= 1024) -> (2 * tol x < 1 # clk)%Q.
Proof. exact tolerance_below_half_tick. Qed.
Print Assumptions C06_tolerance_below_half_tick.

(* psutil.Process(pid) reads the start time first; on a kernel record that never fails, so
   every statement above about an accessor is a statement about the public call *)
Theorem C06_front_transparent : forall (A : Type) r st (o : outcome A),
  wf_kstat r = true -> fld 22 r = Some st -> is_dec st = true -> front (k_stat r) o = o.
Proof. exact @front_transparent. Qed.
Print Assumptions C06_front_transparent.

Theorem C06_example_hostile_stat :
  wf_kstat ex_kstat = true /\ fld 3 ex_kstat = Some [116] /\ fld 4 ex_kstat = Some (bs "7")
  /\ spec_status documented_statuses 116 = Some (bs "tracing-stop")
  /\ fld 42 ex_kstat = Some (bs "9") /\ fld 39 ex_kstat = Some (bs "3").
Proof. exact ex_kstat_wf. Qed.
Print Assumptions C06_example_hostile_stat.

(* tty number -> device path.  The number in stat is the one os.stat() reports for the node ... *)
Theorem C06_tty_encode_agree : forall M m,
  0 <= M < 4096 -> 0 <= m < 4294967296 -> kernel_encode_dev M m = glibc_makedev M m.
Proof. exact tty_encode_agree. Qed.
Print Assumptions C06_tty_encode_agree.

(* ... so terminal() is the path of the listed node with the task's (major, minor), for every
   /dev listing of device nodes and every minor of the kernel's range (20 bits) *)
Theorem C06_terminal_exact : forall devs r M m t,
  wf_kstat r = true -> forallb wf_dev devs = true ->
  1 <= M < 4096 -> 0 <= m < 1048576 ->
  fld 7 r = Some t -> parse_int t = Some (as_int32 (kernel_encode_dev M m)) ->
  terminal true (map dev_entry devs) (k_stat r) = Val (spec_terminal M m devs None).
Proof. exact terminal_exact. Qed.
Print Assumptions C06_terminal_exact.

Theorem C06_terminal_none : forall devs r,
  wf_kstat r = true -> forallb wf_dev devs = true -> fld 7 r = Some [48] ->
  terminal true (map dev_entry devs) (k_stat r) = Val None.
Proof. exact terminal_none. Qed.
Print Assumptions C06_terminal_none.

(* get_terminal_map(): the two glob() calls return exactly the nodes the specification names
   (/dev entries starting with "tty", then /dev/pts entries that are not dot-files) ... *)
Theorem C06_glob_listing : forall dev pts,
  glob_tty (map dev_entry dev) ++ glob_pts (map dev_entry pts) = map dev_entry (listed_nodes dev pts).
Proof. exact glob_listing. Qed.
Print Assumptions C06_glob_listing.

(* ... so for EVERY pair of directory listings (any number of nodes, any names, nodes that vanish
   before os.stat, several paths for one device) terminal() is the path of the last listed node
   with the task's device number *)
Theorem C06_terminal_dirs_exact : forall dev pts r M m t,
  wf_kstat r = true -> forallb wf_dev dev = true -> forallb wf_dev pts = true ->
  1 <= M < 4096 -> 0 <= m < 1048576 ->
  fld 7 r = Some t -> parse_int t = Some (as_int32 (kernel_encode_dev M m)) ->
  terminal true (glob_tty (map dev_entry dev) ++ glob_pts (map dev_entry pts)) (k_stat r)
  = Val (spec_terminal M m (listed_nodes dev pts) None).
Proof. exact terminal_dirs_exact. Qed.
Print Assumptions C06_terminal_dirs_exact.

(* which path wins among duplicates: the last one inserted into the dict *)
Theorem C06_terminal_last_wins : forall M m a d b,
  dev_matches M m d = true -> forallb (fun d => negb (dev_matches M m d)) b = true ->
  spec_terminal M m (a ++ d :: b) None = Some (d_path d).
Proof. exact spec_terminal_last. Qed.
Print Assumptions C06_terminal_last_wins.

(* the answer is always a listed, still existing node with the task's (major, minor) ... *)
Theorem C06_terminal_sound : forall M m devs p,
  spec_terminal M m devs None = Some p ->
  exists d, In d devs /\ d_path d = p /\ dev_matches M m d = true.
Proof. exact spec_terminal_sound. Qed.
Print Assumptions C06_terminal_sound.

(* ... and None only when no listed node has it *)
Theorem C06_terminal_complete : forall M m devs,
  spec_terminal M m devs None = None -> forallb (fun d => negb (dev_matches M m d)) devs = true.
Proof. exact spec_terminal_complete. Qed.
Print Assumptions C06_terminal_complete.

Theorem C06_example_terminal_dirs :
  forallb wf_dev ex_dev = true /\ forallb wf_dev ex_pts = true
  /\ map d_path (listed_nodes ex_dev ex_pts)
     = [bs "/dev/tty1"; bs "/dev/ttyS0"; bs "/dev/pts/0"; bs "/dev/pts/alias0"; bs "/dev/pts/ptmx"]
  /\ spec_terminal 136 0 (listed_nodes ex_dev ex_pts) None = Some (bs "/dev/pts/alias0")
  /\ spec_terminal 4 64 (listed_nodes ex_dev ex_pts) None = None.
Proof. exact ex_terminal_dirs. Qed.
Print Assumptions C06_example_terminal_dirs.

Theorem C06_example_terminal :
  wf_kstat ex_kstat = true /\ forallb wf_dev ex_devs = true /\ fld 7 ex_kstat = Some (bs "34816")
  /\ parse_int (bs "34816") = Some (as_int32 (kernel_encode_dev 136 0))
  /\ spec_terminal 136 0 ex_devs None = Some (bs "/dev/pts/0").
Proof. exact ex_terminal. Qed.
Print Assumptions C06_example_terminal.

(* the code before the repair 2414912 (masked = false) failed this for minor >= 2^19: the kernel
   prints its `int tty_nr` negative and the lookup missed the node; the repaired code finds it *)
Theorem C06_terminal_signed_refuted :
  exists r devs M m t,
    wf_kstat r = true /\ forallb wf_dev devs = true /\ 1 <= M < 4096 /\ 0 <= m < 1048576 /\
    fld 7 r = Some t /\ parse_int t = Some (as_int32 (kernel_encode_dev M m)) /\
    spec_terminal M m devs None = Some (bs "/dev/pts/524288") /\
    terminal false (map dev_entry devs) (k_stat r) = Val None /\
    terminal true (map dev_entry devs) (k_stat r) = Val (Some (bs "/dev/pts/524288")).
Proof. exact terminal_signed_refuted. Qed.
Print Assumptions C06_terminal_signed_refuted.

(* threads(): any number of threads, each with its own name (any bytes); one row per
   thread still there, exact times; vanished threads left out; never fails for a live process *)
Theorem C06_threads_roundtrip : forall clk ts alive own,
  forallb wf_kthread ts = true ->
  alive = true \/ any_gone ts = false ->
  threads clk (map task_entry ts) alive own = Val (spec_trows clk (sort_by t_tid ts)).
Proof. exact threads_roundtrip. Qed.
Print Assumptions C06_threads_roundtrip.

Theorem C06_threads_total : forall clk ts alive own,
  forallb wf_kthread ts = true ->
  threads clk (map task_entry ts) alive own = Val (spec_trows clk (sort_by t_tid ts))
  \/ (alive = false /\ any_gone ts = true /\
      (threads clk (map task_entry ts) alive own = Exc NoSuchProcess
       \/ threads clk (map task_entry ts) alive own = Exc ZombieProcess)).
Proof. exact threads_total. Qed.
Print Assumptions C06_threads_total.

(* the order of the rows is a rearrangement of the kernel's threads (sorted by directory name) *)
Theorem C06_threads_order_perm : forall ts : list kthread, Permutation (sort_by t_tid ts) ts.
Proof. exact threads_order_perm. Qed.
Print Assumptions C06_threads_order_perm.

Theorem C06_example_hostile_threads :
  forallb wf_kthread ex_threads = true /\
  spec_trows 100 (sort_by t_tid ex_threads) = [TRow 10 (1 # 100) (2 # 100); TRow 9 (14 # 100) (12 # 100)].
Proof. exact ex_threads_wf. Qed.
Print Assumptions C06_example_hostile_threads.

(* ppid_map() over ANY /proc listing: processes with any names -- present, vanished, or
   unreadable -- and non-numeric entries, in any order *)
Theorem C06_ppid_map_roundtrip : forall es,
  forallb wf_kentry es = true -> ppid_map (map entry_of es) = Val (spec_ppid_map es).
Proof. exact ppid_map_roundtrip. Qed.
Print Assumptions C06_ppid_map_roundtrip.

(* pids(): exactly the process entries of the listing *)
Theorem C06_pids_exact : forall es,
  forallb wf_kentry es = true -> pids (map fst (map entry_of es)) = spec_pids es.
Proof. exact pids_exact. Qed.
Print Assumptions C06_pids_exact.

Theorem C06_ppid_map_subset : forall es, incl (map fst (spec_ppid_map es)) (spec_pids es).
Proof. exact ppid_map_subset. Qed.
Print Assumptions C06_ppid_map_subset.

Theorem C06_example_proc_listing :
  forallb wf_kentry ex_entries = true /\ spec_ppid_map ex_entries = [(1, 7); (4242, 7)]
  /\ spec_pids ex_entries = [1; 4242; 77; 78].
Proof. exact ex_entries_wf. Qed.
Print Assumptions C06_example_proc_listing.

(* /proc/<pid>/status: for EVERY comm (any bytes, any length) *)
Theorem C06_uids_exact : forall r, wf_kstatus r = true -> uids (k_status r) = Val (spec_uids r).
Proof. exact uids_exact. Qed.
Print Assumptions C06_uids_exact.

Theorem C06_gids_exact : forall r, wf_kstatus r = true -> gids (k_status r) = Val (spec_gids r).
Proof. exact gids_exact. Qed.
Print Assumptions C06_gids_exact.

Theorem C06_num_threads_exact : forall r,
  wf_kstatus r = true -> num_threads (k_status r) = Val (spec_num_threads r).
Proof. exact num_threads_exact. Qed.
Print Assumptions C06_num_threads_exact.

(* the status file has no size bound (Groups: lists up to 65536 supplementary gids, printed BEFORE
   Threads: and the ctxt lines).  The four theorems above hold for EVERY groups list; here spelled
   out: for every n there is a kernel-formatted record longer than n bytes on which they are exact *)
Theorem C06_status_unbounded : forall n,
  wf_kstatus (big_status n) = true /\ Nat.le n (length (k_status (big_status n))) /\
  uids (k_status (big_status n)) = Val [1000; 1001; 1002] /\
  gids (k_status (big_status n)) = Val [100; 101; 102] /\
  num_threads (k_status (big_status n)) = Val 128 /\
  num_ctx_switches (k_status (big_status n)) = Val (31337, 7).
Proof. exact status_unbounded. Qed.
Print Assumptions C06_status_unbounded.

(* the unanchored ctxt_switches pattern: exact for every comm of at most 15 bytes
   (NotImplementedError when the kernel does not print the two lines) *)
Theorem C06_num_ctx_switches_exact : forall r,
  wf_kstatus r = true -> comm_len_ok (s_comm r) = true ->
  num_ctx_switches (k_status r) = spec_ctx r.
Proof. exact num_ctx_switches_exact. Qed.
Print Assumptions C06_num_ctx_switches_exact.

(* the two outcomes spelled out: kernels before 2.6.23 print no such lines *)
Theorem C06_num_ctx_switches_absent : forall r,
  wf_kstatus r = true -> comm_len_ok (s_comm r) = true -> s_ctx r = None ->
  num_ctx_switches (k_status r) = Exc NotImplementedError.
Proof. exact num_ctx_switches_absent. Qed.
Print Assumptions C06_num_ctx_switches_absent.

Theorem C06_num_ctx_switches_present : forall r v n,
  wf_kstatus r = true -> comm_len_ok (s_comm r) = true -> s_ctx r = Some (v, n) ->
  num_ctx_switches (k_status r) = Val (dec_val v, dec_val n).
Proof. exact num_ctx_switches_present. Qed.
Print Assumptions C06_num_ctx_switches_present.

Theorem C06_example_hostile_status :
  wf_kstatus (ex_kstatus (bs "Uid:" ++ [9; 48; 9; 48; 9; 48])) = true
  /\ wf_kstatus (ex_kstatus (bs "Threads:" ++ [9; 57; 57])) = true
  /\ wf_kstatus (ex_kstatus (bs "ctxt_switches:" ++ [9])) = true
  /\ comm_len_ok (bs "ctxt_switches:" ++ [9]) = true.
Proof. exact ex_kstatus_wf. Qed.
Print Assumptions C06_example_hostile_status.

(* the bound 15 is sharp: a 16-byte name (only kernel workqueue threads have one) is read as a counter *)
Theorem C06_ctx_long_name_refuted :
  exists r, wf_kstatus r = true /\ length (s_comm r) = 16%nat
            /\ spec_ctx r = Val (18446744073709551615, 7)
            /\ num_ctx_switches (k_status r) = Val (9, 18446744073709551615).
Proof. exact ctx_long_name_refuted. Qed.
Print Assumptions C06_ctx_long_name_refuted.

(* interpreter modes (python -bb / -W error): in the reader functions of psutil/_pslinux.py, as dumped
   from the source under test (ast), no f-string field, '%' operand, debug()/warn()/str()/format()/print()
   argument or comparison with a str literal is a bytes-typed local, a slice of one, or an element of a
   container of bytes -- so building a message can never raise BytesWarning, also on the fallback paths *)
Theorem C06_no_bytes_formatting : forallb site_ok format_sites = true.
Proof. exact no_bytes_formatting. Qed.
Print Assumptions C06_no_bytes_formatting.

Theorem C06_sites_cover_readers :
  forallb (fun fn => existsb (fun s => beqb (fst (fst (fst s))) fn) format_sites) c06_readers = true.
Proof. exact sites_cover_readers. Qed.
Print Assumptions C06_sites_cover_readers.

Theorem C06_example_site_ok_rejects :
  site_ok (bs "_parse_stat_file", bs "fstring", bs "var", bs "name") = false
  /\ site_ok (bs "_parse_stat_file", bs "call-debug", bs "index", bs "fields") = false
  /\ site_ok (bs "threads", bs "percent", bs "index", bs "values") = false
  /\ site_ok (bs "status", bs "cmp-str", bs "var", bs "letter") = false
  /\ site_ok (bs "cpu_times", bs "fstring", bs "index", bs "call:_parse_stat_file") = false
  /\ site_ok (bs "_parse_stat_file", bs "fstring", bs "repr", bs "name") = true
  /\ site_ok (bs "threads", bs "fstring", bs "var", bs "thread_id") = true.
Proof. exact site_ok_rejects. Qed.
Print Assumptions C06_example_site_ok_rejects.

(* ---- wave 8: handles, copies of handles, and psutil.PROCFS_PATH (C06/Handles.v) ---- *)
From PV Require Import C06.Handles.

(* For every history of PROCFS_PATH assignments, kernel changes on any mount, constructions, copies and calls: the model
   (handle = pid + the _procfs_path read at construction; a copy shares the platform object) answers exactly what the
   specification demands (every handle has the origin mount it was created on; a copy has its original's origin). *)
Theorem C06_handle_history_exact : forall (R : Type) (deep : bool) (ops : list (hop R)) (s : hstate R),
  snd (hrun R deep s ops) = snd (grun R deep (ghost_of R s) ops).
Proof. exact hrun_exact. Qed.
Print Assumptions C06_handle_history_exact.

(* Every accessor on a copy (copy.copy outside or inside a oneshot() block; a deep copy when one is delivered) equals the
   accessor on the original at every later point of every history, whatever PROCFS_PATH is by then. *)
Theorem C06_copy_answers_as_original : forall (R : Type) (deep : bool) (s : hstate R) (o : hop R) (h : nat) (x : handle)
    (ops : list (hop R)),
  nth_error (hs R s) h = Some x ->
  (o = OCopy R h \/ o = OCopyIn R h \/ (deep = true /\ o = ODeepCopy R h)) ->
  snd (hstep R deep s o) = RHandle R (length (hs R s)) /\
  snd (hstep R deep (fst (hrun R deep (fst (hstep R deep s o)) ops)) (OCall R (length (hs R s))))
  = snd (hstep R deep (fst (hrun R deep (fst (hstep R deep s o)) ops)) (OCall R h)).
Proof. exact copy_answers_as_original. Qed.
Print Assumptions C06_copy_answers_as_original.

(* A handle created while PROCFS_PATH = m answers, after any history, with what mount m publishes for its pid then. *)
Theorem C06_handle_bound_to_creation_mount : forall (R : Type) (deep : bool) (s : hstate R) (pid : Z) (r : R)
    (ops : list (hop R)),
  world R s (cur R s) pid = Some r ->
  snd (hstep R deep (fst (hrun R deep (fst (hstep R deep s (ONew R pid))) ops)) (OCall R (length (hs R s))))
  = RAns R (world R (fst (hrun R deep (fst (hstep R deep s (ONew R pid))) ops)) (cur R s) pid).
Proof. exact handle_bound_to_creation_mount. Qed.
Print Assumptions C06_handle_bound_to_creation_mount.
