(* C19 -- sensors, battery, CPU frequency/count, cpu_stats, boot time mirror the kernel's tables.
   Statements only; proofs live in C19/Proofs*.v.  Model: C19/Model.v (transcription of
   psutil/_pslinux.py, psutil/__init__.py), specification: C19/Spec.v. *)
From PV Require Import C19.Spec C19.Proofs C19.ProofsTemps C19.ProofsFans C19.ProofsBattery C19.ProofsCpu C19.ProofsStat
  C19.ProofsCpuinfo C19.ProofsTree C19.PyGen Gen.C19_Tables C19.ProofsGen.

(* T1+T2: every hwmon layout (any chips/sensors, every subset of input/max/crit/label/name present, absent,
   unreadable, non-numeric, negative or zero values): the call returns a value (never fails); under each unit
   name exactly the sensors whose reading and chip name are readable, current = millidegrees/1000, thresholds
   /1000 or None, Fahrenheit = C*9/5+32, a missing threshold filled from the other; no entry otherwise. *)
Theorem C19_temps_values : forall chips zones fahr,
  forallb kchip_ok chips = true -> hwmon_entries chips <> [] ->
  exists d, sensors_temperatures (hwmon_entries chips) zones fahr = Val d /\
    forall n, dict_get n d = match spec_temps_of fahr n chips with [] => None | l => Some l end.
Proof. exact temps_values. Qed.
Print Assumptions C19_temps_values.

(* the code before commit 60747a2 (truthiness back-fill, [sensors_temperatures_at true]): temp1_max = 0 (present)
   and temp1_crit = 100000 -> high was reported as 100.0, not 0.0 *)
Theorem C19_temps_legacy_backfill_refuted :
  exists chips d r, forallb kchip_ok chips = true /\ hwmon_entries chips <> [] /\
    sensors_temperatures_at true (hwmon_entries chips) [] false = Val d /\
    dict_get (bs "acpitz") d = Some [r] /\ tr_high r = Some (100000 / 1000)%Q /\
    exists r', spec_temps_of false (bs "acpitz") chips = [r'] /\ tr_high r' = Some (0 / 1000)%Q.
Proof. exact temps_zero_refuted. Qed.
Print Assumptions C19_temps_legacy_backfill_refuted.

(* T3: thermal-zone fallback (no hwmon temperature file at all): current = temp/1000, high/critical = the trip
   point of that type reached last by the iteration, scaled exactly once -- for every order of the trip points,
   any number of zones and trip points, every subset of files *)
Theorem C19_thermal_zones_scaled_once : forall zs fahr,
  forallb kzone_ok zs = true ->
  exists d, sensors_temperatures [] (map zone_entry zs) fahr = Val d /\
    forall n, dict_get n d = match spec_zones_of fahr n zs with [] => None | l => Some l end.
Proof. exact zones_values. Qed.
Print Assumptions C19_thermal_zones_scaled_once.

(* T4: fans, every layout: under each unit name the fans whose input and chip name are readable; a fan whose
   input or name file is missing/unreadable is skipped; the call does not fail *)
Theorem C19_fans_values : forall chips, forallb kfanchip_ok chips = true ->
  exists d, sensors_fans true (fan_entries chips) = Val d /\
    forall n, dict_get n d = match spec_fans_of n chips with [] => None | l => Some l end.
Proof. exact (fun chips H => fans_values true chips H (or_introl eq_refl)). Qed.
Print Assumptions C19_fans_values.

(* the code before commit e09e22a ([sensors_fans false]): a fan whose chip has no name file made the call fail *)
Theorem C19_fans_legacy_name_refuted :
  exists chips, forallb kfanchip_ok chips = true /\ sensors_fans false (fan_entries chips) = Exc OSError
                /\ sensors_fans true (fan_entries chips) = Val [].
Proof. exact fans_name_refuted. Qed.
Print Assumptions C19_fans_legacy_name_refuted.

(* fans of both directory nestings: [tagged] is the sorted union of the chips whose fan files sit directly below
   hwmonN (false) and below hwmonN/device (true); every listed fan of either nesting is reported *)
Theorem C19_fans_tree_values : forall tagged : list (bool * kfanchip),
  forallb kfanchip_ok (map snd tagged) = true ->
  exists d, sensors_fans true (fan_entries (map snd tagged)) = Val d /\
    forall n, dict_get n d = match spec_fans_of n (map snd tagged) with [] => None | l => Some l end.
Proof. exact (fun tagged H => fans_values true (map snd tagged) H (or_introl eq_refl)). Qed.
Print Assumptions C19_fans_tree_values.

(* the code before commit 1b69de5 (device/ globbed only when no direct fan file exists) left the fans below device/
   out when both nestings were present; the code as it is reports them *)
Theorem C19_fans_legacy_mixed_nesting_refuted :
  exists direct nested d d', forallb kfanchip_ok direct = true /\ forallb kfanchip_ok nested = true /\
    sensors_fans_legacy_tree true (fan_entries direct) (fan_entries nested) = Val d /\
    dict_get (bs "nct6775") d = None /\
    spec_fans_of (bs "nct6775") (direct ++ nested) = [{| fr_label := bs "CPU Fan"; fr_cur := 1200 |}] /\
    sensors_fans true (fan_entries (direct ++ nested)) = Val d' /\
    dict_get (bs "nct6775") d' = Some [{| fr_label := bs "CPU Fan"; fr_cur := 1200 |}].
Proof. exact fans_mixed_nesting_refuted. Qed.
Print Assumptions C19_fans_legacy_mixed_nesting_refuted.

(* temperatures incl. the sensors visible only below /sys/devices/platform/coretemp.* ([plat]: those not already
   listed below /sys/class/hwmon): every layout, same guarantees as C19_temps_values, class sensors first *)
Theorem C19_temps_with_platform : forall chips plat zones fahr,
  forallb kchip_ok chips = true -> forallb kchip_ok plat = true ->
  hwmon_entries chips ++ hwmon_entries plat <> [] ->
  exists d, sensors_temperatures (hwmon_entries chips ++ hwmon_entries plat) zones fahr = Val d /\
    forall n, dict_get n d = match spec_temps_of fahr n (chips ++ plat) with [] => None | l => Some l end.
Proof. exact temps_with_platform. Qed.
Print Assumptions C19_temps_with_platform.

(* the code before commit 64999d5 appended the platform FILE names ([coretemp_names]): a readable coretemp sensor
   visible only there was not reported and its files switched the thermal-zone fallback off *)
Theorem C19_coretemp_legacy_refuted :
  exists plat zones, forallb kchip_ok plat = true /\ forallb kzone_ok zones = true /\
    sensors_temperatures (hwmon_entries [] ++ coretemp_names plat) (map zone_entry zones) false = Val [] /\
    spec_temps_of false (bs "coretemp") plat <> [] /\
    sensors_temperatures (hwmon_entries []) (map zone_entry zones) false <> Val [].
Proof. exact coretemp_platform_refuted. Qed.
Print Assumptions C19_coretemp_legacy_refuted.

(* T5: one battery, every subset of energy_/charge_ now/full, power_/current_ now, time_to_empty_now, capacity, status,
   AC0/AC; attribute texts are SIGNED integers (optional '+'/'-', surrounding blanks, 0, -0): never TypeError/ValueError;
   percent = 100*now/full (0 when full = 0) else capacity, None when neither; seconds = now*3600/|power| (whole
   seconds), UNLIMITED when plugged, UNKNOWN when power is 0 or unknown (time_to_empty_now < 0 included); plugged from the
   adapter, else from status.  No exclusion: a negative power_now / current_now (discharging) counts by its magnitude *)
Theorem C19_battery_values : forall b ac0 ac, kbat_ok b = true -> tte_unused b = true ->
  battery_of (bat_files b) (to_fres k_online ac0) (to_fres k_online ac) = Val (spec_battery b ac0 ac).
Proof. exact battery_values. Qed.
Print Assumptions C19_battery_values.

(* the code before commit 90bacb2 ([battery_of_at true], signed division): a negative current_now / power_now gave a
   negative number of seconds: 3 Ah at -1 A -> -10800; the code as it is answers 10800 *)
Theorem C19_battery_negative_power_refuted :
  exists b r r', kbat_ok b = true /\ tte_unused b = true /\
    battery_of_at true (bat_files b) FAbsent FAbsent = Val (Some r) /\ bt_secsleft r = RSecs (-10800) /\
    spec_battery b Absent Absent = Some r' /\ bt_secsleft r' = RSecs 10800 /\ bt_percent r = bt_percent r' /\
    battery_of (bat_files b) FAbsent FAbsent = Val (Some r').
Proof. exact battery_negative_power_refuted. Qed.
Print Assumptions C19_battery_negative_power_refuted.

(* the TYPES of the battery answer: secsleft IS the constant POWER_TIME_UNLIMITED ([RUnlimited]) exactly when plugged,
   a plain int ([RSecs]) exactly when computed from now and a non-zero power, else the constant POWER_TIME_UNKNOWN;
   percent is a float ([RFloat]) when computed from now/full, the kernel's int ([RInt]) when it is "capacity" *)
Theorem C19_battery_types : forall b ac0 ac r, kbat_ok b = true -> tte_unused b = true ->
  battery_of (bat_files b) (to_fres k_online ac0) (to_fres k_online ac) = Val (Some r) ->
  (bt_secsleft r = RUnlimited <-> bt_plugged r = Some true) /\
  (forall z, bt_secsleft r = RSecs z <->
     bt_plugged r <> Some true /\ exists n w, spec_salt (kb_now b) = Some n /\ spec_salt (kb_power b) = Some w /\
                                            w <> 0 /\ z = Z.quot (n * 3600) (Z.abs w)) /\
  (forall q, bt_percent r = RFloat q -> exists f n, spec_salt (kb_full b) = Some f /\ spec_salt (kb_now b) = Some n) /\
  (forall z, bt_percent r = RInt z -> exists ds, kb_capacity b = Present ds /\ z = dec_val ds).
Proof. exact battery_types. Qed.
Print Assumptions C19_battery_types.

(* ... any directory listing: only battery-named entries count, no battery -> None, otherwise the reported
   battery is an entry of the directory ... *)
Theorem C19_battery_selection : forall l ac0 ac, supply_ok l = true ->
  match batteries l with
  | [] => sensors_battery true (Some (supply_listing l)) (to_fres k_online ac0) (to_fres k_online ac) = Val None
  | x :: r =>
    let b := snd (min_entry x r) in
    In (min_entry x r) (batteries l) /\
    (tte_unused b = true ->
     sensors_battery true (Some (supply_listing l)) (to_fres k_online ac0) (to_fres k_online ac)
     = Val (spec_battery b ac0 ac))
  end.
Proof. exact (battery_selection true). Qed.
Print Assumptions C19_battery_selection.

(* ... namely one with the least name *)
Theorem C19_battery_first_by_name : forall (x : bytes * kbat) l z,
  In z (x :: l) -> bytes_ltb (fst z) (fst (min_entry x l)) = false.
Proof. exact (@battery_first_by_name kbat). Qed.
Print Assumptions C19_battery_first_by_name.

(* /sys/class/power_supply missing altogether -> None; the code before commit 3a32a00 ([sensors_battery false])
   raised a bare FileNotFoundError *)
Theorem C19_battery_no_power_supply_dir : forall ac0 ac,
  sensors_battery true None ac0 ac = Val None /\ sensors_battery false None ac0 ac = Exc OSError.
Proof. exact (fun _ _ => conj eq_refl eq_refl). Qed.
Print Assumptions C19_battery_no_power_supply_dir.

(* T6: cpu_freq(percpu=True), sysfs implementation reading the policy files: kHz/1000 per CPU, zeros for an
   offline CPU, for any number of CPUs *)
Theorem C19_cpu_freq_percpu : forall cpuinfo fr cpus,
  cpuinfo_freqs cpuinfo = Val fr -> length fr <> length cpus -> forallb kcpu_ok cpus = true ->
  cpu_freq_platform true cpuinfo (map cpu_policy cpus) = Val (map spec_freq cpus).
Proof. exact cpu_freq_percpu. Qed.
Print Assumptions C19_cpu_freq_percpu.

(* the "cpu MHz" scan over every printed /proc/cpuinfo (x86 and ARM shapes, any other lines): the values, in order *)
Theorem C19_cpuinfo_mhz_scan : forall blocks, cpuinfo_ok blocks = true ->
  cpuinfo_freqs (FC (k_cpuinfo blocks)) = Val (spec_mhz_list blocks).
Proof. exact cpuinfo_freqs_spec. Qed.
Print Assumptions C19_cpuinfo_mhz_scan.

(* cpuinfo implementation of cpu_freq (no policy0 / cpu0/cpufreq at import): one entry per "cpu MHz", min = max = 0 *)
Theorem C19_cpu_freq_cpuinfo_impl : forall blocks ps, cpuinfo_ok blocks = true ->
  cpu_freq_platform false (FC (k_cpuinfo blocks)) ps =
  Val (map (fun x => {| fq_cur := x; fq_min := 0; fq_max := 0 |}) (spec_mhz_list blocks)).
Proof. exact cpu_freq_cpuinfo_impl_printed. Qed.
Print Assumptions C19_cpu_freq_cpuinfo_impl.

(* sysfs implementation over every printed cpuinfo whose "cpu MHz" count differs from the number of policies *)
Theorem C19_cpu_freq_percpu_printed : forall blocks cpus, cpuinfo_ok blocks = true ->
  length (spec_mhz_list blocks) <> length cpus -> forallb kcpu_ok cpus = true ->
  cpu_freq_platform true (FC (k_cpuinfo blocks)) (map cpu_policy cpus) = Val (map spec_freq cpus).
Proof. exact cpu_freq_percpu_printed. Qed.
Print Assumptions C19_cpu_freq_percpu_printed.

(* ... and when the counts are equal (all CPUs online): current from cpuinfo (MHz -> whole kHz -> MHz),
   min/max from the policy files *)
Theorem C19_cpu_freq_from_cpuinfo : forall blocks cpus r, cpuinfo_ok blocks = true -> forallb kcpu_ok cpus = true ->
  zip_cpuinfo_cur (spec_mhz_list blocks) cpus = Some r ->
  cpu_freq_platform true (FC (k_cpuinfo blocks)) (map cpu_policy cpus) = Val r.
Proof. exact cpu_freq_from_cpuinfo. Qed.
Print Assumptions C19_cpu_freq_from_cpuinfo.

(* the kernel's "%u.%03u" MHz value is reported exactly on that path *)
Theorem C19_via_khz_exact : forall ip fp, is_dec ip = true -> is_dec fp = true -> length fp = 3%nat ->
  (via_khz (mhz_value ip fp) == mhz_value ip fp)%Q.
Proof. exact via_khz_exact. Qed.
Print Assumptions C19_via_khz_exact.

(* cpu_freq() without percpu: the arithmetic mean of each field over the CPUs (None without CPUs) *)
Theorem C19_cpu_freq_mean : forall ret, ret <> [] ->
  exists f, cpu_freq_mean ret = Some f /\
    freq_eq f {| fq_cur := mean (map fq_cur ret); fq_min := mean (map fq_min ret); fq_max := mean (map fq_max ret) |}.
Proof. exact cpu_freq_mean_spec. Qed.
Print Assumptions C19_cpu_freq_mean.

(* cpu_count(): the front end maps counts below 1 to None *)
Theorem C19_cpu_count_front : forall r,
  cpu_count_front r = match r with Some n => if 1 <=? n then Some n else None | None => None end.
Proof. exact cpu_count_front_spec. Qed.
Print Assumptions C19_cpu_count_front.

(* cpu_count(logical=True): sysconf; else the number of "processor : N" lines of EVERY printed cpuinfo (x86, ARM,
   with or without the "Processor : <model>" line); else the number of cpuN lines of every printed /proc/stat; else None *)
Theorem C19_cpu_count_logical : forall sysconf blocks stat,
  cpuinfo_ok blocks = true -> forallb statline_ok stat = true ->
  cpu_count_logical sysconf (FC (k_cpuinfo blocks)) (FC (k_stat stat)) = Val (spec_logical sysconf blocks stat).
Proof. exact cpu_count_logical_spec. Qed.
Print Assumptions C19_cpu_count_logical.

(* the code before commit d196a16 ([cpu_count_logical_at true], lower-cased match) counted the ARM model line *)
Theorem C19_cpu_count_legacy_arm_header_refuted :
  exists blocks, cpuinfo_ok blocks = true /\ n_processors blocks = 2 /\
    cpu_count_logical_at true None (FC (k_cpuinfo blocks)) (FC []) = Val (Some 3) /\
    cpu_count_logical None (FC (k_cpuinfo blocks)) (FC []) = Val (Some 2).
Proof. exact cpu_count_arm_header_refuted. Qed.
Print Assumptions C19_cpu_count_legacy_arm_header_refuted.

(* cpu_count(logical=False), topology files present: the number of distinct sibling sets *)
Theorem C19_cpu_count_cores_lists : forall texts cpuinfo, texts <> [] -> forallb text_ok texts = true ->
  cpu_count_cores (map (to_fres k_text) (map Present texts)) cpuinfo = Val (Some (Z.of_nat (length (distinct texts))))
  /\ NoDup (distinct texts) /\ (forall x, In x (distinct texts) <-> In x texts).
Proof. exact cpu_count_cores_lists. Qed.
Print Assumptions C19_cpu_count_cores_lists.

(* ... no topology file: over every printed cpuinfo, the sum over packages (physical id) of "cpu cores" *)
Theorem C19_cpu_count_cores_cpuinfo : forall blocks, cpuinfo_ok blocks = true ->
  cpu_count_cores [] (FC (k_cpuinfo blocks)) =
  Val (if spec_cores blocks =? 0 then None else Some (spec_cores blocks)).
Proof. exact cpu_count_cores_cpuinfo. Qed.
Print Assumptions C19_cpu_count_cores_cpuinfo.

(* cpu_count() is a positive int or None, never 0 *)
Theorem C19_cpu_count_positive : forall r n, cpu_count_front r = Some n -> 1 <= n.
Proof. exact cpu_count_front_pos. Qed.
Print Assumptions C19_cpu_count_positive.

(* T7: cpu_stats() over every printed /proc/stat holding one ctxt, one intr and one softirq line, in any order and
   among any number of cpu / btime / other lines: exactly those three counters (syscalls = 0) *)
Theorem C19_cpu_stats : forall ls, stat_ok' ls = true ->
  cpu_stats (FC (k_stat ls)) = Val (first_ctxt ls, first_intr ls, first_softirq ls, 0).
Proof. exact cpu_stats_spec. Qed.
Print Assumptions C19_cpu_stats.

(* boot_time() = the kernel's btime (first btime line); RuntimeError when the file has none *)
Theorem C19_boot_time : forall ls, forallb statline_ok ls = true ->
  boot_time (FC (k_stat ls)) =
  match first_btime ls with Some b => Val (inject_Z b) | None => Exc RuntimeError end.
Proof. exact boot_time_spec. Qed.
Print Assumptions C19_boot_time.

(* T8: nothing exposed by the kernel: {} / {} / None / None / None *)
Theorem C19_empty_tree : forall fahr,
  sensors_temperatures [] [] fahr = Val [] /\ sensors_fans true [] = Val []
  /\ sensors_battery true (Some []) FAbsent FAbsent = Val None /\ sensors_battery true None FAbsent FAbsent = Val None
  /\ cpu_freq_mean [] = None.
Proof. exact empty_tree. Qed.
Print Assumptions C19_empty_tree.

(* G1 (source translation): the nested helper multi_bcat() of sensors_battery(), translated from the current source
   (Gen/C19_Tables.v: loop over the paths, `if ret != null` guard, try int(ret) except ValueError: ret.strip(),
   final None), computes the model's multi_bcat on every list of files. *)
Theorem C19_gen_multi_bcat : forall fs, run_multi gen_multi_bcat fs = Val (multi_bcat fs).
Proof. exact gen_multi_bcat_correct. Qed.
Print Assumptions C19_gen_multi_bcat.

(* G2 (source translation): the head of sensors_battery() translated from the current source (FileNotFoundError guard
   around os.listdir, the name filter startswith('BAT') or 'battery' in lower(), `if not bats: return None`, min(bats))
   selects, for every directory listing, what the model's sensors_battery selects. *)
Theorem C19_gen_battery_head : forall (A : Type) (listing : option (list (bytes * A))),
  run_head gen_battery_head listing =
  match listing with
  | None => Val None
  | Some l => match filter (fun e => is_battery_name (fst e)) l with
              | [] => Val None
              | x :: r => Val (Some (min_entry x r))
              end
  end.
Proof. exact gen_battery_head_correct. Qed.
Print Assumptions C19_gen_battery_head.

(* G3 (source translation, syntactic pin only): the body of sensors_battery() after `root = ...` translated from the
   current source is statement for statement the reference program C19.ProofsGen.battery_body_ref (the translation of
   /repo at 16d17e9).  Its equality with the model's battery_of for ALL inputs is not proved (sampled only:
   ProofsGen.body_ref_agrees_on_samples); this theorem makes every edit of that body break the proof build. *)
Theorem C19_gen_battery_body_pinned : gen_battery_body = battery_body_ref.
Proof. exact gen_battery_body_pinned. Qed.
Print Assumptions C19_gen_battery_body_pinned.
