(* C19 -- sensors, battery, CPU frequency/count, cpu_stats, boot time mirror the kernel's tables.
   Statements only; proofs live in C19/Proofs*.v.  Model: C19/Model.v (transcription of
   psutil/_pslinux.py, psutil/__init__.py), specification: C19/Spec.v. *)
From PV Require Import C19.Spec C19.Proofs C19.ProofsTemps C19.ProofsFans C19.ProofsBattery C19.ProofsCpu.

(* T1+T2: every hwmon layout (any chips/sensors, every subset of input/max/crit/label/name present, absent,
   unreadable, non-numeric): the call returns a value; under each unit name exactly the sensors whose reading
   and chip name are readable, current = millidegrees/1000, thresholds /1000 or None, Fahrenheit = C*9/5+32,
   a missing threshold filled from the other.  Celsius layouts with a present-but-zero threshold are excluded
   (known finding, refuted below). *)
Theorem C19_temps_values : forall chips zones fahr,
  forallb kchip_ok chips = true -> hwmon_entries chips <> [] ->
  fahr = true \/ no_zero_threshold chips = true ->
  exists d, sensors_temperatures (hwmon_entries chips) zones fahr = Val d /\
    forall n, dict_get n d = match spec_temps_of fahr n chips with [] => None | l => Some l end.
Proof. exact temps_values. Qed.
Print Assumptions C19_temps_values.

(* ... and with no exclusion at all: the call never fails, unreadable sensors are skipped, and each reported
   sensor is the platform reading passed through the front end (conversion + back-fill as coded) *)
Theorem C19_temps_total : forall chips zones fahr,
  forallb kchip_ok chips = true -> hwmon_entries chips <> [] ->
  exists d, sensors_temperatures (hwmon_entries chips) zones fahr = Val d /\
    forall n, dict_get n d =
      match flat_map (fun c => name_is n (kc_name c) (somes (map raw_sensor (kc_sensors c)))) chips with
      | [] => None
      | l => Some (map (front_reading fahr) l)
      end.
Proof. exact temps_total. Qed.
Print Assumptions C19_temps_total.

(* finding: temp1_max = 0 (present) and temp1_crit = 100000: high is reported as 100.0, not 0.0 *)
Theorem C19_temps_zero_threshold_refuted :
  exists chips d r, forallb kchip_ok chips = true /\ hwmon_entries chips <> [] /\
    sensors_temperatures (hwmon_entries chips) [] false = Val d /\
    dict_get (bs "acpitz") d = Some [r] /\ tr_high r = Some (100000 / 1000)%Q /\
    exists r', spec_temps_of false (bs "acpitz") chips = [r'] /\ tr_high r' = Some (0 / 1000)%Q.
Proof. exact temps_zero_refuted. Qed.
Print Assumptions C19_temps_zero_threshold_refuted.

(* T3: thermal-zone fallback (no hwmon temperature file at all): current = temp/1000, high/critical = the trip
   point of that type reached last by the iteration, scaled exactly once -- for every order of the trip points *)
Theorem C19_thermal_zones_scaled_once : forall zs fahr,
  forallb kzone_ok zs = true -> fahr = true \/ no_zero_trip zs = true ->
  exists d, sensors_temperatures [] (map zone_entry zs) fahr = Val d /\
    forall n, dict_get n d = match spec_zones_of fahr n zs with [] => None | l => Some l end.
Proof. exact zones_values. Qed.
Print Assumptions C19_thermal_zones_scaled_once.

(* T4: fans.  g = true is the proposed repair (name read inside the try block), g = false the code as it is,
   which meets the specification on layouts where every chip with a readable fan has a readable name file *)
Theorem C19_fans_values : forall g chips, forallb kfanchip_ok chips = true ->
  g = true \/ fan_names_readable chips = true ->
  exists d, sensors_fans g (fan_entries chips) = Val d /\
    forall n, dict_get n d = match spec_fans_of n chips with [] => None | l => Some l end.
Proof. exact fans_values. Qed.
Print Assumptions C19_fans_values.

(* finding: a fan whose chip has no name file makes the whole call fail with a bare OSError *)
Theorem C19_fans_name_refuted :
  exists chips, forallb kfanchip_ok chips = true /\ sensors_fans false (fan_entries chips) = Exc OSError
                /\ sensors_fans true (fan_entries chips) = Val [].
Proof. exact fans_name_refuted. Qed.
Print Assumptions C19_fans_name_refuted.

(* T5: one battery, every subset of energy_/charge_ now/full, power_/current_ now, capacity, status, AC0/AC:
   percent = 100*now/full (0 when full = 0) else capacity, None when neither; seconds = now*3600/power,
   UNLIMITED when plugged, UNKNOWN when power is 0 or unknown; plugged from the adapter, else from status *)
Theorem C19_battery_values : forall b ac0 ac, kbat_ok b = true -> tte_unused b = true ->
  battery_of (bat_files b) (to_fres k_online ac0) (to_fres k_online ac) = Val (spec_battery b ac0 ac).
Proof. exact battery_values. Qed.
Print Assumptions C19_battery_values.

(* ... any directory listing: only battery-named entries count, no battery -> None, otherwise the reported
   battery is an entry of the directory ... *)
Theorem C19_battery_selection : forall g l ac0 ac, supply_ok l = true ->
  match batteries l with
  | [] => sensors_battery g (Some (supply_listing l)) (to_fres k_online ac0) (to_fres k_online ac) = Val None
  | x :: r =>
    let b := snd (min_entry x r) in
    In (min_entry x r) (batteries l) /\
    (tte_unused b = true ->
     sensors_battery g (Some (supply_listing l)) (to_fres k_online ac0) (to_fres k_online ac)
     = Val (spec_battery b ac0 ac))
  end.
Proof. exact battery_selection. Qed.
Print Assumptions C19_battery_selection.

(* ... namely one with the least name *)
Theorem C19_battery_first_by_name : forall (x : bytes * kbat) l z,
  In z (x :: l) -> bytes_ltb (fst z) (fst (min_entry x l)) = false.
Proof. exact (@battery_first_by_name kbat). Qed.
Print Assumptions C19_battery_first_by_name.

(* finding: /sys/class/power_supply missing altogether -> bare FileNotFoundError instead of None *)
Theorem C19_battery_nodir_refuted :
  sensors_battery false None FAbsent FAbsent = Exc OSError /\ sensors_battery true None FAbsent FAbsent = Val None.
Proof. exact battery_nodir_refuted. Qed.
Print Assumptions C19_battery_nodir_refuted.

(* T6: cpu_freq(percpu=True), sysfs implementation reading the policy files: kHz/1000 per CPU, zeros for an
   offline CPU, for any number of CPUs *)
Theorem C19_cpu_freq_percpu : forall cpuinfo fr cpus,
  cpuinfo_freqs cpuinfo = Val fr -> length fr <> length cpus -> forallb kcpu_ok cpus = true ->
  cpu_freq_platform true cpuinfo (map cpu_policy cpus) = Val (map spec_freq cpus).
Proof. exact cpu_freq_percpu. Qed.
Print Assumptions C19_cpu_freq_percpu.

Theorem C19_cpu_freq_cpuinfo_impl : forall cpuinfo fr ps,
  cpuinfo_freqs cpuinfo = Val fr ->
  cpu_freq_platform false cpuinfo ps = Val (map (fun x => {| fq_cur := x; fq_min := 0; fq_max := 0 |}) fr).
Proof. exact cpu_freq_cpuinfo_impl. Qed.
Print Assumptions C19_cpu_freq_cpuinfo_impl.

(* cpu_freq() without percpu: the arithmetic mean of each field over the CPUs (None without CPUs) *)
Theorem C19_cpu_freq_mean : forall ret, ret <> [] ->
  exists f, cpu_freq_mean ret = Some f /\
    freq_eq f {| fq_cur := mean (map fq_cur ret); fq_min := mean (map fq_min ret); fq_max := mean (map fq_max ret) |}.
Proof. exact cpu_freq_mean_spec. Qed.
Print Assumptions C19_cpu_freq_mean.

(* cpu_count(): the front end maps counts below 1 to None *)
Theorem C19_cpu_count_front : forall r,
  cpu_count_front r = match r with Some n => if 1 <=? n then Some n else None | None => None end.
Proof. exact cpu_count_front_spec. Qed.
Print Assumptions C19_cpu_count_front.

(* T8: nothing exposed by the kernel: {} / {} / None / None *)
Theorem C19_empty_tree : forall fahr,
  sensors_temperatures [] [] fahr = Val [] /\ sensors_fans false [] = Val []
  /\ sensors_battery false (Some []) FAbsent FAbsent = Val None.
Proof. exact empty_tree. Qed.
Print Assumptions C19_empty_tree.
