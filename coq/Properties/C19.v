(* C19 -- sensors, battery, CPU frequency/count, cpu_stats, boot time mirror the kernel's tables.
   Statements only; proofs live in C19/Proofs*.v.  Model: C19/Model.v (transcription of
   psutil/_pslinux.py, psutil/__init__.py), specification: C19/Spec.v. *)
From PV Require Import C19.Spec C19.Proofs C19.ProofsTemps C19.ProofsFans C19.ProofsBattery C19.ProofsCpu C19.ProofsStat.

(* T1+T2: every hwmon layout (any chips/sensors, every subset of input/max/crit/label/name present, absent,
   unreadable, non-numeric, negative or zero values): the call returns a value (never fails); under each unit
   name exactly the sensors whose reading and chip name are readable, current = millidegrees/1000, thresholds
   /1000 or None, Fahrenheit = C*9/5+32, a missing threshold filled from the other; no entry otherwise. *)
Theorem C19_temps_values : forall chips zones fahr,
  forallb kchip_ok chips = true -> hwmon_entries chips <> [] ->
  exists d, sensors_temperatures (hwmon_entries chips) zones fahr = Val d /\
    forall n, dict_get n d = match spec_temps_of fahr n chips with [] => None | l => Some l end.
Proof. exact temps_values. Qed.
Print Assumptions C19_temps_values.

(* the code before commit 60747a2 (truthiness back-fill, [sensors_temperatures_at true]): temp1_max = 0 (present)
   and temp1_crit = 100000 -> high was reported as 100.0, not 0.0 *)
Theorem C19_temps_legacy_backfill_refuted :
  exists chips d r, forallb kchip_ok chips = true /\ hwmon_entries chips <> [] /\
    sensors_temperatures_at true (hwmon_entries chips) [] false = Val d /\
    dict_get (bs "acpitz") d = Some [r] /\ tr_high r = Some (100000 / 1000)%Q /\
    exists r', spec_temps_of false (bs "acpitz") chips = [r'] /\ tr_high r' = Some (0 / 1000)%Q.
Proof. exact temps_zero_refuted. Qed.
Print Assumptions C19_temps_legacy_backfill_refuted.

(* T3: thermal-zone fallback (no hwmon temperature file at all): current = temp/1000, high/critical = the trip
   point of that type reached last by the iteration, scaled exactly once -- for every order of the trip points,
   any number of zones and trip points, every subset of files *)
Theorem C19_thermal_zones_scaled_once : forall zs fahr,
  forallb kzone_ok zs = true ->
  exists d, sensors_temperatures [] (map zone_entry zs) fahr = Val d /\
    forall n, dict_get n d = match spec_zones_of fahr n zs with [] => None | l => Some l end.
Proof. exact zones_values. Qed.
Print Assumptions C19_thermal_zones_scaled_once.

(* T4: fans, every layout: under each unit name the fans whose input and chip name are readable; a fan whose
   input or name file is missing/unreadable is skipped; the call does not fail *)
Theorem C19_fans_values : forall chips, forallb kfanchip_ok chips = true ->
  exists d, sensors_fans true (fan_entries chips) = Val d /\
    forall n, dict_get n d = match spec_fans_of n chips with [] => None | l => Some l end.
Proof. exact (fun chips H => fans_values true chips H (or_introl eq_refl)). Qed.
Print Assumptions C19_fans_values.

(* the code before commit e09e22a ([sensors_fans false]): a fan whose chip has no name file made the call fail *)
Theorem C19_fans_legacy_name_refuted :
  exists chips, forallb kfanchip_ok chips = true /\ sensors_fans false (fan_entries chips) = Exc OSError
                /\ sensors_fans true (fan_entries chips) = Val [].
Proof. exact fans_name_refuted. Qed.
Print Assumptions C19_fans_legacy_name_refuted.

(* T5: one battery, every subset of energy_/charge_ now/full, power_/current_ now, capacity, status, AC0/AC:
   percent = 100*now/full (0 when full = 0) else capacity, None when neither; seconds = now*3600/power,
   UNLIMITED when plugged, UNKNOWN when power is 0 or unknown; plugged from the adapter, else from status *)
Theorem C19_battery_values : forall b ac0 ac, kbat_ok b = true -> tte_unused b = true ->
  battery_of (bat_files b) (to_fres k_online ac0) (to_fres k_online ac) = Val (spec_battery b ac0 ac).
Proof. exact battery_values. Qed.
Print Assumptions C19_battery_values.

(* ... any directory listing: only battery-named entries count, no battery -> None, otherwise the reported
   battery is an entry of the directory ... *)
Theorem C19_battery_selection : forall l ac0 ac, supply_ok l = true ->
  match batteries l with
  | [] => sensors_battery true (Some (supply_listing l)) (to_fres k_online ac0) (to_fres k_online ac) = Val None
  | x :: r =>
    let b := snd (min_entry x r) in
    In (min_entry x r) (batteries l) /\
    (tte_unused b = true ->
     sensors_battery true (Some (supply_listing l)) (to_fres k_online ac0) (to_fres k_online ac)
     = Val (spec_battery b ac0 ac))
  end.
Proof. exact (battery_selection true). Qed.
Print Assumptions C19_battery_selection.

(* ... namely one with the least name *)
Theorem C19_battery_first_by_name : forall (x : bytes * kbat) l z,
  In z (x :: l) -> bytes_ltb (fst z) (fst (min_entry x l)) = false.
Proof. exact (@battery_first_by_name kbat). Qed.
Print Assumptions C19_battery_first_by_name.

(* /sys/class/power_supply missing altogether -> None; the code before commit 3a32a00 ([sensors_battery false])
   raised a bare FileNotFoundError *)
Theorem C19_battery_no_power_supply_dir : forall ac0 ac,
  sensors_battery true None ac0 ac = Val None /\ sensors_battery false None ac0 ac = Exc OSError.
Proof. exact (fun _ _ => conj eq_refl eq_refl). Qed.
Print Assumptions C19_battery_no_power_supply_dir.

(* T6: cpu_freq(percpu=True), sysfs implementation reading the policy files: kHz/1000 per CPU, zeros for an
   offline CPU, for any number of CPUs *)
Theorem C19_cpu_freq_percpu : forall cpuinfo fr cpus,
  cpuinfo_freqs cpuinfo = Val fr -> length fr <> length cpus -> forallb kcpu_ok cpus = true ->
  cpu_freq_platform true cpuinfo (map cpu_policy cpus) = Val (map spec_freq cpus).
Proof. exact cpu_freq_percpu. Qed.
Print Assumptions C19_cpu_freq_percpu.

Theorem C19_cpu_freq_cpuinfo_impl : forall cpuinfo fr ps,
  cpuinfo_freqs cpuinfo = Val fr ->
  cpu_freq_platform false cpuinfo ps = Val (map (fun x => {| fq_cur := x; fq_min := 0; fq_max := 0 |}) fr).
Proof. exact cpu_freq_cpuinfo_impl. Qed.
Print Assumptions C19_cpu_freq_cpuinfo_impl.

(* cpu_freq() without percpu: the arithmetic mean of each field over the CPUs (None without CPUs) *)
Theorem C19_cpu_freq_mean : forall ret, ret <> [] ->
  exists f, cpu_freq_mean ret = Some f /\
    freq_eq f {| fq_cur := mean (map fq_cur ret); fq_min := mean (map fq_min ret); fq_max := mean (map fq_max ret) |}.
Proof. exact cpu_freq_mean_spec. Qed.
Print Assumptions C19_cpu_freq_mean.

(* cpu_count(): the front end maps counts below 1 to None *)
Theorem C19_cpu_count_front : forall r,
  cpu_count_front r = match r with Some n => if 1 <=? n then Some n else None | None => None end.
Proof. exact cpu_count_front_spec. Qed.
Print Assumptions C19_cpu_count_front.

(* T7: cpu_stats() over every printed /proc/stat holding one ctxt, one intr and one softirq line, in any order and
   among any number of cpu / btime / other lines: exactly those three counters (syscalls = 0) *)
Theorem C19_cpu_stats : forall ls, stat_ok' ls = true ->
  cpu_stats (FC (k_stat ls)) = Val (first_ctxt ls, first_intr ls, first_softirq ls, 0).
Proof. exact cpu_stats_spec. Qed.
Print Assumptions C19_cpu_stats.

(* boot_time() = the kernel's btime (first btime line); RuntimeError when the file has none *)
Theorem C19_boot_time : forall ls, forallb statline_ok ls = true ->
  boot_time (FC (k_stat ls)) =
  match first_btime ls with Some b => Val (inject_Z b) | None => Exc RuntimeError end.
Proof. exact boot_time_spec. Qed.
Print Assumptions C19_boot_time.

(* T8: nothing exposed by the kernel: {} / {} / None / None / None *)
Theorem C19_empty_tree : forall fahr,
  sensors_temperatures [] [] fahr = Val [] /\ sensors_fans true [] = Val []
  /\ sensors_battery true (Some []) FAbsent FAbsent = Val None /\ sensors_battery true None FAbsent FAbsent = Val None
  /\ cpu_freq_mean [] = None.
Proof. exact empty_tree. Qed.
Print Assumptions C19_empty_tree.
