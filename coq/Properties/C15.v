(* C15 -- wait() and wait_procs(): right exit status, never early, timeouts honoured.
   Statements only; proofs live in C15/Proofs*.v.  Model: C15/Model.v (transcription of
   psutil/_psposix.py wait_pid, psutil/__init__.py Process.wait and wait_procs),
   specification: C15/Spec.v (virtual kernel, demanded answers). *)
From PV Require Import C15.Spec C15.Proofs.
Open Scope Z_scope.
Open Scope Q_scope.

(* 1. exit code c (0-255) -> c, death by signal s (1-64, with or without core dump) -> -s *)
Theorem C15_status_decode : forall e, wf_status e = true ->
  decode_status (k_status e) = RInt (spec_code e).
Proof. exact status_decode. Qed.
Print Assumptions C15_status_decode.
