(* C15 -- wait() and wait_procs(): right exit status, never early, timeouts honoured.
   Statements only; proofs live in C15/Proofs*.v.  Model: C15/Model.v (transcription of
   psutil/_psposix.py wait_pid, psutil/__init__.py Process.wait and wait_procs),
   specification: C15/Spec.v (virtual kernel k_waitpid / k_exists of a process p with exit
   instant p_exit, status p_status, EINTR positions p_eintr; virtual time in Q).
   process_wait W E pid o tmo fuel t0 = (result, object afterwards, return instant, sleep() arguments). *)
From PV Require Import C15.Spec C15.Proofs C15.ProofsProcs.
From Coq Require Import Permutation.
Open Scope Z_scope.
Open Scope Q_scope.

(* 1. exit code c (0-255) -> c, death by signal s (1-64, with or without core dump) -> -s *)
Theorem C15_status_decode : forall e, wf_status e = true ->
  decode_status (k_status e) = RInt (spec_code e).
Proof. exact status_decode. Qed.
Print Assumptions C15_status_decode.

(* 2. never early: an integer result is the child's status and the child had ended by the
   instant the call returned -- for every exit instant, timeout, start, EINTR placement, fuel *)
Theorem C15_never_early_status : forall p c0 tmo fuel t0 z o' t' sl,
  wf_proc p = true ->
  process_wait (k_waitpid p) (k_exists p) (p_pid p) (fresh c0) tmo fuel t0 = (RInt z, o', t', sl) ->
  p_kind p = Child /\ (exists T, p_exit p = Some T /\ T <= t') /\ z = spec_code (p_status p).
Proof. exact never_early_status. Qed.
Print Assumptions C15_never_early_status.

(* ... None only for a non-child that is gone by the return instant (or never existed); a PID that
   never existed is answered at the start instant without sleeping (EINTR-free schedules) *)
Theorem C15_never_early_none : forall p c0 tmo fuel t0 o' t' sl,
  wf_proc p = true ->
  process_wait (k_waitpid p) (k_exists p) (p_pid p) (fresh c0) tmo fuel t0 = (RNone, o', t', sl) ->
  p_kind p <> Child /\
  (p_kind p = NeverExisted \/ exists T, p_exit p = Some T /\ T <= t') /\
  (p_kind p = NeverExisted -> p_eintr p = [] -> t' == t0 /\ sl = []).
Proof. exact never_early_none. Qed.
Print Assumptions C15_never_early_none.

Theorem C15_never_existed_at_once : forall p c0 tmo f t0,
  wf_proc p = true -> bad_timeout tmo = false -> p_kind p = NeverExisted -> p_eintr p = [] ->
  process_wait (k_waitpid p) (k_exists p) (p_pid p) (fresh c0) tmo (S (S f)) t0
  = (RNone, {| exitcode := Some RNone; kcalls := S c0 |}, t0, []).
Proof. exact never_existed_at_once. Qed.
Print Assumptions C15_never_existed_at_once.

(* 3. TimeoutExpired(seconds = timeout, pid): only at or after the deadline, less than 40 ms after
   it, nothing is cached, and -- when no waitpid call is interrupted -- the process is alive at
   that instant *)
Theorem C15_timeout_sound : forall p c0 tmo fuel t0 sec pid' o' t' sl,
  wf_proc p = true ->
  process_wait (k_waitpid p) (k_exists p) (p_pid p) (fresh c0) tmo fuel t0 = (RTimeout sec pid', o', t', sl) ->
  tmo = Some sec /\ pid' = p_pid p /\ 0 <= sec /\
  t0 + sec <= t' /\ t' < t0 + sec + (1 # 25) /\
  (p_eintr p = [] -> p_kind p <> NeverExisted /\ ended_by p t' = false) /\
  exitcode o' = None.
Proof. exact timeout_sound. Qed.
Print Assumptions C15_timeout_sound.

(* known finding: with an EINTR on the poll made at the deadline the exception is raised
   although the child has already ended *)
Theorem C15_timeout_eintr_refuted :
  exists p t0 o' t' sl, wf_proc p = true /\
    process_wait (k_waitpid p) (k_exists p) (p_pid p) (fresh 0) (Some 0) 100 t0 = (RTimeout 0 (p_pid p), o', t', sl)
    /\ p_kind p = Child /\ ended_by p t' = true.
Proof. exact timeout_eintr_refuted. Qed.
Print Assumptions C15_timeout_eintr_refuted.

(* 4. the k-th sleep() argument is ival k = min(2^k / 10000, 1/25); timeout = 0 never sleeps;
   the clock never runs backwards *)
Theorem C15_intervals : forall p c0 tmo fuel t0 r o' t' sl,
  wf_proc p = true ->
  process_wait (k_waitpid p) (k_exists p) (p_pid p) (fresh c0) tmo fuel t0 = (r, o', t', sl) ->
  (forall k q, nth_error sl k = Some q -> q == qmin (inject_Z (2 ^ Z.of_nat k) * (1 # 10000)) (1 # 25)) /\
  (forall t, tmo = Some t -> t == 0 -> sl = []) /\
  t0 <= t'.
Proof. exact intervals. Qed.
Print Assumptions C15_intervals.

Theorem C15_interval_bounds : forall k,
  ival 0 == 1 # 10000 /\ 0 < ival k /\ ival k <= 1 # 25.
Proof. intro k. split; [exact ival_0 | split; [apply ival_pos | apply ival_le_cap]]. Qed.
Print Assumptions C15_interval_bounds.

(* a negative timeout raises ValueError before anything else, whatever the kernel and the cache *)
Theorem C15_negative_timeout : forall W Ex pid o t fuel t0,
  t < 0 -> process_wait W Ex pid o (Some t) fuel t0 = (RValueError, o, t0, []).
Proof. exact negative_timeout. Qed.
Print Assumptions C15_negative_timeout.

Theorem C15_bad_pid : forall W Ex pid tmo fuel t0 c0,
  (pid <= 0)%Z -> fst (wait_pid W Ex pid tmo fuel t0 c0) = RValueError.
Proof. exact bad_pid. Qed.
Print Assumptions C15_bad_pid.

(* no other failure: ValueError only for a negative timeout; a call can hang only when it has
   no timeout and waits for a child that never ends *)
Theorem C15_no_other_outcome : forall p c0 tmo fuel t0 r o' t' sl,
  wf_proc p = true ->
  process_wait (k_waitpid p) (k_exists p) (p_pid p) (fresh c0) tmo fuel t0 = (r, o', t', sl) ->
  match r with
  | RValueError => bad_timeout tmo = true
  | RTypeError => False
  | RHang => tmo = None /\ p_exit p = None /\ p_kind p = Child
  | _ => True
  end.
Proof. exact no_other_outcome. Qed.
Print Assumptions C15_no_other_outcome.

(* 6. the cache: after wait() returned a value every later call (valid timeout) returns the same
   value at once, whatever the kernel would answer -- no kernel call, no sleep, no time *)
Theorem C15_wait_cached : forall W Ex pid o tmo fuel t0 r o' t' sl,
  process_wait W Ex pid o tmo fuel t0 = (r, o', t', sl) -> is_value r = true ->
  forall W2 Ex2 tmo2 fuel2 t2, bad_timeout tmo2 = false ->
    process_wait W2 Ex2 pid o' tmo2 fuel2 t2 = (r, o', t2, []).
Proof. exact wait_cached. Qed.
Print Assumptions C15_wait_cached.

(* 7. wait_procs, for EVERY kernel, EVERY iteration order of the set `alive` (any permutation in
   every round) and every exit schedule: gone/alive are duplicate-free, disjoint and cover the
   input; returncode is assigned exactly to the gone processes, once each; the callback is called
   exactly once per gone process (never without a callable) *)
Theorem C15_wait_procs_partition : forall kos cb fuel order,
  (forall r l, Permutation (order r l) l) ->
  forall tmo rounds start gone alive g,
  wait_procs kos cb fuel order tmo rounds start = (None, gone, alive, g) ->
  NoDup gone /\ NoDup alive /\ (forall i, In i gone -> ~ In i alive) /\
  (forall i, (i < length kos)%nat <-> In i gone \/ In i alive) /\
  map fst (g_rc g) = rev gone /\
  g_cb g = match cb with CbOk => rev gone | _ => [] end.
Proof. exact wait_procs_partition. Qed.
Print Assumptions C15_wait_procs_partition.

(* 8. wait_procs(timeout >= 0) is back before start + timeout + 40 ms, whatever it returns or
   raises, for every iteration order, exit schedule, EINTR placement and fuel *)
Theorem C15_wait_procs_deadline : forall ps cb fuel order,
  (forall r l, Permutation (order r l) l) -> forallb wf_proc ps = true ->
  forall tm rounds start e gone alive g,
  0 <= tm ->
  wait_procs (map to_ko ps) cb fuel order (Some tm) rounds start = (e, gone, alive, g) ->
  g_now g < start + tm + (1 # 25).
Proof. exact wait_procs_deadline. Qed.
Print Assumptions C15_wait_procs_deadline.
