(* C15 -- wait() and wait_procs(): right exit status, never early, timeouts honoured.
   Statements only; proofs live in C15/Proofs*.v.  Model: C15/Model.v (transcription of
   psutil/_psposix.py wait_pid, psutil/__init__.py Process.wait and wait_procs),
   specification: C15/Spec.v (virtual kernel k_waitpid / k_exists of a process p with exit
   instant p_exit, status p_status, interrupted waitpid calls p_eintr = [(call index, signal delay)];
   virtual time in Q).
   process_wait W E pid o tmo fuel t0 = (result, object afterwards, return instant, sleep() arguments). *)
From PV Require Import C15.Spec C15.Proofs C15.ProofsProcs C15.ProofsTerm C15.ProofsOracle C15.ProofsPopen.
From PV Require Import C15.PyGen Gen.C15_Tables C15.ProofsGen.
From Coq Require Import Permutation.
Open Scope Z_scope.
Open Scope Q_scope.

(* 1. exit code c (0-255) -> c, death by signal s (1-64, with or without core dump) -> -s *)
Theorem C15_status_decode : forall e, wf_status e = true ->
  decode_status (k_status e) = RInt (spec_code e).
Proof. exact status_decode. Qed.
Print Assumptions C15_status_decode.

(* 2. never early: an integer result is the child's status and the child had ended by the
   instant the call returned -- for every exit instant, timeout, start, EINTR placement, fuel *)
Theorem C15_never_early_status : forall p c0 tmo fuel t0 z o' t' sl,
  wf_proc p = true ->
  process_wait (k_waitpid p) (k_exists p) (p_pid p) (fresh c0) tmo fuel t0 = (RInt z, o', t', sl) ->
  p_kind p = Child /\ (exists T, p_exit p = Some T /\ T <= t') /\ z = spec_code (p_status p).
Proof. exact never_early_status. Qed.
Print Assumptions C15_never_early_status.

(* ... None only for a non-child that is gone by the return instant (or never existed); a PID that
   never existed is answered at the start instant without sleeping (EINTR-free schedules) *)
Theorem C15_never_early_none : forall p c0 tmo fuel t0 o' t' sl,
  wf_proc p = true ->
  process_wait (k_waitpid p) (k_exists p) (p_pid p) (fresh c0) tmo fuel t0 = (RNone, o', t', sl) ->
  p_kind p <> Child /\
  (p_kind p = NeverExisted \/ exists T, p_exit p = Some T /\ T <= t') /\
  (p_kind p = NeverExisted -> p_eintr p = [] -> t' == t0 /\ sl = []).
Proof. exact never_early_none. Qed.
Print Assumptions C15_never_early_none.

Theorem C15_never_existed_at_once : forall p c0 tmo f t0,
  wf_proc p = true -> bad_timeout tmo = false -> p_kind p = NeverExisted -> p_eintr p = [] ->
  process_wait (k_waitpid p) (k_exists p) (p_pid p) (fresh c0) tmo (S (S f)) t0
  = (RNone, {| exitcode := Some RNone; kcalls := S c0 |}, t0, []).
Proof. exact never_existed_at_once. Qed.
Print Assumptions C15_never_existed_at_once.

(* 3. TimeoutExpired(seconds = timeout, pid): only at or after the deadline, less than 40 ms after
   it, nothing is cached, and -- when no waitpid call is interrupted -- the process is alive at
   that instant *)
Theorem C15_timeout_sound : forall p c0 tmo fuel t0 sec pid' o' t' sl,
  wf_proc p = true ->
  process_wait (k_waitpid p) (k_exists p) (p_pid p) (fresh c0) tmo fuel t0 = (RTimeout sec pid', o', t', sl) ->
  tmo = Some sec /\ pid' = p_pid p /\ 0 <= sec /\
  t0 + sec <= t' /\ t' < t0 + sec + (1 # 25) /\
  (p_eintr p = [] -> p_kind p <> NeverExisted /\ ended_by p t' = false) /\
  exitcode o' = None.
Proof. exact timeout_sound. Qed.
Print Assumptions C15_timeout_sound.

(* known finding: with an EINTR on the poll made at the deadline the exception is raised
   although the child has already ended *)
Theorem C15_timeout_eintr_refuted :
  exists p t0 o' t' sl, wf_proc p = true /\
    process_wait (k_waitpid p) (k_exists p) (p_pid p) (fresh 0) (Some 0) 100 t0 = (RTimeout 0 (p_pid p), o', t', sl)
    /\ p_kind p = Child /\ ended_by p t' = true.
Proof. exact timeout_eintr_refuted. Qed.
Print Assumptions C15_timeout_eintr_refuted.

(* 4. the k-th sleep() argument is ival k = min(2^k / 10000, 1/25); timeout = 0 never sleeps;
   the clock never runs backwards *)
Theorem C15_intervals : forall p c0 tmo fuel t0 r o' t' sl,
  wf_proc p = true ->
  process_wait (k_waitpid p) (k_exists p) (p_pid p) (fresh c0) tmo fuel t0 = (r, o', t', sl) ->
  (forall k q, nth_error sl k = Some q -> q == qmin (inject_Z (2 ^ Z.of_nat k) * (1 # 10000)) (1 # 25)) /\
  (forall t, tmo = Some t -> t == 0 -> sl = []) /\
  t0 <= t'.
Proof. exact intervals. Qed.
Print Assumptions C15_intervals.

Theorem C15_interval_bounds : forall k,
  ival 0 == 1 # 10000 /\ 0 < ival k /\ ival k <= 1 # 25.
Proof. intro k. split; [exact ival_0 | split; [apply ival_pos | apply ival_le_cap]]. Qed.
Print Assumptions C15_interval_bounds.

(* a negative timeout raises ValueError before anything else, whatever the kernel and the cache *)
Theorem C15_negative_timeout : forall W Ex pid o t fuel t0,
  t < 0 -> process_wait W Ex pid o (Some t) fuel t0 = (RValueError, o, t0, []).
Proof. exact negative_timeout. Qed.
Print Assumptions C15_negative_timeout.

Theorem C15_bad_pid : forall W Ex pid tmo fuel t0 c0,
  (pid <= 0)%Z -> fst (wait_pid W Ex pid tmo fuel t0 c0) = RValueError.
Proof. exact bad_pid. Qed.
Print Assumptions C15_bad_pid.

(* no other failure: ValueError only for a negative timeout; a call can hang only when it has
   no timeout and waits for a child that never ends *)
Theorem C15_no_other_outcome : forall p c0 tmo fuel t0 r o' t' sl,
  wf_proc p = true ->
  process_wait (k_waitpid p) (k_exists p) (p_pid p) (fresh c0) tmo fuel t0 = (r, o', t', sl) ->
  match r with
  | RValueError => bad_timeout tmo = true
  | RTypeError => False
  | RHang => tmo = None /\ p_exit p = None /\ p_kind p = Child
  | _ => True
  end.
Proof. exact no_other_outcome. Qed.
Print Assumptions C15_no_other_outcome.

(* 6. the cache: after wait() returned a value every later call (valid timeout) returns the same
   value at once, whatever the kernel would answer -- no kernel call, no sleep, no time *)
Theorem C15_wait_cached : forall W Ex pid o tmo fuel t0 r o' t' sl,
  process_wait W Ex pid o tmo fuel t0 = (r, o', t', sl) -> is_value r = true ->
  forall W2 Ex2 tmo2 fuel2 t2, bad_timeout tmo2 = false ->
    process_wait W2 Ex2 pid o' tmo2 fuel2 t2 = (r, o', t2, []).
Proof. exact wait_cached. Qed.
Print Assumptions C15_wait_cached.

(* 7. wait_procs, for EVERY kernel, EVERY iteration order of the set `alive` (any permutation in
   every round) and every exit schedule: gone/alive are duplicate-free, disjoint and cover the
   input; returncode is assigned exactly to the gone processes, once each; the callback is called
   exactly once per gone process (never without a callable) *)
Theorem C15_wait_procs_partition : forall kos cb fuel order,
  (forall r l, Permutation (order r l) l) ->
  forall tmo rounds start gone alive g,
  wait_procs kos cb fuel order tmo rounds start = (None, gone, alive, g) ->
  NoDup gone /\ NoDup alive /\ (forall i, In i gone -> ~ In i alive) /\
  (forall i, (i < length kos)%nat <-> In i gone \/ In i alive) /\
  map fst (g_rc g) = rev gone /\
  g_cb g = match cb with CbOk _ => rev gone | _ => [] end.
Proof. exact wait_procs_partition. Qed.
Print Assumptions C15_wait_procs_partition.

(* 8. wait_procs(timeout >= 0) is back before start + timeout + 40 ms, whatever it returns or
   raises, for every iteration order, exit schedule, EINTR placement and fuel *)
Theorem C15_wait_procs_deadline : forall ps cb fuel order,
  (forall r l, Permutation (order r l) l) -> forallb wf_proc ps = true ->
  forall tm rounds start e gone alive g,
  0 <= tm ->
  wait_procs (map to_ko ps) cb fuel order (Some tm) rounds start = (e, gone, alive, g) ->
  g_now g < start + tm + (1 # 25).
Proof. exact wait_procs_deadline. Qed.
Print Assumptions C15_wait_procs_deadline.

(* 5. termination.  With a timeout the polling loop needs at most ceil(25 * timeout) + 12 steps, for EVERY
   kernel (any answers of waitpid / pid_exists, any EINTR placement) whose clock does not run backwards,
   every start instant and PID: ROutOfFuel (the model's "still looping") is impossible with that fuel *)
Theorem C15_wait_pid_terminates : forall (W : nat -> Q -> bool -> wp) (E : Q -> bool) pid tm fuel start c0,
  (forall i t0 h t, W i t0 h = WEintr t -> t0 <= t) ->
  (Z.to_nat (Qround.Qceiling (tm * 25)) + 12 <= fuel)%nat ->
  fst (wait_pid W E pid (Some tm) fuel start c0) <> ROutOfFuel.
Proof. exact wait_pid_terminates. Qed.
Print Assumptions C15_wait_pid_terminates.

(* without a timeout: a wait on a process that ends at a finite instant T (or never existed) returns a value
   within #EINTR + 12 + ceil(25 * (T - start)) steps ... *)
Theorem C15_wait_blocking_terminates : forall p, wf_proc p = true -> forall start,
  p_kind p = NeverExisted \/ (exists T, p_exit p = Some T) ->
  forall fuel c0, (block_bound p start <= fuel)%nat ->
  is_value (fst (wait_pid (k_waitpid p) (k_exists p) (p_pid p) None fuel start c0)) = true.
Proof. exact wait_blocking_terminates. Qed.
Print Assumptions C15_wait_blocking_terminates.

(* ... and it returns a value for SOME fuel iff the exit instant is finite (or the PID never existed):
   otherwise it hangs in waitpid (child) or polls for ever (non-child) *)
Theorem C15_wait_blocking_iff : forall p start c0, wf_proc p = true ->
  ((exists fuel, is_value (fst (wait_pid (k_waitpid p) (k_exists p) (p_pid p) None fuel start c0)) = true)
   <-> (p_kind p = NeverExisted \/ exists T, p_exit p = Some T)).
Proof. exact wait_blocking_iff. Qed.
Print Assumptions C15_wait_blocking_iff.

(* wait_procs(timeout): |procs| + ceil(timeout) + 1 rounds of the outer loop (and the fuel of a one-second
   wait in the inner loops) always suffice, for every iteration order, exit schedule and EINTR placement *)
Theorem C15_wait_procs_terminates : forall ps cb fuel order,
  (forall r l, Permutation (order r l) l) -> forallb wf_proc ps = true ->
  forall tm rounds start exc gone alive g,
  0 <= tm -> (polls_bound 1 <= fuel)%nat ->
  (length ps + Z.to_nat (Qround.Qceiling tm) + 1 <= rounds)%nat ->
  wait_procs (map to_ko ps) cb fuel order (Some tm) rounds start = (exc, gone, alive, g) ->
  exc <> Some ROutOfFuel.
Proof. exact wait_procs_terminates. Qed.
Print Assumptions C15_wait_procs_terminates.

(* 9. the oracles the harness applies to the implementation's observations are theorems of the model:
   every un-cached wait() run that comes back satisfies spec_wait (lenient always; strict = "TimeoutExpired
   only while alive" on EINTR-free schedules), so a faithful implementation can never trip the oracle *)
Theorem C15_wait_meets_oracle : forall p c0 tmo fuel t0 r o' t' sl,
  wf_proc p = true ->
  process_wait (k_waitpid p) (k_exists p) (p_pid p) (fresh c0) tmo fuel t0 = (r, o', t', sl) ->
  r <> ROutOfFuel ->
  spec_wait false p t0 tmo {| o_res := r; o_ret := t'; o_sleeps := sl |} = true /\
  (p_eintr p = [] -> spec_wait true p t0 tmo {| o_res := r; o_ret := t'; o_sleeps := sl |} = true).
Proof. exact wait_meets_oracle. Qed.
Print Assumptions C15_wait_meets_oracle.

Theorem C15_wait_meets_oracle_fuel : forall p c0 tm fuel t0 r o' t' sl,
  wf_proc p = true -> (polls_bound tm <= fuel)%nat ->
  process_wait (k_waitpid p) (k_exists p) (p_pid p) (fresh c0) (Some tm) fuel t0 = (r, o', t', sl) ->
  spec_wait false p t0 (Some tm) {| o_res := r; o_ret := t'; o_sleeps := sl |} = true /\
  (p_eintr p = [] -> spec_wait true p t0 (Some tm) {| o_res := r; o_ret := t'; o_sleeps := sl |} = true).
Proof. exact wait_meets_oracle_fuel. Qed.
Print Assumptions C15_wait_meets_oracle_fuel.

(* ... and every wait_procs run satisfies spec_procs: argument errors, partition, every returncode right and
   not early, one callback per gone process, back before timeout + 40 ms *)
Theorem C15_wait_procs_meets_oracle : forall ps cb fuel order,
  (forall r l, Permutation (order r l) l) -> forallb wf_proc ps = true ->
  forall tmo rounds start exc gone alive g,
  wait_procs (map to_ko ps) cb fuel order tmo rounds start = (exc, gone, alive, g) ->
  exc <> Some ROutOfFuel ->
  spec_procs ps cb start tmo exc gone alive (g_rc g) (g_cb g) (g_now g) = true.
Proof. exact wait_procs_meets_oracle. Qed.
Print Assumptions C15_wait_procs_meets_oracle.

Theorem C15_wait_procs_meets_oracle_fuel : forall ps cb fuel order,
  (forall r l, Permutation (order r l) l) -> forallb wf_proc ps = true ->
  forall tm rounds start exc gone alive g,
  0 <= tm -> (polls_bound 1 <= fuel)%nat -> (rounds_bound (length ps) tm <= rounds)%nat ->
  wait_procs (map to_ko ps) cb fuel order (Some tm) rounds start = (exc, gone, alive, g) ->
  spec_procs ps cb start (Some tm) exc gone alive (g_rc g) (g_cb g) (g_now g) = true.
Proof. exact wait_procs_meets_oracle_fuel. Qed.
Print Assumptions C15_wait_procs_meets_oracle_fuel.

(* 10. psutil.Popen (a Process wrapping a subprocess.Popen; state: subprocess-side returncode `sub_rc`, psutil-side
   cache).  Once a status has been collected by EITHER side -- 0 included -- wait() returns it at once, for every
   kernel (ECHILD, a stranger owning the recycled PID ...), timeout and fuel: no kernel call, no sleep, no time *)
Theorem C15_popen_wait_collected : forall W E pid st tmo fuel t0 v,
  bad_timeout tmo = false ->
  sub_rc st = Some v -> popen_wait W E pid st tmo fuel t0 = (RInt v, st, t0, []).
Proof. exact popen_wait_collected. Qed.
Print Assumptions C15_popen_wait_collected.

(* a negative timeout raises ValueError in EVERY state of a Popen -- status collected or not -- and leaves the
   state, the clock and the kernel untouched (code as is, after fix 4baf627) *)
Theorem C15_popen_negative_timeout : forall W E pid st t fuel t0,
  t < 0 -> popen_wait W E pid st (Some t) fuel t0 = (RValueError, st, t0, []).
Proof. exact popen_negative_timeout. Qed.
Print Assumptions C15_popen_negative_timeout.

(* fixed finding: before 4baf627 Popen.wait(-1) returned the collected status instead of raising *)
Theorem C15_popen_legacy_negative_refuted :
  exists st v, sub_rc st = Some v /\
    forall W E pid fuel t0, popen_wait_legacy W E pid st (Some (-1 # 1)) fuel t0 = (RInt v, st, t0, []).
Proof. exact popen_legacy_negative_refuted. Qed.
Print Assumptions C15_popen_legacy_negative_refuted.

(* ... along every later history of subprocess-side collections, psutil waits over arbitrary kernels and pauses
   (at_once v: the result is v -- ValueError when that wait's timeout is negative --, no time passes, no sleep) *)
Theorem C15_popen_sticky : forall pid h st t v,
  sub_rc st = Some v ->
  Forall (at_once v) (fst (run_pev pid h st t)) /\ snd (run_pev pid h st t) = st.
Proof. exact popen_sticky. Qed.
Print Assumptions C15_popen_sticky.

(* every order of reaping: (a) poll()/communicate()/leaving `with` collected v first *)
Theorem C15_popen_first_status_by_reap : forall pid st v h t,
  sub_rc st = None ->
  Forall (at_once v) (fst (run_pev pid h (popen_collect st v) t)).
Proof. exact popen_first_status_by_reap. Qed.
Print Assumptions C15_popen_first_status_by_reap.

(* (b) psutil's own wait() collected first, from the real child: it is the child's status, it is handed to the
   subprocess side, and every later wait returns it whatever became of the PID *)
Theorem C15_popen_first_status_by_wait : forall p c0 tmo fuel t0 z st' t' sl,
  wf_proc p = true ->
  popen_wait (k_waitpid p) (k_exists p) (p_pid p) {| sub_rc := None; ps_obj := fresh c0 |} tmo fuel t0
    = (RInt z, st', t', sl) ->
  z = spec_code (p_status p) /\
  forall h t, Forall (at_once z) (fst (run_pev (p_pid p) h st' t)).
Proof. exact popen_first_status_by_wait. Qed.
Print Assumptions C15_popen_first_status_by_wait.

(* a wait that does not return a status (TimeoutExpired, ValueError) leaves the subprocess side uncollected *)
Theorem C15_popen_wait_no_status : forall W E pid st tmo fuel t0 r st' t' sl,
  sub_rc st = None ->
  popen_wait W E pid st tmo fuel t0 = (r, st', t', sl) ->
  (forall z, r <> RInt z) -> sub_rc st' = None.
Proof. exact popen_wait_no_status. Qed.
Print Assumptions C15_popen_wait_no_status.

(* 11. the callback argument: presence is an option, never a truth test.  For EVERY callable -- a function, or a
   falsy one (empty list subclass with __call__, __len__ = 0, __bool__ = False) -- the callback is called exactly
   once for each gone process, in the order they were found gone; and a falsy callable gives the very same run
   as a truthy one *)
Theorem C15_wait_procs_callback_any_callable : forall kos truthy fuel order,
  (forall r l, Permutation (order r l) l) ->
  forall tmo rounds start gone alive g,
  wait_procs kos (CbOk truthy) fuel order tmo rounds start = (None, gone, alive, g) ->
  g_cb g = rev gone /\ NoDup gone.
Proof. exact wait_procs_callback_any_callable. Qed.
Print Assumptions C15_wait_procs_callback_any_callable.

Theorem C15_wait_procs_truth_blind : forall kos fuel order b1 b2 tmo rounds start,
  wait_procs kos (CbOk b1) fuel order tmo rounds start = wait_procs kos (CbOk b2) fuel order tmo rounds start.
Proof. exact wait_procs_truth_blind. Qed.
Print Assumptions C15_wait_procs_truth_blind.

(* 12. ALIASED input of wait_procs.  `input` lists the handles passed in `procs` by the process each one names:
   the same object twice, or several equal objects of one process, are repeated entries.  `alive = set(procs)`
   keeps one handle per process, so (for EVERY kernel and iteration order): the returned lists are duplicate-free
   and disjoint, they partition the set of DISTINCT processes of the input (len(gone) + len(alive) = their number),
   returncode is assigned exactly once per gone process and the callback calls are exactly the gone list *)
Theorem C15_wait_procs_of_partition : forall kos cb fuel order,
  (forall r l, Permutation (order r l) l) ->
  forall input tmo rounds start gone alive g,
  wait_procs_of kos cb fuel order input tmo rounds start = (None, gone, alive, g) ->
  NoDup gone /\ NoDup alive /\ (forall i, In i gone -> ~ In i alive) /\
  (forall i, In i input <-> In i gone \/ In i alive) /\
  (length gone + length alive = length (nodup Nat.eq_dec input))%nat /\
  map fst (g_rc g) = rev gone /\
  g_cb g = match cb with CbOk _ => rev gone | _ => [] end.
Proof. exact wait_procs_of_partition. Qed.
Print Assumptions C15_wait_procs_of_partition.

(* ... and the whole oracle the harness applies (partition over the distinct processes, every returncode right and
   not early, one callback per gone process, deadline) holds of every such run over wf processes *)
Theorem C15_wait_procs_of_meets_oracle : forall ps cb fuel order,
  (forall r l, Permutation (order r l) l) -> forallb wf_proc ps = true ->
  forall input tmo rounds start exc gone alive g,
  (forall x, In x input -> (x < length ps)%nat) ->
  wait_procs_of (map to_ko ps) cb fuel order input tmo rounds start = (exc, gone, alive, g) ->
  exc <> Some ROutOfFuel ->
  spec_procs_in input ps cb start tmo exc gone alive (g_rc g) (g_cb g) (g_now g) = true.
Proof. exact wait_procs_of_meets_oracle. Qed.
Print Assumptions C15_wait_procs_of_meets_oracle.

(* ---- Round 2: the model's wait_pid is the source's wait_pid.  gen_wait_pid (Gen/C15_Tables.v) is translated on every
   run from psutil/_psposix.py of the tree under check (props/_c15_gen.py, fail-closed); wait_pid_gen is the
   interpreter of C15/PyGen.v.  For every kernel (arbitrary waitpid / pid_exists answers), PID > 0, timeout, fuel, start
   instant: same result and same final state (clock, interval, waitpid-call count, every sleep() argument). *)
Theorem C15_gen_wait_pid_is_model : forall waitpid pid_exists pid timeout fuel start calls0,
  (pid <=? 0)%Z = false ->
  gproj (wait_pid_gen gen_wait_pid waitpid pid_exists pid timeout fuel start calls0) =
  Some (let '(r, s) := wait_pid waitpid pid_exists pid timeout fuel start calls0 in (r, Some s)).
Proof. exact gen_wait_pid_correct. Qed.
Print Assumptions C15_gen_wait_pid_is_model.

(* pid <= 0: the translated program raises ValueError before it binds `interval`, asks the kernel or reads the clock *)
Theorem C15_gen_wait_pid_bad_pid : forall waitpid pid_exists pid timeout fuel start calls0,
  (pid <=? 0)%Z = true ->
  wait_pid_gen gen_wait_pid waitpid pid_exists pid timeout fuel start calls0 = GDone RValueError (init_env start calls0) /\
  fst (wait_pid waitpid pid_exists pid timeout fuel start calls0) = RValueError.
Proof. exact gen_wait_pid_bad_pid. Qed.
Print Assumptions C15_gen_wait_pid_bad_pid.

(* the translated program never leaves the modelled fragment (no unbound stop_at, no arithmetic on None) *)
Theorem C15_gen_wait_pid_modelled : forall waitpid pid_exists pid timeout fuel start calls0,
  wait_pid_gen gen_wait_pid waitpid pid_exists pid timeout fuel start calls0 <> GUnmodelled.
Proof. exact gen_wait_pid_modelled. Qed.
Print Assumptions C15_gen_wait_pid_modelled.
