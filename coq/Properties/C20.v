(* C20 -- every platform layer keeps the same error contract and record layout.
   Statements only; proofs live in C20/Proofs*.v.  Model: C20/Model.v (transcription of the
   wrap_exceptions ladders and per-method handlers of _psbsd/_psosx/_pssunos/_psaix/_pswindows
   and of the net_if_addrs() post-processing), documented contract: C20/Spec.v, generated
   tables (slot maps, probed slot usage, probed ladders, exposed names, front-end rows of the
   CURRENT code): Gen/C20_Tables.v, decidable checks: C20/Check.v. *)
From PV Require Import C20.Check C20.ProofsModel C20.Proofs C20.ProofsFront C20.Loop C20.ProofsLoop.
From PV Require Import Gen.C20_Tables.

(* the model of the five ladders + method handlers: for EVERY platform, method name, failing
   native call, error (of that platform), process state and pid, what the contract demands is
   what comes out (NoSuchProcess / ZombieProcess / AccessDenied carrying pid and cached name,
   other errors unchanged, PID-0 rule on BSD and Solaris, the commented fall-backs) *)
Theorem C20_ladder_model : forall p meth site c r,
  err_ok p (c_err c) = true -> known_class p meth site c = false ->
  demanded p meth site c = Some r -> method_outcome p meth site c = r.
Proof. exact ladder_model. Qed.
Print Assumptions C20_ladder_model.

(* finding (excluded above): a PID 0 that the OS does NOT list is still taken to exist, because
   _psposix.pid_exists(0) is True unconditionally -- Solaris reports ZombieProcess for a no-such-process
   failure on it, NetBSD cmdline() swallows EINVAL for it *)
Theorem C20_pid0_unlisted_refuted :
  (exists c, err_ok SunOS (c_err c) = true /\ c_pid0 c = true /\ c_state c = Gone
             /\ demanded SunOS "ppid" "proc_basic_info" c = Some RNoSuch
             /\ method_outcome SunOS "ppid" "proc_basic_info" c = RZombie)
  /\ (exists c, err_ok NetBSD (c_err c) = true /\ c_pid0 c = true /\ c_state c = Gone
               /\ demanded NetBSD "cmdline" "proc_cmdline" c = Some RNoSuch
               /\ method_outcome NetBSD "cmdline" "proc_cmdline" c = RVal).
Proof. exact pid0_unlisted_refuted. Qed.
Print Assumptions C20_pid0_unlisted_refuted.

(* what fix d6fc959 repaired: the legacy variant of the model (Windows memory_maps() generator converting the
   error of proc_memory_maps() only) lets a QueryDosDevice() failure out bare; the present model gives AccessDenied *)
Theorem C20_win_mmaps_legacy_refuted :
  exists c, err_ok Windows (c_err c) = true /\ demanded Windows "memory_maps" "QueryDosDevice" c = Some RDenied
            /\ method_outcome_pre_d6fc959 Windows "memory_maps" "QueryDosDevice" c = RRaw
            /\ method_outcome Windows "memory_maps" "QueryDosDevice" c = RDenied.
Proof. exact win_mmaps_legacy_refuted. Qed.
Print Assumptions C20_win_mmaps_legacy_refuted.

(* what fix a2d103c repaired: with Windows ppid() undecorated (legacy variant of the model) a
   permission failure of ppid_map() left as the bare error; the present model gives AccessDenied *)
Theorem C20_ppid_unwrapped_legacy_refuted :
  exists c, err_ok Windows (c_err c) = true /\ demanded Windows "ppid" "ppid_map" c = Some RDenied
            /\ method_outcome_pre_a2d103c Windows "ppid" "ppid_map" c = RRaw
            /\ method_outcome Windows "ppid" "ppid_map" c = RDenied.
Proof. exact ppid_unwrapped_legacy_refuted. Qed.
Print Assumptions C20_ppid_unwrapped_legacy_refuted.

(* the CODE (probed over the stub native layer, every platform x method x native call x error
   x state x pid): every outcome meets the contract, with pid and cached name carried *)
Theorem C20_ladder_contract : forall b, In b ladder_blocks ->
  Forall2 (fun c g => known_class (l_plat b) (l_meth b) (l_site b) c = false ->
                      gout_ok (demanded (l_plat b) (l_meth b) (l_site b) c) g = true) (conds (l_plat b)) (l_outs b).
Proof. exact ladder_contract. Qed.
Print Assumptions C20_ladder_contract.

Theorem C20_pid0_unlisted_in_tables :
  exists b, In b ladder_blocks /\ l_plat b = SunOS /\
    forallb2 (fun c g => gout_ok (demanded (l_plat b) (l_meth b) (l_site b) c) g) (conds (l_plat b)) (l_outs b) = false.
Proof. exact pid0_unlisted_in_tables. Qed.
Print Assumptions C20_pid0_unlisted_in_tables.

(* the zombie test, for EVERY native status code of every platform's PROC_STATUSES (x method x native
   call x pid in {7,0}): ESRCH gives ZombieProcess exactly for the codes that mean zombie (on OpenBSD
   SDEAD and SZOMB), NoSuchProcess for the others (Solaris/AIX: nothing demanded for those) -- and equals the model *)
Theorem C20_zombie_by_status_code : forall b, In b status_blocks ->
  Forall2 (fun z g => gout_ok (demanded (sb_plat b) (sb_meth b) (sb_site b) (scond (sb_plat b) (sb_code b) z)) g = true
                      /\ gout_ok (Some (method_outcome (sb_plat b) (sb_meth b) (sb_site b) (scond (sb_plat b) (sb_code b) z))) g = true)
          [false; true] (sb_outs b).
Proof. exact zombie_by_status_code. Qed.
Print Assumptions C20_zombie_by_status_code.

(* PROC_STATUSES maps a native code to "zombie" exactly for the documented zombie codes; the sweep above
   has a block for every (ladder block, status code) *)
Theorem C20_status_codes_documented : forall r, In r status_rows -> srow_ok r = true.
Proof. exact status_codes_documented. Qed.
Print Assumptions C20_status_codes_documented.
Theorem C20_status_sweep_complete : sblocks_complete status_rows ladder_blocks status_blocks = true.
Proof. exact status_sweep_complete. Qed.
Print Assumptions C20_status_sweep_complete.

(* ... and equals the hand-written model on every row *)
Theorem C20_ladder_tables_equal_model : forall b, In b ladder_blocks ->
  Forall2 (fun c g => gout_ok (Some (method_outcome (l_plat b) (l_meth b) (l_site b) c)) g = true) (conds (l_plat b)) (l_outs b).
Proof. exact ladder_tables_equal_model. Qed.
Print Assumptions C20_ladder_tables_equal_model.

(* EVERY native call of the method (cext calls and os.readlink / os.listdir / os.stat / os.waitpid) fails with the same
   error -- the really gone / really off-limits process: the method ends with the ladder's translation of that error
   (only the handlers that decide from the process listing alone remain) *)
Theorem C20_all_model : forall p meth site c r,
  err_ok p (c_err c) = true -> known_class p meth site c = false ->
  all_demanded p meth site c = Some r -> all_outcome p meth site c = r.
Proof. exact all_model. Qed.
Print Assumptions C20_all_model.
Theorem C20_allfail_contract : forall b, In b all_blocks ->
  Forall2 (fun c g => (known_class (l_plat b) (l_meth b) (l_site b) c = false ->
                       gout_ok (all_demanded (l_plat b) (l_meth b) (l_site b) c) g = true)
                      /\ gout_ok (Some (all_outcome (l_plat b) (l_meth b) (l_site b) c)) g = true) (conds (l_plat b)) (l_outs b).
Proof. exact allfail_contract. Qed.
Print Assumptions C20_allfail_contract.
Theorem C20_allfail_complete : ablocks_complete ladder_blocks all_blocks = true.
Proof. exact allfail_complete. Qed.
Print Assumptions C20_allfail_complete.

(* DOUBLE FAULT in the error-translation path: the method's native call fails with e1 AND every follow-up probe the
   error path makes (is_zombie's kinfo re-read, pid_exists -> os.kill / psinfo, pids() for the PID-0 rule) fails with
   an independently chosen e2 -- each probe only with errnos its system call can return (os.kill(pid, 0): ESRCH, EPERM;
   os.path.exists never raises).  For EVERY platform, method / call names, e1, e2 and pid the model's outcome lies in the
   acceptable set (Spec.probe_allowed), no exclusion ... *)
Theorem C20_probe_model : forall p meth site e1 e2 z,
  err_ok p e1 = true -> err_ok p e2 = true ->
  In (probe_outcome p meth site e1 e2 z) (probe_allowed p meth site e1 e2 z).
Proof. exact probe_model. Qed.
Print Assumptions C20_probe_model.

(* ... in particular a "no such process" or permission failure of the method's own call (with no documented fall-back)
   never ends as a bare OSError -- neither the original one nor the probe's -- nor as a normal return *)
Theorem C20_probe_no_raw : forall p meth site e1 e2 z,
  err_ok p e1 = true -> err_ok p e2 = true ->
  nosuch_failure p meth site e1 || perm_failure e1 = true ->
  (forall s, recovery p meth site (Build_cond e1 s z) = None) ->
  probe_outcome p meth site e1 e2 z <> RRaw /\ probe_outcome p meth site e1 e2 z <> RRawProbe
  /\ probe_outcome p meth site e1 e2 z <> RVal.
Proof. exact probe_no_raw. Qed.
Print Assumptions C20_probe_no_raw.

(* the CODE on the double faults: every (platform but Windows, which has no probe) x method x native call x e1 x e2 x pid
   -- outcome in the acceptable set, pid and cached name carried, and equal to the model; a block for every ladder block *)
Theorem C20_probe_contract : forall b, In b probe_blocks ->
  Forall2 (fun q g => match q with (e1, e2, z) =>
             gout_in (probe_allowed (l_plat b) (l_meth b) (l_site b) e1 e2 z) g = true
             /\ gout_ok (Some (probe_outcome (l_plat b) (l_meth b) (l_site b) e1 e2 z)) g = true end)
          (probe_conds (l_plat b)) (l_outs b).
Proof. exact probe_contract. Qed.
Print Assumptions C20_probe_contract.
Theorem C20_probe_blocks_complete : prblocks_complete ladder_blocks probe_blocks = true.
Proof. exact probe_blocks_complete. Qed.
Print Assumptions C20_probe_blocks_complete.

(* TWO native calls in one method: the first fails with e1, the documented second route (Windows
   "fast call denied -> proc_info", Windows cmdline "PEB denied -> non-PEB query", Solaris uids/gids
   "cred denied -> psinfo") fails with e2 -- for EVERY method/call names, e1, e2, state, pid the model gives
   what the contract demands of the failure that ends the method *)
Theorem C20_pair_model : forall p meth site1 site2 e1 e2 s z r,
  err_ok p e1 = true -> err_ok p e2 = true -> pair_known p meth site1 site2 e1 e2 s z = false ->
  pair_demanded p meth site1 site2 e1 e2 s z = Some r -> pair_outcome p meth site1 site2 e1 e2 s z = r.
Proof. exact pair_model. Qed.
Print Assumptions C20_pair_model.

(* retry_error_partial_copy: ERROR_PARTIAL_COPY k times then success / another error, for every k *)
Theorem C20_retry_model : forall meth site k then_ s z r,
  (forall e, then_ = Some e -> err_ok Windows e = true) ->
  retry_demanded meth site k then_ s z = Some r -> retry_outcome meth site k then_ s z = r.
Proof. exact retry_model. Qed.
Print Assumptions C20_retry_model.

(* wait(timeout=0): TimeoutExpired(pid, name) while the PID is there, a value once it is gone *)
Theorem C20_wait_model : forall p w s,
  (w = WNativeTimeout -> p = Windows) -> wait_outcome p w s = wait_demanded p w s.
Proof. exact wait_model. Qed.
Print Assumptions C20_wait_model.

(* the CODE on the pairs (all e1 x e2 x state x pid of every documented pair), on the retry
   counts 1/32/33 and on wait(): contract met and equal to the model; every documented pair probed *)
Theorem C20_pair_contract : forall b, In b pair_blocks ->
  Forall2 (fun q g => match q with (e1, e2, s, z) =>
             (pair_known (pb_plat b) (pb_meth b) (pb_site1 b) (pb_site2 b) e1 e2 s z = false ->
              gout_ok (pair_demanded (pb_plat b) (pb_meth b) (pb_site1 b) (pb_site2 b) e1 e2 s z) g = true)
             /\ gout_ok (Some (pair_outcome (pb_plat b) (pb_meth b) (pb_site1 b) (pb_site2 b) e1 e2 s z)) g = true end)
          (pair_conds (pb_plat b)) (pb_outs b).
Proof. exact pair_contract. Qed.
Print Assumptions C20_pair_contract.
Theorem C20_pair_blocks_complete : pblocks_complete pair_blocks = true.
Proof. exact pair_blocks_complete. Qed.
Print Assumptions C20_pair_blocks_complete.
Theorem C20_retry_rows_ok : forall r, In r retry_rows -> rrow_ok r = true.
Proof. exact retry_rows_ok. Qed.
Print Assumptions C20_retry_rows_ok.
Theorem C20_wait_rows_ok : (forall r, In r wait_rows -> wrow_ok r = true) /\ wrows_complete wait_rows = true.
Proof. exact wait_rows_ok. Qed.
Print Assumptions C20_wait_rows_ok.

(* kinfo_proc_map / pidtaskinfo_map / proc_info_map / pinfo_map: each index 0..n-1 exactly once *)
Theorem C20_slot_maps_bijective : forall m, In m slot_maps ->
  forall i, In i (zseq 0 (List.length (m_slots m))) -> count_z i (map snd (m_slots m)) = 1%nat.
Proof. exact slot_maps_bijective. Qed.
Print Assumptions C20_slot_maps_bijective.

(* ... in the order in which the C layer builds the record; every platform's maps are present *)
Theorem C20_slot_maps_match_native : forall m, In m slot_maps -> smap_native_ok m = true.
Proof. exact slot_maps_match_native. Qed.
Print Assumptions C20_slot_maps_match_native.
Theorem C20_slot_maps_complete : forall p n, In p all_plats -> In n (maps_of p) -> exists m, find_smap p n slot_maps = Some m.
Proof. exact slot_maps_complete. Qed.
Print Assumptions C20_slot_maps_complete.

(* every probed method with a documented layout returns that shape, those field names, each
   field filled from the documented native slot (its position in the native record), and the
   documented tuple type; this includes the list/dict/row answers (cmdline, environ,
   open_files, net_connections, threads, memory_maps): element by element from the native answer, SFun = a
   function of exactly the named native slots (enum, address pair, hex, status-by-type) *)
Theorem C20_methods_use_documented_slots : forall u d, In u usage_rows ->
  doc_layout (u_plat u) (u_meth u) (u_variant u) = Some d ->
  fields_ok u d = true /\ type_ok u d = true.
Proof. exact methods_use_documented_slots. Qed.
Print Assumptions C20_methods_use_documented_slots.

(* truthiness of slot values must not matter: 0 and -1 put into a native slot that a field copies arrive in that
   field (same tuple type and length) -- every probed row, including system-wide net_connections() (sconn.pid) *)
Theorem C20_falsy_slots_carried : forall u, In u usage_rows -> u_falsy_bad u = [].
Proof. exact falsy_slots_carried. Qed.
Print Assumptions C20_falsy_slots_carried.

Theorem C20_usage_rows_complete : forall p m v, In (p, m, v) doc_keys -> exists u, find_urow p m v usage_rows = Some u.
Proof. exact usage_rows_complete. Qed.
Print Assumptions C20_usage_rows_complete.

(* status() and terminal() depend on their documented slot *)
Theorem C20_methods_depend_on_documented_slot : forall u, In u usage_rows -> deps_ok u = true.
Proof. exact methods_depend_on_documented_slot. Qed.
Print Assumptions C20_methods_depend_on_documented_slot.

(* the front end of every platform exposes the documented names and Process methods; __all__ resolves *)
Theorem C20_names_exposed : forall n, In n names_rows ->
  (forall d, In d (doc_names (nm_plat n)) -> In d (nm_all n)) /\
  (forall d, In d (doc_methods (nm_plat n)) -> In d (nm_methods n)) /\
  (forall a, In a (nm_all n) -> In a (nm_dir n)).
Proof. exact names_exposed. Qed.
Print Assumptions C20_names_exposed.
Theorem C20_names_all_platforms : forall p, In p all_plats -> exists n, In n names_rows /\ nm_plat n = p.
Proof. exact names_all_platforms. Qed.
Print Assumptions C20_names_all_platforms.

(* regression table (beyond the property text, which promises names): cpu_times() / virtual_memory() / swap_memory() /
   disk_io_counters() / net_io_counters() of every platform's front end return a named tuple with exactly the
   per-platform field list recorded in Spec.doc_sys_fields; all 7 x 5 rows present *)
Theorem C20_names_fields_documented : forall r, In r sysfield_rows ->
  same_set (sf_fields r) (doc_sys_fields (sf_plat r) (sf_fn r)) = true.
Proof. exact names_fields_documented. Qed.
Print Assumptions C20_names_fields_documented.
Theorem C20_names_fields_complete : sfrows_complete sysfield_rows = true.
Proof. exact names_fields_complete. Qed.
Print Assumptions C20_names_fields_complete.
(* "carrying the pid and CACHED NAME", through the front end (psutil.Process over the platform layer): the name is one piece
   of state; for EVERY history of name() calls (successful or failing) and other calls, a method that fails afterwards
   carries exactly the name that name() last returned -- None if it never returned one *)
Theorem C20_fe_name_carried : forall pre cache r post,
  nth_error (fe_run cache (pre ++ ECall r :: post)) (List.length pre)
  = Some (ORes r (last_returned cache (fe_run cache pre))).
Proof. exact fe_name_carried. Qed.
Print Assumptions C20_fe_name_carried.
Theorem C20_fe_name_after_name : forall pre cache k c h r,
  nth_error (fe_run cache (pre ++ [EName k c h true; ECall r])) (S (List.length pre))
  = Some (ORes r (Some (fe_name k c h))).
Proof. exact fe_name_after_name. Qed.
Print Assumptions C20_fe_name_after_name.
(* the returned name is the kernel name when that is shorter than 15 bytes, and always starts with it *)
Theorem C20_fe_name_short : forall k c h, Z.of_nat (List.length k) < 15 -> fe_name k c h = k.
Proof. exact fe_name_short. Qed.
Print Assumptions C20_fe_name_short.
Theorem C20_fe_name_extends : forall k c h, prefixb k (fe_name k c h) = true.
Proof. exact fe_name_extends. Qed.
Print Assumptions C20_fe_name_extends.
(* the CODE: histories probed through the real psutil/__init__.py Process class of a copy of the package bound to the stub
   layer of every POSIX platform (short / 15-byte extendable / non-matching / longer names; name() called, not called,
   failing; then cmdline / cwd / threads / num_fds / environ / nice failing, wait(0) timing out): every psutil exception
   carries pid and the returned name, and everything equals the model; every platform has rows for the three modes *)
Theorem C20_frontend_cached_name_rows : (forall r, In r fename_rows -> frow_ok r = true) /\ frows_complete fename_rows = true.
Proof. exact frontend_cached_name_rows. Qed.
Print Assumptions C20_frontend_cached_name_rows.

(* net_if_addrs() post-processing: probed rows equal the model ... *)
Theorem C20_frontend_rows_equal_model : forall r, In r nic_rows -> nic_ok r = true.
Proof. exact frontend_rows_equal_model. Qed.
Print Assumptions C20_frontend_rows_equal_model.

(* ... whose Windows IPv4 broadcast address is "all host bits set" for EVERY address and prefix length ... *)
Theorem C20_frontend_broadcast : forall a k, 0 <= a < 2 ^ 32 -> 0 <= k <= 32 ->
  post_bcast Windows {| n_fam := 0; n_addr := []; n_addrz := a; n_mask := MAddr (netmask_of 32 k); n_bcast := None |}
  = Some (spec_bcast 32 a k).
Proof. exact frontend_broadcast. Qed.
Print Assumptions C20_frontend_broadcast.

(* ... also for IPv4 and IPv6 when the netmask arrives as a prefix length ("24", "64") ... *)
Theorem C20_frontend_broadcast_prefix : forall fam w a k, (fam = 0 /\ w = 32) \/ (fam = 1 /\ w = 128) ->
  0 <= a < 2 ^ w -> 0 <= k <= w ->
  post_bcast Windows {| n_fam := fam; n_addr := []; n_addrz := a; n_mask := MPrefix k; n_bcast := None |}
  = Some (spec_bcast w a k).
Proof. exact frontend_broadcast_prefix. Qed.
Print Assumptions C20_frontend_broadcast_prefix.

(* ... and for IPv6 with the netmask in address form, the form psutil's native layers use (fix 0a57bb9) ... *)
Theorem C20_frontend_broadcast_v6_addr : forall a k, 0 <= a < 2 ^ 128 -> 0 <= k <= 128 ->
  post_bcast Windows {| n_fam := 1; n_addr := []; n_addrz := a; n_mask := MAddr (netmask_of 128 k); n_bcast := None |}
  = Some (spec_bcast 128 a k).
Proof. exact frontend_broadcast_v6_addr. Qed.
Print Assumptions C20_frontend_broadcast_v6_addr.

(* ... which the legacy variant of the model (before fix 0a57bb9) never computed *)
Theorem C20_ipv6_addrform_legacy_refuted : forall a k b,
  post_bcast_pre_0a57bb9 Windows {| n_fam := 1; n_addr := []; n_addrz := a; n_mask := MAddr (netmask_of 128 k); n_bcast := b |} = b.
Proof. exact ipv6_addrform_legacy_refuted. Qed.
Print Assumptions C20_ipv6_addrform_legacy_refuted.

(* ... and whose MAC padding gives six octets for EVERY MAC of 1..6 separator-free octets, on every platform *)
Theorem C20_frontend_mac : forall p os, let sep := match p with Windows => 45 | _ => 58 end in
  (1 <= List.length os <= 6)%nat -> Forall (fun o => count_byte sep o = 0%nat) os ->
  post_addr p {| n_fam := 2; n_addr := join_octets sep os; n_addrz := 0; n_mask := MNone; n_bcast := None |}
  = spec_mac sep os.
Proof. exact frontend_mac. Qed.
Print Assumptions C20_frontend_mac.

(* ---- wave 8: list-then-read loops of the Solaris layer (threads / open_files / memory_maps): the method lists the
   items, reads them one by one tolerating ENOENT of an item, and ends with the liveness probe os.stat(<procfs>/<pid>)
   when an item had vanished.  For EVERY list of per-item outcomes (no bound on its length), every answer of the
   liveness probe, process state and pid (PID 0 not listed = the known class, excluded): the outcome is among what the
   property demands -- the translation of the first failure that is not a vanished item; else, if an item vanished AND
   the probe fails, the translation of the probe's error; else the read items in listing order. *)
Theorem C20_loop_model : forall m outs stat s z,
  outs_ok outs = true -> stat_ok stat = true -> z && negb (listed s) = false ->
  In (loop_outcome m outs stat s z) (loop_allowed m outs stat s z).
Proof. exact loop_model. Qed.
Print Assumptions C20_loop_model.

(* the process died in mid-loop (k items read, a later one gone, <procfs>/<pid> gone too): NoSuchProcess, or
   ZombieProcess while the PID is still listed -- for every outcome list without another kind of failure *)
Theorem C20_loop_dies_midloop : forall m outs e s,
  first_hard outs = None -> existsb item_gone outs = true -> (e = ENOENT \/ e = ESRCH) ->
  loop_outcome m outs (Some e) s false = LExc (if listed s then RZombie else RNoSuch).
Proof. exact loop_dies_midloop. Qed.
Print Assumptions C20_loop_dies_midloop.

(* ... and never the half-read list, whatever the liveness probe fails with *)
Theorem C20_loop_no_partial_list : forall m outs e s z l,
  first_hard outs = None -> existsb item_gone outs = true -> loop_outcome m outs (Some e) s z <> LList l.
Proof. exact loop_no_partial_list. Qed.
Print Assumptions C20_loop_no_partial_list.

(* the process is alive: the items that could be read, in listing order, without the vanished ones *)
Theorem C20_loop_alive_partial : forall m outs s z,
  first_hard outs = None -> loop_outcome m outs None s z = LList (kept m 0 outs).
Proof. exact loop_alive_partial. Qed.
Print Assumptions C20_loop_alive_partial.

(* a per-item failure other than a vanished item ends the method with its translation, whatever follows it *)
Theorem C20_loop_hard_failure : forall m outs stat s z e,
  first_hard outs = Some e -> loop_outcome m outs stat s z = LExc (wrap SunOS (Build_cond e s z)).
Proof. exact loop_hard_failure. Qed.
Print Assumptions C20_loop_hard_failure.
