(* C12 -- cmdline/environ/exe/cwd and extended name() decode what the kernel exposes.
   Statements only; proofs live in C12/Proofs*.v.  Model: C12/Model.v (transcription of
   psutil/_pslinux.py, _common.py, __init__.py), text layer and UTF-8 decoder: C12/Lib.v,
   specification (kernel printers k_..., demanded answers spec_...): C12/Spec.v.
   [now] is the code as it is in /repo; [before_fix] is the code before the two repairs
   this check led to (commits 46827e5, 76627f6) and appears only in the refuted statements. *)
From PV Require Import C12.Spec C12.Codec C12.Proofs C12.ProofsEnv C12.ProofsLink C12.ProofsTotal.
From PV Require Import C12.PyGen Gen.C12_Tables C12.ProofsGen.

(* ---- cmdline() *)

(* every argument vector (any count >= 1, empty arguments, any bytes but NUL) comes back
   as it is; the one shape read differently is a lone argument containing a space (next theorem) *)
Theorem C12_cmdline_argv : forall argv zombie,
  argv <> [] -> forallb nul_free argv = true -> single_space argv = false ->
  pl_cmdline now (view_cmd (KArgv argv) zombie) = Val argv.
Proof. exact cmdline_argv_now. Qed.
Print Assumptions C12_cmdline_argv.

(* a single NUL-terminated argument carries no NUL separator: it is split on spaces *)
Theorem C12_cmdline_single_arg : forall a zombie,
  nul_free a = true ->
  pl_cmdline now (view_cmd (KArgv [a]) zombie) = Val (split_on 32 a).
Proof. exact cmdline_single_arg_now. Qed.
Print Assumptions C12_cmdline_single_arg.

(* an overwritten title (words separated by single spaces; no terminator, a space, or one NUL) *)
Theorem C12_cmdline_title : forall ws t zombie,
  wf_cmd (KTitle ws t) = true ->
  pl_cmdline now (view_cmd (KTitle ws t) zombie) = Val ws.
Proof. exact cmdline_title_now. Qed.
Print Assumptions C12_cmdline_title.

(* the empty file: ZombieProcess for a zombie, [] for a live process (kernel thread) *)
Theorem C12_cmdline_empty_file : forall c zombie,
  pl_cmdline c (view_cmd (KArgv []) zombie) = if zombie then Exc ZombieProcess else Val [].
Proof. exact cmdline_empty_file. Qed.
Print Assumptions C12_cmdline_empty_file.

(* the whole heuristic pinned: for EVERY byte string in the file (no well-formedness
   hypothesis: NULs inside a title, mixed separators, no terminator, only separators ...)
   cmdline() is the documented rule [spec_split]; the empty file is the zombie test *)
Theorem C12_cmdline_total : forall data zombie,
  pl_cmdline now (view_cmd_bytes data zombie) = spec_cmd_bytes data zombie.
Proof. exact cmdline_total. Qed.
Print Assumptions C12_cmdline_total.

(* ... and on kernel-shaped files the rule gives the argument vector / the words *)
Theorem C12_cmdline_rule_on_kernel_shapes : forall k,
  wf_cmd k = true -> k_cmdline k <> [] -> spec_split (k_cmdline k) = spec_cmdline k.
Proof. exact spec_split_argv. Qed.
Print Assumptions C12_cmdline_rule_on_kernel_shapes.

(* size: the theorems above bound nothing; in particular for the argument vectors the harness
   describes by repetition (hundreds of arguments, one argument of 100 KiB, ...) every
   argument comes back, whatever the size of /proc/<pid>/cmdline *)
Theorem C12_cmdline_any_size : forall gs zombie,
  forallb group_ok gs = true -> expand_args gs <> [] -> single_space (expand_args gs) = false ->
  pl_cmdline now (view_cmd (KArgv (expand_args gs)) zombie) = Val (expand_args gs).
Proof. exact cmdline_repeat. Qed.
Print Assumptions C12_cmdline_any_size.

(* ---- environ() *)

(* for every byte block whatsoever: never an exception, a dictionary with unique keys *)
Theorem C12_environ_total : forall data,
  exists d, pl_environ now (view_env_bytes data) = Val d /\ NoDup (map fst d).
Proof. exact environ_total. Qed.
Print Assumptions C12_environ_total.

(* ... and which dictionary: read the block as NUL-terminated entries up to the first empty
   one ([env_read], which prints back to exactly the block); every NAME maps to the value of
   its last NAME=value entry *)
Theorem C12_environ_total_spec : forall data,
  exists d, pl_environ now (view_env_bytes data) = Val d /\ NoDup (map fst d) /\
            forall k, aget k d = env_last k (e_items (env_read data)).
Proof. exact environ_total_spec. Qed.
Print Assumptions C12_environ_total_spec.

Theorem C12_environ_every_block_is_a_record : forall data,
  k_environ (env_read data) = data /\ wf_env (env_read data) = true.
Proof. exact env_read_print. Qed.
Print Assumptions C12_environ_every_block_is_a_record.


(* every block: the call succeeds, each NAME occurs once, and looking a NAME up gives the
   value of its last NAME=value entry before the first empty entry ('=' kept in values,
   entries without '=' or with an empty NAME and an unterminated tail ignored) *)
Theorem C12_environ_lookup : forall r,
  wf_env r = true ->
  exists d, pl_environ now (view_env r) = Val d /\ NoDup (map fst d) /\
            forall k, aget k d = env_last k (e_items r).
Proof. exact environ_lookup_now. Qed.
Print Assumptions C12_environ_lookup.

(* the listed form of the demanded dictionary used by the harness is that dictionary *)
Theorem C12_environ_spec_list : forall items,
  NoDup (map fst (spec_env items)) /\ forall k, aget k (spec_env items) = env_last k items.
Proof. exact environ_spec_list. Qed.
Print Assumptions C12_environ_spec_list.

(* ... and every variable of an environment of any size *)
Theorem C12_environ_any_size : forall gs,
  forallb egroup_ok gs = true ->
  exists d, pl_environ now (view_env {| e_items := expand_env 0 gs; e_tail := ENone |}) = Val d /\ NoDup (map fst d) /\
            forall k, aget k d = env_last k (expand_env 0 gs).
Proof. exact environ_repeat. Qed.
Print Assumptions C12_environ_any_size.

(* ---- exe() / cwd() *)

(* every link target: NUL garbage cut, the " (deleted)" the kernel appended removed, a
   literal " (deleted)" in the name of an existing file kept *)
Theorem C12_link_cleanup : forall v r,
  wf_link r = true -> pl_readlink v (to_link r) = Val (l_path r).
Proof. exact link_cleanup. Qed.
Print Assumptions C12_link_cleanup.

(* withheld link (ENOENT / ESRCH), decided by probing /proc/<pid>/stat: '' for a live
   process, ZombieProcess for a zombie; NoSuchProcess when the stat file is absent (even if
   the directory still resolves); AccessDenied when the probe itself is refused *)
Theorem C12_link_withheld : forall v l z,
  withheld l = true -> v_stat v = Some z ->
  pl_readlink v l = if z then Exc ZombieProcess else Val [].
Proof. exact link_withheld. Qed.
Print Assumptions C12_link_withheld.

Theorem C12_link_gone : forall v l,
  withheld l = true -> v_stat v = None -> v_stat_denied v = false ->
  pl_readlink v l = Exc NoSuchProcess.
Proof. exact link_gone. Qed.
Print Assumptions C12_link_gone.

Theorem C12_link_probe_denied : forall v l,
  withheld l = true -> v_stat v = None -> v_stat_denied v = true ->
  pl_readlink v l = Exc AccessDenied.
Proof. exact link_probe_denied. Qed.
Print Assumptions C12_link_probe_denied.

(* the existence probe of a " (deleted)"-marked target is three-way: exists / refused /
   fails with any other errno (ENOENT, ESRCH, ENOTDIR, ELOOP, ENAMETOOLONG, EIO, EOVERFLOW,
   ESTALE, anything): the answer does not depend on WHICH errno said "not there" ... *)
Theorem C12_link_probe_errno_irrelevant : forall v raw e1 e2,
  pl_readlink v (LTarget raw (SFails e1)) = pl_readlink v (LTarget raw (SFails e2)).
Proof. exact probe_errno_irrelevant. Qed.
Print Assumptions C12_link_probe_errno_irrelevant.

(* ... it is never an exception, for exe() and cwd() alike, whatever bytes the target holds
   (NUL garbage included) ... *)
Theorem C12_link_probe_failure_is_an_answer : forall v raw e,
  exists p, pl_readlink v (LTarget raw (SFails e)) = Val p
            /\ (v_exe v = LTarget raw (SFails e) -> pl_exe v = Val p)
            /\ (v_cwd v = LTarget raw (SFails e) -> pl_cwd v = Val p).
Proof. exact probe_failure_is_an_answer. Qed.
Print Assumptions C12_link_probe_failure_is_an_answer.

(* ... and for an unlinked target it is the path with the stale marker stripped *)
Theorem C12_link_cleanup_any_errno : forall v path garbage e,
  nul_free path = true -> path <> [] ->
  pl_readlink v (to_link {| l_path := path; l_unlinked := true; l_garbage := garbage; l_lit_exists := false; l_errno := e |})
  = Val path.
Proof. exact link_cleanup_any_errno. Qed.
Print Assumptions C12_link_cleanup_any_errno.

(* the decision table of a link that is not given (ENOENT / ESRCH), in one statement:
   live -> '', zombie -> ZombieProcess, stat absent -> NoSuchProcess, probe refused ->
   AccessDenied; for _readlink itself, for cwd(), and for the front-end exe() in the rows
   where no fallback is attempted (nothing is cached there) *)
Theorem C12_link_decision_table : forall c v l,
  withheld l = true ->
  pl_readlink v l = link_table (v_stat v) (v_stat_denied v)
  /\ (v_cwd v = l -> pl_cwd v = link_table (v_stat v) (v_stat_denied v))
  /\ (v_exe v = l -> v_stat v <> Some false -> (v_stat v = None -> v_stat_denied v = false) ->
      fe_exe c None v = (link_table (v_stat v) (v_stat_denied v), None)).
Proof. exact link_decision_table. Qed.
Print Assumptions C12_link_decision_table.

(* the same through the public calls for a process being torn down (stat unreachable, all
   other entries gone): cwd() and exe() raise NoSuchProcess; AccessDenied when the probe is refused *)
Theorem C12_gone_block : forall c denied esrch,
  run_ops c st0 (gone_ops denied esrch) = spec_gone denied.
Proof. exact gone_block. Qed.
Print Assumptions C12_gone_block.

(* exe() of a live process: the cleaned link target, or -- link withheld (ENOENT/ESRCH) --
   cmdline()[0] when that is an absolute path to an executable regular file ([exec_file]:
   absolute AND a regular file AND executable; a searchable directory, a file without x
   bit, a dangling or a relative path are refused) and '' otherwise; the answer is stored,
   and a later call returns it whatever the kernel shows then *)
Theorem C12_exe_fallback_and_cache : forall r v',
  wf_proc r = true -> spec_cached r = true ->
  exists e, spec_exe r = Val e
            /\ fe_exe now None (view_proc r) = (Val e, Some e)
            /\ fe_exe now (Some e) v' = (Val e, Some e).
Proof. exact exe_fallback_and_cache_now. Qed.
Print Assumptions C12_exe_fallback_and_cache.

(* reading the link denied (EACCES): the same fallback value when it applies, AccessDenied
   otherwise; nothing is stored *)
Theorem C12_exe_denied : forall r,
  wf_proc r = true -> spec_cached r = false ->
  fe_exe now None (view_proc r) = (spec_exe r, None).
Proof. exact exe_denied_now. Qed.
Print Assumptions C12_exe_denied.

(* the oracle of the model keeps isabs / isfile / access(X_OK) apart; together they are [exec_file] *)
Theorem C12_exe_three_tests : forall r a0,
  prefixb [47] a0 && isfile (view_proc r) a0 && access_x (view_proc r) a0 = exec_file (p_paths r) a0.
Proof. exact guess_oracle. Qed.
Print Assumptions C12_exe_three_tests.

(* for any view at all: an answer of a first call is the cached one unless readlink was denied *)
Theorem C12_exe_answer_is_cached : forall c v e st,
  fe_exe c None v = (Val e, st) -> pl_exe v <> Exc AccessDenied ->
  st = Some e /\ forall v', fe_exe c st v' = (Val e, st).
Proof. exact exe_answer_is_cached_full. Qed.
Print Assumptions C12_exe_answer_is_cached.

(* ---- name() *)

(* the kernel's name; when it fills all 15 bytes and the basename of cmdline()[0] starts
   with it (as bytes), that basename -- for every name, whatever bytes it contains *)
Theorem C12_name_extension : forall r,
  wf_proc r = true -> fe_name now (view_proc r) = Val (spec_name r).
Proof. exact name_spec_now. Qed.
Print Assumptions C12_name_extension.

Theorem C12_name_zombie : forall c v,
  v_stat v = Some true -> v_cmdline v = FData [] -> fe_name c v = Val (v_comm v).
Proof. exact name_zombie. Qed.
Print Assumptions C12_name_zombie.

(* a zombie, whatever its name (15 bytes included, where name() consults cmdline()): name()
   is the kernel name; cmdline(), exe(), cwd() raise ZombieProcess *)
Theorem C12_zombie_block : forall c comm esrch,
  run_ops c st0 (zombie_ops (view_zombie comm esrch)) = spec_zombie comm.
Proof. exact zombie_block. Qed.
Print Assumptions C12_zombie_block.

(* ---- name(): histories on one object *)

(* history independence, for ALL histories and any remembered state: in a sequence of
   name() / repr() / as_dict(['name']) (= process_iter(['name'])) calls on one object, over
   kernel views that change arbitrarily in between, the answer at step k is the answer a
   fresh object gives to the view of step k alone *)
Theorem C12_name_history_independent : forall c steps st,
  forallb (fun s => name_family (snd s)) steps = true ->
  run_ops c st steps = map (fun s => fst (do_op c st0 (fst s) (snd s))) steps.
Proof. exact name_history_independent. Qed.
Print Assumptions C12_name_history_independent.

(* two histories ending in the same OS state give the same last answer *)
Theorem C12_name_last_answer : forall c pre1 pre2 st1 st2 v o,
  name_family o = true ->
  forallb (fun s => name_family (snd s)) pre1 = true ->
  forallb (fun s => name_family (snd s)) pre2 = true ->
  last (run_ops c st1 (pre1 ++ [(v, o)])) RUnit = last (run_ops c st2 (pre2 ++ [(v, o)])) RUnit.
Proof. exact name_last_answer. Qed.
Print Assumptions C12_name_last_answer.

(* every history of OS states (comm, command line or zombie) -- argv[0] rewritten to
   another basename with the same 15-byte prefix, title overwritten, turned zombie, command
   line emptied, and back -- : each answer is the name the CURRENT state demands *)
Theorem C12_name_history_spec : forall h st,
  forallb (fun so => wf_nstate (fst so) && name_family (snd so)) h = true ->
  run_ops now st (map (fun so => (view_nstate (fst so), snd so)) h) = map spec_name_step h.
Proof. exact name_history_spec. Qed.
Print Assumptions C12_name_history_spec.

(* ---- a whole live process (the statement the live cases instantiate on the running kernel) *)

(* cmdline(), environ(), exe(), cwd(), name() on one well-formed process record: the argument
   vector, a dictionary equal (as a dictionary) to the demanded one, the two dentry paths,
   the extended name *)
Theorem C12_live_block : forall r,
  wf_live r = true ->
  exists d, run_ops now st0 (live_ops (view_live r)) =
            [RList (Val (spec_cmdline (lv_cmd r))); RDict (Val d);
             RBytes (Val (l_path (lv_exe r))); RBytes (Val (l_path (lv_cwd r))); RBytes (Val (spec_name (live_proc r)))]
            /\ NoDup (map fst d) /\ forall k, aget k d = aget k (spec_env (e_items (lv_env r))).
Proof. exact live_block. Qed.
Print Assumptions C12_live_block.

(* ---- a block of calls *)

(* cmdline(), cmdline(), name(), exe() on one object over an unchanged kernel state: every
   answer is the one the kernel state demands (the model has no shared mutable result; that
   the implementation's returned list is not aliased with a cache is what the harness's
   history cases check against this statement) *)
Theorem C12_history : forall r,
  wf_proc r = true -> run_ops now st0 (hist_ops (view_proc r)) = spec_hist r.
Proof. exact history_now. Qed.
Print Assumptions C12_history.

(* ---- the codec name() relies on *)

(* os.fsencode(b.decode(fs encoding, surrogateescape)) = b for every byte string: the tests
   name() makes on the re-encoded name and basename are tests on the kernel's bytes *)
Theorem C12_codec_roundtrip : forall b, wf_bytes b = true -> uencode (udecode b) = Some b.
Proof. exact codec_roundtrip. Qed.
Print Assumptions C12_codec_roundtrip.

Theorem C12_udecode_injective : forall a b,
  wf_bytes a = true -> wf_bytes b = true -> udecode a = udecode b -> a = b.
Proof. exact udecode_inj. Qed.
Print Assumptions C12_udecode_injective.

Theorem C12_fsencode_tests : forall comm ext,
  wf_bytes comm = true -> wf_bytes ext = true ->
  exists c e, uencode (udecode comm) = Some c /\ uencode (udecode ext) = Some e /\
              (15 <=? length c)%nat = (15 <=? length comm)%nat /\ prefixb c e = prefixb comm ext.
Proof. exact fsencode_tests. Qed.
Print Assumptions C12_fsencode_tests.

(* ---- regression: the code before the repairs breaks the statements above *)

(* before 46827e5 an argument containing CR did not come back (text-mode read) *)
Theorem C12_cmdline_cr_refuted :
  exists argv, argv <> [] /\ forallb nul_free argv = true /\ single_space argv = false /\
               pl_cmdline before_fix (view_cmd (KArgv argv) false) <> Val argv.
Proof. exact cmdline_cr_refuted. Qed.
Print Assumptions C12_cmdline_cr_refuted.

Theorem C12_environ_cr_refuted :
  exists r, wf_env r = true /\
            forall d, pl_environ before_fix (view_env r) = Val d ->
                      aget (bs "A") d <> env_last (bs "A") (e_items r).
Proof. exact environ_cr_refuted. Qed.
Print Assumptions C12_environ_cr_refuted.

(* ... outside that class the old code met the statements too (so the class was exactly CR) *)
Theorem C12_cmdline_argv_before_fix : forall argv zombie,
  argv <> [] -> forallb nul_free argv = true -> single_space argv = false ->
  forallb no_cr argv = true ->
  pl_cmdline before_fix (view_cmd (KArgv argv) zombie) = Val argv.
Proof. exact cmdline_argv_before_fix. Qed.
Print Assumptions C12_cmdline_argv_before_fix.

(* before 76627f6 a 15-byte name with a multi-byte character was not extended (len() counted characters) *)
Theorem C12_name_multibyte_refuted :
  exists r, wf_proc r = true /\ cmd_no_cr (p_cmd r) = true /\ length (p_comm r) = 15%nat /\
            fe_name before_fix (view_proc r) = Val (p_comm r) /\ spec_name r <> p_comm r.
Proof. exact name_multibyte_refuted. Qed.
Print Assumptions C12_name_multibyte_refuted.

(* ... and a name the kernel cut inside a character was not extended even when it decoded to
   15 characters (startswith compared the decoded texts) *)
Theorem C12_name_cut_char_refuted :
  exists r, wf_proc r = true /\ cmd_no_cr (p_cmd r) = true /\ ulen (p_comm r) = 15%nat /\
            prefixb (p_comm r) (basename (hd [] (spec_cmdline (p_cmd r)))) = true /\
            fe_name before_fix (view_proc r) = Val (p_comm r) /\ spec_name r <> p_comm r.
Proof. exact name_cut_char_refuted. Qed.
Print Assumptions C12_name_cut_char_refuted.

(* ... while for ASCII names the old code met the statement *)
Theorem C12_name_extension_before_fix : forall r,
  wf_proc r = true -> cmd_no_cr (p_cmd r) = true -> is_ascii (p_comm r) = true ->
  fe_name before_fix (view_proc r) = Val (spec_name r).
Proof. exact name_spec_before_fix. Qed.
Print Assumptions C12_name_extension_before_fix.

(* ---- source translation (round 2): [gen_cmdline] / [gen_name] (Gen/C12_Tables.v) are produced on every run by
   props/_c12_gen.py from the CURRENT source of _pslinux.Process.cmdline and psutil.Process.name; [run_cmdline] /
   [run_name] are the interpreters of C12/PyGen.v *)

(* the body of cmdline() on every byte string as the file and either answer of _raise_if_zombie():
   the empty file is the zombie test, any other one goes through the model's separator rule *)
Theorem C12_gen_cmdline_split : forall file zombie,
  run_cmdline gen_cmdline file zombie =
  match file with
  | [] => if zombie then Exc ZombieProcess else Val []
  | _ => Val (cmdline_split file)
  end.
Proof. exact gen_cmdline_split. Qed.
Print Assumptions C12_gen_cmdline_split.

(* ... which is the model's accessor (read with newline="", configuration [now]) on every kernel view whose file is readable *)
Theorem C12_gen_cmdline_correct : forall v file,
  v_cmdline v = FData file ->
  run_cmdline gen_cmdline file (is_zombie v) = pl_cmdline now v.
Proof. exact gen_cmdline_correct. Qed.
Print Assumptions C12_gen_cmdline_correct.

(* the body of name() for every kernel view and every remembered self._name: the model's answer, which is also
   what is stored; exceptions and their order (name first, cmdline only behind the 15-byte guard) as in the model *)
Theorem C12_gen_name_correct : forall v stored,
  run_name gen_name stored (pl_name v) (pl_cmdline now v) =
  omap (fun n => (n, Some n)) (fe_name now v).
Proof. exact gen_name_correct. Qed.
Print Assumptions C12_gen_name_correct.

(* ... as the step of a history of calls on one object (Model.fe_name_st): answer and memory after the call *)
Theorem C12_gen_name_step : forall v st,
  match run_name gen_name (s_name st) (pl_name v) (pl_cmdline now v) with
  | Val (n, m) => fst (fe_name_st now st v) = Val n /\ s_name (snd (fe_name_st now st v)) = m
  | Exc e => fst (fe_name_st now st v) = Exc e /\ snd (fe_name_st now st v) = st
  | OutOfModel => fst (fe_name_st now st v) = OutOfModel
  end.
Proof. exact gen_name_step. Qed.
Print Assumptions C12_gen_name_step.

(* the translated name() composed with the translated cmdline(): both bodies from the source, for every view
   whose cmdline file is readable *)
Theorem C12_gen_name_over_gen_cmdline : forall v file stored,
  v_cmdline v = FData file ->
  run_name gen_name stored (pl_name v) (run_cmdline gen_cmdline file (is_zombie v)) =
  omap (fun n => (n, Some n)) (fe_name now v).
Proof. exact gen_name_over_gen_cmdline. Qed.
Print Assumptions C12_gen_name_over_gen_cmdline.
