(* C11 -- net_connections(): every socket once, right kind, right addresses, right owner.
   Statements only; proofs live in C11/Proofs*.v.  Model: C11/Model.v (transcription of
   psutil/_pslinux.py NetConnections + _check_conn_kind), tables dumped from the code on every run:
   Gen/C11_Tables.v (gen_tmap, gen_conn_tmap, gen_tcp_statuses, socket constants),
   specification (kernel printers, demanded rows): C11/Spec.v.
   [current] is the code as it is now; [before_repairs] the code before the fixes d36edd1 (get_all_inodes keeps
   every holder), 9cf9292 (the UNIX name is cut after the single blank that follows the inode) and 0e98900
   (/proc/net/unix is read with newline="\n": only LF ends a record).
   [o : ipv6_oracle] = the host's IPv6 support (does inet_ntop(AF_INET6) work; what supports_ipv6() answers);
   [ipv6_ok] = both yes.  [*_adds] = the sequence of ret.add() calls, the public functions return [as_set] of it;
   [*_log] = the /proc/net files handed to open_text(). *)
From PV Require Import C11.Spec C11.ProofsTables C11.ProofsAddr C11.ProofsLines C11.Proofs.

(* ---- the tables of the code, as they are now *)

(* for each of the 11 kinds, tmap lists exactly the proc files whose (family, type) class the documented
   kind table admits, in the order tcp, tcp6, udp, udp6, unix *)
Theorem C11_kind_table : forall k, In k kinds ->
  assoc k gen_tmap = Some (filter (proto_admitted k) all5).
Proof. exact kind_table_tmap. Qed.
Print Assumptions C11_kind_table.

(* tmap, conn_tmap and the documented table have the same 11 keys *)
Theorem C11_kind_keys : forall k,
  (In k (map fst gen_conn_tmap) <-> In k kinds) /\ (In k (map fst gen_tmap) <-> In k kinds).
Proof. intros k. split; [apply conn_tmap_keys|apply tmap_keys]. Qed.
Print Assumptions C11_kind_keys.

(* conn_tmap's (families, types) agree with the documented table on every family and TCP/UDP type;
   "unix" and "all" cover every UNIX socket type, the other kinds none *)
Theorem C11_conn_tmap_agrees : forall k fam ty, In k kinds -> In fam [1; 2; 10] -> In ty [1; 2] ->
  conn_admits k fam ty = spec_admits k fam ty.
Proof. exact conn_tmap_agrees. Qed.
Print Assumptions C11_conn_tmap_agrees.

Theorem C11_unix_any_type : forall k t, In k kinds -> spec_admits k 1 t = spec_admits k 1 1.
Proof. exact unix_any_type. Qed.
Print Assumptions C11_unix_any_type.

Theorem C11_gen_constants :
  AF_UNIX = 1 /\ AF_INET = 2 /\ AF_INET6 = 10 /\ SOCK_STREAM = 1 /\ SOCK_DGRAM = 2 /\ CONN_NONE = spec_none.
Proof. exact gen_constants. Qed.
Print Assumptions C11_gen_constants.

(* TCP_STATUSES maps the "%02X" of each of the 11 kernel states to its name *)
Theorem C11_tcp_status_table : forall st, 1 <= st <= 11 ->
  assoc (hexw 2 st) gen_tcp_statuses = spec_tcp_state st.
Proof. exact tcp_status_table. Qed.
Print Assumptions C11_tcp_status_table.

(* any other string as kind: ValueError, whatever the files and descriptor tables hold and whatever the host;
   nothing is read (the access log is empty and the answer does not depend on the tables) *)
Theorem C11_unknown_kind : forall v le o files procs pid ls k, ~ In k kinds ->
  (net_connections_adds v le o files procs k = Exc ValueError
   /\ net_connections v le o files procs k = Exc ValueError
   /\ net_log v le o files procs k = [])
  /\ (proc_net_connections_adds v le o files pid ls k = Exc ValueError
      /\ proc_net_connections v le o files pid ls k = Exc ValueError
      /\ proc_log v le o files pid ls k = []).
Proof. intros. split; [now apply unknown_kind_sys|now apply unknown_kind_proc]. Qed.
Print Assumptions C11_unknown_kind.

(* ---- address decoding: every IPv4/IPv6 address, every port, both byte orders, every host *)
Theorem C11_addr_roundtrip : forall le o ip port, wf_ip ip = true -> wf_port port = true ->
  decode_address le o (k_addr le ip port) (if is_v6 ip then AF_INET6 else AF_INET)
  = if port =? 0 then Val (DAddr ANone)
    else if is_v6 ip && negb (o_ntop6 o) then (if o_supported o then Exc ValueError else Val DUnsupported)
    else Val (DAddr (AInet (ip_bytes ip) port)).
Proof. exact addr_roundtrip. Qed.
Print Assumptions C11_addr_roundtrip.

(* ... in particular the demanded address whenever it can be formatted (IPv4 always) *)
Theorem C11_addr_roundtrip_demanded : forall le o ip port, wf_ip ip = true -> wf_port port = true ->
  o_ntop6 o = true \/ is_v6 ip = false ->
  decode_address le o (k_addr le ip port) (if is_v6 ip then AF_INET6 else AF_INET)
  = Val (DAddr (if port =? 0 then ANone else AInet (ip_bytes ip) port)).
Proof. exact addr_roundtrip_ok. Qed.
Print Assumptions C11_addr_roundtrip_demanded.

(* ---- T6: the returned list is duplicate-free and holds exactly the rows that were add()ed -- for EVERY input
   (any file contents, any descriptor tables, any kind, any host), system-wide and per process *)
Theorem C11_result_duplicate_free : forall v le o files procs kind rows,
  net_connections v le o files procs kind = Val rows ->
  NoDup rows /\ exists adds, net_connections_adds v le o files procs kind = Val adds
                             /\ forall r, In r rows <-> In r adds.
Proof. exact result_duplicate_free. Qed.
Print Assumptions C11_result_duplicate_free.

Theorem C11_proc_result_duplicate_free : forall v le o files pid ls kind rows,
  proc_net_connections v le o files pid ls kind = Val rows ->
  NoDup rows /\ exists adds, proc_net_connections_adds v le o files pid ls kind = Val adds
                             /\ forall r, In r rows <-> In r adds.
Proof. exact proc_result_duplicate_free. Qed.
Print Assumptions C11_proc_result_duplicate_free.

(* ---- the whole answer, system-wide, current code, host with IPv6: for every kernel state (any number of sockets,
   processes, descriptors; sockets shared between processes; UNIX names with leading / trailing / repeated blanks,
   @abstract names) and each of the 11 kinds:
   - the add() sequence is, in table order, exactly one row per demanded entry (no socket twice, none missing): the
     sockets of the kind's (family, type) classes, addresses and port decoded, TCP state name / NONE, UNIX name,
     owner = a holder (pid, fd) or (None, -1) when no holder is visible, one row per holder for UNIX sockets;
   - the call returns the set of those rows;
   - exactly the existing tables of the kind are read, each once.  No exclusion. *)
Theorem C11_system_wide : forall le st kind,
  wf_state st = true -> files_text_safe le st = true -> In kind kinds ->
  exists adds, net_connections_adds current le ipv6_ok (k_files le st) (to_procs (k_procs st)) kind = Val adds
               /\ Forall2 row_ok adds (spec_sys kind st)
               /\ net_connections current le ipv6_ok (k_files le st) (to_procs (k_procs st)) kind = Val (as_set adds)
               /\ net_log current le ipv6_ok (k_files le st) (to_procs (k_procs st)) kind = spec_log kind st.
Proof. exact system_wide_current. Qed.
Print Assumptions C11_system_wide.

(* sharper than the property asks: a TCP/UDP socket held through several descriptors is reported with its first
   holder in the order the process and descriptor tables are scanned *)
Theorem C11_system_wide_first_holder : forall le st kind,
  wf_state st = true -> files_text_safe le st = true -> In kind kinds ->
  exists adds, net_connections_adds current le ipv6_ok (k_files le st) (to_procs (k_procs st)) kind = Val adds
               /\ Forall2 row_ok adds (spec_sys_first kind st).
Proof. exact system_wide_first_current. Qed.
Print Assumptions C11_system_wide_first_holder.

(* ---- per process (any process with a readable fd directory): only that process's sockets, one row per socket
   (TCP/UDP, any of its descriptors) / per descriptor (UNIX); tables read only when it holds a socket *)
Theorem C11_per_process : forall le st p kind,
  wf_state st = true -> files_text_safe le st = true -> wf_kproc p = true -> p_visible p = true ->
  In kind kinds ->
  exists adds, proc_net_connections_adds current le ipv6_ok (k_files le st) (p_pid p) (to_listing p) kind = Val adds
               /\ Forall2 row_ok adds (spec_proc p kind st)
               /\ proc_net_connections current le ipv6_ok (k_files le st) (p_pid p) (to_listing p) kind = Val (as_set adds)
               /\ proc_log current le ipv6_ok (k_files le st) (p_pid p) (to_listing p) kind = spec_proc_log p kind st.
Proof. exact per_process_current. Qed.
Print Assumptions C11_per_process.

(* ---- a process whose fd table yields no socket: [] at once; no table file is read -- whatever the tables hold
   (any [files], even unreadable or malformed ones), any variant, any host *)
Theorem C11_proc_no_sockets_reads_nothing : forall v le o files pid ents kind,
  get_proc_inodes pid ents = Val [] -> In kind kinds ->
  proc_net_connections_adds v le o files pid (LsOk ents) kind = Val []
  /\ proc_net_connections v le o files pid (LsOk ents) kind = Val []
  /\ proc_log v le o files pid (LsOk ents) kind = [].
Proof. exact proc_no_sockets. Qed.
Print Assumptions C11_proc_no_sockets_reads_nothing.

(* ... stated on the kernel's side: no descriptor of the process is a socket *)
Theorem C11_proc_no_sockets_kernel : forall v le o files p kind,
  wf_kproc p = true -> p_visible p = true -> holds_no_socket p = true -> In kind kinds ->
  proc_net_connections v le o files (p_pid p) (to_listing p) kind = Val []
  /\ proc_log v le o files (p_pid p) (to_listing p) kind = [].
Proof. exact proc_no_sockets_kernel. Qed.
Print Assumptions C11_proc_no_sockets_kernel.

(* ---- a host without IPv6 (inet_ntop cannot format it, supports_ipv6() = False): the call still succeeds; the
   rows are those demanded for the state in which the IPv6 tables keep only the sockets with both ports 0
   (nothing to format); the IPv4 and UNIX tables and the descriptor tables are untouched *)
Theorem C11_ipv6_unsupported : forall le st kind,
  let o := {| o_ntop6 := false; o_supported := false |} in
  wf_state st = true -> files_text_safe le st = true -> In kind kinds ->
  exists adds, net_connections_adds current le o (k_files le st) (to_procs (k_procs st)) kind = Val adds
               /\ Forall2 row_ok adds (spec_sys kind (restrict6 o st))
               /\ k_tcp4 (restrict6 o st) = k_tcp4 st /\ k_udp4 (restrict6 o st) = k_udp4 st
               /\ k_unix (restrict6 o st) = k_unix st /\ k_procs (restrict6 o st) = k_procs st
               /\ k_tcp6 (restrict6 o st) = option_map (filter ports_zero) (k_tcp6 st)
               /\ k_udp6 (restrict6 o st) = option_map (filter ports_zero) (k_udp6 st).
Proof. exact ipv6_unsupported. Qed.
Print Assumptions C11_ipv6_unsupported.

(* ---- the same statements for either variant of the code and any host on which the IPv6 branch cannot raise
   ValueError: before the repairs exactly these classes had to be excluded: a UNIX socket held by two processes
   (v_merge), a UNIX name starting with white space (v_exact), and -- [unix_guard] -- a CR anywhere in the unix file
   (v_lf) / str-only white space anywhere in a unix record rather than only in its fixed-format part (v_exact) *)
Theorem C11_system_wide_any_variant : forall v le o st kind,
  wf_state st = true -> files_text_safe le st = true -> unix_guard v st = true -> In kind kinds ->
  o_ntop6 o = true \/ o_supported o = false ->
  (covers_unix kind = true -> (v_merge v = true \/ unix_unshared st = true)
                              /\ (v_exact v = true \/ no_lead_ws st = true)) ->
  exists adds, net_connections_adds v le o (k_files le st) (to_procs (k_procs st)) kind = Val adds
               /\ Forall2 row_ok adds (spec_sys kind (restrict6 o st))
               /\ net_connections v le o (k_files le st) (to_procs (k_procs st)) kind = Val (as_set adds)
               /\ net_log v le o (k_files le st) (to_procs (k_procs st)) kind = spec_log kind st.
Proof. exact system_wide. Qed.
Print Assumptions C11_system_wide_any_variant.

Theorem C11_per_process_any_variant : forall v le o st p kind,
  wf_state st = true -> files_text_safe le st = true -> unix_guard v st = true -> wf_kproc p = true -> p_visible p = true ->
  In kind kinds -> o_ntop6 o = true \/ o_supported o = false ->
  (covers_unix kind = true -> v_exact v = true \/ no_lead_ws st = true) ->
  exists adds, proc_net_connections_adds v le o (k_files le st) (p_pid p) (to_listing p) kind = Val adds
               /\ Forall2 row_ok adds (spec_proc p kind (restrict6 o st))
               /\ proc_net_connections v le o (k_files le st) (p_pid p) (to_listing p) kind = Val (as_set adds)
               /\ proc_log v le o (k_files le st) (p_pid p) (to_listing p) kind = spec_proc_log p kind st.
Proof. exact per_process. Qed.
Print Assumptions C11_per_process_any_variant.

(* ---- malformed lines: which inputs reach which branch *)
(* process_inet raises RuntimeError ("malformed line") exactly for a line with fewer than 10 fields *)
Theorem C11_inet_line_runtime_error : forall le o fam ty lk filt line,
  inet_line le o fam ty lk filt line = Exc RuntimeError <-> (length (split_ws line) < 10)%nat.
Proof. exact inet_line_runtime_error. Qed.
Print Assumptions C11_inet_line_runtime_error.

(* process_unix: a line with fewer than 7 fields is skipped when it holds no blank (issue 766) and raises
   RuntimeError when it holds one; no other line raises RuntimeError *)
Theorem C11_unix_line_short : forall v fam lk filt line, (length (split_ws line) < 7)%nat ->
  unix_line v fam lk filt line = if contains 32 line then Exc RuntimeError else Val [].
Proof. exact unix_line_short. Qed.
Print Assumptions C11_unix_line_short.

Theorem C11_unix_line_runtime_error : forall v fam lk filt line,
  unix_line v fam lk filt line = Exc RuntimeError
  <-> (length (split_ws line) < 7)%nat /\ contains 32 line = true.
Proof. exact unix_line_runtime_error. Qed.
Print Assumptions C11_unix_line_runtime_error.

(* a /proc/net/unix file with blank-free junk lines of fewer than 7 fields anywhere between the records (what a
   socket name containing a newline leaves behind): the answer is that of the file holding only the records *)
Theorem C11_unix_junk_lines_change_nothing : forall v fam lk filt items,
  forallb uitem_ok items = true ->
  v_exact v = true \/ forallb (fun u => negb (path_lead_ws u)) (socks_of items) = true ->
  forallb (fun i => line_guard v (k_uitem i)) items = true ->
  v_lf v = true \/ (contains 13 (k_ufile_items items) = false /\ contains 13 (k_ufile (socks_of items)) = false) ->
  exists rows, process_unix v (Some (k_ufile_items items)) fam lk filt = Val rows
               /\ process_unix v (Some (k_ufile (socks_of items))) fam lk filt = Val rows.
Proof. exact unix_junk_lines_change_nothing. Qed.
Print Assumptions C11_unix_junk_lines_change_nothing.

(* ---- the hypotheses are satisfied by concrete states *)
Theorem C11_hypotheses_satisfiable :
  let st := ex_state false (bs "/tmp/a b") in
  wf_state st = true /\ files_text_safe true st = true /\ unix_unshared st = true /\ no_lead_ws st = true
  /\ length (spec_sys (bs "all") st) = 4%nat /\ forallb wf_kproc (k_procs st) = true.
Proof. exact hypotheses_satisfiable. Qed.
Print Assumptions C11_hypotheses_satisfiable.

Theorem C11_full_domain_example :
  let st := ex_state true (bs " lead") in
  wf_state st = true /\ files_text_safe true st = true /\ unix_unshared st = false /\ no_lead_ws st = false
  /\ length (spec_sys (bs "all") st) = 6%nat.
Proof. exact full_domain_example. Qed.
Print Assumptions C11_full_domain_example.

(* no IPv6: of an IPv6 UDP socket with ports and an IPv6 socket with both ports 0 only the latter is reported *)
Theorem C11_ipv6_unsupported_example :
  let o := {| o_ntop6 := false; o_supported := false |} in
  let st := Build_kstate [ex_tcp] None [] (Some [ex_udp6; ex_v6_listen0]) [] (ex_procs false) (fun _ => None) in
  wf_state st = true /\ files_text_safe true st = true
  /\ exists adds, net_connections_adds current true o (k_files true st) (to_procs (k_procs st)) (bs "inet") = Val adds
                  /\ map r_family adds = [TEnum 2; TEnum 10] /\ map r_laddr adds = [AInet [127; 0; 0; 1] 22; ANone]
                  /\ length (spec_sys (bs "inet") st) = 3%nat.
Proof. exact ipv6_unsupported_example. Qed.
Print Assumptions C11_ipv6_unsupported_example.

Theorem C11_unix_items_example :
  let items := [USock (ex_unix (bs "600") (bs "/tmp/a b") UStream);
                UJunk (bs "000000000000000000000000000000000000000000000000000000"); UJunk []] in
  forallb uitem_ok items = true /\ forallb (fun i => line_guard current (k_uitem i)) items = true
  /\ length (socks_of items) = 1%nat.
Proof. exact unix_items_example. Qed.
Print Assumptions C11_unix_items_example.

(* ---- after os.fork(): every synchronisation object that net_connections() uses (dumped from the code: module-level
   locks and lock attributes of the module-level singletons it goes through) is re-created by an
   os.register_at_fork(after_in_child=...) handler -- on a tree that keeps no such object the table is empty -- ... *)
Theorem C11_fork_sync_reinitialised : forallb (fun e => snd e) gen_fork_sync = true.
Proof. exact fork_sync_reinitialised. Qed.
Print Assumptions C11_fork_sync_reinitialised.

(* ... hence a forked child gets the model's answer for every call, whether or not another thread of the parent was inside
   net_connections() at the moment of the fork (all the theorems above then apply to the child's calls) *)
Theorem C11_fork_child_answers : forall v le o files procs kind held,
  in_forked_child held (net_connections v le o files procs kind) = Answers (net_connections v le o files procs kind).
Proof. intros. apply fork_child_answers. Qed.
Print Assumptions C11_fork_child_answers.

Theorem C11_fork_child_answers_proc : forall v le o files pid ls kind held,
  in_forked_child held (proc_net_connections v le o files pid ls kind)
  = Answers (proc_net_connections v le o files pid ls kind).
Proof. intros. apply fork_child_answers. Qed.
Print Assumptions C11_fork_child_answers_proc.

(* ---- the CLASSES of the field values (family and type are tagged: TEnum = a member of socket.AddressFamily /
   socket.SocketKind, TInt = a plain int; row_ok compares the tags, so every row theorem above and below says: family IS
   the AddressFamily member, type IS the SocketKind member -- SOCK_SEQPACKET, not the bare 5 -- and a number without a
   member stays a plain int) *)
(* socktype_to_enum over the dumped members of socket.SocketKind = the documented members, for every number *)
Theorem C11_sock_kind_agrees : forall n, to_enum gen_socket_kinds n = spec_sock_kind n.
Proof. exact sock_kind_agrees. Qed.
Print Assumptions C11_sock_kind_agrees.

(* the family / type objects in tmap are enum members; AF_UNIX/AF_INET/AF_INET6 are AddressFamily members; every status the
   code can return is one of the psutil CONN_* string constants *)
Theorem C11_field_classes :
  gen_tmap_enums = true
  /\ forallb (fun f => existsb (Z.eqb f) gen_address_families) [1; 2; 10] = true
  /\ forallb (fun s => existsb (beqb s) gen_conn_constants) (CONN_NONE :: map snd gen_tcp_statuses) = true.
Proof. exact field_classes. Qed.
Print Assumptions C11_field_classes.

Theorem C11_unix_type_classes :
  let st := Build_kstate [] None [] None
              [ex_unix (bs "600") (bs "/s") USeqpacket; ex_unix (bs "601") (bs "/r") (UOther 3);
               ex_unix (bs "602") (bs "/u") (UOther 7); ex_unix (bs "603") (bs "/z") (UOther 0)]
              (ex_procs false) (fun _ => None) in
  wf_state st = true /\ files_text_safe true st = true
  /\ exists adds, net_connections_adds current true ipv6_ok (k_files true st) (to_procs (k_procs st)) (bs "unix") = Val adds
                  /\ map r_type adds = [TEnum 5; TEnum 3; TInt 7; TInt 0]
                  /\ map r_family adds = [TEnum 1; TEnum 1; TEnum 1; TEnum 1]
                  /\ map e_type (spec_sys (bs "unix") st) = [TEnum 5; TEnum 3; TInt 7; TInt 0].
Proof. exact unix_type_classes. Qed.
Print Assumptions C11_unix_type_classes.

(* ---- degenerate table files (procfs emulations / sandboxes): a table file that exists but is completely empty
   (0 bytes, no header), holds the header without its newline, or a lone newline is part of the state ([k_deg], only
   for tables without sockets) and so of the domain of C11_system_wide / C11_per_process: it contributes no row, raises
   nothing, the other tables of the kind are still returned, and it is read like any other.  Concretely: *)
Theorem C11_empty_tables :
  let st := Build_kstate [ex_tcp] (Some []) [] (Some []) [] (ex_procs false)
              (fun n => if beqb n (bs "tcp6") then Some DEmpty else if beqb n (bs "udp6") then Some DHeaderNoNl
                        else if beqb n (bs "unix") then Some DNewline else None) in
  wf_state st = true /\ files_text_safe true st = true
  /\ k_files true st (bs "tcp6") = Some [] /\ k_files true st (bs "udp6") = Some hdr_udp6
  /\ k_files true st (bs "unix") = Some [10]
  /\ (exists adds, net_connections_adds current true ipv6_ok (k_files true st) (to_procs (k_procs st)) (bs "all") = Val adds
                   /\ length adds = 1%nat /\ length (spec_sys (bs "all") st) = 1%nat)
  /\ net_log current true ipv6_ok (k_files true st) (to_procs (k_procs st)) (bs "all")
     = [bs "tcp"; bs "tcp6"; bs "udp"; bs "udp6"; bs "unix"]
  /\ net_connections current true ipv6_ok (k_files true st) (to_procs (k_procs st)) (bs "inet6") = Val [].
Proof. exact empty_tables_example. Qed.
Print Assumptions C11_empty_tables.

Theorem C11_all_tables_degenerate :
  forall d, let st := Build_kstate [] (Some []) [] (Some []) [] (ex_procs false) (fun _ => Some d) in
  wf_state st = true /\ files_text_safe true st = true
  /\ net_connections current true ipv6_ok (k_files true st) (to_procs (k_procs st)) (bs "all") = Val [].
Proof. exact all_tables_degenerate. Qed.
Print Assumptions C11_all_tables_degenerate.

(* the file-level facts behind it, for every header and every host / variant *)
Theorem C11_degenerate_file_no_rows : forall le o v d hdr is6 fam ty lk filt,
  text_safe hdr = true -> contains 10 hdr = false ->
  process_inet le o (Some (k_deg_file d hdr)) is6 fam ty lk filt = Val []
  /\ process_unix v (Some (k_deg_file d hdr_unix)) fam lk filt = Val [].
Proof. intros. split; [now apply process_inet_degenerate|apply process_unix_degenerate]. Qed.
Print Assumptions C11_degenerate_file_no_rows.

(* ---- UNIX names: every byte except LF and NUL.  A state whose shared UNIX socket is bound to
   " \r\x1c<NBSP><LINE SEPARATOR>\t\xff x \x1f" is in the domain of the theorems above, and the name comes back whole;
   so does "/tmp/a\rb c" *)
Theorem C11_unix_odd_names :
  let st := ex_state true name_odd in
  wf_state st = true /\ files_text_safe true st = true
  /\ (exists rows, net_connections_adds current true ipv6_ok (k_files true st) (to_procs (k_procs st)) (bs "unix") = Val rows
                   /\ map r_laddr rows = [APath name_odd; APath name_odd; APath name_odd; APath (bs "@abstract name")])
  /\ (exists rows, net_connections_adds current true ipv6_ok (k_files true (ex_state false name_cr))
                                         (to_procs (k_procs (ex_state false name_cr))) (bs "unix") = Val rows
                   /\ map r_laddr rows = [APath name_cr; APath (bs "@abstract name")]).
Proof. exact unix_odd_names. Qed.
Print Assumptions C11_unix_odd_names.

(* the code before 0e98900 (universal newlines): the CR in "/tmp/a\rb c" split the record and the whole call
   raised RuntimeError where two rows are demanded *)
Theorem C11_unix_cr_refuted :
  exists st, wf_state st = true /\ files_text_safe true st = true
             /\ length (spec_sys (bs "unix") st) = 2%nat
             /\ net_connections_adds before_0e98900 true ipv6_ok (k_files true st) (to_procs (k_procs st)) (bs "unix")
                = Exc RuntimeError.
Proof. exact unix_cr_refuted. Qed.
Print Assumptions C11_unix_cr_refuted.

(* the excluded class, precisely: a name holding LF.  The kernel prints it raw, so the record is split: with a blank
   in the tail the call fails with RuntimeError, without one the tail is skipped and the name is cut at the LF *)
Theorem C11_unix_name_with_lf_splits :
  let u1 := ex_unix (bs "600") (bs "/tmp/a" ++ [10] ++ bs "b c") UStream in
  let u2 := ex_unix (bs "600") (bs "/tmp/a" ++ [10] ++ bs "b") UStream in
  wf_usock u1 = false /\ wf_usock u2 = false
  /\ process_unix current (Some (k_ufile [u1])) 1 (fun _ => None) None = Exc RuntimeError
  /\ exists rows, process_unix current (Some (k_ufile [u2])) 1 (fun _ => None) None = Val rows
                  /\ map r_laddr rows = [APath (bs "/tmp/a")].
Proof. exact unix_name_with_lf_splits. Qed.
Print Assumptions C11_unix_name_with_lf_splits.

(* ---- the repaired defects: the code before the repairs really failed on the two excluded classes ... *)
Theorem C11_unix_shared_refuted :
  exists st, wf_state st = true /\ files_text_safe true st = true /\ no_lead_ws st = true
             /\ unix_unshared st = false
             /\ exists rows, net_connections_adds before_repairs true ipv6_ok (k_files true st) (to_procs (k_procs st)) (bs "unix") = Val rows
                             /\ length (spec_sys (bs "unix") st) = 4%nat /\ length rows = 3%nat.
Proof. exact unix_shared_refuted. Qed.
Print Assumptions C11_unix_shared_refuted.

Theorem C11_unix_lead_ws_refuted :
  exists st, wf_state st = true /\ files_text_safe true st = true /\ unix_unshared st = true
             /\ no_lead_ws st = false
             /\ exists rows, net_connections_adds before_repairs true ipv6_ok (k_files true st) (to_procs (k_procs st)) (bs "unix") = Val rows
                             /\ map e_laddr (spec_sys (bs "unix") st) = [APath (bs " lead"); APath (bs "@abstract name")]
                             /\ map r_laddr rows = [APath (bs "lead"); APath (bs "@abstract name")].
Proof. exact unix_lead_ws_refuted. Qed.
Print Assumptions C11_unix_lead_ws_refuted.

(* ... and the current code gives the demanded answer on the same two states (4 rows; " lead" kept) *)
Theorem C11_repaired_witnesses :
  let v := current in
  (exists rows, net_connections_adds v true ipv6_ok (k_files true (ex_state true (bs "/tmp/a b")))
                                (to_procs (k_procs (ex_state true (bs "/tmp/a b")))) (bs "unix") = Val rows
                /\ length rows = 4%nat)
  /\ (exists rows, net_connections_adds v true ipv6_ok (k_files true (ex_state false (bs " lead")))
                                   (to_procs (k_procs (ex_state false (bs " lead")))) (bs "unix") = Val rows
                   /\ map r_laddr rows = [APath (bs " lead"); APath (bs "@abstract name")]).
Proof. exact repaired_witnesses. Qed.
Print Assumptions C11_repaired_witnesses.

(* the defect repaired by b838598: a UNIX path with a blank is returned whole *)
Theorem C11_unix_path_with_blank :
  exists rows, net_connections_adds current true ipv6_ok (k_files true (ex_state false (bs "/tmp/a b")))
                               (to_procs (k_procs (ex_state false (bs "/tmp/a b")))) (bs "unix") = Val rows
               /\ map r_laddr rows = [APath (bs "/tmp/a b"); APath (bs "@abstract name")].
Proof. exact unix_path_with_blank. Qed.
Print Assumptions C11_unix_path_with_blank.
