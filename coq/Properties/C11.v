(* C11 -- net_connections(): every socket once, right kind, right addresses, right owner.
   Statements only; proofs live in C11/Proofs*.v.  Model: C11/Model.v (transcription of
   psutil/_pslinux.py NetConnections + _check_conn_kind), tables dumped from the code on every run:
   Gen/C11_Tables.v (gen_tmap, gen_conn_tmap, gen_tcp_statuses, socket constants),
   specification (kernel printers, demanded rows): C11/Spec.v.
   [current] is the code as it is now; [before_repairs] the code before the fixes d36edd1 (get_all_inodes keeps
   every holder) and 9cf9292 (the UNIX name is cut after the single blank that follows the inode). *)
From PV Require Import C11.Spec C11.ProofsTables C11.ProofsAddr C11.Proofs.

(* ---- the tables of the code, as they are now *)

(* for each of the 11 kinds, tmap lists exactly the proc files whose (family, type) class the documented
   kind table admits, in the order tcp, tcp6, udp, udp6, unix *)
Theorem C11_kind_table : forall k, In k kinds ->
  assoc k gen_tmap = Some (filter (proto_admitted k) all5).
Proof. exact kind_table_tmap. Qed.
Print Assumptions C11_kind_table.

(* tmap, conn_tmap and the documented table have the same 11 keys *)
Theorem C11_kind_keys : forall k,
  (In k (map fst gen_conn_tmap) <-> In k kinds) /\ (In k (map fst gen_tmap) <-> In k kinds).
Proof. intros k. split; [apply conn_tmap_keys|apply tmap_keys]. Qed.
Print Assumptions C11_kind_keys.

(* conn_tmap's (families, types) agree with the documented table on every family and TCP/UDP type;
   "unix" and "all" cover every UNIX socket type, the other kinds none *)
Theorem C11_conn_tmap_agrees : forall k fam ty, In k kinds -> In fam [1; 2; 10] -> In ty [1; 2] ->
  conn_admits k fam ty = spec_admits k fam ty.
Proof. exact conn_tmap_agrees. Qed.
Print Assumptions C11_conn_tmap_agrees.

Theorem C11_unix_any_type : forall k t, In k kinds -> spec_admits k 1 t = spec_admits k 1 1.
Proof. exact unix_any_type. Qed.
Print Assumptions C11_unix_any_type.

Theorem C11_gen_constants :
  AF_UNIX = 1 /\ AF_INET = 2 /\ AF_INET6 = 10 /\ SOCK_STREAM = 1 /\ SOCK_DGRAM = 2 /\ CONN_NONE = spec_none.
Proof. exact gen_constants. Qed.
Print Assumptions C11_gen_constants.

(* TCP_STATUSES maps the "%02X" of each of the 11 kernel states to its name *)
Theorem C11_tcp_status_table : forall st, 1 <= st <= 11 ->
  assoc (hexw 2 st) gen_tcp_statuses = spec_tcp_state st.
Proof. exact tcp_status_table. Qed.
Print Assumptions C11_tcp_status_table.

(* any other string as kind: ValueError, whatever the files and descriptor tables hold
   (nothing is read: the answer does not depend on them), system-wide and per process *)
Theorem C11_unknown_kind : forall v le files procs pid ls k, ~ In k kinds ->
  net_connections v le files procs k = Exc ValueError
  /\ proc_net_connections v le files pid ls k = Exc ValueError.
Proof. intros. split; [now apply unknown_kind_sys|now apply unknown_kind_proc]. Qed.
Print Assumptions C11_unknown_kind.

(* ---- address decoding: every IPv4/IPv6 address, every port, both byte orders *)
Theorem C11_addr_roundtrip : forall le ip port, wf_ip ip = true -> wf_port port = true ->
  decode_address le (k_addr le ip port) (if is_v6 ip then AF_INET6 else AF_INET)
  = Val (if port =? 0 then ANone else AInet (ip_bytes ip) port).
Proof. exact addr_roundtrip. Qed.
Print Assumptions C11_addr_roundtrip.

(* ---- the whole answer, system-wide: for every kernel state (any number of sockets, processes, descriptors; sockets
   shared between processes; UNIX names with leading / trailing / repeated blanks, @abstract names) and each of the
   11 kinds the call succeeds and returns, in table order, exactly one row per demanded entry: the sockets of the kind's
   (family, type) classes, addresses and port decoded, TCP state name / NONE, UNIX name, owner = a holder (pid, fd) or
   (None, -1) when no holder is visible, one row per holder for UNIX sockets.  No exclusion. *)
Theorem C11_system_wide : forall le st kind,
  wf_state st = true -> files_text_safe le st = true -> In kind kinds ->
  exists rows, net_connections current le (k_files le st) (to_procs (k_procs st)) kind = Val rows
               /\ Forall2 row_ok rows (spec_sys kind st).
Proof. exact system_wide_current. Qed.
Print Assumptions C11_system_wide.

(* sharper than the property asks: a TCP/UDP socket held through several descriptors is reported with its first
   holder in the order the process and descriptor tables are scanned *)
Theorem C11_system_wide_first_holder : forall le st kind,
  wf_state st = true -> files_text_safe le st = true -> In kind kinds ->
  exists rows, net_connections current le (k_files le st) (to_procs (k_procs st)) kind = Val rows
               /\ Forall2 row_ok rows (spec_sys_first kind st).
Proof. exact system_wide_first_current. Qed.
Print Assumptions C11_system_wide_first_holder.

(* ---- per process (any process with a readable fd directory): only that process's sockets, one row per socket
   (TCP/UDP, any of its descriptors) / per descriptor (UNIX) *)
Theorem C11_per_process : forall le st p kind,
  wf_state st = true -> files_text_safe le st = true -> wf_kproc p = true -> p_visible p = true ->
  In kind kinds ->
  exists rows, proc_net_connections current le (k_files le st) (p_pid p) (to_listing p) kind = Val rows
               /\ Forall2 row_ok rows (spec_proc p kind st).
Proof. exact per_process_current. Qed.
Print Assumptions C11_per_process.

(* the same two statements for either variant of the code: before the repairs exactly two classes had to be
   excluded (UNIX socket held by two processes; UNIX name starting with white space) *)
Theorem C11_system_wide_any_variant : forall v le st kind,
  wf_state st = true -> files_text_safe le st = true -> In kind kinds ->
  (covers_unix kind = true -> (v_merge v = true \/ unix_unshared st = true)
                              /\ (v_exact v = true \/ no_lead_ws st = true)) ->
  exists rows, net_connections v le (k_files le st) (to_procs (k_procs st)) kind = Val rows
               /\ Forall2 row_ok rows (spec_sys kind st).
Proof. exact system_wide. Qed.
Print Assumptions C11_system_wide_any_variant.

Theorem C11_per_process_any_variant : forall v le st p kind,
  wf_state st = true -> files_text_safe le st = true -> wf_kproc p = true -> p_visible p = true ->
  In kind kinds -> (covers_unix kind = true -> v_exact v = true \/ no_lead_ws st = true) ->
  exists rows, proc_net_connections v le (k_files le st) (p_pid p) (to_listing p) kind = Val rows
               /\ Forall2 row_ok rows (spec_proc p kind st).
Proof. exact per_process. Qed.
Print Assumptions C11_per_process_any_variant.

(* the hypotheses are satisfied by concrete states: a TCP socket held by two processes, a hidden holder, an absent
   tcp6 file, a UNIX name with a blank and an abstract name (first), and additionally a UNIX socket shared between
   two processes whose name starts with a blank (second) *)
Theorem C11_hypotheses_satisfiable :
  let st := ex_state false (bs "/tmp/a b") in
  wf_state st = true /\ files_text_safe true st = true /\ unix_unshared st = true /\ no_lead_ws st = true
  /\ length (spec_sys (bs "all") st) = 4%nat /\ forallb wf_kproc (k_procs st) = true.
Proof. exact hypotheses_satisfiable. Qed.
Print Assumptions C11_hypotheses_satisfiable.

Theorem C11_full_domain_example :
  let st := ex_state true (bs " lead") in
  wf_state st = true /\ files_text_safe true st = true /\ unix_unshared st = false /\ no_lead_ws st = false
  /\ length (spec_sys (bs "all") st) = 6%nat.
Proof. exact full_domain_example. Qed.
Print Assumptions C11_full_domain_example.

(* ---- the repaired defects: the code before the repairs really failed on the two excluded classes ... *)
Theorem C11_unix_shared_refuted :
  exists st, wf_state st = true /\ files_text_safe true st = true /\ no_lead_ws st = true
             /\ unix_unshared st = false
             /\ exists rows, net_connections before_repairs true (k_files true st) (to_procs (k_procs st)) (bs "unix") = Val rows
                             /\ length (spec_sys (bs "unix") st) = 4%nat /\ length rows = 3%nat.
Proof. exact unix_shared_refuted. Qed.
Print Assumptions C11_unix_shared_refuted.

Theorem C11_unix_lead_ws_refuted :
  exists st, wf_state st = true /\ files_text_safe true st = true /\ unix_unshared st = true
             /\ no_lead_ws st = false
             /\ exists rows, net_connections before_repairs true (k_files true st) (to_procs (k_procs st)) (bs "unix") = Val rows
                             /\ map e_laddr (spec_sys (bs "unix") st) = [APath (bs " lead"); APath (bs "@abstract name")]
                             /\ map r_laddr rows = [APath (bs "lead"); APath (bs "@abstract name")].
Proof. exact unix_lead_ws_refuted. Qed.
Print Assumptions C11_unix_lead_ws_refuted.

(* ... and the current code gives the demanded answer on the same two states (4 rows; " lead" kept) *)
Theorem C11_repaired_witnesses :
  let v := current in
  (exists rows, net_connections v true (k_files true (ex_state true (bs "/tmp/a b")))
                                (to_procs (k_procs (ex_state true (bs "/tmp/a b")))) (bs "unix") = Val rows
                /\ length rows = 4%nat)
  /\ (exists rows, net_connections v true (k_files true (ex_state false (bs " lead")))
                                   (to_procs (k_procs (ex_state false (bs " lead")))) (bs "unix") = Val rows
                   /\ map r_laddr rows = [APath (bs " lead"); APath (bs "@abstract name")]).
Proof. exact repaired_witnesses. Qed.
Print Assumptions C11_repaired_witnesses.

(* the defect repaired by b838598: a UNIX path with a blank is returned whole *)
Theorem C11_unix_path_with_blank :
  exists rows, net_connections current true (k_files true (ex_state false (bs "/tmp/a b")))
                               (to_procs (k_procs (ex_state false (bs "/tmp/a b")))) (bs "unix") = Val rows
               /\ map r_laddr rows = [APath (bs "/tmp/a b"); APath (bs "@abstract name")].
Proof. exact unix_path_with_blank. Qed.
Print Assumptions C11_unix_path_with_blank.
