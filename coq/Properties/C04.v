(* C04 -- pids(), pid_exists() and process_iter() give one coherent, cached process list.
   Statements only; proofs live in C04/Proofs*.v.  Model: C04/Model.v (transcription of
   psutil/__init__.py pids / pid_exists / process_iter / cache_clear / is_running / as_dict
   and psutil/_pslinux.py pids / pid_exists), specification and ghost bookkeeping:
   C04/Spec.v.  [final valid h] is the machine state after the history h (any sequence of
   kernel events and psutil calls, any number of generators advanced in any interleaving),
   [irun valid h] the same with the per-generator ghost records. *)
From PV Require Import C04.Spec C04.Proofs C04.ProofsTable C04.ProofsIter C04.ProofsStale C04.Legacy.

(* ---- text level ---- *)

(* every procfs root listing (thread-group ids in decimal among arbitrary non-numeric
   names): pids() = the ascending numeric entries, first = smallest *)
Theorem C04_listing_exact : forall d,
  forallb wf_dirent d = true -> spec_dir_pids d <> [] ->
  exists low r, pids_text (k_listdir d) = Val (low :: r, low)
                /\ low :: r = zsort (spec_dir_pids d)
                /\ StronglySorted Z.le (low :: r)
                /\ (forall n, In n (low :: r) <-> In n (spec_dir_pids d))
                /\ (forall n, In n (spec_dir_pids d) -> low <= n).
Proof. exact pids_text_exact. Qed.
Print Assumptions C04_listing_exact.

(* every kernel-printed /proc/<n>/status: the scan returns the value of the Tgid line *)
Theorem C04_status_tgid : forall r,
  wf_kstatus r = true -> status_tgid (k_status r) = Val (dec_val (ks_tgid r)).
Proof. exact status_tgid_exact. Qed.
Print Assumptions C04_status_tgid.

(* _pslinux.pid_exists over such a file: Tgid == pid when kill(pid, 0) succeeded or was
   denied, False on ESRCH / OverflowError; never an exception *)
Theorem C04_pid_exists_text : forall pid k r names,
  wf_kstatus r = true ->
  pid_exists_linux pid k (Some (k_status r)) names =
  Val (match k with KOk | KEperm => dec_val (ks_tgid r) =? pid | _ => false end).
Proof. exact pid_exists_linux_exact. Qed.
Print Assumptions C04_pid_exists_text.

(* ---- the process table in every history ---- *)

Theorem C04_table_wf : forall valid h,
  let t := tbl (final valid h) in
  NoDup (listing t) /\ (forall k, In k t -> 0 <= k_pid k <= PIDMAX) /\
  (forall k n, In k t -> In n (k_tids k) -> ~ In n (listing t)).
Proof. exact wf_final. Qed.
Print Assumptions C04_table_wf.

(* pids() = strictly ascending list of exactly the listed PIDs; _LOWEST_PID = its minimum *)
Theorem C04_pids_exact : forall valid h,
  let s := final valid h in
  tbl s <> [] ->
  exists l, snd (step valid s Pids) = OPids l
            /\ StronglySorted Z.lt l
            /\ (forall n, In n l <-> In n (listing (tbl s)))
            /\ (exists low r, l = low :: r /\ lowest (fst (step valid s Pids)) = Some low
                              /\ forall n, In n (listing (tbl s)) -> low <= n).
Proof. exact pids_exact_h. Qed.
Print Assumptions C04_pids_exact.

(* pid_exists(n) = "n is a listed PID", for every integer n; in particular never an exception *)
Theorem C04_pid_exists_spec : forall valid h n,
  let s := final valid h in
  (n = 0 -> tbl s <> []) ->
  snd (step valid s (PidExists n)) = OBool (zmem n (listing (tbl s))).
Proof. exact pid_exists_spec_h. Qed.
Print Assumptions C04_pid_exists_spec.

(* thread ids, negative numbers and numbers beyond pid_t: False *)
Theorem C04_pid_exists_false : forall valid h n,
  let s := final valid h in
  n <> 0 ->
  (exists k, In k (tbl s) /\ In n (k_tids k)) \/ n < 0 \/ PIDMAX < n ->
  snd (step valid s (PidExists n)) = OBool false.
Proof. exact pid_exists_false_h. Qed.
Print Assumptions C04_pid_exists_false.

(* ---- generators ---- *)

(* what any generator has yielded so far (yields are kept newest first): strictly ascending
   PIDs without duplicates; each PID was listed when the body was entered; the object is the
   cached one (only possible when the PID was cached and not marked as reused) or one created after
   the body was entered (C04_visit_cached says when: no entry, or the cached instance carries the reused flag); with attrs=l every name is valid and the info keys are exactly l (all
   names for l = []) *)
Theorem C04_iter_yields : forall valid h g,
  let gh := snd (irun valid h) g in
  StronglySorted Z.gt (map ypid (gh_yields gh)) /\
  forall p o i, In (p, o, i) (gh_yields gh) ->
    In p (gh_list gh) /\
    ((dget p (gh_cache gh) = Some o /\ ~ In p (gh_marked gh))
     \/ (gh_heap0 gh <= o)%nat) /\
    match gh_attrs gh with
    | None => True
    | Some l => attrs_valid valid l = true /\ i = Some (spec_keys valid l)
    end.
Proof. exact iter_yields. Qed.
Print Assumptions C04_iter_yields.

(* a generator that ran to StopIteration: every PID listed when it was entered was yielded, or
   left the table meanwhile, or belongs to the class of the known finding (it had a cache
   entry and was marked as reused, or attrs request ppid) *)
Theorem C04_iter_complete : forall valid h g,
  let gh := snd (irun valid h) g in
  gh_exhausted gh = true ->
  forall p, In p (gh_list gh) ->
    In p (map ypid (gh_yields gh)) \/ In p (gh_vanished gh)
    \/ ((exists o, dget p (gh_cache gh) = Some o) /\ (In p (gh_marked gh) \/ req_ppid valid (gh_attrs gh) = true)).
Proof. exact iter_complete. Qed.
Print Assumptions C04_iter_complete.

Theorem C04_iter_complete_clean : forall valid h g,
  let gh := snd (irun valid h) g in
  gh_exhausted gh = true ->
  (forall p, In p (gh_marked gh) -> dget p (gh_cache gh) = None) -> req_ppid valid (gh_attrs gh) = false ->
  forall p, In p (gh_list gh) -> In p (map ypid (gh_yields gh)) \/ In p (gh_vanished gh).
Proof. exact iter_complete_clean. Qed.
Print Assumptions C04_iter_complete_clean.

(* known finding: without the exclusion the statement is false -- a listed, living PID that
   never left the table is not yielded by a complete iteration *)
Theorem C04_iter_complete_refuted :
  exists valid h g p,
    let sg := irun valid h in
    let gh := snd sg g in
    gh_exhausted gh = true /\ In p (gh_list gh) /\ alive (tbl (fst sg)) p = true
    /\ zmem p (map ypid (gh_yields gh)) = false /\ zmem p (gh_vanished gh) = false.
Proof. exact iter_complete_refuted. Qed.
Print Assumptions C04_iter_complete_refuted.

(* next() raises nothing but ValueError for an invalid attribute name (IndexError only on
   an empty process table, which no kernel has): vanished processes are skipped silently *)
Theorem C04_iter_exceptions : forall valid h g x,
  let sg := irun valid h in
  snd (step valid (fst sg) (IterNext g)) = OExc x ->
  (x = ValueError /\ exists l, gh_attrs (snd sg g) = Some l /\ attrs_valid valid l = false)
  \/ (x = IndexError /\ tbl (fst sg) = []).
Proof. exact iter_exceptions. Qed.
Print Assumptions C04_iter_exceptions.

(* ---- the cache ---- *)

(* when a generator finishes (exhaustion, close(), exception) the cache becomes: only PIDs that
   were listed when it was entered (entries of PIDs that went away are dropped), each mapped
   to the object cached at that time if it was not marked as reused, else to an object created
   since (marked entries are refreshed or gone); and it holds every object the generator yielded *)
Theorem C04_cache_after_finish : forall valid h e g,
  let sg := irun valid h in
  let r := istep valid sg e in
  let gh' := snd (fst r) g in
  let cache' := pmap (fst (fst r)) in
  gh_done (snd sg g) = false -> gh_done gh' = true -> gh_started gh' = true ->
  snd r <> OOom -> tbl (fst sg) <> [] ->
  (forall p o, dget p cache' = Some o ->
     In p (gh_list gh') /\
     ((dget p (gh_cache gh') = Some o /\ ~ In p (gh_marked gh')) \/ (gh_heap0 gh' <= o)%nat)) /\
  (forall p o i, In (p, o, i) (gh_yields gh') -> dget p cache' = Some o).
Proof. exact finish_installs. Qed.
Print Assumptions C04_cache_after_finish.

(* nothing else touches the cache: kernel events, pids, pid_exists, creating a generator,
   is_running leave it alone, and so does a next() that yields *)
Theorem C04_cache_frame : forall valid s e,
  match e with
  | CacheClear | IterNext _ | IterClose _ => True
  | _ => pmap (fst (step valid s e)) = pmap s
  end.
Proof. exact pmap_frame. Qed.
Print Assumptions C04_cache_frame.

Theorem C04_cache_yield_frame : forall valid h g p ob i,
  let s := fst (irun valid h) in
  snd (step valid s (IterNext g)) = OYield p ob i -> pmap (fst (step valid s (IterNext g))) = pmap s.
Proof. exact pmap_yield. Qed.
Print Assumptions C04_cache_yield_frame.

Theorem C04_cache_clear_empties : forall valid s, pmap (fst (step valid s CacheClear)) = [].
Proof. exact cache_clear_empties. Qed.
Print Assumptions C04_cache_clear_empties.

(* ... and a generator entered while the cache is empty yields only new objects *)
Theorem C04_cache_clear_fresh : forall valid h g p o i,
  let gh := snd (irun valid h) g in
  gh_cache gh = [] -> In (p, o, i) (gh_yields gh) -> (gh_heap0 gh <= o)%nat.
Proof. exact cache_clear_fresh. Qed.
Print Assumptions C04_cache_clear_fresh.

(* ---- recycled PIDs ---- *)

(* is_running() on an object not yet flagged: True iff the PID is in the table with the
   object's start time; a different start time marks the PID in _pids_reused *)
Theorem C04_is_running_marks : forall valid s o,
  (o < nobj s)%nat -> o_gone (heap s o) = false -> o_reused (heap s o) = false ->
  let ob := heap s o in
  let r := step valid s (IsRunning o) in
  match find_proc (tbl s) (o_pid ob) with
  | None => snd r = OBool false /\ reused (fst r) = reused s
  | Some k =>
    if k_start k =? o_start ob
    then snd r = OBool true /\ reused (fst r) = reused s
    else snd r = OBool false /\ In (o_pid ob) (reused (fst r)) /\ o_reused (heap (fst r) o) = true
  end.
Proof. exact is_running_spec. Qed.
Print Assumptions C04_is_running_marks.

(* a PID marked when a generator is entered is never served from the old cache entry *)
Theorem C04_reused_refresh : forall valid h g p o i,
  let gh := snd (irun valid h) g in
  In (p, o, i) (gh_yields gh) -> In p (gh_marked gh) -> (gh_heap0 gh <= o)%nat.
Proof. exact reused_refresh. Qed.
Print Assumptions C04_reused_refresh.

(* ---- an object found recycled, and the generators entered afterwards ---- *)

(* every cache entry, in every history, maps a PID to an allocated object with that PID *)
Theorem C04_cache_entries_wellformed : forall valid h,
  let s := final valid h in
  (forall p o, dget p (pmap s) = Some o -> (o < nobj s)%nat /\ o_pid (heap s o) = p) /\
  (forall g a pm rest, gens s g = GRun a pm rest ->
     (forall p o, dget p pm = Some o -> (o < nobj s)%nat /\ o_pid (heap s o) = p) /\
     (forall p o, In (p, Some o) rest -> (o < nobj s)%nat /\ o_pid (heap s o) = p)) /\
  (forall g, (ngen s <= g)%nat -> gens s g = GDone).
Proof. exact Kpid_final. Qed.
Print Assumptions C04_cache_entries_wellformed.

(* the loop meeting a cache entry (pid, o): without the reused flag it yields o itself (or drops the
   PID on NoSuchProcess, or as_dict ends the generator); with the flag (b70d950) the entry is handled
   exactly like a PID without a cache entry, i.e. replaced by a fresh object *)
Theorem C04_visit_cached : forall t valid attrs x pid o rest,
  o_reused (l_hp x o) = false ->
  (exists x' i, gen_loop t valid attrs x ((pid, Some o) :: rest) = LYield x' rest pid o i)
  \/ (exists x', gen_loop t valid attrs x ((pid, Some o) :: rest) = gen_loop t valid attrs x' rest)
  \/ (exists x' e, gen_loop t valid attrs x ((pid, Some o) :: rest) = LExc x' e)
  \/ (exists x', gen_loop t valid attrs x ((pid, Some o) :: rest) = LOom x').
Proof. exact visit_cached. Qed.
Print Assumptions C04_visit_cached.

Theorem C04_visit_flagged : forall t valid attrs x pid o rest,
  o_reused (l_hp x o) = true ->
  gen_loop t valid attrs x ((pid, Some o) :: rest) = gen_loop t valid attrs x ((pid, None) :: rest).
Proof. exact visit_flagged. Qed.
Print Assumptions C04_visit_flagged.

(* After is_running() on object x returned False because its PID now belongs to a process with
   another start time (also in the middle of the iteration that yielded x, PID not yet in the
   committed cache): the PID is marked, and in EVERY continuation h1 -- overlapping generators,
   generators suspended at that moment, partially consumed and closed ones included -- no next()
   of any generator yields x again. *)
Theorem C04_found_recycled_never_again : forall valid h0 x h1 g p i,
  let s0 := final valid h0 in
  (x < nobj s0)%nat -> o_gone (heap s0 x) = false -> o_reused (heap s0 x) = false ->
  (exists k, find_proc (tbl s0) (o_pid (heap s0 x)) = Some k /\ k_start k <> o_start (heap s0 x)) ->
  let s1 := fst (step valid s0 (IsRunning x)) in
  snd (step valid s0 (IsRunning x)) = OBool false /\
  In (o_pid (heap s0 x)) (reused s1) /\
  snd (step valid (runs valid s1 h1) (IterNext g)) <> OYield p x i.
Proof. exact found_recycled_never_again. Qed.
Print Assumptions C04_found_recycled_never_again.

(* more generally: an object carrying the reused flag (however it got it) is never yielded *)
Theorem C04_flagged_never_yielded : forall valid x s h g p i,
  (x < nobj s)%nat -> o_reused (heap s x) = true ->
  snd (step valid (runs valid s h) (IterNext g)) <> OYield p x i.
Proof. exact flagged_never_yielded. Qed.
Print Assumptions C04_flagged_never_yielded.

(* fixed b70d950 -- the code BEFORE that repair (C04/Legacy.v: the loop used a cached object whatever
   its flag) did not have this property: with overlapping generators, a generator entered after the
   discovery yielded the stale object *)
Theorem C04_legacy_found_recycled_refuted :
  exists valid h0 x h1a g p i,
    let s0 := runs_legacy valid init h0 in
    let s1 := fst (step_legacy valid s0 (IsRunning x)) in
    Nat.ltb x (nobj s0) = true /\ o_gone (heap s0 x) = false /\ o_reused (heap s0 x) = false /\
    snd (step_legacy valid s0 (IsRunning x)) = OBool false /\ o_reused (heap s1 x) = true /\
    zmem (o_pid (heap s0 x)) (reused s1) = true /\
    match gens s1 g with GRun _ _ _ => false | _ => true end = true /\
    snd (step_legacy valid (runs_legacy valid s1 h1a) (IterNext g)) = OYield p x i.
Proof. exact legacy_found_recycled_refuted. Qed.
Print Assumptions C04_legacy_found_recycled_refuted.
