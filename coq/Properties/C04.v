(* C04 -- statements only (being extended) *)
From PV Require Import C04.Spec C04.Proofs.

Theorem C04_cache_clear_empties : forall valid s, pmap (fst (step valid s CacheClear)) = [].
Proof. exact cache_clear_empties. Qed.
Print Assumptions C04_cache_clear_empties.
