(* C04 -- pids(), pid_exists() and process_iter() give one coherent, cached process list.
   Statements only; proofs live in C04/Proofs*.v.  Model: C04/Model.v (transcription of
   psutil/__init__.py pids / pid_exists / process_iter / cache_clear / is_running / as_dict
   and psutil/_pslinux.py pids / pid_exists), specification and ghost bookkeeping:
   C04/Spec.v.  [final valid h] is the machine state after the history h (any sequence of
   kernel events and psutil calls, any number of generators advanced in any interleaving),
   [irun valid h] the same with the per-generator ghost records. *)
From PV Require Import Gen.C04_Tables C04.PyGen C04.ProofsGen C04.ProofsGenIter C04.Spec C04.ProofsText C04.Proofs C04.ProofsTable C04.ProofsIter C04.ProofsStale C04.ProofsExact C04.Legacy.

(* ---- text level ---- *)

(* every procfs root listing (thread-group ids in decimal among arbitrary non-numeric
   names): pids() = the ascending numeric entries, first = smallest *)
Theorem C04_listing_exact : forall d,
  forallb wf_dirent d = true -> spec_dir_pids d <> [] ->
  exists low r, pids_text (k_listdir d) = Val (low :: r, low)
                /\ low :: r = zsort (spec_dir_pids d)
                /\ StronglySorted Z.le (low :: r)
                /\ (forall n, In n (low :: r) <-> In n (spec_dir_pids d))
                /\ (forall n, In n (spec_dir_pids d) -> low <= n).
Proof. exact pids_text_exact. Qed.
Print Assumptions C04_listing_exact.

(* every kernel-printed /proc/<n>/status: the scan returns the value of the Tgid line *)
Theorem C04_status_tgid : forall r,
  wf_kstatus r = true -> status_tgid (k_status r) = Val (dec_val (ks_tgid r)).
Proof. exact status_tgid_exact. Qed.
Print Assumptions C04_status_tgid.

(* _pslinux.pid_exists over such a file: Tgid == pid when kill(pid, 0) succeeded or was
   denied, False on ESRCH / OverflowError; never an exception *)
Theorem C04_pid_exists_text : forall pid k r names,
  wf_kstatus r = true ->
  pid_exists_linux pid k (Some (k_status r)) names =
  Val (match k with KOk | KEperm => dec_val (ks_tgid r) =? pid | _ => false end).
Proof. exact pid_exists_linux_exact. Qed.
Print Assumptions C04_pid_exists_text.

(* the Tgid probe reads '\n'-separated records only, so the Name record -- of which the kernel escapes only
   '\n' and '\\' and prints every other byte raw ('\r', '\v', '\f', 0x1c-0x1e, 0x85, ':', tabs ...) -- cannot
   influence it: for EVERY comm (no condition at all: k_name_line escapes), and every rest of the file *)
Theorem C04_status_name_independent : forall comm rest,
  status_tgid (k_name_line comm ++ rest) = status_tgid rest.
Proof. exact status_name_independent. Qed.
Print Assumptions C04_status_name_independent.

Theorem C04_pid_exists_name_independent : forall pid k comm rest names,
  pid_exists_linux pid k (Some (k_name_line comm ++ rest)) names = pid_exists_linux pid k (Some rest) names.
Proof. exact pid_exists_name_independent. Qed.
Print Assumptions C04_pid_exists_name_independent.

(* hence over the whole file as printed for a task of ANY name: Tgid == pid after kill OK/EPERM (True for the
   process, False for one of its threads), False after ESRCH/OverflowError, never an exception *)
Theorem C04_pid_exists_any_name : forall pid k comm pre tgid post names,
  forallb wf_preline pre = true -> is_dec tgid = true ->
  pid_exists_linux pid k
    (Some (k_status {| ks_pre := k_name_body comm :: pre; ks_tgid := tgid; ks_post := post |})) names =
  Val (match k with KOk | KEperm => dec_val tgid =? pid | _ => false end).
Proof. exact pid_exists_any_name. Qed.
Print Assumptions C04_pid_exists_any_name.

(* ---- the process table in every history ---- *)

Theorem C04_table_wf : forall valid h,
  let t := tbl (final valid h) in
  NoDup (listing t) /\ (forall k, In k t -> 0 <= k_pid k <= PIDMAX) /\
  (forall k n, In k t -> In n (k_tids k) -> ~ In n (listing t)).
Proof. exact wf_final. Qed.
Print Assumptions C04_table_wf.

(* pids() = strictly ascending list of exactly the listed PIDs; _LOWEST_PID = its minimum *)
Theorem C04_pids_exact : forall valid h,
  let s := final valid h in
  tbl s <> [] ->
  exists l, snd (step valid s Pids) = OPids l
            /\ StronglySorted Z.lt l
            /\ (forall n, In n l <-> In n (listing (tbl s)))
            /\ (exists low r, l = low :: r /\ lowest (fst (step valid s Pids)) = Some low
                              /\ forall n, In n (listing (tbl s)) -> low <= n).
Proof. exact pids_exact_h. Qed.
Print Assumptions C04_pids_exact.

(* pid_exists(n) = "n is a listed PID", for every integer n; in particular never an exception *)
Theorem C04_pid_exists_spec : forall valid h n,
  let s := final valid h in
  (n = 0 -> tbl s <> []) ->
  snd (step valid s (PidExists n)) = OBool (zmem n (listing (tbl s))).
Proof. exact pid_exists_spec_h. Qed.
Print Assumptions C04_pid_exists_spec.

(* thread ids, negative numbers and numbers beyond pid_t: False *)
Theorem C04_pid_exists_false : forall valid h n,
  let s := final valid h in
  n <> 0 ->
  (exists k, In k (tbl s) /\ In n (k_tids k)) \/ n < 0 \/ PIDMAX < n ->
  snd (step valid s (PidExists n)) = OBool false.
Proof. exact pid_exists_false_h. Qed.
Print Assumptions C04_pid_exists_false.

(* pid_exists(n) when opening or reading /proc/<n>/status fails with OSError (whatever errno: ENOENT, ESRCH,
   EACCES, EPERM, EIO ...) or the file has no Tgid line: still "n is a listed PID" -- False for a thread id whose
   status file is unreadable -- and never an exception; in every history, for every integer *)
Theorem C04_pid_exists_fault : forall valid h n f,
  let s := final valid h in
  (n = 0 -> tbl s <> []) ->
  snd (step valid s (PidExistsF n f)) = OBool (zmem n (listing (tbl s))).
Proof. exact pid_exists_fault_h. Qed.
Print Assumptions C04_pid_exists_fault.

(* the same at the text level: kill(pid, 0) succeeded or was denied, the status file cannot be opened / read
   (None) or consists of lines none of which begins with "Tgid:"  =>  pid in pids() over the root listing (the platform pids(): no sorting, no _LOWEST_PID) *)
Theorem C04_pid_exists_text_fault : forall pid k status d,
  forallb wf_dirent d = true ->
  k = KOk \/ k = KEperm ->
  status = None \/ (exists pre, forallb wf_preline pre = true /\ status = Some (k_lines pre)) ->
  pid_exists_linux pid k status (k_listdir d) = Val (zmem pid (spec_dir_pids d)).
Proof. exact pid_exists_linux_fault. Qed.
Print Assumptions C04_pid_exists_text_fault.

(* ---- generators ---- *)

(* the next() that yields, exactly: the PID's cached object iff the PID was cached when the body was
   entered (then it was not marked as reused) and that object does not carry the reused flag now;
   in every other case (no entry, or flagged instance: b70d950) an object made in this very next() *)
Theorem C04_yield_exact : forall valid h g p o i,
  let s := fst (irun valid h) in
  let G := snd (irun valid h) in
  snd (step valid s (IterNext g)) = OYield p o i ->
  let gh1 := if gh_started (G g) then G g else gh_enter s (G g) in
  match dget p (gh_cache gh1) with
  | Some o' => ~ In p (gh_marked gh1) /\ (if o_reused (heap s o') then (nobj s <= o)%nat else o = o')
  | None => (nobj s <= o)%nat
  end.
Proof. exact yield_exact. Qed.
Print Assumptions C04_yield_exact.

(* what any generator has yielded so far (newest first), with the same exactness threaded through the
   ghost state ([gh_repl] = yielded PIDs whose cached object carried the reused flag at that next()):
   strictly ascending PIDs without duplicates, each listed when the body was entered; cached and not
   replaced => the cached object; cached and replaced, or not cached => an object created after entry;
   a cached PID that was marked at entry is never yielded; with attrs=l every name is valid and the info
   keys are exactly l (all names for l = []) *)
Theorem C04_iter_yields : forall valid h g,
  let gh := snd (irun valid h) g in
  StronglySorted Z.gt (map ypid (gh_yields gh)) /\
  (forall p, In p (gh_repl gh) -> In p (map ypid (gh_yields gh))) /\
  forall p o i, In (p, o, i) (gh_yields gh) ->
    In p (gh_list gh) /\
    match dget p (gh_cache gh) with
    | Some o' => ~ In p (gh_marked gh) /\ (if zmem p (gh_repl gh) then (gh_heap0 gh <= o)%nat else o = o')
    | None => (gh_heap0 gh <= o)%nat /\ zmem p (gh_repl gh) = false
    end /\
    match gh_attrs gh with
    | None => True
    | Some l => attrs_valid valid l = true /\ i = Some (spec_keys valid l)
    end.
Proof. exact iter_yields_exact. Qed.
Print Assumptions C04_iter_yields.

(* a generator that ran to StopIteration: every PID listed when it was entered was yielded, or
   left the table meanwhile, or belongs to the class of the known finding (it had a cache
   entry and was marked as reused, or attrs request ppid) *)
Theorem C04_iter_complete : forall valid h g,
  let gh := snd (irun valid h) g in
  gh_exhausted gh = true ->
  forall p, In p (gh_list gh) ->
    In p (map ypid (gh_yields gh)) \/ In p (gh_vanished gh)
    \/ ((exists o, dget p (gh_cache gh) = Some o) /\ (In p (gh_marked gh) \/ req_ppid valid (gh_attrs gh) = true)).
Proof. exact iter_complete. Qed.
Print Assumptions C04_iter_complete.

Theorem C04_iter_complete_clean : forall valid h g,
  let gh := snd (irun valid h) g in
  gh_exhausted gh = true ->
  (forall p, In p (gh_marked gh) -> dget p (gh_cache gh) = None) -> req_ppid valid (gh_attrs gh) = false ->
  forall p, In p (gh_list gh) -> In p (map ypid (gh_yields gh)) \/ In p (gh_vanished gh).
Proof. exact iter_complete_clean. Qed.
Print Assumptions C04_iter_complete_clean.

(* known finding: without the exclusion the statement is false -- a listed, living PID that
   never left the table is not yielded by a complete iteration *)
Theorem C04_iter_complete_refuted :
  exists valid h g p,
    let sg := irun valid h in
    let gh := snd sg g in
    gh_exhausted gh = true /\ In p (gh_list gh) /\ alive (tbl (fst sg)) p = true
    /\ zmem p (map ypid (gh_yields gh)) = false /\ zmem p (gh_vanished gh) = false.
Proof. exact iter_complete_refuted. Qed.
Print Assumptions C04_iter_complete_refuted.

(* next() fails only because of its attrs argument -- TypeError (attrs is not a list / tuple / set /
   frozenset: generator, iterator, dict, dict view), ValueError (invalid name), NotImplementedError (a
   NON-EMPTY attrs names an attribute the running system does not implement: documented) -- or with
   IndexError on an empty process table, which no kernel has; vanished processes are skipped silently *)
Theorem C04_iter_exceptions : forall valid h g x,
  let sg := irun valid h in
  snd (step valid (fst sg) (IterNext g)) = OExc x ->
  (exists l, gh_attrs (snd sg g) = Some l /\
     ((x = TypeError /\ zmem BADTYPE l = true)
      \/ (x = ValueError /\ attrs_valid valid l = false)
      \/ (x = NotImplementedError /\ explicit_ni l = true)))
  \/ (x = IndexError /\ tbl (fst sg) = []).
Proof. exact iter_exceptions. Qed.
Print Assumptions C04_iter_exceptions.

(* attrs None, or an EMPTY collection ([], (), set(), frozenset(): "all attributes"): next() never fails,
   whatever subset of psutil's attribute names ([valid] is arbitrary; codes >= 1000 = unimplemented on the
   running system) is unimplemented -- so, with the completeness theorems, such a generator yields one
   Process per listed PID; the info dict then holds exactly the implemented names (C04_iter_yields:
   i = Some (spec_keys valid [])) *)
Theorem C04_iter_all_attrs_never_raises : forall valid h g x,
  let sg := irun valid h in
  gh_attrs (snd sg g) = None \/ gh_attrs (snd sg g) = Some [] ->
  snd (step valid (fst sg) (IterNext g)) = OExc x -> x = IndexError /\ tbl (fst sg) = [].
Proof. exact iter_all_attrs_never_raises. Qed.
Print Assumptions C04_iter_all_attrs_never_raises.

Theorem C04_all_attrs_keys : forall valid,
  spec_keys valid [] = zsort (filter (fun a => negb (unimpl a)) valid).
Proof. exact spec_keys_all. Qed.
Print Assumptions C04_all_attrs_keys.

(* ... while a non-empty attrs naming an unimplemented attribute keeps raising for a process in the table *)
Theorem C04_explicit_unimplemented_raises : forall t valid ru pid ob l k,
  zmem BADTYPE l = false -> attrs_valid valid l = true -> explicit_ni l = true ->
  zmem PPID (nodup Z.eq_dec l) = false -> find_proc t pid = Some k ->
  fst (fst (as_dict t valid ru pid ob l)) = Exc NotImplementedError.
Proof. exact as_dict_explicit_unimplemented. Qed.
Print Assumptions C04_explicit_unimplemented_raises.

(* ---- the cache ---- *)

(* when a generator finishes (exhaustion, close(), exception) the cache becomes: only PIDs that
   were listed when it was entered (entries of PIDs that went away are dropped), each mapped
   to the object cached at that time if it was not marked as reused, else to an object created
   since (marked entries are refreshed or gone); it holds every object the generator yielded; and a PID that
   was cached and marked at entry has no entry at all (it gets a new object in the next iteration) *)
Theorem C04_cache_after_finish : forall valid h e g,
  let sg := irun valid h in
  let r := istep valid sg e in
  let gh' := snd (fst r) g in
  let cache' := pmap (fst (fst r)) in
  gh_done (snd sg g) = false -> gh_done gh' = true -> gh_started gh' = true ->
  snd r <> OOom -> (tbl (fst sg) <> [] \/ snd r = OStop) ->
  (forall p o, dget p cache' = Some o ->
     In p (gh_list gh') /\
     ((dget p (gh_cache gh') = Some o /\ ~ In p (gh_marked gh')) \/ (gh_heap0 gh' <= o)%nat)) /\
  (forall p o i, In (p, o, i) (gh_yields gh') -> dget p cache' = Some o) /\
  (forall p, In p (gh_marked gh') -> (exists o, dget p (gh_cache gh') = Some o) -> dget p cache' = None).
Proof. exact finish_installs. Qed.
Print Assumptions C04_cache_after_finish.

(* nothing else touches the cache: kernel events, pids, pid_exists, creating a generator,
   is_running leave it alone, and so does a next() that yields *)
Theorem C04_cache_frame : forall valid s e,
  match e with
  | CacheClear | IterNext _ | IterClose _ => True
  | _ => pmap (fst (step valid s e)) = pmap s
  end.
Proof. exact pmap_frame. Qed.
Print Assumptions C04_cache_frame.

Theorem C04_cache_yield_frame : forall valid h g p ob i,
  let s := fst (irun valid h) in
  snd (step valid s (IterNext g)) = OYield p ob i -> pmap (fst (step valid s (IterNext g))) = pmap s.
Proof. exact pmap_yield. Qed.
Print Assumptions C04_cache_yield_frame.

Theorem C04_cache_clear_empties : forall valid s, pmap (fst (step valid s CacheClear)) = [].
Proof. exact cache_clear_empties. Qed.
Print Assumptions C04_cache_clear_empties.

(* ... and a generator entered while the cache is empty yields only new objects *)
Theorem C04_cache_clear_fresh : forall valid h g p o i,
  let gh := snd (irun valid h) g in
  gh_cache gh = [] -> In (p, o, i) (gh_yields gh) -> (gh_heap0 gh <= o)%nat.
Proof. exact cache_clear_fresh. Qed.
Print Assumptions C04_cache_clear_fresh.

(* ---- recycled PIDs ---- *)

(* is_running() on an object not yet flagged: True iff the PID is in the table with the
   object's start time; a different start time marks the PID in _pids_reused *)
Theorem C04_is_running_marks : forall valid s o,
  (o < nobj s)%nat -> o_gone (heap s o) = false -> o_reused (heap s o) = false ->
  let ob := heap s o in
  let r := step valid s (IsRunning o) in
  match find_proc (tbl s) (o_pid ob) with
  | None => snd r = OBool false /\ reused (fst r) = reused s
  | Some k =>
    if k_start k =? o_start ob
    then snd r = OBool true /\ reused (fst r) = reused s
    else snd r = OBool false /\ In (o_pid ob) (reused (fst r)) /\ o_reused (heap (fst r) o) = true
  end.
Proof. exact is_running_spec. Qed.
Print Assumptions C04_is_running_marks.

(* a PID marked when a generator is entered is never served from the old cache entry *)
Theorem C04_reused_refresh : forall valid h g p o i,
  let gh := snd (irun valid h) g in
  In (p, o, i) (gh_yields gh) -> In p (gh_marked gh) -> (gh_heap0 gh <= o)%nat.
Proof. exact reused_refresh. Qed.
Print Assumptions C04_reused_refresh.

(* ---- an object found recycled, and the generators entered afterwards ---- *)

(* every cache entry, in every history, maps a PID to an allocated object with that PID *)
Theorem C04_cache_entries_wellformed : forall valid h,
  let s := final valid h in
  (forall p o, dget p (pmap s) = Some o -> (o < nobj s)%nat /\ o_pid (heap s o) = p) /\
  (forall g a pm rest, gens s g = GRun a pm rest ->
     (forall p o, dget p pm = Some o -> (o < nobj s)%nat /\ o_pid (heap s o) = p) /\
     (forall p o, In (p, Some o) rest -> (o < nobj s)%nat /\ o_pid (heap s o) = p)) /\
  (forall g, (ngen s <= g)%nat -> gens s g = GDone).
Proof. exact Kpid_final. Qed.
Print Assumptions C04_cache_entries_wellformed.

(* the loop meeting a cache entry (pid, o): without the reused flag it yields o itself (or drops the
   PID on NoSuchProcess, or as_dict ends the generator); with the flag (b70d950) the entry is handled
   exactly like a PID without a cache entry, i.e. replaced by a fresh object *)
Theorem C04_visit_cached : forall t valid attrs x pid o rest,
  o_reused (l_hp x o) = false ->
  (exists x' i, gen_loop t valid attrs x ((pid, Some o) :: rest) = LYield x' rest pid o i)
  \/ (exists x', gen_loop t valid attrs x ((pid, Some o) :: rest) = gen_loop t valid attrs x' rest)
  \/ (exists x' e, gen_loop t valid attrs x ((pid, Some o) :: rest) = LExc x' e)
  \/ (exists x', gen_loop t valid attrs x ((pid, Some o) :: rest) = LOom x').
Proof. exact visit_cached. Qed.
Print Assumptions C04_visit_cached.

Theorem C04_visit_flagged : forall t valid attrs x pid o rest,
  o_reused (l_hp x o) = true ->
  gen_loop t valid attrs x ((pid, Some o) :: rest) = gen_loop t valid attrs x ((pid, None) :: rest).
Proof. exact visit_flagged. Qed.
Print Assumptions C04_visit_flagged.

(* After is_running() on object x returned False because its PID now belongs to a process with
   another start time (also in the middle of the iteration that yielded x, PID not yet in the
   committed cache): the PID is marked, and in EVERY continuation h1 -- overlapping generators,
   generators suspended at that moment, partially consumed and closed ones included -- no next()
   of any generator yields x again. *)
Theorem C04_found_recycled_never_again : forall valid h0 x h1 g p i,
  let s0 := final valid h0 in
  (x < nobj s0)%nat -> o_gone (heap s0 x) = false -> o_reused (heap s0 x) = false ->
  (exists k, find_proc (tbl s0) (o_pid (heap s0 x)) = Some k /\ k_start k <> o_start (heap s0 x)) ->
  let s1 := fst (step valid s0 (IsRunning x)) in
  snd (step valid s0 (IsRunning x)) = OBool false /\
  In (o_pid (heap s0 x)) (reused s1) /\
  snd (step valid (runs valid s1 h1) (IterNext g)) <> OYield p x i.
Proof. exact found_recycled_never_again. Qed.
Print Assumptions C04_found_recycled_never_again.

(* more generally: an object carrying the reused flag (however it got it) is never yielded *)
Theorem C04_flagged_never_yielded : forall valid x s h g p i,
  (x < nobj s)%nat -> o_reused (heap s x) = true ->
  snd (step valid (runs valid s h) (IterNext g)) <> OYield p x i.
Proof. exact flagged_never_yielded. Qed.
Print Assumptions C04_flagged_never_yielded.

(* fixed b70d950 -- the code BEFORE that repair (C04/Legacy.v: the loop used a cached object whatever
   its flag) did not have this property: with overlapping generators, a generator entered after the
   discovery yielded the stale object *)
Theorem C04_legacy_found_recycled_refuted :
  exists valid h0 x h1a g p i,
    let s0 := runs_legacy valid init h0 in
    let s1 := fst (step_legacy valid s0 (IsRunning x)) in
    Nat.ltb x (nobj s0) = true /\ o_gone (heap s0 x) = false /\ o_reused (heap s0 x) = false /\
    snd (step_legacy valid s0 (IsRunning x)) = OBool false /\ o_reused (heap s1 x) = true /\
    zmem (o_pid (heap s0 x)) (reused s1) = true /\
    match gens s1 g with GRun _ _ _ => false | _ => true end = true /\
    snd (step_legacy valid (runs_legacy valid s1 h1a) (IterNext g)) = OYield p x i.
Proof. exact legacy_found_recycled_refuted. Qed.
Print Assumptions C04_legacy_found_recycled_refuted.

(* ---- the passed-over PIDs: exact class of the known finding process_iter-skips-recycled-pid ---- *)

(* every listed PID of an exhausted generator was yielded or is in the ghost's passed-over list (PIDs in
   the gap between two consecutive yields, or after the last, each with "was in the table at that
   next()"); yielded and passed over are disjoint; whoever was passed over WHILE IN THE TABLE was cached
   when the body was entered and either marked as reused or the attrs request ppid *)
Theorem C04_iter_complete_exact : forall valid h g,
  let gh := snd (irun valid h) g in
  (gh_exhausted gh = true -> forall p, In p (gh_list gh) ->
     In p (map ypid (gh_yields gh)) \/ In p (map fst (gh_passed gh))) /\
  (forall p b, In (p, b) (gh_passed gh) ->
     In p (gh_list gh) /\ ~ In p (map ypid (gh_yields gh)) /\
     (b = true -> (exists o, dget p (gh_cache gh) = Some o) /\
                  (In p (gh_marked gh) \/ req_ppid valid (gh_attrs gh) = true))).
Proof. exact iter_complete_exact. Qed.
Print Assumptions C04_iter_complete_exact.

(* the exclusion as a decidable hypothesis (nobody passed over while in the table): then every listed PID
   was yielded or was absent from the table at the next() that passed over it ... *)
Theorem C04_iter_complete_decidable : forall valid h g,
  let gh := snd (irun valid h) g in
  gh_exhausted gh = true -> forallb (fun qb => negb (snd qb)) (gh_passed gh) = true ->
  forall p, In p (gh_list gh) ->
    In p (map ypid (gh_yields gh)) \/ In (p, false) (gh_passed gh).
Proof. exact iter_complete_decidable. Qed.
Print Assumptions C04_iter_complete_decidable.

(* ... and the exact complement, for every member (not just a witness): a PID passed over while in the
   table was listed when the body was entered and is never yielded by that generator *)
Theorem C04_passed_alive_not_yielded : forall valid h g p,
  let gh := snd (irun valid h) g in
  In (p, true) (gh_passed gh) -> In p (gh_list gh) /\ ~ In p (map ypid (gh_yields gh)).
Proof. exact passed_alive_not_yielded. Qed.
Print Assumptions C04_passed_alive_not_yielded.

(* first sub-class, exactly: a PID cached and marked as reused when the body is entered is NEVER yielded
   by that generator (C04_cache_after_finish: and has no cache entry once it finished) *)
Theorem C04_marked_never_yielded : forall valid h g p,
  let gh := snd (irun valid h) g in
  In p (gh_marked gh) -> (exists o, dget p (gh_cache gh) = Some o) -> ~ In p (map ypid (gh_yields gh)).
Proof. exact marked_never_yielded. Qed.
Print Assumptions C04_marked_never_yielded.

(* ... and the iteration after that: a generator entered while the PID has no cache entry yields only a
   new object for it, and when exhausted has yielded it unless it left the table meanwhile *)
Theorem C04_uncached_fresh : forall valid h g p,
  let gh := snd (irun valid h) g in
  dget p (gh_cache gh) = None ->
  (forall o i, In (p, o, i) (gh_yields gh) -> (gh_heap0 gh <= o)%nat) /\
  (gh_exhausted gh = true -> In p (gh_list gh) -> In p (map ypid (gh_yields gh)) \/ In p (gh_vanished gh)).
Proof. exact uncached_fresh. Qed.
Print Assumptions C04_uncached_fresh.

(* second sub-class, per visit, exactly: as_dict on a cached object of a PID that IS in the table raises
   NoSuchProcess (and the PID is dropped) iff ppid is requested and the object is not the process that has
   the PID now (gone flag, reused flag, or another start time) *)
Theorem C04_ppid_drop_exact : forall t valid ru pid ob l k,
  zmem BADTYPE l = false -> attrs_valid valid l = true -> explicit_ni l = false -> find_proc t pid = Some k ->
  (fst (fst (as_dict t valid ru pid ob l)) = Exc NoSuchProcess <->
   req_ppid valid (Some l) = true /\ (o_gone ob = true \/ o_reused ob = true \/ k_start k <> o_start ob)).
Proof. exact as_dict_nsp_exact. Qed.
Print Assumptions C04_ppid_drop_exact.

(* ---- object identity across successive process_iter() calls ---- *)

(* PID p was yielded as object x by generator g1, which now runs to exhaustion (s1 = the state right
   after).  hq: any events without cache_clear() and without a generator finishing (quiet_run; kernel
   events, pids, pid_exists, is_running, new generators and yielding next() calls are all allowed); then the
   body of g2 is entered while p is not marked; h3: any events at all, including other generators and
   cache_clear().  If the table shows p with the start ticks of x throughout (steady_run) and x carried no
   reused flag at s1, the next() of g2 that yields p yields the very same x. *)
Theorem C04_same_object_next_iteration : forall valid h0 g1 p x i1 hq h3 g2 o i,
  let sg0 := irun valid h0 in
  let sg1 := irun valid (h0 ++ [IterNext g1]) in
  let s1 := fst sg1 in
  gh_done (snd sg0 g1) = false -> gh_exhausted (snd sg1 g1) = true -> gh_started (snd sg1 g1) = true ->
  In (p, x, i1) (gh_yields (snd sg1 g1)) ->
  o_reused (heap s1 x) = false ->
  quiet_run valid s1 hq = true ->
  let s2 := runs valid s1 hq in
  is_freshb (gens s2 g2) = true -> ~ In p (reused s2) ->
  (h3 = [] \/ exists h3', h3 = IterNext g2 :: h3') ->
  steady_run valid p (o_start (heap s1 x)) s1 (hq ++ h3) = true ->
  snd (step valid (runs valid s1 (hq ++ h3)) (IterNext g2)) = OYield p o i ->
  o = x.
Proof. exact same_object_next_iteration. Qed.
Print Assumptions C04_same_object_next_iteration.

(* the hypothesis "no generator finishes in between" cannot be dropped: two overlapping first iterations
   each make their own object for a PID and the one that finishes last wins the cache *)
Theorem C04_identity_overlap_refuted :
  exists valid h0 g1 p x i1 hq g2 o i,
    let sg0 := irun valid h0 in
    let sg1 := irun valid (h0 ++ [IterNext g1]) in
    let s1 := fst sg1 in
    let s2 := runs valid s1 hq in
    gh_done (snd sg0 g1) = false /\ gh_exhausted (snd sg1 g1) = true /\
    In (p, x, i1) (gh_yields (snd sg1 g1)) /\ o_reused (heap s1 x) = false /\
    is_freshb (gens s2 g2) = true /\ zmem p (reused s2) = false /\
    steady_run valid p (o_start (heap s1 x)) s1 hq = true /\
    forallb (fun e => match e with CacheClear => false | _ => true end) hq = true /\
    quiet_run valid s1 hq = false /\
    snd (step valid s2 (IterNext g2)) = OYield p o i /\ Nat.eqb o x = false.
Proof. exact identity_overlap_refuted. Qed.
Print Assumptions C04_identity_overlap_refuted.

(* an entry whose PID had left the listing when a generator was entered is absent from the cache once that
   generator has finished *)
Theorem C04_cache_eviction : forall valid h e g p,
  let sg := irun valid h in
  let r := istep valid sg e in
  let gh' := snd (fst r) g in
  gh_done (snd sg g) = false -> gh_done gh' = true -> gh_started gh' = true ->
  snd r <> OOom -> (tbl (fst sg) <> [] \/ snd r = OStop) ->
  ~ In p (gh_list gh') -> dget p (pmap (fst (fst r))) = None.
Proof. exact cache_eviction. Qed.
Print Assumptions C04_cache_eviction.

(* ---- modelled granularity of the commit ---- *)

(* 'finally: _pmap = pmap' is one atomic step of the machine: the committed cache changes only by
   cache_clear() or in the very step in which a generator finishes (and then it is that generator's
   private copy, C04_cache_after_finish); no state with a half-replaced cache exists.  Two threads are
   therefore proved at the granularity "yield points and whole commits"; the line-level windows inside
   the prologue and the epilogue are enumerated on the implementation by the scheduler cases. *)
Theorem C04_cache_change_is_commit : forall valid s e,
  pmap (fst (step valid s e)) <> pmap s ->
  e = CacheClear \/
  exists g, (e = IterNext g \/ e = IterClose g) /\ gens (fst (step valid s e)) g = GDone /\ gens s g <> GDone.
Proof. exact cache_change_is_commit. Qed.
Print Assumptions C04_cache_change_is_commit.

(* ---- fork safety (translator part: table regenerated from the source on every run) ---- *)

(* every module-level synchronisation object (threading.Lock / RLock / Condition / ...) referenced by code reachable
   from process_iter / pids / pid_exists is re-initialised in an os.register_at_fork(after_in_child=...) handler --
   the table is empty, or all its entries are re-initialised -- so no lock held at fork time by a thread that does not
   exist in the child can block these three functions in the child.  (Per-object locks of cached Process instances
   are not in this table: see the fork cases of the harness.) *)
Theorem C04_fork_safe_sync_objects : forallb sync_reinit gen_sync_objects = true.
Proof. exact fork_safe_sync_objects. Qed.
Print Assumptions C04_fork_safe_sync_objects.

(* ---- round 2: control flow translated from the source (programs regenerated from psutil/__init__.py on every run) ---- *)

(* psutil.pid_exists(): the if / elif / else chain read from the source (pid < 0 -> False; pid == 0 -> pid in pids();
   else the platform call), run by the interpreter of C04/PyGen.v, is the model's PidExists step for every state and
   every integer n. *)
Theorem C04_gen_pid_exists_is_model : forall valid s n,
  pe_exec gen_pid_exists s n = step valid s (PidExists n).
Proof. exact gen_pid_exists_eq_model. Qed.
Print Assumptions C04_gen_pid_exists_is_model.

(* process_iter(), from 'pmap = _pmap.copy()' to 'ls = sorted(...)': the statements read from the source (which set is
   subtracted from which, which set is evicted, the draining of _pids_reused, the merge of cached items with new pids),
   in their order, compute exactly the model's gen_start for every process table, committed cache and reused set --
   and leave _pids_reused empty. *)
Theorem C04_gen_prologue_is_model : forall t pm ru,
  prologue_run gen_iter_prologue t pm ru = (do r <- gen_start t pm ru; Val (r, @nil Z)).
Proof. exact gen_prologue_eq_model. Qed.
Print Assumptions C04_gen_prologue_is_model.

(* process_iter(), 'for pid, proc in ls: try: ... except NoSuchProcess: remove(pid)': the guarded statements and the
   handler read from the source (for which entries a new Process is made and cached, when as_dict runs, the yield, which
   exception evicts the pid and continues) give the model's gen_loop for every table, attrs, loop state and every rest
   of the merged list. *)
Theorem C04_gen_loop_is_model : forall t valid attrs rest x,
  run_for t valid attrs gen_iter_body x rest = gen_loop t valid attrs x rest.
Proof. exact gen_loop_eq_model. Qed.
Print Assumptions C04_gen_loop_is_model.

(* the whole process_iter() step through the interpreters: next() on generator g -- on first entry the prologue program
   read from the source (its _pids_reused and _LOWEST_PID written back; an exception there ends the generator without a
   commit), then the loop program read from the source over the merged list, suspended at 'yield' or committing
   'finally: _pmap = pmap' at the end -- is the model's IterNext step, for every state (process table, cache, reused set,
   heap, generators), every generator index and every validity oracle; hence also for draining by any sequence of next(). *)
Theorem C04_gen_process_iter_is_model : forall valid s g,
  iter_next_gen valid gen_iter_prologue gen_iter_body s g = step valid s (IterNext g).
Proof. exact gen_process_iter_eq_model. Qed.
Print Assumptions C04_gen_process_iter_is_model.

Theorem C04_gen_process_iter_drain_is_model : forall valid gs s,
  fold_left (fun s g => fst (iter_next_gen valid gen_iter_prologue gen_iter_body s g)) gs s =
  fold_left (fun s g => fst (step valid s (IterNext g))) gs s.
Proof. exact gen_process_iter_drain_eq_model. Qed.
Print Assumptions C04_gen_process_iter_drain_is_model.

(* _psposix.pid_exists(): the try / except ladder around os.kill(pid, 0) read from the source answers False exactly when
   os.kill raised ProcessLookupError (ESRCH) or OverflowError (pid beyond pid_t), True on success and on PermissionError
   (EPERM), and never lets an exception out -- for every pid other than 0 and every outcome of os.kill. *)
Theorem C04_gen_posix_pid_exists_answer : forall pid k, pid <> 0 ->
  px_run gen_posix_pid_exists pid k = Val (match k with KEsrch | KOverflow => false | KOk | KEperm => true end).
Proof. exact gen_posix_pid_exists_answer. Qed.
Print Assumptions C04_gen_posix_pid_exists_answer.

(* the model's _pslinux.pid_exists is 'False when the translated _psposix.pid_exists says False, else the Tgid check' *)
Theorem C04_gen_posix_pid_exists_factors_model : forall pid k status names, pid <> 0 ->
  pid_exists_linux pid k status names =
  match px_run gen_posix_pid_exists pid k with
  | Val false => Val false
  | Val true => pid_exists_linux pid KOk status names
  | Exc e => Exc e
  | OutOfModel => OutOfModel
  end.
Proof. exact gen_posix_pid_exists_factors_model. Qed.
Print Assumptions C04_gen_posix_pid_exists_factors_model.
