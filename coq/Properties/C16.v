(* C16 -- oneshot() and as_dict() change speed, never answers; safe across threads.
   Statements only; proofs live in C16/Proofs*.v.  Model: C16/Model.v (transcription of
   memoize_when_activated, Process.oneshot, Process.as_dict and the Linux memoized readers as a
   line-level interleaving semantics lts_step and a sequential reading sq_step), specification:
   C16/Spec.v.  code_now = the code in /repo (commit 7b727b3), code_before_fix / code_pre1948 =
   the wrapper before that commit / before the issue-1948 handler. *)
From PV Require Import Base.Bytes C16.Spec C16.Mgr C16.Proofs Gen.C16_Tables.
Local Open Scope nat_scope.

(* ---- one thread: every history of enter / exit / nested enter / exception in the body / method
   call / source change (new content, access denied, process gone), no bound on its length *)

(* 1. inside a block every call answers what its source held when it was first read successfully
   in that block, the block reads each of stat / status / smaps (and statm for memory_info) at
   most once, after the outermost exit -- normal or by an exception -- calls read fresh data, and
   nested blocks change nothing: the sequential reading of the code produces, call by call, the
   answers and the per-call read counts of the specification's ghost machine (Spec.spec_run).
   spec_run is None only for histories outside the stated domain (decidable, computed by the machine
   itself in g_ok): a source changing again after the process vanished, a single file of a live
   process vanishing, a history starting with a vanished source.  ppid() is covered everywhere in
   it, including while stat is unreadable and after the process is gone (sticky Process._gone). *)
Theorem C16_block_first_read : forall f h rs,
  spec_run f h = Some rs ->
  map proj_res (rev (q_res (sq_run (sq_init f) h))) = rs.
Proof. exact block_first_read. Qed.
Print Assumptions C16_block_first_read.

(* 2. stated on the model alone: once no block is open (after Exit, or after an exception unwound
   every block) both _cache attributes are gone and a call reads the current content, one read *)
Theorem C16_fresh_after : forall f h m,
  let q := sq_run (sq_init f) h in
  q_stk q = [] -> m <> Mppid ->
  fptr (q_sh q) = None /\ pptr (q_sh q) = None /\
  exists cn, sq_call m (q_sh q) = (q_sh q, cn, direct m (q_sh q)) /\ cn (m_src m) = 1.
Proof. exact fresh_after. Qed.
Print Assumptions C16_fresh_after.

Theorem C16_raise_leaves_all_blocks : forall q, q_stk (sq_step q ORaise) = [].
Proof. exact raise_leaves_all_blocks. Qed.
Print Assumptions C16_raise_leaves_all_blocks.

(* 3. entering again inside a block and leaving again: same dicts, same pointers, same sources,
   same answers so far; only the recursion count of the lock moved *)
Theorem C16_nested_noop : forall f h,
  let q := sq_run (sq_init f) h in
  q_stk q <> [] ->
  let q' := sq_step (sq_step q OEnter) OExit in
  q_stk q' = q_stk q /\ q_res q' = q_res q /\ same_core (q_sh q) (q_sh q') /\ srcs (q_sh q') = srcs (q_sh q)
  /\ q_stk (sq_step q OEnter) = Nested :: q_stk q /\ same_core (q_sh q) (q_sh (sq_step q OEnter)).
Proof. exact nested_noop. Qed.
Print Assumptions C16_nested_noop.

(* 4. as_dict: TypeError for a non-collection and ValueError for an unknown name with the state
   untouched (nothing queried, no block entered); otherwise exactly one oneshot block around the
   calls for the requested names (all valid names for None / an empty collection), the result has
   exactly those keys, ad_value where AccessDenied / ZombieProcess occurred, and NoSuchProcess
   propagates (the block is left on every path).  spec_ad_collect is the policy of the
   specification; names whose method raises anything else (NotImplementedError ...) are outside. *)
Theorem C16_as_dict_spec : forall valid resolve q,
  as_dict valid resolve ANotColl q = (q, Exc TypeError) /\
  (forall ns, names_valid valid (AColl ns) = false -> as_dict valid resolve (AColl ns) q = (q, Exc ValueError)) /\
  (forall attrs q2 answers,
     attrs <> ANotColl -> names_valid valid attrs = true ->
     run_calls resolve (sq_enter q) (requested valid attrs) = (q2, answers) ->
     (forall d, spec_ad_collect (requested valid attrs) answers = Val d ->
                as_dict valid resolve attrs q = (sq_exit q2, Val d) /\ map fst d = requested valid attrs) /\
     (spec_ad_collect (requested valid attrs) answers = Exc NoSuchProcess ->
      exists k, as_dict valid resolve attrs q =
                (sq_exit (sq_run (sq_enter q) (map (call_of resolve) (firstn k (requested valid attrs)))), Exc NoSuchProcess))).
Proof. exact as_dict_spec. Qed.
Print Assumptions C16_as_dict_spec.

(* ---- the two readings are one machine *)

(* One thread, any program: the run of the interleaving semantics lts_step terminates, and its answers with
   their per-call read counts, its block stack and its final shared state (dict contents, both pointers,
   lock, sources, Process._gone) are those of the sequential reading, up to the ghost step numbers
   (projr drops them from a result, sheq from the shared state).  So the theorems above speak about the
   machine the thread theorems below are about. *)
Theorem C16_seq_is_lts_alone : forall f h,
  exists n th,
    let c := run_sched code_now (init_cfg f [h]) (repeat 0 n) in
    let q := sq_run (sq_init f) h in
    c_ths c = [th] /\ t_pc th = PDone /\
    map projr (rev (t_res th)) = rev (q_res q) /\ t_stk th = q_stk q /\ sheq (c_sh c) (q_sh q).
Proof. exact seq_is_lts_alone. Qed.
Print Assumptions C16_seq_is_lts_alone.

(* that run is the only one: every configuration reachable with a single thread lies on it, and a
   finished thread cannot move *)
Theorem C16_lts_alone_deterministic : forall f h c,
  reach code_now (init_cfg f [h]) c -> exists k, c = run_sched code_now (init_cfg f [h]) (repeat 0 k).
Proof. exact lts_alone_deterministic. Qed.
Print Assumptions C16_lts_alone_deterministic.

Theorem C16_lts_alone_done_is_final : forall c th t,
  c_ths c = [th] -> t_pc th = PDone -> lts_step code_now c t = None.
Proof. exact lts_alone_done_is_final. Qed.
Print Assumptions C16_lts_alone_done_is_final.

(* 1 and 2 restated on lts_step itself *)
Theorem C16_block_first_read_lts : forall f h rs,
  spec_run f h = Some rs ->
  exists n th, c_ths (run_sched code_now (init_cfg f [h]) (repeat 0 n)) = [th] /\ t_pc th = PDone /\
               map proj_res (map projr (rev (t_res th))) = rs.
Proof. exact block_first_read_lts. Qed.
Print Assumptions C16_block_first_read_lts.

Theorem C16_fresh_after_lts : forall f h,
  q_stk (sq_run (sq_init f) h) = [] ->
  exists n th, let c := run_sched code_now (init_cfg f [h]) (repeat 0 n) in
               c_ths c = [th] /\ t_pc th = PDone /\ t_stk th = [] /\ fptr (c_sh c) = None /\ pptr (c_sh c) = None.
Proof. exact fresh_after_lts. Qed.
Print Assumptions C16_fresh_after_lts.

(* ---- which sources a block keeps (on the ghost machine; by C16_block_first_read(_lts) these are the
   read counts of the code's model) *)

(* stat, status, smaps -- the sources shared by several methods: inside one block (the history never
   returns to depth 0), however many calls of whichever methods and whatever the kernel does meanwhile,
   each is read successfully at most once, and not at all once the block holds it *)
Theorem C16_shared_source_read_once : forall s g h g' rs,
  shared_source s = true -> Nat.ltb 0 (g_depth g) = true -> stays g h = true ->
  spec_go g h [] = (g', rs) ->
  reads s rs <= 1 /\ (g_snap g s <> None -> reads s rs = 0).
Proof. exact shared_source_read_once. Qed.
Print Assumptions C16_shared_source_read_once.

(* statm is per method: memory_full_info() reads it on every successful call and leaves nothing
   behind, memory_info() keeps its own answer for the block; the shared sources are exactly the
   three memoized readers *)
Theorem C16_statm_per_method :
  (forall g g' v c, spec_call g Mmemory_full = (g', (Val v, Some c)) -> nth (idx Statm) c 0 = 1) /\
  (forall g g' x, spec_call g Mmemory_full = (g', x) -> g_snap g' Statm = g_snap g Statm) /\
  (forall g v, Nat.ltb 0 (g_depth g) = true -> g_snap g Statm = Some v ->
               spec_call g Mmemory_info = (g, (Val v, Some zero4))) /\
  (forall s, shared_source s = true <-> s = Stat \/ s = Status \/ s = Smaps).
Proof. exact statm_per_method. Qed.
Print Assumptions C16_statm_per_method.

(* 4b. attrs elements need not be strings.  Any collection containing at least one element that is not
   an acceptable name -- str not in the table, int, None, bool, bytes, float, NaN, tuple, instance of any
   class; one or many, duplicated, mixed with acceptable names, in any order -- is rejected with ValueError
   with the state untouched (no block entered, nothing read); TypeError stays reserved for a
   non-collection; a collection of acceptable names only behaves as in C16_as_dict_spec. *)
Theorem C16_as_dict_rejects_any_invalid : forall valid resolve q ns n,
  In n ns -> name_valid valid n = false ->
  as_dict_any valid resolve (PColl ns) q = (q, Exc ValueError).
Proof. exact as_dict_rejects_any_invalid. Qed.
Print Assumptions C16_as_dict_rejects_any_invalid.

Theorem C16_as_dict_any_other : forall valid resolve q,
  as_dict_any valid resolve PNotColl q = (q, Exc TypeError) /\
  as_dict_any valid resolve PNone q = as_dict valid resolve ANone q /\
  (forall ns, (forall n, In n ns -> name_valid valid n = true) ->
     as_dict_any valid resolve (PColl ns) q = as_dict valid resolve (AColl (strs_of (dedup_n ns []))) q).
Proof. exact as_dict_any_other. Qed.
Print Assumptions C16_as_dict_any_other.

(* ... against the table of attribute names dumped from the code on every run (coq/Gen/C16_Tables.v):
   the modelled names are accepted, the action / navigation methods are rejected with ValueError
   before anything is queried, and the table has no duplicates *)
Theorem C16_attrnames_table :
  forallb (fun n => mem_bytes n as_dict_attrnames) modelled_names = true /\
  forallb (fun n => negb (mem_bytes n as_dict_attrnames)) excluded_names = true /\
  nodup_bytes as_dict_attrnames = true /\
  (forall n, In n modelled_names -> names_valid as_dict_attrnames (AColl [n]) = true) /\
  (forall n resolve q, In n excluded_names ->
     as_dict as_dict_attrnames resolve (AColl [n]) q = (q, Exc ValueError)).
Proof. exact attrnames_table. Qed.
Print Assumptions C16_attrnames_table.

(* ---- answers are values *)

(* which methods a block caches is exactly the documented set: the table of memoize_when_activated methods
   dumped from the source on every run equals the model's four front-level keys and three memoized readers
   (none for statm), and none of the cached methods returns a mutable container.  One more cached method in
   the tree makes this obligation fail. *)
Theorem C16_memoized_table :
  memoized_front = [fkey_name FCpuTimes; fkey_name FMemInfo; fkey_name FPpid; fkey_name FUids] /\
  memoized_platform = [bs "_parse_stat_file"; bs "_read_smaps_file"; bs "_read_status_file"] /\
  (forall s, match reader_name s with Some n => mem_bytes n memoized_platform = memoized s | None => memoized s = false end) /\
  (forall n, is_cached n = true -> is_mutable n = false).
Proof. exact memoized_table. Qed.
Print Assumptions C16_memoized_table.

(* aliasing freedom, on a machine about object identity only (astep: a memoized method called in a block that
   holds its answer hands out that very object, every other call builds a new one, the caller may mutate in
   place any answer that is a list / dict): for every assignment of cached / mutable methods in which no cached
   method is mutable, and every history of enter / exit / raise / calls / mutations of earlier answers, no call
   ever hands out an object the caller has mutated -- no later answer depends on what was done to an earlier one *)
Theorem C16_alias_free : forall cached mutable,
  (forall n, cached n = true -> mutable n = false) ->
  forall h, tainted (arun cached mutable h) = false.
Proof. exact alias_free. Qed.
Print Assumptions C16_alias_free.

(* instantiated with the generated table and the list of methods returning lists / dicts *)
Theorem C16_alias_free_now : forall h, tainted (arun is_cached is_mutable h) = false.
Proof. exact alias_free_now. Qed.
Print Assumptions C16_alias_free_now.

Theorem C16_alias_free_refuted_if_cmdline_cached :
  exists h, tainted (arun (fun n => bytes_eqb n (bs "cmdline")) is_mutable h) = true.
Proof. exact alias_free_refuted_if_cmdline_cached. Qed.
Print Assumptions C16_alias_free_refuted_if_cmdline_cached.

(* ---- copies of a Process object (copy.copy / copy.deepcopy / pickle), several objects (Model.mstep) *)

(* block transparency for copies: every history over any number of objects whose copies start with no cache
   pointer they did not create (clean: no front-level pointer kept; platform object shared, or own without the
   platform-level pointer) -- whenever no object referring to a platform object is inside a block, every object
   on it has no front-level dict, the platform object has none, and a call reads the kernel as it is now *)
Theorem C16_copies_transparent : forall f h o ob m,
  Forall clean h ->
  let ms := mrun f h in
  nth_error (m_objs ms) o = Some (Some ob) -> quiet ms (o_plat ob) -> m <> Mppid ->
  fptr (view ms ob) = None /\ pptr (view ms ob) = None /\
  exists cn, sq_call m (view ms ob) = (view ms ob, cn, direct m (view ms ob)) /\ cn (m_src m) = 1.
Proof. exact copies_transparent. Qed.
Print Assumptions C16_copies_transparent.

(* sharing the platform object is harmless in that sense; keeping a pointer is not: the default shallow copy
   (the tree before commit 16d17e9; keeps the front-level _cache) taken inside a block answers ppid() from the dead block after the kernel changed *)
Theorem C16_copies_transparent_shallow_refuted :
  let ms := mrun (fun _ => SAvail 1) h_shallow in
  all_out ms = true /\ srcs (m_sh ms) Stat = SAvail 2 /\ last_answer_is ms (Val 1) = true.
Proof. exact copies_transparent_shallow_refuted. Qed.
Print Assumptions C16_copies_transparent_shallow_refuted.

(* ... and so would a deep copy that carried the platform-level cache along *)
Theorem C16_copies_transparent_deep_refuted :
  let ms := mrun (fun _ => SAvail 1) h_deep in
  all_out ms = true /\ srcs (m_sh ms) Stat = SAvail 2 /\ last_answer_is ms (Val 1) = true.
Proof. exact copies_transparent_deep_refuted. Qed.
Print Assumptions C16_copies_transparent_deep_refuted.

(* the tree under test (copy_table is probed from it on every run): if all the copies it supports are clean, its
   histories are transparent *)
Theorem C16_copies_transparent_tree : tree_clean = true ->
  forall f h o ob m, Forall tree_op h ->
  let ms := mrun f h in
  nth_error (m_objs ms) o = Some (Some ob) -> quiet ms (o_plat ob) -> m <> Mppid ->
  fptr (view ms ob) = None /\ pptr (view ms ob) = None /\
  exists cn, sq_call m (view ms ob) = (view ms ob, cn, direct m (view ms ob)) /\ cn (m_src m) = 1.
Proof. exact copies_transparent_tree. Qed.
Print Assumptions C16_copies_transparent_tree.

(* ... and they are (tree of record, after commit 16d17e9): block transparency for the copies of this tree *)
Theorem C16_copies_transparent_now : forall f h o ob m, Forall tree_op h ->
  let ms := mrun f h in
  nth_error (m_objs ms) o = Some (Some ob) -> quiet ms (o_plat ob) -> m <> Mppid ->
  fptr (view ms ob) = None /\ pptr (view ms ob) = None /\
  exists cn, sq_call m (view ms ob) = (view ms ob, cn, direct m (view ms ob)) /\ cn (m_src m) = 1.
Proof. exact copies_transparent_now. Qed.
Print Assumptions C16_copies_transparent_now.

(* the copy protocol of the tree of record (entries: copy, deepcopy, pickle, each inside / outside a block): deepcopy
   and pickle raise (no object is created), copy.copy is a shallow copy sharing the platform object; any other
   protocol breaks this obligation *)
Theorem C16_copy_table_shape :
  (forall i, 2 <= i < 6 -> nth i copy_table None = None) /\
  exists sh kf, nth 0 copy_table None = Some (sh, kf, false) /\ nth 1 copy_table None = Some (sh, false, false).
Proof. exact copy_table_shape. Qed.
Print Assumptions C16_copy_table_shape.

(* ---- threads: every interleaving (any schedule, any length), any number of threads, any programs *)

(* 5. no AttributeError / KeyError of the cache plumbing ever reaches a caller *)
Theorem C16_no_spurious_errors : forall vr f progs c th r,
  handle_l3 vr = true -> Forall (Forall op_clean) progs ->
  reach vr (init_cfg f progs) c -> In th (c_ths c) -> In r (t_res th) ->
  r_out r <> Exc AttributeError /\ r_out r <> Exc KeyError.
Proof. exact no_spurious_errors. Qed.
Print Assumptions C16_no_spurious_errors.

(* ... which is what the issue-1948 handler bought: without it a schedule lets AttributeError out *)
Theorem C16_no_spurious_errors_pre1948_refuted :
  exists sch, let c := run_sched code_pre1948 (init_cfg (fun _ => SAvail 1) progs_1948) sch in
    Forall (Forall op_clean) progs_1948 /\
    exists th r, nth_error (c_ths c) 1 = Some th /\ In r (t_res th) /\ r_out r = Exc AttributeError.
Proof. exact no_spurious_errors_pre1948_refuted. Qed.
Print Assumptions C16_no_spurious_errors_pre1948_refuted.

(* 7. every value held by any cache dict (front level or reader level) was read after that dict
   was created, i.e. after its block was entered *)
Theorem C16_cache_values_from_block : forall f progs c cid C k v,
  reach code_now (init_cfg f progs) c ->
  nth_error (heap (c_sh c)) cid = Some C -> In (k, v) (c_ents C) ->
  c_born C <= snd v /\ snd v <= clock (c_sh c).
Proof. exact cache_values_from_block. Qed.
Print Assumptions C16_cache_values_from_block.

(* 6. a value returned by a call was read by that call itself, or was found in a cache dict the
   call reached through the live pointer and was read after that dict was created -- inside the
   block that overlapped the call, never before it (r_t0 = step at which the call started, snd v =
   step at which the value was read, r_hit = the dict that supplied it) *)
Theorem C16_plain_caller_valid : forall f progs c th r v,
  reach code_now (init_cfg f progs) c -> In th (c_ths c) -> In r (t_res th) -> r_out r = Val v ->
  r_t0 r <= snd v \/
  exists cid C k, r_hit r = Some cid /\ nth_error (heap (c_sh c)) cid = Some C /\ In (k, v) (c_ents C) /\
                  c_born C <= snd v.
Proof. exact plain_caller_valid. Qed.
Print Assumptions C16_plain_caller_valid.

(* before commit 7b727b3 this failed: a plain caller's pre-block value landed in the next block's
   dict; the block owner (thread 0) and the plain caller (thread 1) then returned it *)
Theorem C16_cache_values_from_block_before_fix_refuted :
  exists sch, let c := run_sched code_before_fix (init_cfg (fun _ => SAvail 1) progs_stale) sch in
    (exists cid C k v, nth_error (heap (c_sh c)) cid = Some C /\ In (k, v) (c_ents C) /\ snd v < c_born C)
    /\ stale_result c 0 = true /\ stale_result c 1 = true.
Proof. exact cache_values_from_block_before_fix_refuted. Qed.
Print Assumptions C16_cache_values_from_block_before_fix_refuted.

(* the cache pointers never dangle, and whoever creates / removes dicts or has a block open holds the lock *)
Theorem C16_no_dangling_cache_pointer : forall f progs c,
  reach code_now (init_cfg f progs) c ->
  (forall cid, fptr (c_sh c) = Some cid -> cid < length (heap (c_sh c))) /\
  (forall cid, pptr (c_sh c) = Some cid -> cid < length (heap (c_sh c))).
Proof. exact no_dangling_cache_pointer. Qed.
Print Assumptions C16_no_dangling_cache_pointer.

Theorem C16_block_owner_holds_lock : forall f progs c i th,
  reach code_now (init_cfg f progs) c -> nth_error (c_ths c) i = Some th ->
  (t_stk th <> [] \/ (exists k, t_pc th = PAct k) \/ (exists k, t_pc th = PDel k) \/ t_pc th = PTest) ->
  exists m, lock (c_sh c) = Some (i, m).
Proof. exact block_owner_holds_lock. Qed.
Print Assumptions C16_block_owner_holds_lock.

(* ---- oneshot() manager OBJECTS: creation is an event of its own (Mgr.v: GCreate k / GEnter k / GExit k; the
   branch -- real block or nested no-op -- is taken at ENTER time from the state of the object at that moment and
   stays with that manager until it is left).  Every history inside the domain (each manager created before it is
   entered, entered once, left in LIFO order: what `with a: ... with b:` and ExitStack.enter_context can express)
   over any number of managers, created at any earlier moment -- up front, inside another open block, never
   entered at all -- gives call by call the answers, read counts, cache pointers and lock state of the same
   history written with `with p.oneshot():` at the point of entry ... *)
Theorem C16_precreated_same_as_with : forall f h g,
  g_run h (g_init f) = Some g ->
  gs_q g = sq_run (sq_init f) (flat_map Mgr.erase h).
Proof. exact precreated_same_as_with. Qed.
Print Assumptions C16_precreated_same_as_with.

(* ... the same stated inside the manager model: moving every creation to the point of entry stays inside the
   domain and changes nothing ... *)
Theorem C16_precreated_same_as_created_at_entry : forall f h g,
  g_run h (g_init f) = Some g ->
  exists g', g_run (inline h) (g_init f) = Some g' /\ gs_q g' = gs_q g /\ gs_open g' = gs_open g.
Proof. exact precreated_same_as_created_at_entry. Qed.
Print Assumptions C16_precreated_same_as_created_at_entry.

(* ... and therefore what the specification's ghost machine demands (first read of the block, one read per
   record, fresh data after the outermost exit, nesting changes nothing). *)
Theorem C16_precreated_block_first_read : forall f h g rs,
  g_run h (g_init f) = Some g ->
  spec_run f (flat_map Mgr.erase h) = Some rs ->
  map proj_res (rev (q_res (gs_q g))) = rs.
Proof. exact precreated_block_first_read. Qed.
Print Assumptions C16_precreated_block_first_read.
