(* C16 -- oneshot() and as_dict() change speed, never answers; safe across threads.
   Statements only; proofs live in C16/Proofs*.v.  Model: C16/Model.v (transcription of
   memoize_when_activated, Process.oneshot, Process.as_dict and the Linux memoized readers as a
   line-level interleaving semantics lts_step and a sequential reading sq_step), specification:
   C16/Spec.v.  code_now = the code in /repo (commit 7b727b3), code_before_fix / code_pre1948 =
   the wrapper before that commit / before the issue-1948 handler. *)
From PV Require Import C16.Spec C16.Proofs.
Local Open Scope nat_scope.

(* ---- threads: every interleaving (any schedule, any length), any number of threads, any programs *)

(* 5. no AttributeError / KeyError of the cache plumbing ever reaches a caller *)
Theorem C16_no_spurious_errors : forall vr f progs c th r,
  handle_l3 vr = true -> Forall (Forall op_clean) progs ->
  reach vr (init_cfg f progs) c -> In th (c_ths c) -> In r (t_res th) ->
  r_out r <> Exc AttributeError /\ r_out r <> Exc KeyError.
Proof. exact no_spurious_errors. Qed.
Print Assumptions C16_no_spurious_errors.

(* ... which is what the issue-1948 handler bought: without it a schedule lets AttributeError out *)
Theorem C16_no_spurious_errors_pre1948_refuted :
  exists sch, let c := run_sched code_pre1948 (init_cfg (fun _ => SAvail 1) progs_1948) sch in
    Forall (Forall op_clean) progs_1948 /\
    exists th r, nth_error (c_ths c) 1 = Some th /\ In r (t_res th) /\ r_out r = Exc AttributeError.
Proof. exact no_spurious_errors_pre1948_refuted. Qed.
Print Assumptions C16_no_spurious_errors_pre1948_refuted.

(* 7. every value held by any cache dict (front level or reader level) was read after that dict
   was created, i.e. after its block was entered *)
Theorem C16_cache_values_from_block : forall f progs c cid C k v,
  reach code_now (init_cfg f progs) c ->
  nth_error (heap (c_sh c)) cid = Some C -> In (k, v) (c_ents C) ->
  c_born C <= snd v /\ snd v <= clock (c_sh c).
Proof. exact cache_values_from_block. Qed.
Print Assumptions C16_cache_values_from_block.

(* before commit 7b727b3 this failed: a plain caller's pre-block value landed in the next block's
   dict; the block owner (thread 0) and the plain caller (thread 1) then returned it *)
Theorem C16_cache_values_from_block_before_fix_refuted :
  exists sch, let c := run_sched code_before_fix (init_cfg (fun _ => SAvail 1) progs_stale) sch in
    (exists cid C k v, nth_error (heap (c_sh c)) cid = Some C /\ In (k, v) (c_ents C) /\ snd v < c_born C)
    /\ stale_result c 0 = true /\ stale_result c 1 = true.
Proof. exact cache_values_from_block_before_fix_refuted. Qed.
Print Assumptions C16_cache_values_from_block_before_fix_refuted.

(* the cache pointers never dangle, and whoever creates / removes dicts or has a block open holds the lock *)
Theorem C16_no_dangling_cache_pointer : forall f progs c,
  reach code_now (init_cfg f progs) c ->
  (forall cid, fptr (c_sh c) = Some cid -> cid < length (heap (c_sh c))) /\
  (forall cid, pptr (c_sh c) = Some cid -> cid < length (heap (c_sh c))).
Proof. exact no_dangling_cache_pointer. Qed.
Print Assumptions C16_no_dangling_cache_pointer.

Theorem C16_block_owner_holds_lock : forall f progs c i th,
  reach code_now (init_cfg f progs) c -> nth_error (c_ths c) i = Some th ->
  (t_stk th <> [] \/ (exists k, t_pc th = PAct k) \/ (exists k, t_pc th = PDel k) \/ t_pc th = PTest) ->
  exists m, lock (c_sh c) = Some (i, m).
Proof. exact block_owner_holds_lock. Qed.
Print Assumptions C16_block_owner_holds_lock.
