From PV Require Import C16.Spec C16.Proofs.
Theorem C16_placeholder : code_now = mkVariant false true.
Proof. exact placeholder. Qed.
Print Assumptions C16_placeholder.
