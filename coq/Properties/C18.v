(* C18 -- nice / ionice / cpu_affinity / rlimit: get reads the kernel, set changes exactly that.
   Statements only; proofs live in C18/Proofs*.v.  Simulated kernel (state, system calls with the
   kernel's validity rules, /proc/<pid>/status printer): C18/Kernel.v; model of the psutil code:
   C18/Model.v ([run_req pid request kernel] = (answer, kernel afterwards)); specification: C18/Spec.v.
   [kget pid k] = the kernel's entry for pid; [kupd pid f k] changes that one entry by f;
   [set_nice/set_ioprio/set_mask/set_rlim] change one field of an entry. *)
From PV Require Import C18.Spec C18.Handle C18.Legacy C18.Proofs C18.ProofsReq C18.ProofsElig C18.ProofsThm C18.ProofsParse C18.ProofsHandle C18.Call C18.ProofsCall.

(* the packing of proc.c ((int)((unsigned)class << 13 | (unsigned)data)) loses nothing: for every
   class below 2^18 and every 13-bit data value the word is class*8192+data, fits an int and
   unpacks to the same pair *)
Theorem C18_ioprio_pack_roundtrip : forall c d, 0 <= c < 2 ^ 18 -> 0 <= d < 2 ^ 13 ->
  let raw := ioprio_pack c d in
  raw = c * 8192 + d /\ -2 ^ 31 <= raw < 2 ^ 31 /\ ioprio_unpack raw = (c, d).
Proof. exact ioprio_pack_roundtrip. Qed.
Print Assumptions C18_ioprio_pack_roundtrip.

(* the get forms return what the kernel reports for that process and change nothing
   (ionice: the word ioprio_get reports -- on kernels >= 5.18 the effective class for a stored NONE;
   rlimit: rlim_t values shown as Python shows them, RLIM_INFINITY = 2^64-1 as -1)
   (affinity: for every nr_cpu_ids up to 2^30 the growing CPU-set loop ends with the mask) *)
Theorem C18_get_reads_kernel : forall k pid p,
  wf_kernelb k = true -> kget pid k = Some p -> wf_procb k p = true -> pid <> 0 ->
  run_req pid (Nice None) k = (Val (RInt (p_nice p)), k)
  /\ run_req pid (Ionice None None) k = (Val (RPair (reported_ioprio k p / 8192) (reported_ioprio k p mod 8192)), k)
  /\ run_req pid (Affinity None) k = (Val (RList (p_mask p)), k)
  /\ forall res s h, 0 <= res < 16 -> nth_error (p_rlim p) (Z.to_nat res) = Some (s, h) ->
       run_req pid (Rlimit res None) k = (Val (RPair (rlim2py s) (rlim2py h)), k).
Proof. exact get_reads_kernel. Qed.
Print Assumptions C18_get_reads_kernel.

(* a legitimate nice value of -1 is a value, not an error *)
Theorem C18_getpriority_minus_one : forall k pid p, kget pid k = Some p -> p_nice p = -1 ->
  run_req pid (Nice None) k = (Val (RInt (-1)), k).
Proof. exact getpriority_minus_one. Qed.
Print Assumptions C18_getpriority_minus_one.

(* nice: every value -20..19 the caller may set (raising always; lowering with CAP_SYS_NICE or
   within RLIMIT_NICE of the target): afterwards the kernel entry is the old one with that nice
   value, every other process is unchanged, and the get form returns the value *)
Theorem C18_nice_set_then_get : forall k pid p v, kget pid k = Some p -> -20 <= v <= 19 ->
  p_nice p <= v \/ can_nice k p v = true ->
  let k' := kupd pid (set_nice v) k in
  run_req pid (Nice (Some v)) k = (Val RNone, k')
  /\ kget pid k' = Some (set_nice v p)
  /\ (forall q, q <> pid -> kget q k' = kget q k)
  /\ run_req pid (Nice None) k' = (Val (RInt v), k').
Proof. exact nice_set_then_get. Qed.
Print Assumptions C18_nice_set_then_get.

(* EPERM paths: the kernel refuses, psutil raises AccessDenied carrying the pid, nothing changed *)
Theorem C18_nice_denied : forall k pid p v, kget pid k = Some p -> fits_int v = true ->
  clamp_nice v < p_nice p -> can_nice k p (clamp_nice v) = false ->
  run_req pid (Nice (Some v)) k = (Exc AccessDenied, k) /\ exc_pid pid AccessDenied = Some pid.
Proof. exact nice_denied. Qed.
Print Assumptions C18_nice_denied.

Theorem C18_ionice_rt_denied : forall k pid p v, kget pid k = Some p ->
  0 <= match v with Some x => x | None => 0 end <= 7 ->
  k_cap_admin k = false -> k_cap_nice k = false ->
  run_req pid (Ionice (Some 1) v) k = (Exc AccessDenied, k) /\ exc_pid pid AccessDenied = Some pid.
Proof. exact ionice_rt_denied. Qed.
Print Assumptions C18_ionice_rt_denied.

Theorem C18_rlimit_denied : forall k pid p res s h os om, kget pid k = Some p -> pid <> 0 -> 0 <= res < 16 ->
  fits_long s = true -> fits_long h = true -> u64 s <= u64 h ->
  nth_error (p_rlim p) (Z.to_nat res) = Some (os, om) ->
  (res = RLIMIT_NOFILE /\ k_nr_open k < u64 h) \/ (om < u64 h /\ k_cap_resource k = false) ->
  run_req pid (Rlimit res (Some [s; h])) k = (Exc AccessDenied, k) /\ exc_pid pid AccessDenied = Some pid.
Proof. exact rlimit_denied. Qed.
Print Assumptions C18_rlimit_denied.

(* ionice: every class 0..3 x level (omitted = 0) 0..7; idle/none have the one level 0, given or
   not (it is what the get form reports for them); RT with CAP_SYS_ADMIN or CAP_SYS_NICE.
   The get form afterwards returns what ioprio_get reports for the new word [w]; that is the
   value set unless the class is NONE on a kernel reporting effective classes. *)
Theorem C18_ionice_set_then_get : forall k pid p c v,
  let lvl := match v with Some x => x | None => 0 end in
  kget pid k = Some p -> -20 <= p_nice p <= 19 ->
  0 <= c <= 3 -> 0 <= lvl <= 7 -> (c = 0 \/ c = 3 -> lvl = 0) ->
  (c = 1 -> k_cap_admin k || k_cap_nice k = true) ->
  let raw := c * 8192 + lvl in
  let k' := kupd pid (set_ioprio raw) k in
  let w := reported_ioprio k' (set_ioprio raw p) in
  run_req pid (Ionice (Some c) v) k = (Val RNone, k')
  /\ kget pid k' = Some (set_ioprio raw p)
  /\ (forall q, q <> pid -> kget q k' = kget q k)
  /\ run_req pid (Ionice None None) k' = (Val (RPair (w / 8192) (w mod 8192)), k')
  /\ (c <> 0 \/ k_ioget_effective k = false -> w = raw /\ w / 8192 = c /\ w mod 8192 = lvl).
Proof. exact ionice_set_then_get. Qed.
Print Assumptions C18_ionice_set_then_get.

(* cpu_affinity: every non-empty list of eligible CPUs (any order, duplicates allowed): the
   kernel mask and the get form become the ascending duplicate-free list with the same members *)
Theorem C18_affinity_set_then_get : forall k pid p cpus,
  wf_kernelb k = true -> kget pid k = Some p -> wf_procb k p = true ->
  cpus <> [] -> (forall c, In c cpus -> In c (p_elig p)) ->
  exists m, let k' := kupd pid (set_mask m) k in
  ssortedb m = true /\ (forall c, In c m <-> In c cpus)
  /\ run_req pid (Affinity (Some cpus)) k = (Val RNone, k')
  /\ kget pid k' = Some (set_mask m p)
  /\ (forall q, q <> pid -> kget q k' = kget q k)
  /\ run_req pid (Affinity None) k' = (Val (RList m), k').
Proof. exact affinity_set_then_get. Qed.
Print Assumptions C18_affinity_set_then_get.

(* the Python <-> rlim_t representation (CPython's resource module; psutil has no C layer of its
   own here): -1 is RLIM_INFINITY = 2^64-1, lossless in both directions on the whole domain *)
Theorem C18_rlim_roundtrip :
  u64 (-1) = RLIM_INFINITY /\ rlim2py RLIM_INFINITY = -1
  /\ (forall v, fits_long v = true -> 0 <= u64 v <= RLIM_INFINITY /\ rlim2py (u64 v) = v)
  /\ (forall u, 0 <= u <= RLIM_INFINITY -> fits_long (rlim2py u) = true /\ u64 (rlim2py u) = u).
Proof. exact rlim_roundtrip. Qed.
Print Assumptions C18_rlim_roundtrip.

(* rlimit: every resource 0..15, every soft <= hard as rlim_t (negative Python values are the
   large unsigned ones), permitted to the caller (hard limit not raised, or CAP_SYS_RESOURCE;
   NOFILE within fs.nr_open): that slot holds exactly the pair, the other resources and
   processes are unchanged, the get form returns the pair as it was passed *)
Theorem C18_rlimit_set_then_get : forall k pid p res s h,
  kget pid k = Some p -> wf_procb k p = true -> pid <> 0 ->
  0 <= res < 16 -> fits_long s = true -> fits_long h = true -> u64 s <= u64 h ->
  (res = RLIMIT_NOFILE -> u64 h <= k_nr_open k) ->
  (forall os om, nth_error (p_rlim p) (Z.to_nat res) = Some (os, om) -> u64 h <= om \/ k_cap_resource k = true) ->
  let l' := upd_nth (Z.to_nat res) (u64 s, u64 h) (p_rlim p) in
  let k' := kupd pid (fun p => set_rlim (upd_nth (Z.to_nat res) (u64 s, u64 h) (p_rlim p)) p) k in
  run_req pid (Rlimit res (Some [s; h])) k = (Val RNone, k')
  /\ kget pid k' = Some (set_rlim l' p)
  /\ nth_error l' (Z.to_nat res) = Some (u64 s, u64 h)
  /\ (forall r, r <> Z.to_nat res -> nth_error l' r = nth_error (p_rlim p) r)
  /\ (forall q, q <> pid -> kget q k' = kget q k)
  /\ run_req pid (Rlimit res None) k' = (Val (RPair s h), k').
Proof. exact rlimit_set_then_get. Qed.
Print Assumptions C18_rlimit_set_then_get.

(* malformed limits beyond "not a pair of length 2": soft above hard -> ValueError (the kernel's
   EINVAL); a value outside a C long long (2^63 ..) -> OverflowError; an int instead of a
   sequence -> TypeError (observation of DESIGN par. 8: the text would want ValueError).
   In all three nothing changes. *)
Theorem C18_rlimit_soft_above_hard : forall k pid p res s h, kget pid k = Some p -> pid <> 0 -> 0 <= res < 16 ->
  fits_long s = true -> fits_long h = true -> u64 h < u64 s ->
  run_req pid (Rlimit res (Some [s; h])) k = (Exc ValueError, k).
Proof. exact rlimit_soft_above_hard. Qed.
Print Assumptions C18_rlimit_soft_above_hard.

Theorem C18_rlimit_value_overflow : forall k pid res s h, pid <> 0 -> 0 <= res < 16 ->
  fits_long s = false \/ fits_long h = false ->
  run_req pid (Rlimit res (Some [s; h])) k = (Exc OverflowError, k).
Proof. exact rlimit_value_overflow. Qed.
Print Assumptions C18_rlimit_value_overflow.

Theorem C18_rlimit_scalar_typeerror : forall k pid res v, pid <> 0 ->
  run_req pid (RlimitScalar res v) k = (Exc TypeError, k).
Proof. exact rlimit_scalar_typeerror. Qed.
Print Assumptions C18_rlimit_scalar_typeerror.

(* the invalid requests raise ValueError and leave the whole kernel state as it was
   (since a87b45e also every I/O class outside 0-3);
   CPU lists: every non-empty list without an eligible CPU, whatever the eligible set and the
   current mask are (ids of any size, -1 included) *)
Theorem C18_invalid_rejected : forall k pid p, kget pid k = Some p -> wf_procb k p = true -> pid <> 0 ->
  (forall c v, v < 0 \/ 7 < v -> run_req pid (Ionice (Some c) (Some v)) k = (Exc ValueError, k))
  /\ (forall c v, c = 0 \/ c = 3 -> v <> 0 -> run_req pid (Ionice (Some c) (Some v)) k = (Exc ValueError, k))
  /\ (forall v, run_req pid (Ionice None (Some v)) k = (Exc ValueError, k))
  /\ (forall c v, c < 0 \/ 3 < c -> run_req pid (Ionice (Some c) v) k = (Exc ValueError, k))
  /\ (forall cpus, cpus <> [] -> (forall c, In c cpus -> ~ In c (p_elig p)) ->
        run_req pid (Affinity (Some cpus)) k = (Exc ValueError, k))
  /\ (forall res l, length l <> 2%nat -> run_req pid (Rlimit res (Some l)) k = (Exc ValueError, k)).
Proof. exact invalid_rejected. Qed.
Print Assumptions C18_invalid_rejected.

(* proc.c keeps the CPU number a C long up to CPU_SET: a number outside 0..1023 (2^31, 2^32,
   2^32+k, 2^62, negative ones) sets no bit of the cpu_set_t -- it is not narrowed to an int --
   so a list of such numbers names no CPU, the kernel answers EINVAL, the caller gets ValueError
   and nothing changes *)
Theorem C18_cpu_numbers_not_narrowed : forall l,
  (forall v, In v l -> fits_long v = true /\ v <> -1 /\ (v < 0 \/ 1024 <= v)) -> c_build_set l = Val [].
Proof. exact cpu_numbers_not_narrowed. Qed.
Print Assumptions C18_cpu_numbers_not_narrowed.

Theorem C18_nonexistent_cpus_rejected : forall k pid p cpus,
  kget pid k = Some p -> wf_procb k p = true -> pid <> 0 ->
  cpus <> [] -> (forall c, In c cpus -> c < 0 \/ 1024 <= c) ->
  run_req pid (Affinity (Some cpus)) k = (Exc ValueError, k).
Proof. exact nonexistent_cpus_rejected. Qed.
Print Assumptions C18_nonexistent_cpus_rejected.

(* cpu_affinity([]) selects all eligible CPUs: for every eligible set (one range, several
   ranges, single CPUs) and every current mask (also after an earlier narrowing) *)
Theorem C18_empty_affinity_all_eligible : forall k pid p,
  kget pid k = Some p -> wf_procb k p = true ->
  let k' := kupd pid (set_mask (p_elig p)) k in
  run_req pid (Affinity (Some [])) k = (Val RNone, k')
  /\ kget pid k' = Some (set_mask (p_elig p) p)
  /\ (forall q, q <> pid -> kget q k' = kget q k).
Proof. exact empty_affinity_all_eligible. Qed.
Print Assumptions C18_empty_affinity_all_eligible.

(* the Cpus_allowed_list parser of _get_eligible_cpus: for EVERY list the kernel can print (any
   number of ranges and singletons, ids below 10^20), whatever lines precede it -- none starting
   with the key, which holds for every /proc/<pid>/status since each line starts with its own
   field name; a Name: line that LOOKS like the key is such a line -- and whatever text follows:
   the printed set exactly when the list contains a range, all CPUs otherwise (the fallback
   psutil's test-suite enshrines). [unlines ls] = each line followed by a newline. *)
Theorem C18_parse_status_exact : forall lines post mask ncpu,
  Forall (fun l => contains 10 l = false /\ drop_prefix status_lit l = None) lines ->
  mask <> [] -> (forall c, In c mask -> 0 <= c < 10 ^ 20) ->
  parse_status (k_status_gen (concat (map (fun l => l ++ [10]) lines)) post mask) ncpu
  = Val (if existsb (fun ab => negb (fst ab =? snd ab)) (runs mask) then mask else zrange 0 ncpu).
Proof. exact parse_status_exact. Qed.
Print Assumptions C18_parse_status_exact.

Theorem C18_eligible_exact : forall k pid p, kget pid k = Some p -> p_mask p <> [] ->
  (forall c, In c (p_mask p) -> 0 <= c < 10 ^ 20) ->
  get_eligible_cpus pid k
  = Val (if existsb (fun ab => negb (fst ab =? snd ab)) (runs (p_mask p)) then p_mask p else zrange 0 (k_ncpu k)).
Proof. exact eligible_exact. Qed.
Print Assumptions C18_eligible_exact.

(* REPAIRED DEFECTS.  [leg_cpu_affinity] (C18/Legacy.v) is cpu_affinity before the commits
   638fb52, 07b12aa, 7214dea; each theorem shows the old code failing the property on a
   witness and the current model answering as demanded on the same input. *)
Theorem C18_legacy_empty_affinity_refuted_multirange :
  exists k pid p, wf_kernelb k = true /\ kget pid k = Some p /\ wf_procb k p = true /\ p_mask p = p_elig p
    /\ p_elig p = [0; 1; 2; 3; 8; 9; 10; 11]
    /\ (exists k', leg_cpu_affinity pid (Some []) k = (Val RNone, k') /\ kget pid k' = Some (set_mask [0; 1; 2; 3] p))
    /\ run_req pid (Affinity (Some [])) k = (Val RNone, kupd pid (set_mask (p_elig p)) k).
Proof. exact legacy_empty_affinity_refuted_multirange. Qed.
Print Assumptions C18_legacy_empty_affinity_refuted_multirange.

Theorem C18_legacy_empty_affinity_refuted_narrowed :
  exists k pid p, wf_kernelb k = true /\ kget pid k = Some p /\ wf_procb k p = true
    /\ p_elig p = [0; 1; 2; 3; 4; 5; 6; 7] /\ p_mask p = [0; 1]
    /\ (exists k', leg_cpu_affinity pid (Some []) k = (Val RNone, k') /\ kget pid k' = Some p)
    /\ run_req pid (Affinity (Some [])) k = (Val RNone, kupd pid (set_mask (p_elig p)) k).
Proof. exact legacy_empty_affinity_refuted_narrowed. Qed.
Print Assumptions C18_legacy_empty_affinity_refuted_narrowed.

Theorem C18_legacy_invalid_cpu_refuted :
  exists k pid p, wf_kernelb k = true /\ kget pid k = Some p /\ wf_procb k p = true /\ p_elig p = [0; 2]
    /\ leg_cpu_affinity pid (Some [1]) k = (Exc OSError, k)
    /\ run_req pid (Affinity (Some [1])) k = (Exc ValueError, k).
Proof. exact legacy_invalid_cpu_refuted. Qed.
Print Assumptions C18_legacy_invalid_cpu_refuted.

Theorem C18_legacy_huge_cpu_refuted :
  exists k pid p, wf_kernelb k = true /\ kget pid k = Some p /\ wf_procb k p = true
    /\ leg_cpu_affinity pid (Some [2 ^ 70]) k = (Exc OverflowError, k)
    /\ run_req pid (Affinity (Some [2 ^ 70])) k = (Exc ValueError, k).
Proof. exact legacy_huge_cpu_refuted. Qed.
Print Assumptions C18_legacy_huge_cpu_refuted.

(* the oracle of the correspondence run: wherever the specification demands an answer
   ([spec_req] = Some (answer, kernel afterwards)) the model gives exactly that -- no exclusion *)
Theorem C18_model_meets_spec : forall k pid p r exp,
  wf_kernelb k = true -> kget pid k = Some p -> wf_procb k p = true -> pid <> 0 ->
  spec_req pid r k = Some exp -> run_req pid r k = exp.
Proof. exact model_meets_spec. Qed.
Print Assumptions C18_model_meets_spec.

(* HANDLES (psutil.Process and its subclass psutil.Popen; C18/Handle.v).  A handle was created
   for the process (pid, start time [h_ident]); [occ] is what the kernel shows under that pid
   now; [h_reaped] says whether and how the child's exit status was collected through the
   handle (wait / poll / communicate / with) -- the statements hold for every value of it,
   for both classes and for every state of the flags _gone / _pid_reused.
   [hcall h occ r k] = (answer, kernel afterwards, handle afterwards, platform layer entered?). *)

(* the pid has been recycled by another process: no set form of nice / ionice / cpu_affinity /
   rlimit reaches the platform layer (hence no system call), the answer is NoSuchProcess, the
   kernel state -- in particular the new occupant -- is unchanged *)
Theorem C18_handle_recycled_no_syscall : forall h st r k, guarded r = true -> st <> h_ident h ->
  exists h', hcall h (Some st) r k = (Exc NoSuchProcess, k, h', false).
Proof. exact recycled_no_syscall. Qed.
Print Assumptions C18_handle_recycled_no_syscall.

(* ... and once a handle has written its process off, never again, whoever holds the pid *)
Theorem C18_handle_written_off_no_syscall : forall h occ r k, guarded r = true ->
  h_gone h = true \/ h_reused h = true ->
  hcall h occ r k = (Exc NoSuchProcess, k, h, false).
Proof. exact written_off_no_syscall. Qed.
Print Assumptions C18_handle_written_off_no_syscall.

(* nobody under the pid: nothing changes, whatever the request; nice and cpu_affinity answer
   NoSuchProcess (ionice / rlimit may object to their arguments first) *)
Theorem C18_handle_gone_nothing_changes : forall h r k, kget (h_pid h) k = None ->
  snd (fst (fst (hcall h None r k))) = k.
Proof. exact gone_nothing_changes. Qed.
Print Assumptions C18_handle_gone_nothing_changes.

Theorem C18_handle_gone_nosuchprocess : forall h k, kget (h_pid h) k = None ->
  (forall v, fits_int v = true -> fst (fst (fst (hcall h None (Nice (Some v)) k))) = Exc NoSuchProcess)
  /\ (forall cpus, fst (fst (fst (hcall h None (Affinity (Some cpus)) k))) = Exc NoSuchProcess)
  /\ (forall sh items, fst (fst (fst (hcall h None (AffinityIt sh items) k))) = Exc NoSuchProcess).
Proof. exact gone_nosuchprocess. Qed.
Print Assumptions C18_handle_gone_nosuchprocess.

(* the same process still holds the pid: the handle adds nothing to the plain call *)
Theorem C18_handle_same_occupant_transparent : forall h r k, h_gone h = false -> h_reused h = false ->
  hcall h (Some (h_ident h)) r k = (fst (run_req (h_pid h) r k), snd (run_req (h_pid h) r k), h, true).
Proof. exact same_occupant_transparent. Qed.
Print Assumptions C18_handle_same_occupant_transparent.

(* the oracle for handle histories ([spec_hcall]) is met by the model *)
Theorem C18_hcall_meets_spec : forall h occ r k exp, wf_kernelb k = true ->
  (forall st, occ = Some st -> exists p, kget (h_pid h) k = Some p /\ wf_procb k p = true) ->
  (occ = None -> kget (h_pid h) k = None) -> h_pid h <> 0 ->
  spec_hcall h occ r k = Some exp -> fst (fst (hcall h occ r k)) = exp.
Proof. exact hcall_meets_spec. Qed.
Print Assumptions C18_hcall_meets_spec.

(* CALL FORMS (C18/Call.v): a call is positionals + keywords, bound as Python binds them to
   nice(value=None) / ionice(ioclass=None, value=None) / cpu_affinity(cpus=None) /
   rlimit(resource, limits=None); [pcall] = bind, read the bound values as a request
   ([option] = "is not None"), then the handle call above. *)
Local Open Scope string_scope.

(* every spelling of the same arguments binds to the same values; an omitted optional is None *)
Theorem C18_bind_forms : forall a b,
  bind MNice {| c_pos := [a]; c_kw := [] |} = Val [a] /\ bind MNice {| c_pos := []; c_kw := [("value", a)] |} = Val [a]
  /\ bind MIonice {| c_pos := [a; b]; c_kw := [] |} = Val [a; b]
  /\ bind MIonice {| c_pos := []; c_kw := [("ioclass", a); ("value", b)] |} = Val [a; b]
  /\ bind MIonice {| c_pos := []; c_kw := [("value", b); ("ioclass", a)] |} = Val [a; b]
  /\ bind MIonice {| c_pos := [a]; c_kw := [("value", b)] |} = Val [a; b]
  /\ bind MIonice {| c_pos := []; c_kw := [("value", b)] |} = Val [PNone; b]
  /\ bind MIonice {| c_pos := [a]; c_kw := [] |} = Val [a; PNone]
  /\ bind MAffinity {| c_pos := [a]; c_kw := [] |} = Val [a] /\ bind MAffinity {| c_pos := []; c_kw := [("cpus", a)] |} = Val [a]
  /\ bind MRlimit {| c_pos := [a; b]; c_kw := [] |} = Val [a; b]
  /\ bind MRlimit {| c_pos := []; c_kw := [("resource", a); ("limits", b)] |} = Val [a; b]
  /\ bind MRlimit {| c_pos := [a]; c_kw := [("limits", b)] |} = Val [a; b]
  /\ bind MRlimit {| c_pos := [a]; c_kw := [] |} = Val [a; PNone].
Proof. intros a b. destruct (bind_forms a b) as [H1 [H2 [_ [H4 [H5 [H6 [H7 [H8 [_ [H10 [_ [H12 [H13 [_ [H15 [H16 [_ [H18 [H19 _]]]]]]]]]]]]]]]]]]].
  repeat split; assumption. Qed.
Print Assumptions C18_bind_forms.

(* the outcome is a function of the bound arguments only *)
Theorem C18_call_form_irrelevant : forall h occ m c1 c2 k vals,
  bind m c1 = Val vals -> bind m c2 = Val vals -> pcall h occ m c1 k = pcall h occ m c2 k.
Proof. exact call_form_irrelevant. Qed.
Print Assumptions C18_call_form_irrelevant.

(* get or set is decided by "is not None" on the bound deciding argument (value / ioclass / cpus /
   limits): 0, [] and IOPRIO_CLASS_NONE are sets (Example falsy_values_are_sets) *)
Theorem C18_set_iff_not_none : forall m vals r, to_req m vals = Val r ->
  guarded r = negb (is_none (deciding m vals)).
Proof. exact set_iff_not_none. Qed.
Print Assumptions C18_set_iff_not_none.

(* in every call form a set never touches a recycled pid (or the arguments have a type the model
   does not cover) *)
Theorem C18_pcall_recycled_no_syscall : forall h st m c k vals,
  bind m c = Val vals -> is_none (deciding m vals) = false -> st <> h_ident h ->
  pcall h (Some st) m c k = OutOfModel
  \/ exists h', pcall h (Some st) m c k = Val (Exc NoSuchProcess, k, h', false).
Proof. exact pcall_recycled_no_syscall. Qed.
Print Assumptions C18_pcall_recycled_no_syscall.

(* ITERABLES: cpu_affinity(cpus) for every shape of the argument.  [AffinityIt sh items] = an
   iterable of shape sh (list, tuple, set, frozenset, range, dict view; or one-shot: iterator,
   generator, map, chain, line iterator) that yields [items] on its first traversal. *)

(* a one-shot iterable yields nothing on a second traversal (so code must traverse it once) *)
Theorem C18_second_traversal_empty : forall a, oneshot (a_shape a) = true -> fst (iterate (snd (iterate a))) = [].
Proof. exact second_traversal_empty. Qed.
Print Assumptions C18_second_traversal_empty.

(* for every shape the call is the call with the list of the first traversal; eligible CPUs: the
   mask (and the get form) become exactly the set of the first traversal; only ineligible CPUs:
   ValueError with nothing changed -- never silently "all CPUs"; an empty sized container = [];
   an empty one-shot iterator (truthy, yields nothing): ValueError, nothing changed *)
Theorem C18_affinity_any_iterable : forall k pid p sh items,
  wf_kernelb k = true -> kget pid k = Some p -> wf_procb k p = true ->
  (items <> [] -> run_req pid (AffinityIt sh items) k = run_req pid (Affinity (Some items)) k)
  /\ (items <> [] -> (forall c, In c items -> In c (p_elig p)) ->
      exists m, ssortedb m = true /\ (forall c, In c m <-> In c items)
        /\ run_req pid (AffinityIt sh items) k = (Val RNone, kupd pid (set_mask m) k)
        /\ run_req pid (Affinity None) (kupd pid (set_mask m) k) = (Val (RList m), kupd pid (set_mask m) k))
  /\ (items <> [] -> (forall c, In c items -> ~ In c (p_elig p)) -> pid <> 0 ->
      run_req pid (AffinityIt sh items) k = (Exc ValueError, k))
  /\ (oneshot sh = false -> run_req pid (AffinityIt sh []) k = run_req pid (Affinity (Some [])) k)
  /\ (oneshot sh = true -> run_req pid (AffinityIt sh []) k = (Exc ValueError, k)).
Proof. exact affinity_any_iterable. Qed.
Print Assumptions C18_affinity_any_iterable.

(* FORK: a handle names its process by its pid field only.  The kernel resolves pid 0 to the
   calling process; psutil passes [h_pid] (never 0), so the get and set forms through a handle do
   not depend on who calls -- e.g. a forked child using the handle its parent created for itself
   reads and changes the PARENT.  [hcall_as caller] = the call as issued by process [caller].
   (Example fork_shortcut_refuted in C18/ProofsHandle.v: an "I am my own process" shortcut would
   read and change the child.) *)
Theorem C18_caller_irrelevant : forall c1 c2 h occ r k, h_pid h <> 0 ->
  hcall_as c1 h occ r k = hcall_as c2 h occ r k.
Proof. exact caller_irrelevant. Qed.
Print Assumptions C18_caller_irrelevant.

Theorem C18_hcall_as_is_hcall : forall c h occ r k, h_pid h <> 0 ->
  fst (fst (fst (hcall_as c h occ r k))) = fst (fst (fst (hcall h occ r k)))
  /\ snd (fst (fst (hcall_as c h occ r k))) = snd (fst (fst (hcall h occ r k))).
Proof. exact hcall_as_is_hcall. Qed.
Print Assumptions C18_hcall_as_is_hcall.

(* ---- Round 2: tie to the source by translation.  props/_c18_gen.py translates the CURRENT source of
   Process.nice / ionice / rlimit / cpu_affinity (psutil/__init__.py) and Process.ionice_set / rlimit
   (psutil/_pslinux.py) into programs of the statement language of C18/PyGen.v (Gen/C18_Tables.v,
   regenerated on every run, failing closed).  [run prog pid env] interprets a program on the bound
   arguments and ends in an exception, or in ONE call of the next layer with its evaluated arguments,
   whether its value is returned, and whether _raise_if_pid_reused() was called before it.
   [lin_denote] continues a _pslinux program with the model's native calls (c_ioprio_set, py_prlimit);
   [front_denote] continues a front-end program with the TRANSLATED _pslinux programs (ionice_set,
   rlimit) or the model's platform functions (nice, affinity) -- definitions in C18/ProofsGen.v. *)
From PV Require Import C18.PyGen Gen.C18_Tables C18.ProofsGen.

(* _pslinux.Process.ionice_set as it is in the source now = the model's ionice_set: the guards, their
   order, ValueError for each, the native call and its arguments -- for every class, level (or None), kernel *)
Theorem C18_gen_ionice_set_is_model : forall pid cls v k,
  lin_denote (run gen_linux_ionice_set pid [("ioclass"%string, VInt cls); ("value"%string, optv v)]) k
  = ionice_set pid cls v k.
Proof. exact gen_ionice_set_correct. Qed.
Print Assumptions C18_gen_ionice_set_is_model.

(* _pslinux.Process.rlimit as it is in the source now = the model's rlimit (pid 0 refused first; None = get;
   len(limits) != 2 -> ValueError before any call; set call, value dropped) and rlimit_scalar (an int or an
   iterator object as limits: TypeError from len(), before any call) *)
Theorem C18_gen_rlimit_is_model : forall pid res k,
  (forall limits,
     lin_denote (run gen_linux_rlimit pid [("resource_"%string, VInt res); ("limits"%string, limv limits)]) k
     = rlimit pid res limits k) /\
  (forall v its,
     lin_denote (run gen_linux_rlimit pid [("resource_"%string, VInt res); ("limits"%string, VInt v)]) k
     = rlimit_scalar pid res v k /\
     lin_denote (run gen_linux_rlimit pid [("resource_"%string, VInt res); ("limits"%string, VIter its)]) k
     = rlimit_scalar pid res v k).
Proof. exact gen_rlimit_both. Qed.
Print Assumptions C18_gen_rlimit_is_model.

(* the four public methods as they are in the source now, continued by the translated _pslinux functions,
   = the model's run_req, for EVERY request (get and set forms, every iterable shape, scalar limits) *)
Theorem C18_gen_front_is_run_req : forall pid r k,
  front_denote pid (front_run r pid) k = run_req pid r k.
Proof. exact gen_front_is_run_req. Qed.
Print Assumptions C18_gen_front_is_run_req.

(* in the source as it is now, _raise_if_pid_reused() has been called before the platform layer exactly
   for the forms Handle.guarded names (the set forms), and such a form does reach the platform layer *)
Theorem C18_gen_guard_is_guarded : forall pid r,
  guard_of (front_run r pid) = guarded r /\
  (guarded r = true -> exists ret c, front_run r pid = RCall true ret c).
Proof. exact gen_guard_both. Qed.
Print Assumptions C18_gen_guard_is_guarded.

(* the IOPriority members of the source are the kernel's class numbers *)
Theorem C18_gen_iopriority_constants :
  gen_iopriority = [("IOPRIO_CLASS_BE"%string, 2); ("IOPRIO_CLASS_IDLE"%string, 3);
                    ("IOPRIO_CLASS_NONE"%string, 0); ("IOPRIO_CLASS_RT"%string, 1)].
Proof. exact gen_iopriority_correct. Qed.
Print Assumptions C18_gen_iopriority_constants.
