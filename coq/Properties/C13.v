(* C13 -- placeholder while the harness is brought up *)
From PV Require Import C13.Spec C13.Proofs.

Theorem C13_percent_total_nonpositive : forall memtype mi mfi total,
  total <= 0 -> forall q, memory_percent memtype mi mfi total <> Val q.
Proof. exact percent_total_nonpositive. Qed.
Print Assumptions C13_percent_total_nonpositive.
