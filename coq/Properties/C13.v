(* C13 -- process memory figures are consistent with the kernel's per-mapping
   accounting.  Statements only; proofs live in C13/Proofs*.v.  Model: C13/Model.v
   (transcription of psutil/_pslinux.py and psutil/__init__.py), specification:
   C13/Spec.v (kernel records, printers k_statm / k_smaps / k_rollup, demanded answers). *)
From PV Require Import C13.Spec C13.Lib C13.ProofsMaps C13.ProofsSums C13.ProofsRollup C13.ProofsGroup C13.ProofsHist C13.Proofs C13.Handles C13.ProofsHandles Gen.C13_Tables.

(* memory_info(): the seven page counts of statm (size resident shared text lib data dt, alias
   vms rss shared trs lrs drs dt) times the page size, as pmem(rss, vms, shared, text, lib,
   data, dirty) *)
Theorem C13_memory_info_statm : forall pagesize r,
  wf_statm r = true -> memory_info pagesize (k_statm r) = Val (spec_meminfo pagesize r).
Proof. exact statm_roundtrip. Qed.
Print Assumptions C13_memory_info_statm.

(* the three regular-expression scans of _parse_smaps give, for every listing, the sums
   over all mappings of private (clean + dirty + hugetlb), proportional and swapped kB *)
Theorem C13_smaps_sums : forall ms, forallb wf_kernel0 ms = true ->
  parse_smaps Alive (FContent (k_smaps ms)) = Val (spec_sums ms).
Proof. exact parse_smaps_spec. Qed.
Print Assumptions C13_smaps_sums.

(* memory_full_info() with the per-mapping listing as the source (kernel without
   smaps_rollup, or the roll-up answering ENOENT / ESRCH) *)
Theorem C13_full_info_smaps : forall pagesize r ms has_rollup rollup,
  wf_statm r = true -> forallb wf_kernel0 ms = true ->
  has_rollup = false \/ rollup = FENOENT \/ rollup = FESRCH ->
  memory_full_info Alive pagesize has_rollup rollup (FContent (k_smaps ms)) (FContent (k_statm r))
  = Val (spec_full pagesize r ms).
Proof. exact full_info_smaps. Qed.
Print Assumptions C13_full_info_smaps.

(* _parse_smaps_rollup on every kernel-formatted roll-up file *)
Theorem C13_rollup_parse : forall rl, wf_rollup rl = true ->
  parse_rollup (k_rollup rl) =
  Val ((ru_kb rl FPrivateClean + ru_kb rl FPrivateDirty + ru_kb rl FPrivateHugetlb) * 1024,
       ru_kb rl FPss * 1024, ru_kb rl FSwap * 1024).
Proof. exact rollup_parse. Qed.
Print Assumptions C13_rollup_parse.

(* the complete line set of a current kernel's roll-up: the lines that are not figures
   (Pss_Dirty, Pss_Anon, Pss_File, Pss_Shmem, KSM, LazyFree, AnonHugePages, ShmemPmdMapped,
   FilePmdMapped, Shared_Hugetlb, SwapPss, Locked) cannot change the answer, whatever they say *)
Theorem C13_rollup_ignores_decoys : forall hdr fv d,
  (forall f, is_dec (fv f) = true) -> (forall i, is_dec (d i) = true) ->
  (match hdr with c :: _ => is_hex c | [] => false end) = true -> contains 10 hdr = false ->
  parse_rollup (k_rollup {| ru_hdr := hdr; ru_lines := k6_rollup_lines fv d |}) =
  Val ((dec_val (fv FPrivateClean) + dec_val (fv FPrivateDirty) + dec_val (fv FPrivateHugetlb)) * 1024,
       dec_val (fv FPss) * 1024, dec_val (fv FSwap) * 1024).
Proof. exact k6_rollup_ignores_decoys. Qed.
Print Assumptions C13_rollup_ignores_decoys.

(* the same for the listing: every mapping carries the complete line set (KernelPageSize,
   MMUPageSize, Pss_Dirty, KSM, ..., SwapPss, Locked, THPeligible, ProtectionKey, VmFlags) with
   arbitrary values; sums and rows are those of the figures *)
Theorem C13_smaps_ignores_decoys : forall ex ms,
  (forall m, In m ms -> wf_header m = true /\ marker_ok ex m = true /\
     exists fv d fl, m_lines m = k6_lines fv d fl /\ (forall f, is_dec (fv f) = true) /\
                     (forall i, is_dec (d i) = true) /\ fl <> [] /\ forallb flag_ok fl = true) ->
  parse_smaps Alive (FContent (k_smaps ms)) = Val (spec_sums ms)
  /\ memory_maps Alive ex (FContent (k_smaps ms)) = Val (map spec_row ms).
Proof. exact k6_smaps_ignores_decoys. Qed.
Print Assumptions C13_smaps_ignores_decoys.

(* memory_full_info() with the roll-up as the source, for every roll-up whose totals are
   those of the mapping list *)
Theorem C13_full_info_rollup : forall pagesize r ms rl smaps,
  wf_statm r = true -> wf_rollup rl = true -> consistent rl ms = true ->
  memory_full_info Alive pagesize true (FContent (k_rollup rl)) smaps (FContent (k_statm r))
  = Val (spec_full pagesize r ms).
Proof. exact full_info_rollup. Qed.
Print Assumptions C13_full_info_rollup.

(* the same record whether the roll-up or the listing is the source -- exact hypothesis:
   the roll-up's Private_*, Pss and Swap lines are the sums of the listing's lines
   ([consistent]) *)
Theorem C13_rollup_agrees : forall pagesize r ms rl,
  wf_statm r = true -> forallb wf_kernel0 ms = true -> wf_rollup rl = true -> consistent rl ms = true ->
  memory_full_info Alive pagesize true (FContent (k_rollup rl)) (FContent (k_smaps ms)) (FContent (k_statm r))
  = memory_full_info Alive pagesize false (FContent (k_rollup rl)) (FContent (k_smaps ms)) (FContent (k_statm r)).
Proof. exact rollup_agrees. Qed.
Print Assumptions C13_rollup_agrees.

(* a real kernel keeps Pss in sub-kB precision (per mapping floor(pss_i), roll-up
   floor(sum pss_i)): with such a roll-up as the source the record carries the roll-up's Pss,
   at most (number of mappings - 1) kB above the listing's sum; uss and swap are the same *)
Theorem C13_full_info_rollup_rounded : forall pagesize r ms rl smaps,
  wf_statm r = true -> wf_rollup rl = true -> rounded rl ms = true ->
  memory_full_info Alive pagesize true (FContent (k_rollup rl)) smaps (FContent (k_statm r))
  = Val (spec_full_ru pagesize r ms rl)
  /\ (let '(_, pss, _) := spec_sums ms in
      pss <= ru_kb rl FPss * 1024 <= pss + 1024 * Z.of_nat (pred (length ms))).
Proof. exact full_info_rollup_rounded. Qed.
Print Assumptions C13_full_info_rollup_rounded.

(* memory_maps(grouped=False): one row per mapping, in order, with its own address range,
   permissions, path ('[anon]' if none, the kernel's " (deleted)" marker removed) and its
   own ten figures (0 for a figure the kernel does not print) -- any number of mappings, any
   path bytes after a non-blank first byte (blanks inside or at the end, colons, " (deleted)",
   non-UTF-8; a newline appears as the kernel shows it, \012), any kernel line set as long as it
   is the same for every mapping (uniform_figs); [wf_kernel probe] = the kernel's guarantees
   (wf_kernel0) + the " (deleted)" marker is readable (marker_ok: an unlinked file's marked name
   is not shown to exist -- absent for whatever errno, or permission denied --, a live file
   whose name ends in the marker exists) *)
Theorem C13_maps_ungrouped : forall ex ms, forallb (wf_kernel ex) ms = true -> uniform_figs ms = true ->
  memory_maps Alive ex (FContent (k_smaps ms)) = Val (map spec_row ms).
Proof. exact maps_ungrouped. Qed.
Print Assumptions C13_maps_ungrouped.

(* the existence probe (os.stat of a name that ends in " (deleted)") is a 3-way value: there /
   not there for ANY OSError but a permission error (ENOENT, ENOTDIR, ENAMETOOLONG for a
   246..255-byte last component or a > 4095-byte path, ELOOP, EIO, EOVERFLOW ...) / permission
   denied.  For every listing and EVERY answer of the probe: the call succeeds with one row per
   smaps record, in the records' order, every column but the path the record's own, the path
   the shown name with the marker cut unless a file of the marked name exists *)
Theorem C13_maps_rows_any_probe : forall ex ms,
  forallb wf_kernel0 ms = true -> uniform_figs ms = true ->
  exists rows, memory_maps Alive ex (FContent (k_smaps ms)) = Val rows
    /\ length rows = length ms
    /\ map w_addr rows = map m_addr ms /\ map w_perms rows = map m_perms ms
    /\ map w_nums rows = map (fun m => map (fun f => kb m f * 1024) row_figs) ms
    /\ map w_path rows = map (row_path ex) ms.
Proof. exact maps_rows_any_probe. Qed.
Print Assumptions C13_maps_rows_any_probe.

(* why the probe said "not there" (errno, permission) is irrelevant to the path *)
Theorem C13_absent_errno_irrelevant : forall ex ex' m,
  path_head_ok m = true -> m_deleted m = true ->
  is_exists (ex (shown_path m)) = false -> is_exists (ex' (shown_path m)) = false ->
  row_path ex m = row_path ex' m.
Proof. exact absent_errno_irrelevant. Qed.
Print Assumptions C13_absent_errno_irrelevant.

(* the decoding before /repo commit b718f0c (clean_path_strict) turned a PermissionError of
   the probe into AccessDenied for the whole call; the present one lists every mapping *)
Theorem C13_maps_probe_denied_refuted :
  wf_kernel deny_all ex_m1 = true /\ m_deleted ex_m1 = true
  /\ clean_path_strict deny_all (shown_path ex_m1) = Exc AccessDenied
  /\ clean_path deny_all (shown_path ex_m1) = Val (m_path ex_m1)
  /\ memory_maps Alive deny_all (FContent (k_smaps [ex_m1; ex_m2])) = Val (map spec_row [ex_m1; ex_m2])
  /\ map w_path (map spec_row [ex_m1; ex_m2]) = [bs "/tmp/a b:c"; bs "[anon]"].
Proof. exact maps_probe_denied_refuted. Qed.
Print Assumptions C13_maps_probe_denied_refuted.

(* ... uniform_figs cannot be dropped: get_blocks never clears its dict, so a mapping lacking
   a line that an earlier mapping printed inherits the earlier value (no kernel prints that) *)
Theorem C13_maps_stale_dict_refuted :
  forallb (wf_kernel no_files) [stale_m1; stale_m2] = true /\ uniform_figs [stale_m1; stale_m2] = false
  /\ exists rows, memory_maps Alive no_files (FContent (k_smaps [stale_m1; stale_m2])) = Val rows
                 /\ map (fun r => nth 9 (w_nums r) 0) rows = [8192; 8192]
                 /\ map (fun r => nth 9 (w_nums r) 0) (map spec_row [stale_m1; stale_m2]) = [8192; 0].
Proof. exact maps_stale_dict_refuted. Qed.
Print Assumptions C13_maps_stale_dict_refuted.

(* ... nor the non-blank first byte: a leading blank is indistinguishable from the padding *)
Theorem C13_maps_leading_blank_observation :
  wf_body (m_lines blank_m) = true /\ path_head_ok blank_m = false
  /\ exists rows, memory_maps Alive no_files (FContent (k_smaps [blank_m])) = Val rows
                 /\ map w_path rows = [bs "/tmp/a"] /\ m_path blank_m = 32 :: bs "/tmp/a".
Proof. exact maps_leading_blank_observation. Qed.
Print Assumptions C13_maps_leading_blank_observation.

(* the row's path is the name as the kernel shows it; it is the name itself unless the name
   contains a newline ... *)
Theorem C13_kname_own : forall m, contains 10 (m_path m) = false -> kname m = m_path m.
Proof. exact kname_own. Qed.
Print Assumptions C13_kname_own.

(* ... which the kernel writes as \012 without escaping the backslash: two different names
   are shown alike, so the own path is not recoverable by any decoder (observation) *)
Theorem C13_maps_newline_name_observation :
  wf_kernel no_files ex_m4 = true
  /\ exists rows, memory_maps Alive no_files (FContent (k_smaps [ex_m4])) = Val rows
                 /\ map w_path rows = [bs "/tmp/n\012l"]
                 /\ kname ex_m4 = bs "/tmp/n\012l" /\ m_path ex_m4 = bs "/tmp/n" ++ [10] ++ bs "l"
                 /\ kname {| m_addr := []; m_perms := []; m_offset := []; m_dev := []; m_inode := []; m_pad := 0;
                             m_path := bs "/tmp/n\012l"; m_deleted := false; m_lines := [] |} = kname ex_m4.
Proof. exact maps_newline_name_observation. Qed.
Print Assumptions C13_maps_newline_name_observation.

(* the path decoding before /repo commit c15178c (str.strip() of the name) lost a blank at the
   end of a mapped file's name; the present one returns the mapping's own path *)
Theorem C13_legacy_strip_refuted :
  wf_kernel no_files wit_blank = true
  /\ clean_path_legacy no_files (shown_path wit_blank) = Val (bs "/tmp/a")
  /\ clean_path no_files (shown_path wit_blank) = Val (m_path wit_blank)
  /\ m_path wit_blank = bs "/tmp/a ".
Proof. exact legacy_strip_refuted. Qed.
Print Assumptions C13_legacy_strip_refuted.

(* memory_maps(grouped=True), for any list of rows: one row per distinct path ... *)
Theorem C13_group_paths_nodup : forall rows, NoDup (map fst (group_rows rows)).
Proof. exact group_paths_nodup. Qed.
Print Assumptions C13_group_paths_nodup.

Theorem C13_group_paths_complete : forall rows p,
  In p (map fst (group_rows rows)) <-> exists r, In r rows /\ w_path r = p.
Proof. exact group_paths_complete. Qed.
Print Assumptions C13_group_paths_complete.

(* ... whose every field is the sum over that path's mappings *)
Theorem C13_group_sums : forall rows p ns,
  Forall (fun r => length (w_nums r) = 10%nat) rows ->
  In (p, ns) (group_rows rows) ->
  ns = fold_left zip_add (map w_nums (filter (fun r => beqb (w_path r) p) rows)) (repeat 0 10).
Proof. exact group_sums. Qed.
Print Assumptions C13_group_sums.

(* conservation: the grouped rows add up, field by field, to the ungrouped rows *)
Theorem C13_group_conservation : forall rows,
  Forall (fun r => length (w_nums r) = 10%nat) rows ->
  fold_left zip_add (map snd (group_rows rows)) (repeat 0 10)
  = fold_left zip_add (map w_nums rows) (repeat 0 10).
Proof. exact group_conservation. Qed.
Print Assumptions C13_group_conservation.

(* end to end: the grouped view of the kernel's listing *)
Theorem C13_maps_grouped : forall ex ms, forallb (wf_kernel ex) ms = true -> uniform_figs ms = true ->
  omap group_rows (memory_maps Alive ex (FContent (k_smaps ms))) = Val (spec_grouped (map spec_row ms)).
Proof. exact maps_grouped. Qed.
Print Assumptions C13_maps_grouped.

(* memory_percent(t) = 100 * field / total for each of the ten field names ... *)
Theorem C13_percent_valid : forall (i : nat) name vals total,
  nth_error full_names i = Some name -> length vals = 10%nat -> 0 < total ->
  memory_percent name (Val (firstn 7 vals)) (Val vals) total = Val (nth i vals 0 * 100, total).
Proof. exact percent_valid. Qed.
Print Assumptions C13_percent_valid.

(* ... and ValueError for every other name, whatever the process state *)
Theorem C13_percent_invalid : forall name mi mfi total,
  ~ In name full_names -> memory_percent name mi mfi total = Exc ValueError.
Proof. exact percent_invalid. Qed.
Print Assumptions C13_percent_invalid.

(* in particular names that are attributes / methods / dunders of the record but not fields
   (count, index, _fields, _asdict, __class__, ...), for a vanished or unreadable process too *)
Theorem C13_percent_attr_names_rejected : forall name mi mfi total,
  In name attr_like_names -> memory_percent name mi mfi total = Exc ValueError.
Proof. exact percent_attr_names_rejected. Qed.
Print Assumptions C13_percent_attr_names_rejected.

(* memory_percent over the kernel's files *)
Theorem C13_percent_kernel : forall pagesize r ms name total,
  wf_statm r = true -> forallb wf_kernel0 ms = true -> 0 < total ->
  memory_percent name (with_file Alive (FContent (k_statm r)) (memory_info pagesize))
                 (memory_full_info Alive pagesize false FENOENT (FContent (k_smaps ms)) (FContent (k_statm r))) total
  = spec_percent name (spec_full pagesize r ms) total.
Proof. exact percent_kernel. Qed.
Print Assumptions C13_percent_kernel.

(* "total physical memory" over time: for every history of virtual_memory() calls, changes of
   the kernel's MemTotal and memory_percent() calls in one interpreter, each memory_percent
   divides by the total reported by the LAST virtual_memory() call (its own, when there was
   none before) -- the cache _TOTAL_PHYMEM is refreshed by every call *)
Theorem C13_percent_history_cache : forall full, length full = 10%nat ->
  forall ops cache kernel, hist_ok ops = true -> 0 < kernel ->
  (forall c, cache = Some c -> 0 < c) ->
  run_hist (Val (firstn 7 full)) (Val full) cache kernel ops = spec_hist full cache kernel ops.
Proof. exact hist_spec. Qed.
Print Assumptions C13_percent_history_cache.

Theorem C13_percent_history : forall pagesize r ms kernel0 ops,
  wf_statm r = true -> forallb wf_kernel0 ms = true -> hist_ok ops = true -> 0 < kernel0 ->
  run_hist (with_file Alive (FContent (k_statm r)) (memory_info pagesize))
           (memory_full_info Alive pagesize false FENOENT (FContent (k_smaps ms)) (FContent (k_statm r)))
           None kernel0 ops
  = spec_hist (spec_full pagesize r ms) None kernel0 ops.
Proof. exact percent_history. Qed.
Print Assumptions C13_percent_history.

(* the views add up, for every number of mappings (no bound on the size of the listing): with
   C13_full_info_smaps (any source: listing, roll-up fallback) and C13_maps_ungrouped, uss / pss /
   swap of memory_full_info() are the column sums of the rows of memory_maps(grouped=False) --
   private_clean + private_dirty (+ Private_Hugetlb, which the rows do not carry), pss, swap *)
Theorem C13_full_info_vs_rows : forall ms,
  spec_sums ms =
  (rows_col 5 (map spec_row ms) + rows_col 6 (map spec_row ms) + sum_over (fun m => kb m FPrivateHugetlb) ms * 1024,
   rows_col 2 (map spec_row ms), rows_col 9 (map spec_row ms)).
Proof. exact full_info_vs_rows. Qed.
Print Assumptions C13_full_info_vs_rows.

(* the record layouts of the code as it is now (dumped into coq/Gen/C13_Tables.v on every run)
   are the documented ones, and the model and the specification use them: pmem, pfullmem =
   pmem + (uss, pss, swap), pmmap_grouped = path + ten figures, pmmap_ext = addr, perms + that *)
Theorem C13_layouts_agree :
  gen_pmem_fields = doc_pmem /\ gen_pfullmem_fields = doc_pfullmem
  /\ gen_pmmap_grouped_fields = doc_grouped /\ gen_pmmap_ext_fields = doc_ext
  /\ pmem_fields = doc_pmem /\ pfullmem_fields = doc_pfullmem /\ full_names = doc_pfullmem
  /\ map_keys = map (fun f => fig_name f ++ [58]) row_figs.
Proof. exact layouts_agree. Qed.
Print Assumptions C13_layouts_agree.

(* Several handles of one process over time (wave 8).  History = any sequence of: a oneshot() block
   of a handle is entered / left (nested entries are no-ops), copy.copy(handle) (new front object
   without the block's dict, SAME platform object), copy.deepcopy(handle) (TypeError, nothing
   created), a fresh Process(pid), a change of the kernel's records, an accessor call on a handle
   (memory_info memoized by the front object, the smaps content memoized by the platform object).
   For every history from one fresh handle, for whatever kernel reader / accessor functions: a call on
   ANY handle made while no block is open on any handle returns the accessor computed from the
   kernel state at call time -- no copy, however and wherever taken, keeps anything of a dead block. *)
Theorem C13_handles_outside_blocks : forall (K F V : Type) (read_file : K -> F) (info : K -> V)
    (ans : nat -> K -> F -> V) (uses : nat -> K -> bool) (ops : list (cop K)) (k0 : K) (h : nat) (q : hquery),
  let s := hexec K F V read_file info ans uses (hinit K F V k0) ops in
  (forall g, dp V (hdl K F V s g) = 0%nat) ->
  fst (hcall K F V read_file info ans uses s h q)
  = match q with QInfo => info (ker K F V s) | QAcc a => ans a (ker K F V s) (read_file (ker K F V s)) end.
Proof. exact handles_outside_blocks. Qed.
Print Assumptions C13_handles_outside_blocks.

(* the same along a whole history: each answer given while no block is open (hspec = Some) is the
   accessor over the kernel state of that moment *)
Theorem C13_handles_history : forall (K F V : Type) (read_file : K -> F) (info : K -> V)
    (ans : nat -> K -> F -> V) (uses : nat -> K -> bool) (ops : list (cop K)) (k0 : K),
  Forall2 (fun v o => match o with Some w => v = w | None => True end)
          (hrun K F V read_file info ans uses (hinit K F V k0) ops)
          (hspec K F V read_file info ans uses (hinit K F V k0) ops).
Proof. intros. apply handles_history. apply hinv_init. Qed.
Print Assumptions C13_handles_history.

(* instance: memory_info / memory_full_info (listing as the source) / memory_maps(grouped=False) /
   memory_maps(grouped=True) over kernel-formatted statm and smaps: outside every block each handle
   reports the demanded figures of the CURRENT mapping list and page counts *)
Theorem C13_handles_memory : forall pagesize ops k0 h q,
  let s := hexec kmem bytes mans m_read (m_info pagesize) (m_ans pagesize) m_uses (hinit kmem bytes mans k0) ops in
  (forall g, dp mans (hdl kmem bytes mans s g) = 0%nat) ->
  wf_statm (km_statm (ker kmem bytes mans s)) && forallb (wf_kernel (km_probe (ker kmem bytes mans s))) (km_ms (ker kmem bytes mans s))
    && uniform_figs (km_ms (ker kmem bytes mans s))
    && (negb (km_has_rollup (ker kmem bytes mans s)) || match km_rollup (ker kmem bytes mans s) with FENOENT | FESRCH => true | _ => false end) = true ->
  fst (hcall kmem bytes mans m_read (m_info pagesize) (m_ans pagesize) m_uses s h q)
  = match q with
    | QInfo => AInfo (Val (spec_meminfo pagesize (km_statm (ker kmem bytes mans s))))
    | QAcc O => AInfo (Val (spec_full pagesize (km_statm (ker kmem bytes mans s)) (km_ms (ker kmem bytes mans s))))
    | QAcc (S O) => ARows (Val (map spec_row (km_ms (ker kmem bytes mans s))))
    | QAcc _ => AGrouped (Val (spec_grouped (map spec_row (km_ms (ker kmem bytes mans s)))))
    end.
Proof. exact handles_memory. Qed.
Print Assumptions C13_handles_memory.
