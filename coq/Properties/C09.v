(* C09 -- disk/network counters: exact per-device values, totals never double count.
   Statements only; proofs live in C09/Proofs*.v.  Model: C09/Model.v (transcription of
   psutil/_pslinux.py net_io_counters / disk_io_counters / is_storage_device, the
   psutil/__init__.py front ends, psutil/_psposix.py disk_usage), specification: C09/Spec.v
   (kernel printers k_netdev / k_diskstats / k_sys_stat and the documented answers). *)
From PV Require Import C09.Spec C09.Proofs.

(* net_io_counters(pernic=True): for every list of interfaces with distinct printable names
   (':' allowed) and every 16 digit strings per interface, in the modern and in the old column
   format: every listed interface, in kernel order, with the eight documented fields taken from
   kernel columns 9,1,10,2,3,11,4,12; {} when nothing is listed *)
Theorem C09_net_pernic : forall sp l,
  wf_nics l = true ->
  net_io_counters true (k_netdev sp l)
  = Val (RDict (map (fun i => (n_name i, nt_nic (spec_nic i))) l)).
Proof. exact net_pernic. Qed.
Print Assumptions C09_net_pernic.

(* net_io_counters(pernic=False): the field-wise sum over all interfaces, None when nothing is listed *)
Theorem C09_net_total : forall sp l,
  wf_nics l = true ->
  net_io_counters false (k_netdev sp l)
  = Val (match l with [] => RNone | _ => RTuple (nt_nic (nic_sum (map spec_nic l))) end).
Proof. exact net_total. Qed.
Print Assumptions C09_net_total.

(* disk_io_counters(perdisk=True): every listed device (disks and partitions, whatever /sys/block
   holds), nine documented fields, sectors x 512, for the 14-, 18-, 20- (any >= 18-) and 7-field
   layouts in any mix; {} when nothing is listed.  The 15-field layout is excluded: see
   C09_disk_l24_refuted *)
Theorem C09_disk_perdisk : forall sb l,
  wf_disks l = true -> no_l24 l = true ->
  disk_io_counters true sb (ProcDiskstats (k_diskstats l))
  = Val (RDict (map (fun d => (d_name d, nt_disk (spec_disk d))) l)).
Proof. exact disk_perdisk. Qed.
Print Assumptions C09_disk_perdisk.

(* disk_io_counters(perdisk=False): the field-wise sum over exactly the whole disks (the devices
   with a /sys/block entry, '/' written '!'): partitions are never counted; None when no whole
   disk is listed *)
Theorem C09_disk_total : forall sb l,
  wf_disks l = true -> no_l24 l = true -> sysblock_agrees sb l = true ->
  disk_io_counters false sb (ProcDiskstats (k_diskstats l))
  = Val (match filter d_whole l with
         | [] => RNone
         | ws => RTuple (nt_disk (disk_sum (map spec_disk ws)))
         end).
Proof. exact disk_total. Qed.
Print Assumptions C09_disk_total.

(* the /sys/block listing derived from the device list itself satisfies the hypothesis above *)
Theorem C09_sysblock_of_agrees : forall l,
  NoDup (map (fun d => sysfs_name (d_name d)) l) -> sysblock_agrees (sysblock_of l) l = true.
Proof. exact sysblock_of_agrees. Qed.
Print Assumptions C09_sysblock_of_agrees.

(* known finding: the kernel documentation's own 2.4 example line is read one column off
   (#blocks as read_count, ...) *)
Theorem C09_disk_l24_refuted :
  exists sb l,
    wf_disks l = true /\ sysblock_agrees sb l = true /\
    k_diskstats l =
      bs "   3     0   39082680 hda 446216 784926 9550688 4382310 424847 312726 5922052 19310380 0 3376340 23705160"
      ++ [10] /\
    spec_disks true l
    = RDict [(bs "hda", nt_disk (Build_diskstat 446216 424847 (9550688 * 512) (5922052 * 512)
                                                4382310 19310380 784926 312726 3376340))] /\
    disk_io_counters true sb (ProcDiskstats (k_diskstats l))
    = Val (RDict [(bs "hda", nt_disk (Build_diskstat 39082680 4382310 (784926 * 512) (312726 * 512)
                                                     9550688 5922052 446216 424847 0))]).
Proof. exact disk_l24_refuted. Qed.
Print Assumptions C09_disk_l24_refuted.

(* ... and what the code as written answers on EVERY layout, 15-field lines included
   (model_view = spec_disk except on a 2.4 line, where it is the shifted reading): names,
   filtering and summation are right there too *)
Theorem C09_disk_all_layouts : forall sb l perdisk,
  wf_disks l = true -> perdisk = true \/ sysblock_agrees sb l = true ->
  disk_io_counters perdisk sb (ProcDiskstats (k_diskstats l))
  = Val (if perdisk then RDict (map (fun d => (d_name d, nt_disk (model_view d))) l)
         else match filter d_whole l with
              | [] => RNone
              | ws => RTuple (nt_disk (disk_sum (map model_view ws)))
              end).
Proof. exact disk_all_layouts. Qed.
Print Assumptions C09_disk_all_layouts.

(* no /proc/diskstats: the /sys/block/<disk>[/<partition>]/stat walk gives the same answers *)
Theorem C09_sysfs_fallback : forall sb l perdisk,
  wf_syss l = true -> perdisk = true \/ sys_agrees sb l = true ->
  disk_io_counters perdisk sb (SysBlock (map (fun e => (y_name e, k_sys_stat e)) l))
  = Val (spec_sys perdisk l).
Proof. exact sys_exact. Qed.
Print Assumptions C09_sysfs_fallback.

Theorem C09_no_source : forall sb perdisk, disk_io_counters perdisk sb NoSource = Exc NotImplementedError.
Proof. exact no_source. Qed.
Print Assumptions C09_no_source.

(* disk_usage: used = total - free-for-root, free = available to unprivileged users,
   percent = used / (used + free) * 100 (exact rational; 0 when used + free = 0), every statvfs tuple *)
Theorem C09_disk_usage_spec : forall st, disk_usage st = spec_usage st.
Proof. exact disk_usage_spec. Qed.
Print Assumptions C09_disk_usage_spec.

(* the same, written out for every statvfs tuple with f_bsize and f_frsize as independent fields:
   block counts are in units of f_frsize; f_bsize (any value: equal, larger, smaller, 0) never
   enters total / used / free / percent *)
Theorem C09_disk_usage_unit : forall bsize frsize blocks bfree bavail,
  disk_usage {| f_bsize := bsize; f_frsize := frsize; f_blocks := blocks; f_bfree := bfree; f_bavail := bavail |}
  = {| u_total := blocks * frsize;
       u_used := blocks * frsize - bfree * frsize;
       u_free := bavail * frsize;
       u_percent := if (blocks * frsize - bfree * frsize) + bavail * frsize =? 0 then None
                    else Some ((blocks * frsize - bfree * frsize) * 100,
                               (blocks * frsize - bfree * frsize) + bavail * frsize) |}.
Proof. exact disk_usage_unit. Qed.
Print Assumptions C09_disk_usage_unit.

Theorem C09_disk_usage_bsize_irrelevant : forall st bsize,
  disk_usage {| f_bsize := bsize; f_frsize := f_frsize st; f_blocks := f_blocks st;
                f_bfree := f_bfree st; f_bavail := f_bavail st |} = disk_usage st.
Proof. exact disk_usage_bsize_irrelevant. Qed.
Print Assumptions C09_disk_usage_bsize_irrelevant.

(* kernel-shaped tuples (0 <= bavail <= bfree <= blocks, 0 <= frsize): nothing negative,
   used + free <= total, 0 <= percent <= 100 *)
Theorem C09_disk_usage_bounds : forall st,
  wf_statvfs st ->
  let u := disk_usage st in
  0 <= u_used u /\ 0 <= u_free u /\ u_used u + u_free u <= u_total u /\
  match u_percent u with
  | None => u_used u = 0 /\ u_free u = 0
  | Some (n, d) => 0 < d /\ 0 <= n <= 100 * d
  end.
Proof. exact disk_usage_bounds. Qed.
Print Assumptions C09_disk_usage_bounds.
