(* C09 -- disk/network counters: exact per-device values, totals never double count.
   Statements only; proofs live in C09/Proofs*.v.  Model: C09/Model.v (transcription of
   psutil/_pslinux.py net_io_counters / disk_io_counters / is_storage_device, the
   psutil/__init__.py front ends, psutil/_psposix.py disk_usage; text-mode reading through
   C09/Text.v: UTF-8/surrogateescape decoding, universal newlines, str.split/strip blanks),
   specification: C09/Spec.v (kernel printers k_netdev / k_diskstats / k_sys_stat and the documented
   answers).  A str is the list of its code points; [dec n] is the str Python shows for the bytes n. *)
From PV Require Import C09.Spec C09.Proofs.

(* the named tuples the front ends build -- dumped from the code into coq/Gen/C09_Tables.v on every
   run -- have the documented fields in the documented order (Linux sdiskio with read_merged_count,
   write_merged_count, busy_time after the six portable fields), and a sector is 512 bytes *)
Theorem C09_fields_documented :
  gen_snetio_fields = map fst (nt_nic nic_zero) /\
  gen_snetio_fields = [bs "bytes_sent"; bs "bytes_recv"; bs "packets_sent"; bs "packets_recv";
                       bs "errin"; bs "errout"; bs "dropin"; bs "dropout"] /\
  gen_sdiskio_fields = map fst (nt_disk disk_zero) /\
  gen_sdiskio_fields = [bs "read_count"; bs "write_count"; bs "read_bytes"; bs "write_bytes";
                        bs "read_time"; bs "write_time";
                        bs "read_merged_count"; bs "write_merged_count"; bs "busy_time"] /\
  gen_sdiskusage_fields = [bs "total"; bs "used"; bs "free"; bs "percent"] /\
  gen_disk_sector_size = 512.
Proof. exact fields_documented. Qed.
Print Assumptions C09_fields_documented.

(* net_io_counters(pernic=True), nowrap=False path end to end (code as of fix e02f4b0: first argument
   legacy = false): for every list of interfaces whose names are ANY bytes (':' '/' digits,
   non-ASCII, undecodable bytes, control characters, str blanks anywhere) as long as the name does
   not begin or end with a space and holds no line break -- which includes every name the kernel
   accepts, C09_net_kernel_names --, pairwise distinct, and every 16 digit strings per interface,
   in the modern and in the old column format: every listed interface, in kernel order, keyed by
   the str of its name, with the eight documented fields taken from kernel columns
   9,1,10,2,3,11,4,12; {} when nothing is listed *)
Theorem C09_net_pernic : forall sp l,
  wf_nics l = true ->
  net_io_counters false true (k_netdev sp l)
  = XV (Val (RDict (map (fun i => (dec (n_name i), nt_nic (spec_nic i))) l))).
Proof. exact net_pernic. Qed.
Print Assumptions C09_net_pernic.

(* net_io_counters(pernic=False): the field-wise sum over all interfaces, None when nothing is listed *)
Theorem C09_net_total : forall sp l,
  wf_nics l = true ->
  net_io_counters false false (k_netdev sp l)
  = XV (Val (match l with [] => RNone | _ => RTuple (nt_nic (nic_sum (map spec_nic l))) end)).
Proof. exact net_total. Qed.
Print Assumptions C09_net_total.

(* no class of kernel names is excluded: whatever dev_valid_name() of net/core/dev.c accepts
   (1..15 bytes, not "." / "..", no '/', ':' or kernel isspace) satisfies the name condition *)
Theorem C09_net_kernel_names : forall n, dev_valid_name n = true -> net_name_ok n = true.
Proof. exact dev_valid_net_ok. Qed.
Print Assumptions C09_net_kernel_names.

(* fixed finding, legacy variant only (legacy = true: name = line[:colon].strip() before e02f4b0):
   the kernel-valid name "eth0\x1f" -- inside the domain of the theorems above -- was reported as "eth0" *)
Theorem C09_net_legacy_strip_refuted :
  exists i,
    dev_valid_name (n_name i) = true /\ wf_nics [i] = true /\
    spec_net true [i] = RDict [(bs "eth0" ++ [31], nt_nic (spec_nic i))] /\
    net_io_counters true true (k_netdev true [i]) = XV (Val (RDict [(bs "eth0", nt_nic (spec_nic i))])).
Proof. exact net_legacy_strip_refuted. Qed.
Print Assumptions C09_net_legacy_strip_refuted.

(* disk_io_counters(perdisk=True): every listed device (disks and partitions, whatever /sys/block
   holds; names any bytes whose str has no blank), nine documented fields, sectors x 512, for the
   14-, 18-, 20- (any >= 18-) and 7-field layouts in any mix; {} when nothing is listed.  The
   15-field layout is excluded: see C09_disk_l24_refuted *)
Theorem C09_disk_perdisk : forall sb l,
  wf_disks l = true -> no_l24 l = true ->
  disk_io_counters true sb (ProcDiskstats (k_diskstats l))
  = Val (RDict (map (fun d => (dec (d_name d), nt_disk (spec_disk d))) l)).
Proof. exact disk_perdisk. Qed.
Print Assumptions C09_disk_perdisk.

(* disk_io_counters(perdisk=False), for every table and EVERY content of /sys/block: the field-wise
   sum over exactly the devices whose name -- every '/' written '!' -- is an entry of /sys/block
   (physical or virtual: loopN, ramN, dm-N, mdN are entries like sda); None when there is none *)
Theorem C09_disk_total : forall sb l,
  wf_disks l = true -> no_l24 l = true ->
  disk_io_counters false sb (ProcDiskstats (k_diskstats l))
  = Val (match filter (listed sb) l with
         | [] => RNone
         | ws => RTuple (nt_disk (disk_sum (map spec_disk ws)))
         end).
Proof. exact disk_total. Qed.
Print Assumptions C09_disk_total.

(* ... which is the sum over the kernel's whole disks when /sys/block lists exactly those *)
Theorem C09_disk_total_whole : forall sb l,
  wf_disks l = true -> no_l24 l = true -> sysblock_agrees sb l = true ->
  disk_io_counters false sb (ProcDiskstats (k_diskstats l))
  = Val (match filter d_whole l with
         | [] => RNone
         | ws => RTuple (nt_disk (disk_sum (map spec_disk ws)))
         end).
Proof. exact disk_total_whole. Qed.
Print Assumptions C09_disk_total_whole.

Theorem C09_sysblock_of_agrees : forall l,
  NoDup (map (fun d => sysfs_name (dec (d_name d))) l) -> sysblock_agrees (sysblock_of l) l = true.
Proof. exact sysblock_of_agrees. Qed.
Print Assumptions C09_sysblock_of_agrees.

(* no double counting.  Kernel-shaped table: names distinct; every device that is not a /sys/block
   entry is a partition whose counter is its own I/O and whose parent is a /sys/block entry of the
   table; a /sys/block entry's counter is its own I/O plus that of its partitions.  Then every
   summable field f of the system-wide answer equals the sum, over ALL devices of the table, of
   what was submitted to each device node: nothing counted twice, nothing left out *)
Theorem C09_no_double_count : forall sb own parent f l,
  wf_disks l = true -> no_l24 l = true -> filter (listed sb) l <> [] ->
  linear f -> kernel_shaped sb own parent (fun d => f (spec_disk d)) l ->
  exists total,
    disk_io_counters false sb (ProcDiskstats (k_diskstats l)) = Val (RTuple (nt_disk total))
    /\ f total = zsum (map own l).
Proof. exact disk_total_no_double_count. Qed.
Print Assumptions C09_no_double_count.

(* the combinatorial core, for any counter assignment *)
Theorem C09_no_double_count_sum : forall sb own parent fld l,
  kernel_shaped sb own parent fld l ->
  zsum (map fld (filter (listed sb) l)) = zsum (map own l).
Proof. exact no_double_count_sum. Qed.
Print Assumptions C09_no_double_count_sum.

(* whatever the size of the file (no bound on the number of lines, hence none on its length in
   bytes: beyond the 32 KiB read buffer, 64 KiB, ...): /proc/diskstats has one line per device and
   the per-disk answer one entry per line, in file order, keyed by that line's device (all layouts);
   together with C09_disk_total the system-wide form is the sum over ALL listed whole disks *)
Theorem C09_disk_one_entry_per_line : forall sb l,
  wf_disks l = true ->
  length (lines_keep (text_of (k_diskstats l))) = length l /\
  exists d, disk_io_counters true sb (ProcDiskstats (k_diskstats l)) = Val (RDict d)
            /\ map fst d = map (fun x => dec (d_name x)) l /\ length d = length l.
Proof. exact disk_one_entry_per_line. Qed.
Print Assumptions C09_disk_one_entry_per_line.

Theorem C09_net_one_entry_per_line : forall sp l,
  wf_nics l = true ->
  length (lines_keep (text_of (k_netdev sp l))) = (2 + length l)%nat /\
  exists d, net_io_counters false true (k_netdev sp l) = XV (Val (RDict d))
            /\ map fst d = map (fun i => dec (n_name i)) l /\ length d = length l.
Proof. exact net_one_entry_per_line. Qed.
Print Assumptions C09_net_one_entry_per_line.

(* unit conversion.  The sector counts of /proc/diskstats and /sys/block/*/stat are in 512-byte units
   whatever the device's own sector size (queue/hw_sector_size, logical_block_size ... of 4Kn drives).
   The model's only view of sysfs is the oracle sb = "is <name> an entry of /sys/block"; per device
   the answer does not depend on it at all -- for every two sysfs contents: *)
Theorem C09_disk_perdisk_ignores_sysfs : forall sb1 sb2 l,
  wf_disks l = true ->
  disk_io_counters true sb1 (ProcDiskstats (k_diskstats l))
  = disk_io_counters true sb2 (ProcDiskstats (k_diskstats l)).
Proof. exact disk_perdisk_ignores_sysfs. Qed.
Print Assumptions C09_disk_perdisk_ignores_sysfs.

(* ... the per-device result is a function of the device's own diskstats line alone, and its byte
   counts are 512 x the sector counts of that line (disks and partitions, every layout but 2.4) *)
Theorem C09_disk_entry_from_line_alone : forall sb l d,
  wf_disks l = true -> In d l ->
  exists r, disk_io_counters true sb (ProcDiskstats (k_diskstats l)) = Val (RDict r)
            /\ In (dec (d_name d), nt_disk (model_view d)) r
            /\ match d_lay d with
               | LFull s _ => read_bytes (model_view d) = 512 * dec_val (rd_sectors s)
                              /\ write_bytes (model_view d) = 512 * dec_val (wr_sectors s)
               | LPart _ rsect _ wsect => read_bytes (model_view d) = 512 * dec_val rsect
                                          /\ write_bytes (model_view d) = 512 * dec_val wsect
               | L24 _ _ => True
               end.
Proof. exact disk_entry_from_line_alone. Qed.
Print Assumptions C09_disk_entry_from_line_alone.

(* the system-wide form depends on sysfs only through which names are /sys/block entries *)
Theorem C09_disk_total_listing_only : forall sb1 sb2 l,
  wf_disks l = true -> (forall d, In d l -> listed sb1 d = listed sb2 d) ->
  disk_io_counters false sb1 (ProcDiskstats (k_diskstats l))
  = disk_io_counters false sb2 (ProcDiskstats (k_diskstats l)).
Proof. exact disk_total_listing_only. Qed.
Print Assumptions C09_disk_total_listing_only.

(* the sysfs-only path: per device a function of that device's stat file alone *)
Theorem C09_sys_perdisk_ignores_listing : forall sb1 sb2 l,
  wf_syss l = true ->
  disk_io_counters true sb1 (SysBlock (map (fun e => (y_name e, k_sys_stat e)) l))
  = disk_io_counters true sb2 (SysBlock (map (fun e => (y_name e, k_sys_stat e)) l)).
Proof. exact sys_perdisk_ignores_listing. Qed.
Print Assumptions C09_sys_perdisk_ignores_listing.

(* known finding: the kernel documentation's own 2.4 example line is read one column off
   (#blocks as read_count, ...) *)
Theorem C09_disk_l24_refuted :
  exists sb l,
    wf_disks l = true /\ sysblock_agrees sb l = true /\
    k_diskstats l =
      bs "   3     0   39082680 hda 446216 784926 9550688 4382310 424847 312726 5922052 19310380 0 3376340 23705160"
      ++ [10] /\
    spec_disks sb true l
    = RDict [(bs "hda", nt_disk (Build_diskstat 446216 424847 (9550688 * 512) (5922052 * 512)
                                                4382310 19310380 784926 312726 3376340))] /\
    disk_io_counters true sb (ProcDiskstats (k_diskstats l))
    = Val (RDict [(bs "hda", nt_disk (Build_diskstat 39082680 4382310 (784926 * 512) (312726 * 512)
                                                     9550688 5922052 446216 424847 0))]).
Proof. exact disk_l24_refuted. Qed.
Print Assumptions C09_disk_l24_refuted.

(* ... and what the code as written answers on EVERY layout, 15-field lines included
   (model_view = spec_disk except on a 2.4 line, where it is the shifted reading): names,
   filtering and summation are right there too *)
Theorem C09_disk_all_layouts : forall sb l perdisk,
  wf_disks l = true ->
  disk_io_counters perdisk sb (ProcDiskstats (k_diskstats l))
  = Val (if perdisk then RDict (map (fun d => (dec (d_name d), nt_disk (model_view d))) l)
         else match filter (listed sb) l with
              | [] => RNone
              | ws => RTuple (nt_disk (disk_sum (map model_view ws)))
              end).
Proof. exact disk_all_layouts. Qed.
Print Assumptions C09_disk_all_layouts.

(* no /proc/diskstats: the /sys/block/<disk>[/<partition>]/stat walk gives the same answers
   (directory names: any bytes without '/') *)
Theorem C09_sysfs_fallback : forall sb l perdisk,
  wf_syss l = true -> perdisk = true \/ sys_agrees sb l = true ->
  disk_io_counters perdisk sb (SysBlock (map (fun e => (y_name e, k_sys_stat e)) l))
  = Val (spec_sys perdisk l).
Proof. exact sys_exact. Qed.
Print Assumptions C09_sysfs_fallback.

Theorem C09_no_source : forall sb perdisk, disk_io_counters perdisk sb NoSource = Exc NotImplementedError.
Proof. exact no_source. Qed.
Print Assumptions C09_no_source.

(* successive calls with the DEFAULT arguments (nowrap=True; _WrapNumbers modelled: the cache entry is
   rebound to each call's raw dict -- also an empty one --, reminders dropped with their key), cache
   cleared first.  Hypothesis of the property for a history: between two CONSECUTIVE polls no
   reported counter decreases while its device is listed in both (genuine wraps are C10's business).
   Then EVERY poll reports exactly that poll's kernel counters: interfaces may vanish, polls may
   list nothing, devices may come back with lower or higher counters, pernic may alternate *)
Theorem C09_net_polls_exact : forall sp hist,
  forallb (fun pl => wf_nics (snd pl)) hist = true ->
  steady_consec [] (net_hist_rows hist) = true ->
  net_polls false wc_init (map (fun pl => (fst pl, k_netdev sp (snd pl))) hist)
  = map (fun pl => XV (Val (spec_net (fst pl) (snd pl)))) hist.
Proof. exact net_polls_exact. Qed.
Print Assumptions C09_net_polls_exact.

(* the same for disk_io_counters, perdisk alternating (one shared cache: what is compared is the raw
   dict of the previous call, i.e. the /sys/block entries only after a perdisk=False call) and
   /sys/block changing between polls *)
Theorem C09_disk_polls_exact : forall hist,
  forallb (fun p => wf_disks (snd p) && no_l24 (snd p)) hist = true ->
  steady_consec [] (disk_hist_rows hist) = true ->
  disk_polls wc_init (map (fun p => (fst (fst p), snd (fst p), ProcDiskstats (k_diskstats (snd p)))) hist)
  = map (fun p => Val (spec_disks (snd (fst p)) (fst (fst p)) (snd p))) hist.
Proof. exact disk_polls_exact. Qed.
Print Assumptions C09_disk_polls_exact.

(* the wrap bookkeeping (_WrapNumbers.run + _remove_dead_reminders, transcribed in C09/Model.v).
   Invariant of the cache: every recorded offset belongs to a name of the cached snapshot (true after
   cache_clear()).  One call -- WHATEVER the sizes of the cached and the new dict, however many names
   came or went -- keeps the invariant, caches the new dict, and leaves no offset for any name that
   is absent from the new dict *)
Theorem C09_wrap_offsets_dropped : forall st input out st',
  (forall e, In e (wc_rem st) ->
             has_key (fst (fst e)) (match wc_prev st with None => [] | Some o => o end) = true) ->
  wrap_run st input = Val (out, st') ->
  (forall e, In e (wc_rem st') ->
             has_key (fst (fst e)) (match wc_prev st' with None => [] | Some o => o end) = true)
  /\ wc_prev st' = Some input
  /\ forall k i, has_key k input = false -> rem_get (k, i) (wc_rem st') = 0.
Proof. exact wrap_run_drops. Qed.
Print Assumptions C09_wrap_offsets_dropped.

(* EVERY history of polls through the default API, restarts included (no hypothesis on the counters):
   each poll reports the kernel's counters plus exactly the ghost offsets of Spec.spec_wrap_hist -- the
   values from which a counter restarted while its device stayed listed in consecutive raw dicts; a
   device that was absent from a poll comes back raw and stays raw on every later poll (until it
   restarts again while listed); totals are the sums of those per-device values *)
Theorem C09_net_polls_wrap_exact : forall sp hist,
  forallb (fun pl => wf_nics (snd pl)) hist = true ->
  net_polls false wc_init (map (fun pl => (fst pl, k_netdev sp (snd pl))) hist)
  = map (fun pr => XV (Val (answer_of_rows nic_names (fst (fst pr)) (snd pr))))
        (combine hist (spec_wrap_hist [] [] (net_hist_rows hist))).
Proof. exact net_polls_wrap_exact. Qed.
Print Assumptions C09_net_polls_wrap_exact.

Theorem C09_disk_polls_wrap_exact : forall hist,
  forallb (fun p => wf_disks (snd p) && no_l24 (snd p)) hist = true ->
  disk_polls wc_init (map (fun p => (fst (fst p), snd (fst p), ProcDiskstats (k_diskstats (snd p)))) hist)
  = map (fun pr => Val (answer_of_rows disk_names (fst (fst (fst pr))) (snd pr)))
        (combine hist (spec_wrap_hist [] [] (disk_hist_rows hist))).
Proof. exact disk_polls_wrap_exact. Qed.
Print Assumptions C09_disk_polls_wrap_exact.

(* disk_usage: used = total - free-for-root, free = available to unprivileged users,
   percent = used / (used + free) * 100 (exact rational; 0 when used + free = 0), every statvfs tuple *)
Theorem C09_disk_usage_spec : forall st, disk_usage st = spec_usage st.
Proof. exact disk_usage_spec. Qed.
Print Assumptions C09_disk_usage_spec.

(* the same, written out for every statvfs tuple with f_bsize and f_frsize as independent fields:
   block counts are in units of f_frsize; f_bsize (any value: equal, larger, smaller, 0) never
   enters total / used / free / percent *)
Theorem C09_disk_usage_unit : forall bsize frsize blocks bfree bavail,
  disk_usage {| f_bsize := bsize; f_frsize := frsize; f_blocks := blocks; f_bfree := bfree; f_bavail := bavail |}
  = {| u_total := blocks * frsize;
       u_used := blocks * frsize - bfree * frsize;
       u_free := bavail * frsize;
       u_percent := if (blocks * frsize - bfree * frsize) + bavail * frsize =? 0 then None
                    else Some ((blocks * frsize - bfree * frsize) * 100,
                               (blocks * frsize - bfree * frsize) + bavail * frsize) |}.
Proof. exact disk_usage_unit. Qed.
Print Assumptions C09_disk_usage_unit.

Theorem C09_disk_usage_bsize_irrelevant : forall st bsize,
  disk_usage {| f_bsize := bsize; f_frsize := f_frsize st; f_blocks := f_blocks st;
                f_bfree := f_bfree st; f_bavail := f_bavail st |} = disk_usage st.
Proof. exact disk_usage_bsize_irrelevant. Qed.
Print Assumptions C09_disk_usage_bsize_irrelevant.

(* kernel-shaped tuples (0 <= bavail <= bfree <= blocks, 0 <= frsize): nothing negative,
   used + free <= total, 0 <= percent <= 100 *)
Theorem C09_disk_usage_bounds : forall st,
  wf_statvfs st ->
  let u := disk_usage st in
  0 <= u_used u /\ 0 <= u_free u /\ u_used u + u_free u <= u_total u /\
  match u_percent u with
  | None => u_used u = 0 /\ u_free u = 0
  | Some (n, d) => 0 < d /\ 0 <= n <= 100 * d
  end.
Proof. exact disk_usage_bounds. Qed.
Print Assumptions C09_disk_usage_bounds.
