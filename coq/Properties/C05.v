(* C05 -- children(), parent() and parents() describe the real process tree.
   Statements only; proofs live in C05/Lib.v, C05/Proofs.v, C05/ProofsSpec.v, C05/ProofsParent.v,
   C05/ProofsVanish.v, C05/ProofsClock.v, C05/ProofsBig.v, C05/ProofsSource.v (over the generated Gen/C05_Tables.v).
   Model: C05/Model.v (transcription of psutil/__init__.py children/parent/parents/
   ppid and _pslinux.ppid_map; [as_is] = the code as it is now, [before_fixes] = the
   code before the repairs 6afb079 / 3959fba / e202d3b / 671469c / e49a6c9, [before_nsp_fix] = the code
   before 671469c, [before_mono_fix] = the code before e49a6c9 only), specification: C05/Spec.v.
   Caller state: [live_b t o] = the caller's PID still holds the start ticks of its identity --
   no condition on its create_time() cache, on btime or on the BOOT_TIME cache (repair e49a6c9).
   t = the listed process table (pid, ppid, start ticks), any size, any parent links;
   gone = PIDs vanishing before the call has read their create_time() (children(): before
   ppid_map reads them / before Process(pid) / before child.create_time(); parent(): before
   Process(ppid) / before parent.create_time()); goneb = ancestors vanishing after parents()
   appended them; o = the caller object;
   fuel = number of loop iterations allowed (None = exhausted = no termination). *)
From PV Require Import C05.Spec C05.Lib C05.Proofs C05.ProofsSpec C05.ProofsParent C05.ProofsVanish C05.ProofsClock C05.ProofsBig C05.ProofsSource C05.PyGen C05.ProofsGen C05.ProofsGenParent Gen.C05_Tables.

(* children(): exactly the listed processes naming the caller as parent, never the
   caller itself, still there and not started before it, in listing order *)
Theorem C05_children_direct : forall t gone o,
  wf_table t = true -> live_b t o = true ->
  children_direct as_is t gone o = Val (spec_children t gone (o_pid o) (o_ident o)).
Proof. exact children_direct_live. Qed.
Print Assumptions C05_children_direct.

(* children(recursive=True): with fuel |t|+1 the loop ends, every process is returned
   at most once, never the caller, and the result is exactly the set reachable from the
   caller through parent links (least set; through processes that are still there and
   not older than the caller) *)
Theorem C05_children_rec_exact : forall t gone o,
  wf_table t = true -> live_b t o = true ->
  exists l, children_rec as_is (S (length t)) t gone o = Val (Some l) /\ NoDup l /\
            forall q, In q l <-> (desc t gone (o_pid o) (o_ident o) q /\ q <> o_pid o).
Proof. exact children_rec_live. Qed.
Print Assumptions C05_children_rec_exact.

(* termination on ANY parent-link graph (cycles, self-loops, unlisted parents), for any
   caller state, any vanished set, with or without the repairs: |t|+1 iterations suffice *)
Theorem C05_children_rec_terminates : forall fx t gone o,
  NoDup (pids_of t) -> children_rec fx (S (length t)) t gone o <> Val None.
Proof. exact children_rec_terminates. Qed.
Print Assumptions C05_children_rec_terminates.

(* the computable descendant set the harness uses as its oracle (parent links climbed for
   at most |t| steps) is exactly the inductive reachable set minus the caller *)
Theorem C05_spec_descendants_exact : forall t gone self s0 q, NoDup (pids_of t) ->
  (In q (spec_descendants t gone self s0) <-> (desc t gone self s0 q /\ q <> self)).
Proof. intros t gone self s0 q N. exact (spec_descendants_exact t gone self s0 N q). Qed.
Print Assumptions C05_spec_descendants_exact.

(* a recycled caller: NoSuchProcess from both forms of children() *)
Theorem C05_children_recycled : forall fx fuel t gone o, recycled_b t o = true ->
  children_direct fx t gone o = Exc NoSuchProcess /\ children_rec fx fuel t gone o = Exc NoSuchProcess.
Proof. exact children_recycled. Qed.
Print Assumptions C05_children_recycled.

(* fixed (6afb079): before the repair the caller was returned as its own child / descendant
   on a ppid self-loop / cycle; the old code returned exactly the reachable set, caller included *)
Theorem C05_children_direct_old_refuted :
  exists t o, wf_table t = true /\ alive_b t o = true /\
              exists l, children_direct before_fixes t [] o = Val l /\ In (o_pid o) l.
Proof. exact children_direct_old_refuted. Qed.
Print Assumptions C05_children_direct_old_refuted.

Theorem C05_children_rec_old_refuted :
  exists t o, wf_table t = true /\ alive_b t o = true /\
              exists l, children_rec before_fixes (S (length t)) t [] o = Val (Some l) /\ In (o_pid o) l.
Proof. exact children_rec_old_refuted. Qed.
Print Assumptions C05_children_rec_old_refuted.

(* parent(): the process named by ppid() unless unlisted or younger than the caller;
   none for the root (lowest listed PID) -- with a fresh lowest-PID cache *)
Theorem C05_parent_spec : forall t cache o,
  wf_table t = true -> live_b t o = true -> cache_fresh_b t cache = true ->
  parent as_is t [] cache o = Val (spec_parent t (o_pid o) (o_ident o)).
Proof. exact parent_static_live. Qed.
Print Assumptions C05_parent_spec.

Theorem C05_root_is_lowest : forall t r, root_of (pids_of t) = Some r ->
  In r (pids_of t) /\ forall p, In p (pids_of t) -> r <= p.
Proof. exact root_of_is_root. Qed.
Print Assumptions C05_root_is_lowest.

(* known finding: a stale _LOWEST_PID makes parent() return None for a process whose
   parent is listed and older (hence the hypothesis "cache fresh" above) *)
Theorem C05_parent_stale_cache_refuted :
  exists t cache o, wf_table t = true /\ alive_b t o = true /\
    spec_parent t (o_pid o) (o_ident o) = Some (1, 1) /\ parent as_is t [] cache o = Val None.
Proof. exact parent_stale_cache_refuted. Qed.
Print Assumptions C05_parent_stale_cache_refuted.

(* recycled caller: NoSuchProcess from parent() and parents(), whatever table and cache hold *)
Theorem C05_parent_recycled : forall t cache o, recycled_b t o = true ->
  parent as_is t [] cache o = Exc NoSuchProcess.
Proof. exact parent_recycled. Qed.
Print Assumptions C05_parent_recycled.

Theorem C05_parents_recycled : forall t cache o fuel, recycled_b t o = true ->
  parents as_is fuel t [] [] cache o = Exc NoSuchProcess.
Proof. exact parents_recycled. Qed.
Print Assumptions C05_parents_recycled.

(* fixed (3959fba): before the repair the recycled lowest PID got None / [] *)
Theorem C05_parent_recycled_old_refuted :
  exists t o, wf_table t = true /\ recycled_b t o = true /\
    parent before_fixes t [] None o = Val None /\ parents before_fixes 3 t [] [] None o = Val (Some []).
Proof. exact parent_recycled_old_refuted. Qed.
Print Assumptions C05_parent_recycled_old_refuted.

(* parents() terminates within |t|+1 loop tests on ANY table (cyclic links included),
   any cache, any caller, whatever vanishes meanwhile *)
Theorem C05_parents_terminates : forall fx t gone goneb cache o, fx_parents_seen fx = true ->
  parents fx (S (length t)) t gone goneb cache o <> Val None.
Proof. exact parents_terminates. Qed.
Print Assumptions C05_parents_terminates.

(* ... always returns a list for a live caller ... *)
Theorem C05_parents_total : forall t cache o,
  wf_table t = true -> live_b t o = true -> cache_fresh_b t cache = true ->
  exists l, parents as_is (S (length t)) t [] [] cache o = Val (Some l).
Proof. intros t cache o. exact (parents_total_live t [] [] cache o). Qed.
Print Assumptions C05_parents_total.

(* ... namely the chain of parent() up to the root, cut before the first process already
   met (the caller or an earlier member) when PID reuse made the links cyclic ... *)
Theorem C05_parents_cut : forall t cache o,
  wf_table t = true -> live_b t o = true -> cache_fresh_b t cache = true ->
  exists l, parents as_is (S (length t)) t [] [] cache o = Val (Some l) /\ chain_cut t [o_pid o] (o_pid o) l.
Proof. exact parents_cut_live. Qed.
Print Assumptions C05_parents_cut.

(* ... which is the chain of parent() up to the root whenever that chain ends ... *)
Theorem C05_parents_chain_complete : forall t cache o l fuel,
  wf_table t = true -> live_b t o = true -> cache_fresh_b t cache = true ->
  chain t (o_pid o) l -> (length l <= fuel)%nat ->
  parents as_is fuel t [] [] cache o = Val (Some l).
Proof. exact parents_chain_complete_live. Qed.
Print Assumptions C05_parents_chain_complete.

(* ... and the chain does end, and is what parents() returns, on every table in which no
   process is its own ancestor *)
Theorem C05_parents_acyclic_chain : forall t cache o,
  wf_table t = true -> live_b t o = true -> cache_fresh_b t cache = true ->
  (forall p k, up t (S k) p <> Some p) ->
  exists l, parents as_is (S (length t)) t [] [] cache o = Val (Some l) /\ chain t (o_pid o) l.
Proof. exact parents_acyclic_chain_live. Qed.
Print Assumptions C05_parents_acyclic_chain.

(* decidable sufficient condition for "no process is its own ancestor" *)
Theorem C05_strictly_older_acyclic : forall t, strictly_older_b t = true ->
  forall p k, up t (S k) p <> Some p.
Proof. exact strictly_older_acyclic. Qed.
Print Assumptions C05_strictly_older_acyclic.

(* fixed (e202d3b): before the repair parents() exhausted every fuel on a ppid self-loop *)
Theorem C05_parents_old_nonterminating_refuted :
  exists t o, wf_table t = true /\ alive_b t o = true /\
              forall fuel, parents before_fixes fuel t [] [] None o = Val None.
Proof. exact parents_old_nonterminating_refuted. Qed.
Print Assumptions C05_parents_old_nonterminating_refuted.

(* processes vanishing while parent() looks at them: a parent that vanishes before its
   create_time() was read is no parent *)
Theorem C05_parent_spec_vanish : forall t gone cache o,
  wf_table t = true -> live_b t o = true -> cache_fresh_b t cache = true ->
  parent as_is t gone cache o = Val (spec_parent_v t gone (o_pid o) (o_ident o)).
Proof. exact parent_live. Qed.
Print Assumptions C05_parent_spec_vanish.

(* processes vanishing while parents() walks up: whatever vanishes (before a process could be
   linked, or after an ancestor was appended), a live caller always gets a list from
   parents() -- never an exception, never a hang *)
Theorem C05_parents_total_vanish : forall t gone goneb cache o,
  wf_table t = true -> live_b t o = true -> cache_fresh_b t cache = true ->
  exists l, parents as_is (S (length t)) t gone goneb cache o = Val (Some l).
Proof. exact parents_total_live. Qed.
Print Assumptions C05_parents_total_vanish.

(* ... namely the chain of parent() under vanishing (a process that vanished before it could be
   linked is no parent; the chain ends WITH the first ancestor that vanished after it was
   linked), whenever that chain ends *)
Theorem C05_parents_chain_vanish : forall t gone goneb cache o l fuel,
  wf_table t = true -> live_b t o = true -> cache_fresh_b t cache = true ->
  memz (o_pid o) goneb = false ->
  chain_v t gone goneb (o_pid o) l -> (length l <= fuel)%nat ->
  parents as_is fuel t gone goneb cache o = Val (Some l).
Proof. exact parents_chain_v_live. Qed.
Print Assumptions C05_parents_chain_vanish.

(* with nothing vanishing that chain is the chain of parent() up to the root *)
Theorem C05_chain_vanish_static : forall t p l, chain_v t [] [] p l <-> chain t p l.
Proof. exact chain_v_static. Qed.
Print Assumptions C05_chain_vanish_static.

(* the harness's oracle for parents() (spec_parents_v) names that chain, and the model of
   the code returns it *)
Theorem C05_parents_oracle : forall t gone goneb cache o l,
  wf_table t = true -> live_b t o = true -> cache_fresh_b t cache = true ->
  memz (o_pid o) goneb = false ->
  spec_parents_v t gone goneb (length t) (o_pid o) = Some l ->
  parents as_is (S (length t)) t gone goneb cache o = Val (Some l) /\ chain_v t gone goneb (o_pid o) l.
Proof. exact parents_oracle_live. Qed.
Print Assumptions C05_parents_oracle.

(* fixed (671469c): before the repair an ancestor vanishing after parents() appended it made
   parents() of a LIVE caller raise NoSuchProcess (for the ancestor's PID) *)
Theorem C05_parents_vanish_old_refuted :
  exists t goneb o, wf_table t = true /\ alive_b t o = true /\
    parents before_nsp_fix (S (length t)) t [] goneb None o = Exc NoSuchProcess /\
    parents as_is (S (length t)) t [] goneb None o = Val (Some [5]).
Proof. exact parents_vanish_refuted. Qed.
Print Assumptions C05_parents_vanish_old_refuted.

(* ---------------------------------------------------------------- the clock
   create_time() = start ticks + boot offset (btime * CLK, through the module cache BOOT_TIME).
   [clock_obj pid ident k0 evs] = the caller after a history [evs] of clock steps (SetBtime),
   psutil.boot_time() calls and create_time() calls, started with the clock state k0. *)

(* the four answers are invariant under EVERY clock history (any steps of btime, any
   boot_time() calls, any earlier create_time() calls, any initial clock state): both sides of
   every age test are start times since boot *)
Theorem C05_btime_invariance :
  forall t gone goneb cache fuel pid ident k0 evs k0' evs',
    let o := clock_obj pid ident k0 evs in
    let o' := clock_obj pid ident k0' evs' in
    children_direct as_is t gone o = children_direct as_is t gone o' /\
    children_rec as_is fuel t gone o = children_rec as_is fuel t gone o' /\
    parent as_is t gone cache o = parent as_is t gone cache o' /\
    parents as_is fuel t gone goneb cache o = parents as_is fuel t gone goneb cache o'.
Proof. exact (btime_invariance as_is eq_refl eq_refl). Qed.
Print Assumptions C05_btime_invariance.

(* ... in fact under any content of the caller's create_time() cache (identity known: any
   start tick, 0 included) *)
Theorem C05_ctime_cache_irrelevant : forall t gone goneb cache fuel o c, o_known o = true ->
  children_direct as_is t gone (set_ctime o c) = children_direct as_is t gone o /\
  children_rec as_is fuel t gone (set_ctime o c) = children_rec as_is fuel t gone o /\
  parent as_is t gone cache (set_ctime o c) = parent as_is t gone cache o /\
  parents as_is fuel t gone goneb cache (set_ctime o c) = parents as_is fuel t gone goneb cache o.
Proof. exact (clock_invariance as_is eq_refl eq_refl). Qed.
Print Assumptions C05_ctime_cache_irrelevant.

(* fixed (e49a6c9); before the repair: create_time() cached, clock stepped by +100 s,
   psutil.boot_time() called: children() of the live caller 5 reported PID 12 that started
   before it, parent() was None *)
Theorem C05_clock_refuted :
  exists t k0 evs, let o := clock_obj 5 3000 k0 evs in
    wf_table t = true /\ live_b t o = true /\
    spec_children t [] 5 3000 = [9] /\ children_direct before_mono_fix t [] o = Val [9; 12] /\
    spec_parent_v t [] 5 3000 = Some (1, 100) /\ parent before_mono_fix t [] None o = Val None /\
    children_direct as_is t [] o = Val [9] /\ parent as_is t [] None o = Val (Some (1, 100)).
Proof. exact clock_refuted. Qed.
Print Assumptions C05_clock_refuted.

(* ---------------------------------------------------------------- start tick 0
   self._ident[1] is modelled as an option ([ident_opt]: Some ticks | None = could not be read
   when the object was created); the code tests "is not None", so tick 0 is a value. *)

(* a caller whose identity is start tick 0 (init, kthreadd, PID 1 / 2 of a container) obeys
   exactly the statements above, whatever its create_time() cache holds *)
Theorem C05_tick0_statements : forall t gone goneb cache o,
  wf_table t = true -> live_b t o = true -> cache_fresh_b t cache = true -> o_ident o = 0 ->
  children_direct as_is t gone o = Val (spec_children t gone (o_pid o) 0) /\
  (exists l, children_rec as_is (S (length t)) t gone o = Val (Some l) /\ NoDup l /\
             forall q, In q l <-> (desc t gone (o_pid o) 0 q /\ q <> o_pid o)) /\
  parent as_is t gone cache o = Val (spec_parent_v t gone (o_pid o) 0) /\
  (exists l, parents as_is (S (length t)) t gone goneb cache o = Val (Some l)) /\
  forall c, children_direct as_is t gone (set_ctime o c) = children_direct as_is t gone o /\
            parent as_is t gone cache (set_ctime o c) = parent as_is t gone cache o.
Proof. exact tick0_statements. Qed.
Print Assumptions C05_tick0_statements.

(* an UNKNOWN identity is something else: once the PID is readable, the object is taken for a
   stale one and every call raises NoSuchProcess *)
Theorem C05_unknown_identity_raises : forall t gone goneb cache fuel o e,
  o_known o = false -> lookup t (o_pid o) = Some e ->
  children_direct as_is t gone o = Exc NoSuchProcess /\
  children_rec as_is fuel t gone o = Exc NoSuchProcess /\
  parent as_is t gone cache o = Exc NoSuchProcess /\
  parents as_is fuel t gone goneb cache o = Exc NoSuchProcess.
Proof. exact unknown_identity_raises. Qed.
Print Assumptions C05_unknown_identity_raises.

(* what a truthiness test on _ident[1] would do (NOT the code, [ident_falsy_variant]): the caller 2
   at tick 0 falls back to create_time() on both sides; after a cached create_time(), a clock
   step and a boot_time() refresh its children are dropped / its parent is None *)
Theorem C05_ident_falsy_refuted :
  let back := clock_obj 2 0 k1500 [CallCreateTime; SetBtime 149999990000; CallBootTime] in
  let fwd := clock_obj 2 0 k1500 [CallCreateTime; SetBtime 150000010000; CallBootTime] in
  wf_table t0tab = true /\ live_b t0tab back = true /\ live_b t0tab fwd = true /\
  children_direct as_is t0tab [] back = Val [5; 7] /\ children_direct ident_falsy_variant t0tab [] back = Val [] /\
  parent as_is t0tab [] None fwd = Val (Some (1, 0)) /\ parent ident_falsy_variant t0tab [] None fwd = Val None /\
  parents as_is 5 t0tab [] [] None fwd = Val (Some [1]) /\ parents ident_falsy_variant 5 t0tab [] [] None fwd = Val (Some []).
Proof. exact ident_falsy_refuted. Qed.
Print Assumptions C05_ident_falsy_refuted.

(* ---------------------------------------------------------------- size and depth
   The general theorems above hold for tables of any size; the loops of the model are driven by
   an explicit work-list with fuel = number of processes + 1 (C05_children_rec_terminates,
   C05_parents_terminates), never by recursion on the depth of the tree.  Instances for the
   deepest possible tree, a chain 1 <- 2 <- .. <- n of ANY length n (no bound but pid_t): *)
Theorem C05_chain_children_rec : forall n k, Z.of_nat n <= PID_MAX -> 1 <= k <= Z.of_nat n ->
  exists l, children_rec as_is (S n) (gen_chain n) [] (chain_caller k) = Val (Some l) /\ NoDup l /\
            forall q, In q l <-> k < q <= Z.of_nat n.
Proof. exact chain_children_rec. Qed.
Print Assumptions C05_chain_children_rec.

Theorem C05_chain_parents : forall n m cache, Z.of_nat n <= PID_MAX -> (S m <= n)%nat ->
  cache_fresh_b (gen_chain n) cache = true ->
  parents as_is (S n) (gen_chain n) [] [] cache (chain_caller (Z.of_nat (S m))) = Val (Some (down m)).
Proof. exact chain_parents. Qed.
Print Assumptions C05_chain_parents.

(* the SOURCE agrees (table generated from its ast on every run): children(), parents(), parent()
   and ppid_map() are present, none of them reaches itself through calls (by name), none
   contains a nested function, lambda or class -- they are loops, as modelled *)
Theorem C05_source_no_recursion :
  forallb (fun f => present f && negb (reaches (length c05_calls) f f) && Nat.eqb (nested f) 0)
          ["children"; "parents"; "parent"; "linux.ppid_map"]%string = true.
Proof. exact source_no_recursion. Qed.
Print Assumptions C05_source_no_recursion.

(* ---------------------------------------------------------------- copies of a Process object
   copy.copy(p) is a shallow copy ([copy_obj]: same pid, same identity -- as an option --, same
   create_time() cache): another handle on the SAME incarnation.  copy.deepcopy / pickle create
   no object in the code as it is (TypeError: the object holds an RLock). *)
Theorem C05_copy_same_answers : forall fx t gone goneb cache fuel o,
  ident_opt (copy_obj o) = ident_opt o /\ o_ctime (copy_obj o) = o_ctime o /\
  children_direct fx t gone (copy_obj o) = children_direct fx t gone o /\
  children_rec fx fuel t gone (copy_obj o) = children_rec fx fuel t gone o /\
  parent fx t gone cache (copy_obj o) = parent fx t gone cache o /\
  parents fx fuel t gone goneb cache (copy_obj o) = parents fx fuel t gone goneb cache o.
Proof. exact copy_same_answers. Qed.
Print Assumptions C05_copy_same_answers.

(* the copy of a STALE original raises NoSuchProcess like the original: it never describes the
   tree around the new owner of the PID *)
Theorem C05_copy_of_stale_raises : forall t gone goneb cache fuel o, recycled_b t o = true ->
  children_direct as_is t gone (copy_obj o) = Exc NoSuchProcess /\
  children_rec as_is fuel t gone (copy_obj o) = Exc NoSuchProcess /\
  parent as_is t gone cache (copy_obj o) = Exc NoSuchProcess /\
  parents as_is fuel t gone goneb cache (copy_obj o) = Exc NoSuchProcess.
Proof. exact copy_of_stale_raises. Qed.
Print Assumptions C05_copy_of_stale_raises.

Theorem C05_no_deep_copy : forall o,
  copy_result DeepCopy o = Exc TypeError /\ copy_result PickleRoundTrip o = Exc TypeError /\
  copy_result ShallowCopy o = Val o.
Proof. exact no_deep_copy. Qed.
Print Assumptions C05_no_deep_copy.

(* ---------------------------------------------------------------- Round 2: the source, translated
   c05_children (coq/Gen/C05_Tables.v) is generated on every run from the ast of Process.children() of the tree
   under check (props/_c05_gen.py); run_children (coq/C05/PyGen.v) interprets it over the model's primitives
   (prims_of: self.pid, _raise_if_pid_reused, _ppid_map, Process(pid), the caller's side of _start_times). *)
Theorem C05_gen_children_direct : forall t gone o, pids_nonneg t = true -> forall fuel,
  run_children (prims_of t gone o) c05_children false fuel =
  (do l <- children_direct as_is t gone o; Val (Some l)).
Proof. exact gen_children_direct. Qed.
Print Assumptions C05_gen_children_direct.

Theorem C05_gen_children_rec : forall t gone o, pids_nonneg t = true -> forall fuel,
  run_children (prims_of t gone o) c05_children true fuel = children_rec as_is fuel t gone o.
Proof. exact gen_children_rec. Qed.
Print Assumptions C05_gen_children_rec.

(* the hypothesis is satisfiable by a non-trivial table (and follows from wf_table) *)
Theorem C05_gen_nonneg_of_wf : forall t, wf_table t = true -> pids_nonneg t = true.
Proof. exact nonneg_of_wf. Qed.
Print Assumptions C05_gen_nonneg_of_wf.

(* c05_parent: Process.parent() translated from the ast of the tree under check; run_parent interprets it over the model's
   primitives (pprims_of: those of children() plus the lowest-PID expression and self.ppid()).  No hypothesis on the table. *)
Theorem C05_gen_parent : forall t gone cache o,
  run_parent (pprims_of t gone cache o) c05_parent = parent as_is t gone cache o.
Proof. exact gen_parent. Qed.
Print Assumptions C05_gen_parent.
