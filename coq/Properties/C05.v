(* C05 -- children(), parent() and parents() describe the real process tree.
   Statements only; proofs live in C05/Lib.v, C05/Proofs.v, C05/ProofsParent.v.
   Model: C05/Model.v (transcription of psutil/__init__.py children/parent/parents/
   ppid and _pslinux.ppid_map; [as_is] = the code as it is, the [fx_*] flags = the
   proposed repairs), specification: C05/Spec.v.
   t = the listed process table (pid, ppid, start ticks), any size, any parent links;
   gone = PIDs vanishing after the ppid_map() snapshot; o = the caller object. *)
From PV Require Import C05.Spec C05.Lib C05.Proofs C05.ProofsParent.

(* children(): exactly the listed processes naming the caller as parent, still there
   and not started before it, in listing order (caller not recorded as its own parent) *)
Theorem C05_children_direct : forall t gone o,
  wf_table t = true -> alive_b t o = true -> own_parent_b t (o_pid o) = false ->
  children_direct as_is t gone o = Val (spec_children t gone (o_pid o) (o_ident o)).
Proof. exact children_direct_exact. Qed.
Print Assumptions C05_children_direct.

(* finding: with a ppid self-loop the caller is returned as its own child *)
Theorem C05_children_direct_self_refuted :
  exists t o, wf_table t = true /\ alive_b t o = true /\
              exists l, children_direct as_is t [] o = Val l /\ In (o_pid o) l.
Proof. exact children_direct_self_refuted. Qed.
Print Assumptions C05_children_direct_self_refuted.

(* children(recursive=True): with fuel |t|+1 the loop ends, every process is returned
   at most once, and the result is exactly the set reachable through parent links *)
Theorem C05_children_rec_exact : forall t gone o,
  wf_table t = true -> alive_b t o = true ->
  exists l, children_rec as_is (S (length t)) t gone o = Val (Some l) /\ NoDup l /\
            forall q, In q l <-> desc t gone (o_pid o) (o_ident o) q.
Proof. exact children_rec_exact. Qed.
Print Assumptions C05_children_rec_exact.

(* ... never the caller itself, when the caller is not its own descendant *)
Theorem C05_children_rec_no_self : forall t gone o,
  wf_table t = true -> alive_b t o = true ->
  ~ desc t gone (o_pid o) (o_ident o) (o_pid o) ->
  exists l, children_rec as_is (S (length t)) t gone o = Val (Some l) /\ NoDup l /\
            forall q, In q l <-> (desc t gone (o_pid o) (o_ident o) q /\ q <> o_pid o).
Proof. exact children_rec_no_self. Qed.
Print Assumptions C05_children_rec_no_self.

(* finding: on a ppid cycle through the caller the caller itself is returned *)
Theorem C05_children_rec_self_refuted :
  exists t o, wf_table t = true /\ alive_b t o = true /\
              exists l, children_rec as_is (S (length t)) t [] o = Val (Some l) /\ In (o_pid o) l.
Proof. exact children_rec_self_refuted. Qed.
Print Assumptions C05_children_rec_self_refuted.

(* termination on ANY parent-link graph (cycles, self-loops, unlisted parents), for any
   caller state, any vanished set, with or without the repairs: |t|+1 iterations suffice *)
Theorem C05_children_rec_terminates : forall fx t gone o,
  NoDup (pids_of t) -> children_rec fx (S (length t)) t gone o <> Val None.
Proof. exact children_rec_terminates. Qed.
Print Assumptions C05_children_rec_terminates.

(* with the proposed repair (skip the caller's own PID) both calls meet the property in full *)
Theorem C05_children_direct_patched : forall fx t gone o,
  fx_skip_self fx = true -> wf_table t = true -> alive_b t o = true ->
  children_direct fx t gone o = Val (spec_children t gone (o_pid o) (o_ident o)).
Proof. exact children_direct_patched. Qed.
Print Assumptions C05_children_direct_patched.

Theorem C05_children_rec_patched : forall fx t gone o,
  fx_skip_self fx = true -> wf_table t = true -> alive_b t o = true ->
  exists l, children_rec fx (S (length t)) t gone o = Val (Some l) /\ NoDup l /\
            forall q, In q l <-> (desc t gone (o_pid o) (o_ident o) q /\ q <> o_pid o).
Proof. exact children_rec_patched. Qed.
Print Assumptions C05_children_rec_patched.

(* the computable descendant test used by the harness only accepts descendants *)
Theorem C05_climbs_sound : forall t gone self s0 n q,
  climbs t gone self s0 n q = true -> desc t gone self s0 q.
Proof. exact climbs_desc. Qed.
Print Assumptions C05_climbs_sound.

(* a recycled caller: NoSuchProcess from both forms of children() *)
Theorem C05_children_recycled : forall fx fuel t gone o, recycled_b t o = true ->
  children_direct fx t gone o = Exc NoSuchProcess /\ children_rec fx fuel t gone o = Exc NoSuchProcess.
Proof. exact children_recycled. Qed.
Print Assumptions C05_children_recycled.

(* parent(): the process named by ppid() unless unlisted or younger than the caller;
   none for the root (lowest listed PID) -- with a fresh lowest-PID cache *)
Theorem C05_parent_spec : forall t cache o,
  wf_table t = true -> alive_b t o = true -> cache_fresh_b t cache = true ->
  parent as_is t cache o = Val (spec_parent t (o_pid o) (o_ident o)).
Proof. exact parent_spec. Qed.
Print Assumptions C05_parent_spec.

Theorem C05_root_is_lowest : forall t r, root_of (pids_of t) = Some r ->
  In r (pids_of t) /\ forall p, In p (pids_of t) -> r <= p.
Proof. exact root_of_is_root. Qed.
Print Assumptions C05_root_is_lowest.

(* finding: a stale _LOWEST_PID makes parent() return None for a process whose parent is listed and older *)
Theorem C05_parent_stale_cache_refuted :
  exists t cache o, wf_table t = true /\ alive_b t o = true /\
    spec_parent t (o_pid o) (o_ident o) = Some (1, 1) /\ parent as_is t cache o = Val None.
Proof. exact parent_stale_cache_refuted. Qed.
Print Assumptions C05_parent_stale_cache_refuted.

(* recycled caller: NoSuchProcess, unless parent() takes the caller for the lowest PID *)
Theorem C05_parent_recycled : forall t cache o low, recycled_b t o = true ->
  lowest_pid t cache = Val low -> o_pid o <> low ->
  parent as_is t cache o = Exc NoSuchProcess.
Proof. exact parent_recycled. Qed.
Print Assumptions C05_parent_recycled.

(* finding: the recycled lowest PID gets None / [] instead of NoSuchProcess *)
Theorem C05_parent_recycled_lowest_refuted :
  exists t o, wf_table t = true /\ recycled_b t o = true /\
    parent as_is t None o = Val None /\ parents as_is 3 t None o = Val (Some []).
Proof. exact parent_recycled_lowest_refuted. Qed.
Print Assumptions C05_parent_recycled_lowest_refuted.

Theorem C05_parent_recycled_patched : forall fx t cache o,
  fx_parent_reuse fx = true -> recycled_b t o = true -> parent fx t cache o = Exc NoSuchProcess.
Proof. exact parent_recycled_patched. Qed.
Print Assumptions C05_parent_recycled_patched.

(* parents(): whenever the chain of parent() ends, parents() returns exactly that chain ... *)
Theorem C05_parents_chain_complete : forall t cache o l fuel,
  wf_table t = true -> alive_b t o = true -> cache_fresh_b t cache = true ->
  chain t (o_pid o) l -> (length l <= fuel)%nat ->
  parents as_is fuel t cache o = Val (Some l).
Proof. exact parents_chain_complete. Qed.
Print Assumptions C05_parents_chain_complete.

(* ... anything it returns is that chain ... *)
Theorem C05_parents_chain_sound : forall t cache o l fuel,
  wf_table t = true -> alive_b t o = true -> cache_fresh_b t cache = true ->
  parents as_is fuel t cache o = Val (Some l) -> chain t (o_pid o) l.
Proof. exact parents_chain_sound. Qed.
Print Assumptions C05_parents_chain_sound.

(* ... and the only other outcome is not terminating within the fuel (never an exception) *)
Theorem C05_parents_total : forall t cache o fuel,
  wf_table t = true -> alive_b t o = true -> cache_fresh_b t cache = true ->
  parents as_is fuel t cache o = Val None \/ exists l, parents as_is fuel t cache o = Val (Some l).
Proof. exact parents_total. Qed.
Print Assumptions C05_parents_total.

(* finding: on a ppid self-loop parents() exhausts every fuel: it does not terminate *)
Theorem C05_parents_nonterminating_refuted :
  exists t o, wf_table t = true /\ alive_b t o = true /\
              forall fuel, parents as_is fuel t None o = Val None.
Proof. exact parents_nonterminating_refuted. Qed.
Print Assumptions C05_parents_nonterminating_refuted.

Theorem C05_parents_recycled : forall t cache o low fuel, recycled_b t o = true ->
  lowest_pid t cache = Val low -> o_pid o <> low ->
  parents as_is fuel t cache o = Exc NoSuchProcess.
Proof. exact parents_recycled. Qed.
Print Assumptions C05_parents_recycled.
