(* C08 -- virtual_memory() and swap_memory() follow the documented formulas.
   Statements only; proofs live in C08/Proofs*.v.  Model: C08/Model.v
   (transcription of psutil/_pslinux.py: calculate_avail_vmem, virtual_memory,
   swap_memory and _common.usage_percent), specification: C08/Spec.v (kernel
   printers k_meminfo / k_zoneinfo / k_vmstat, demanded answers spec_vm / spec_swap).
   A [kernel] is: /proc/meminfo as ANY list of kernel-formatted lines with distinct
   names (so every subset and order of the optional counters, every magnitude, zero
   totals), /proc/zoneinfo and /proc/vmstat as any list of lines or absent, the page
   size, the sysinfo(2) swap figures.  Percentages are in tenths. *)
From PV Require Import C08.Spec C08.ProofsRound C08.ProofsVM C08.ProofsSwap.

(* virtual_memory(): for every kernel record that has MemTotal and MemFree the call succeeds and
   returns exactly the demanded record -- total, free, buffers, cached (+SReclaimable), shared
   (Shmem, else MemShared), active, inactive (else the three 2.4 lists), slab = kernel kB x 1024,
   0 for what is absent; used = total-free-cached-buffers, total-free when negative;
   available = MemAvailable, or when absent/zero the documented estimate (watermark formula, or
   free+cached when one of its inputs is absent), then 0 when negative, free when above total;
   percent = (total-available)/total*100 rounded to a tenth (0 when total = 0); the warning names
   exactly the metrics set to 0 (slab excepted) and "available" when it was forced up to 0. *)
Theorem C08_vm_exact : forall k,
  wf_kernel k = true -> has_total_free k = true ->
  virtual_memory (k_pagesize k) (k_meminfo (k_mem k)) (option_map k_zoneinfo (k_zone k))
  = Val (spec_vm k).
Proof. exact vm_exact. Qed.
Print Assumptions C08_vm_exact.

(* whichever optional counters are missing: the metric is 0 and is named in the warning (slab is
   0 silently); SReclaimable missing leaves cached = page cache *)
Theorem C08_vm_missing_fields : forall k r,
  wf_kernel k = true -> has_total_free k = true ->
  virtual_memory (k_pagesize k) (k_meminfo (k_mem k)) (option_map k_zoneinfo (k_zone k)) = Val r ->
  (kbytes (k_mem k) "Buffers:" = None -> v_buffers r = 0 /\ In (bs "buffers") (v_missing r)) /\
  (kbytes (k_mem k) "Cached:" = None -> v_cached r = 0 /\ In (bs "cached") (v_missing r)) /\
  (kbytes (k_mem k) "Shmem:" = None -> kbytes (k_mem k) "MemShared:" = None ->
     v_shared r = 0 /\ In (bs "shared") (v_missing r)) /\
  (kbytes (k_mem k) "Active:" = None -> v_active r = 0 /\ In (bs "active") (v_missing r)) /\
  (kbytes (k_mem k) "Inactive:" = None ->
     (kbytes (k_mem k) "Inact_dirty:" = None \/ kbytes (k_mem k) "Inact_clean:" = None \/
      kbytes (k_mem k) "Inact_laundry:" = None) ->
     v_inactive r = 0 /\ In (bs "inactive") (v_missing r)) /\
  (kbytes (k_mem k) "Slab:" = None -> v_slab r = 0) /\
  (kbytes (k_mem k) "SReclaimable:" = None -> forall c, kbytes (k_mem k) "Cached:" = Some c -> v_cached r = c).
Proof. exact vm_missing_fields. Qed.
Print Assumptions C08_vm_missing_fields.

(* ... and the warning names nothing but metrics that are reported as 0 *)
Theorem C08_vm_warning_sound : forall k r,
  wf_kernel k = true -> has_total_free k = true ->
  virtual_memory (k_pagesize k) (k_meminfo (k_mem k)) (option_map k_zoneinfo (k_zone k)) = Val r ->
  forall n, In n (v_missing r) ->
    (n = bs "buffers" /\ v_buffers r = 0) \/ (n = bs "cached" /\ v_cached r = 0) \/
    (n = bs "shared" /\ v_shared r = 0) \/ (n = bs "active" /\ v_active r = 0) \/
    (n = bs "inactive" /\ v_inactive r = 0) \/ (n = bs "available" /\ v_available r = 0).
Proof. exact vm_warning_sound. Qed.
Print Assumptions C08_vm_warning_sound.

(* free <= total  ->  0 <= available <= total and 0 <= percent <= 100 (whatever the other values:
   cached+buffers > total, MemAvailable > total, zero totals, watermarks above free memory) *)
Theorem C08_vm_range : forall k,
  wf_kernel k = true -> sp_free k <= sp_total k ->
  0 <= sp_available k <= sp_total k /\ 0 <= sp_percent10 k <= 1000.
Proof. exact vm_range. Qed.
Print Assumptions C08_vm_range.

(* the hypothesis free <= total is needed: MemFree > MemTotal together with MemAvailable > MemTotal
   yields available = free > total and a negative percent (the property text makes the same
   reservation for percent; recorded as an observation, see notes/design/C08.md) *)
Theorem C08_vm_range_needs_free_le_total :
  exists k, wf_kernel k = true /\ has_total_free k = true /\ sp_total k < sp_free k /\
    exists r, virtual_memory (k_pagesize k) (k_meminfo (k_mem k)) (option_map k_zoneinfo (k_zone k)) = Val r /\
              v_total r < v_available r /\ v_percent10 r < 0.
Proof. exact vm_range_needs_free_le_total. Qed.
Print Assumptions C08_vm_range_needs_free_le_total.

(* "rounded": the rounding function used by model and specification returns the nearest integer,
   ties to even; and that relation has exactly one solution *)
Theorem C08_round1_nearest : forall n d, 0 < d ->
  2 * Z.abs (round_he n d * d - n) <= d /\
  (2 * Z.abs (round_he n d * d - n) = d -> Z.even (round_he n d) = true).
Proof. exact round_he_nearest. Qed.
Print Assumptions C08_round1_nearest.

Theorem C08_round1_unique : forall t1 t2 n d, 0 < d ->
  nearest_even t1 n d -> nearest_even t2 n d -> t1 = t2.
Proof. exact nearest_even_unique. Qed.
Print Assumptions C08_round1_unique.

(* swap_memory(): for EVERY kernel record and page size the call succeeds and returns exactly the
   demanded record -- total/free from SwapTotal/SwapFree (from sysinfo(2) when either is absent),
   used = total-free, percent; sin/sout = cumulative swapped pages x page size = bytes; both 0 with a
   warning when vmstat or the swap counters are absent.  (Code as of commit fe3ce75.) *)
Theorem C08_swap_exact : forall k,
  wf_kernel k = true ->
  swap_memory (k_pagesize k) (k_meminfo (k_mem k)) (k_sysinfo k) (option_map k_vmstat (k_vm k))
  = Val (spec_swap k).
Proof. exact swap_exact. Qed.
Print Assumptions C08_swap_exact.

(* fixed finding: before fe3ce75 the code multiplied the page counts by the literal 4096
   (model: multiplier 4096 instead of the page size); on a 64K-page kernel one swapped-in page
   was reported as 4096 bytes instead of 65536 *)
Theorem C08_swap_literal_4096_refuted :
  exists k r, wf_kernel k = true /\ k_pagesize k = 65536 /\
    swap_memory 4096 (k_meminfo (k_mem k)) (k_sysinfo k) (option_map k_vmstat (k_vm k)) = Val r /\
    s_sin r = 4096 /\ s_sin (spec_swap k) = 65536 /\ s_sout r = 8192 /\ s_sout (spec_swap k) = 131072.
Proof. exact swap_literal_4096_refuted. Qed.
Print Assumptions C08_swap_literal_4096_refuted.

(* whichever of vmstat / pswpin / pswpout is missing: success, sin = sout = 0 and the warning;
   total, free, used unaffected.  (With only one counter missing the other is reported 0 too:
   no kernel prints one without the other -- observation in notes/design/C08.md.) *)
Theorem C08_swap_missing_counters : forall k r,
  wf_kernel k = true ->
  swap_memory (k_pagesize k) (k_meminfo (k_mem k)) (k_sysinfo k) (option_map k_vmstat (k_vm k)) = Val r ->
  (k_vm k = None \/
   (exists vs, k_vm k = Some vs /\ (vfind (bs "pswpin") vs = None \/ vfind (bs "pswpout") vs = None))) ->
  s_sin r = 0 /\ s_sout r = 0 /\ s_warned r = true /\
  s_total r = sw_total k /\ s_free r = sw_free k /\ s_used r = sw_total k - sw_free k.
Proof. exact swap_missing_counters. Qed.
Print Assumptions C08_swap_missing_counters.

(* free <= total  ->  0 <= percent <= 100 *)
Theorem C08_swap_range : forall k,
  0 <= sw_free k <= sw_total k -> 0 <= sw_percent10 k <= 1000.
Proof. exact swap_range. Qed.
Print Assumptions C08_swap_range.
