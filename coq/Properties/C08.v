(* C08 -- virtual_memory() and swap_memory() follow the documented formulas.
   Statements only; proofs live in C08/Proofs*.v.  Model: C08/Model.v
   (transcription of psutil/_pslinux.py: calculate_avail_vmem, virtual_memory,
   swap_memory, _common.usage_percent and the _TOTAL_PHYMEM front end of
   psutil/__init__.py), specification: C08/Spec.v (kernel printers k_meminfo /
   k_zoneinfo / k_vmstat, demanded answers spec_vm / spec_swap / sp_memory_percent).
   A [kernel] is: /proc/meminfo as ANY list of "name number [rest]" lines with distinct
   names (so every subset and order of the optional counters, every magnitude, zero
   totals) interleaved with lines that are not of that form (MJunk: the Linux 2.4
   header); /proc/zoneinfo as any list of lines (low-watermark lines with any blanks,
   any number of zones) or absent; /proc/vmstat as any list of "name value [rest]" lines
   (names may repeat) and other lines, or absent; the page size; the sysinfo(2) swap
   figures.  Percentages are in tenths.
   [no_junk]: every meminfo line is "name number ..." (true of every kernel since 2.5) -- only
   the refuted theorems about the parser used before commit db3d5fc mention it.
   [float_exact]: the double-precision evaluation of the estimate is exact (page size a
   multiple of 512 and free+watermark+pagecache+slab < 2^61 bytes; vacuous when the
   estimate's watermark formula is not evaluated). *)
From PV Require Import C08.Spec C08.ProofsRound C08.ProofsVM C08.ProofsSwap C08.ProofsVM2 C08.ProofsBig.
From PV Require Import C08.PyGen Gen.C08_Tables C08.ProofsGen C08.Snap.

(* ------------------------------------------------------------------ virtual_memory() *)
(* for every kernel record that has MemTotal and MemFree the call succeeds and returns exactly
   the demanded record -- total, free, buffers, cached (+SReclaimable), shared (Shmem, else
   MemShared), active, inactive (else the three 2.4 lists), slab = kernel kB x 1024, 0 for what
   is absent; used = total-free-cached-buffers, total-free when negative; available =
   MemAvailable, or when absent/zero the documented estimate (watermark formula over ALL zones,
   or free+cached when an input or the file is absent), then 0 when negative, free when above
   total; percent = (total-available)/total*100 rounded half-even to a tenth (0 when total = 0);
   the warning names exactly the metrics set to 0 (slab excepted) and "available" when it was
   forced up to 0. *)
Theorem C08_vm_exact : forall k,
  wf_kernel k = true -> has_total_free k = true -> float_exact k = true ->
  virtual_memory (k_pagesize k) (k_meminfo (k_mem k)) (option_map k_zoneinfo (k_zone k))
  = Val (spec_vm k).
Proof. exact vm_exact. Qed.
Print Assumptions C08_vm_exact.

(* fixed finding (db3d5fc): the parser used before (no try/except around int(fields[1])) made both
   calls fail on EVERY meminfo containing a line that is not "name number ..."; the witness is the
   /proc/meminfo of Linux 2.4 (legacy three-line header), on which the code as it is now returns
   the demanded record through the MemShared / Inact_* branches *)
Theorem C08_legacy_parser_junk_raises : forall k ms1 b ms2 (z : option bytes),
  wf_kernel k = true -> k_mem k = ms1 ++ MJunk b :: ms2 -> no_junk ms1 = true ->
  (virtual_memory_gen false (k_pagesize k) (k_meminfo (k_mem k)) z = Exc IndexError \/
   virtual_memory_gen false (k_pagesize k) (k_meminfo (k_mem k)) z = Exc ValueError) /\
  (forall si v, swap_memory_gen false (k_pagesize k) (k_meminfo (k_mem k)) si v = Exc IndexError \/
                swap_memory_gen false (k_pagesize k) (k_meminfo (k_mem k)) si v = Exc ValueError).
Proof. exact legacy_parser_junk_raises. Qed.
Print Assumptions C08_legacy_parser_junk_raises.

Theorem C08_legacy_parser_refuted :
  exists k, wf_kernel k = true /\ has_total_free k = true /\ float_exact k = true /\
    virtual_memory_gen false (k_pagesize k) (k_meminfo (k_mem k)) (option_map k_zoneinfo (k_zone k)) = Exc ValueError /\
    swap_memory_gen false (k_pagesize k) (k_meminfo (k_mem k)) (k_sysinfo k) (option_map k_vmstat (k_vm k)) = Exc ValueError /\
    virtual_memory (k_pagesize k) (k_meminfo (k_mem k)) (option_map k_zoneinfo (k_zone k)) = Val (spec_vm k) /\
    v_shared (spec_vm k) = 0 /\ v_inactive (spec_vm k) = 152000 * 1024 /\ v_missing (spec_vm k) = [].
Proof. exact vm_legacy_parser_refuted. Qed.
Print Assumptions C08_legacy_parser_refuted.

(* the estimate and /proc/zoneinfo, all contents: (a) when the file is not consulted (MemAvailable
   present and non-zero, or an input of the estimate missing) ANY state -- absent, unopenable,
   unreadable, unparsable, arbitrary bytes -- gives the demanded record; (b) when it is consulted, arbitrary bytes either
   yield a record or raise IndexError ("low" without a number) / ValueError (not a number); the
   kernel-formatted files are covered by C08_vm_exact *)
Theorem C08_vm_zoneinfo_unread : forall len k (z : zstate),
  wf_kernel k = true -> has_total_free k = true -> (len = true \/ no_junk (k_mem k) = true) ->
  zone_read k = false ->
  virtual_memory_z len (k_pagesize k) (k_meminfo (k_mem k)) z = Val (spec_vm k).
Proof. exact vm_zoneinfo_unread. Qed.
Print Assumptions C08_vm_zoneinfo_unread.

Theorem C08_vm_zoneinfo_raw_outcomes : forall len k (z : bytes),
  wf_kernel k = true -> has_total_free k = true -> (len = true \/ no_junk (k_mem k) = true) ->
  (exists r, virtual_memory_gen len (k_pagesize k) (k_meminfo (k_mem k)) (Some z) = Val r) \/
  virtual_memory_gen len (k_pagesize k) (k_meminfo (k_mem k)) (Some z) = Exc IndexError \/
  virtual_memory_gen len (k_pagesize k) (k_meminfo (k_mem k)) (Some z) = Exc ValueError.
Proof. exact vm_zoneinfo_raw_outcomes. Qed.
Print Assumptions C08_vm_zoneinfo_raw_outcomes.

(* (c) the file exists but open() fails -- EACCES, EIO, EISDIR (it is a directory), any errno: the
   answer is the one demanded for the kernel without zoneinfo, i.e. estimate = free + cached; never
   an exception *)
Theorem C08_vm_zoneinfo_open_error : forall k e,
  wf_kernel k = true -> has_total_free k = true ->
  virtual_memory_z true (k_pagesize k) (k_meminfo (k_mem k)) (ZOpenErr e) = Val (spec_vm (no_zone k)) /\
  virtual_memory_z true (k_pagesize k) (k_meminfo (k_mem k)) ZAbsent = Val (spec_vm (no_zone k)) /\
  sp_fallback (no_zone k) = sp_free k + default0 (kbytes (k_mem k) "Cached:").
Proof. exact vm_zoneinfo_open_error. Qed.
Print Assumptions C08_vm_zoneinfo_open_error.

(* observation: when the file is consulted, a read() error after a successful open escapes as OSError
   (the loop is outside the try); when it is not consulted C08_vm_zoneinfo_unread applies *)
Theorem C08_vm_zoneinfo_read_error : forall k,
  wf_kernel k = true -> has_total_free k = true -> zone_read k = true ->
  virtual_memory_z true (k_pagesize k) (k_meminfo (k_mem k)) (ZReadErr []) = Exc OSError.
Proof. exact vm_zoneinfo_read_error. Qed.
Print Assumptions C08_vm_zoneinfo_read_error.

(* (d) size: the file is a list of lines of ANY length (it grows with nodes x zones x CPUs: a per-CPU
   pagesets block in every zone); split it anywhere, e.g. after its first 32768 bytes: the call over
   the whole file returns the demanded record, whose estimate uses the watermarks of the zones on
   BOTH sides of the split *)
Theorem C08_vm_zoneinfo_any_size : forall k zs1 zs2,
  wf_kernel k = true -> has_total_free k = true -> float_exact k = true -> k_zone k = Some (zs1 ++ zs2) ->
  virtual_memory (k_pagesize k) (k_meminfo (k_mem k)) (Some (k_zoneinfo zs1 ++ k_zoneinfo zs2)) = Val (spec_vm k) /\
  (forall af inf sr, kbytes (k_mem k) "Active(file):" = Some af -> kbytes (k_mem k) "Inactive(file):" = Some inf ->
     kbytes (k_mem k) "SReclaimable:" = Some sr ->
     let wl := (low_pages zs1 + low_pages zs2) * k_pagesize k in
     sp_fallback k = (sp_free k - wl) + ((af + inf) - Z.min ((af + inf) / 2) wl) + (sr - Z.min (sr / 2) wl)).
Proof. exact vm_zoneinfo_any_size. Qed.
Print Assumptions C08_vm_zoneinfo_any_size.

(* (e) machines of every size: the zoneinfo built by Spec.big_zoneinfo (line shapes of the running
   kernel; a pagesets entry per CPU in every zone) is well formed for EVERY number of nodes, zones,
   CPUs, any watermarks and any filler, hence virtual_memory() over it returns the demanded record *)
Theorem C08_big_zoneinfo_wf : forall nodes zones cpus lowf fill,
  forallb wf_zline (big_zoneinfo nodes zones cpus lowf fill) = true.
Proof. exact big_zoneinfo_wf. Qed.
Print Assumptions C08_big_zoneinfo_wf.

Theorem C08_vm_exact_big : forall ms ps nodes zones cpus lowf fill,
  let k := {| k_mem := ms; k_zone := Some (big_zoneinfo nodes zones cpus lowf fill); k_vm := None;
              k_pagesize := ps; k_sysinfo := (0, 0, 1) |} in
  wf_meminfo ms = true -> has_total_free k = true -> float_exact k = true ->
  virtual_memory ps (k_meminfo ms) (Some (k_zoneinfo (big_zoneinfo nodes zones cpus lowf fill))) = Val (spec_vm k).
Proof. exact vm_exact_big. Qed.
Print Assumptions C08_vm_exact_big.

(* the float path: for EVERY rounding operator that leaves multiples of 1024 (half units) below
   2^63 alone, the double-precision evaluation int(free - wl + (pc - min(pc/2, wl)) + (sr -
   min(sr/2.0, wl))) equals the exact formula when free, pagecache, slab are multiples of 1024,
   the watermark a multiple of 512 and their sum is below 2^61; IEEE binary64 rounding (rnd53)
   is such an operator; beyond the bound the results differ (witness) *)
Theorem C08_float_path_exact : forall (rnd : Z -> Z),
  (forall x, x mod 1024 = 0 -> - 2 ^ 63 < x < 2 ^ 63 -> rnd x = x) ->
  forall F W P S, 0 <= F -> 0 <= W -> 0 <= P -> 0 <= S ->
  F * 1024 + W * 512 + P * 1024 + S * 1024 < 2 ^ 61 ->
  let free := F * 1024 in let wl := W * 512 in let pc := P * 1024 in let sr := S * 1024 in
  py_trunc (py_add rnd (py_add rnd (PI (free - wl)) (py_sub rnd (PI pc) (py_min (PF (rnd pc)) (PI wl))))
                   (py_sub rnd (PI sr) (py_min (PF (rnd (2 * sr) / 2)) (PI wl))))
  = (free - wl) + (pc - Z.min (pc / 2) wl) + (sr - Z.min (sr / 2) wl).
Proof. exact fl_path_exact. Qed.
Print Assumptions C08_float_path_exact.

Theorem C08_rnd53_exact : forall x, x mod 1024 = 0 -> - 2 ^ 63 < x < 2 ^ 63 -> rnd53 x = x.
Proof. exact C08.Lib.rnd53_exact. Qed.
Print Assumptions C08_rnd53_exact.

Theorem C08_vm_float_bound_needed :
  exists k r, wf_kernel k = true /\ has_total_free k = true /\ float_exact k = false /\
    virtual_memory (k_pagesize k) (k_meminfo (k_mem k)) (option_map k_zoneinfo (k_zone k)) = Val r /\
    v_available r = 2 ^ 63 /\ sp_available k = 2 ^ 63 + 2048.
Proof. exact vm_float_bound_needed. Qed.
Print Assumptions C08_vm_float_bound_needed.

(* whichever optional counters are missing: the metric is 0 and is named in the warning (slab is
   0 silently); SReclaimable missing leaves cached = page cache *)
Theorem C08_vm_missing_fields : forall k r,
  wf_kernel k = true -> has_total_free k = true -> float_exact k = true ->
  virtual_memory (k_pagesize k) (k_meminfo (k_mem k)) (option_map k_zoneinfo (k_zone k)) = Val r ->
  (kbytes (k_mem k) "Buffers:" = None -> v_buffers r = 0 /\ In (bs "buffers") (v_missing r)) /\
  (kbytes (k_mem k) "Cached:" = None -> v_cached r = 0 /\ In (bs "cached") (v_missing r)) /\
  (kbytes (k_mem k) "Shmem:" = None -> kbytes (k_mem k) "MemShared:" = None ->
     v_shared r = 0 /\ In (bs "shared") (v_missing r)) /\
  (kbytes (k_mem k) "Active:" = None -> v_active r = 0 /\ In (bs "active") (v_missing r)) /\
  (kbytes (k_mem k) "Inactive:" = None ->
     (kbytes (k_mem k) "Inact_dirty:" = None \/ kbytes (k_mem k) "Inact_clean:" = None \/
      kbytes (k_mem k) "Inact_laundry:" = None) ->
     v_inactive r = 0 /\ In (bs "inactive") (v_missing r)) /\
  (kbytes (k_mem k) "Slab:" = None -> v_slab r = 0) /\
  (kbytes (k_mem k) "SReclaimable:" = None -> forall c, kbytes (k_mem k) "Cached:" = Some c -> v_cached r = c).
Proof. exact vm_missing_fields. Qed.
Print Assumptions C08_vm_missing_fields.

(* ... and the warning names nothing but metrics that are reported as 0 *)
Theorem C08_vm_warning_sound : forall k r,
  wf_kernel k = true -> has_total_free k = true -> float_exact k = true ->
  virtual_memory (k_pagesize k) (k_meminfo (k_mem k)) (option_map k_zoneinfo (k_zone k)) = Val r ->
  forall n, In n (v_missing r) ->
    (n = bs "buffers" /\ v_buffers r = 0) \/ (n = bs "cached" /\ v_cached r = 0) \/
    (n = bs "shared" /\ v_shared r = 0) \/ (n = bs "active" /\ v_active r = 0) \/
    (n = bs "inactive" /\ v_inactive r = 0) \/ (n = bs "available" /\ v_available r = 0).
Proof. exact vm_warning_sound. Qed.
Print Assumptions C08_vm_warning_sound.

(* free <= total  ->  0 <= available <= total and 0 <= percent <= 100 (whatever the other values:
   cached+buffers > total, MemAvailable > total, zero totals, watermarks above free memory) *)
Theorem C08_vm_range : forall k,
  wf_kernel k = true -> sp_free k <= sp_total k ->
  0 <= sp_available k <= sp_total k /\ 0 <= sp_percent10 k <= 1000.
Proof. exact vm_range. Qed.
Print Assumptions C08_vm_range.

(* the hypothesis free <= total is needed (observation, see notes/design/C08.md) *)
Theorem C08_vm_range_needs_free_le_total :
  exists k, wf_kernel k = true /\ has_total_free k = true /\ sp_total k < sp_free k /\
    exists r, virtual_memory (k_pagesize k) (k_meminfo (k_mem k)) (option_map k_zoneinfo (k_zone k)) = Val r /\
              v_total r < v_available r /\ v_percent10 r < 0.
Proof. exact vm_range_needs_free_le_total. Qed.
Print Assumptions C08_vm_range_needs_free_le_total.

(* ------------------------------------------------------------------ percent *)
(* the reported percent (tenths) is the round-half-even of the exact ratio: it is a nearest
   integer to (total-available)*1000/total, the even one on a tie -- and there is exactly one such *)
Theorem C08_vm_percent_half_even : forall k, wf_kernel k = true -> 0 < sp_total k ->
  2 * Z.abs (sp_percent10 k * sp_total k - (sp_total k - sp_available k) * 1000) <= sp_total k /\
  (2 * Z.abs (sp_percent10 k * sp_total k - (sp_total k - sp_available k) * 1000) = sp_total k ->
   Z.even (sp_percent10 k) = true).
Proof. exact vm_percent_half_even. Qed.
Print Assumptions C08_vm_percent_half_even.

Theorem C08_swap_percent_half_even : forall k, 0 < sw_total k ->
  2 * Z.abs (sw_percent10 k * sw_total k - (sw_total k - sw_free k) * 1000) <= sw_total k /\
  (2 * Z.abs (sw_percent10 k * sw_total k - (sw_total k - sw_free k) * 1000) = sw_total k ->
   Z.even (sw_percent10 k) = true).
Proof. exact swap_percent_half_even. Qed.
Print Assumptions C08_swap_percent_half_even.

Theorem C08_round1_nearest : forall n d, 0 < d ->
  2 * Z.abs (round_he n d * d - n) <= d /\
  (2 * Z.abs (round_he n d * d - n) = d -> Z.even (round_he n d) = true).
Proof. exact round_he_nearest. Qed.
Print Assumptions C08_round1_nearest.

Theorem C08_round1_unique : forall t1 t2 n d, 0 < d ->
  nearest_even t1 n d -> nearest_even t2 n d -> t1 = t2.
Proof. exact nearest_even_unique. Qed.
Print Assumptions C08_round1_unique.

(* ------------------------------------------------------------------ swap_memory() *)
(* for EVERY kernel record and page size the call succeeds and returns exactly the demanded record:
   total/free from SwapTotal/SwapFree (sysinfo(2) when either is absent), used = total-free, percent;
   sin/sout = swapped pages x page size, over ANY vmstat: repeated counter lines (read as a log:
   the last pswpin/pswpout line before both are known), extra columns, value-less and blank lines;
   both 0 with a warning when vmstat or a counter is absent; meminfo may contain lines that are
   not "name number ...".  (Code as of commits fe3ce75, db3d5fc.) *)
Theorem C08_swap_exact : forall k,
  wf_kernel k = true ->
  swap_memory (k_pagesize k) (k_meminfo (k_mem k)) (k_sysinfo k) (option_map k_vmstat (k_vm k))
  = Val (spec_swap k).
Proof. exact swap_exact. Qed.
Print Assumptions C08_swap_exact.

(* with distinct names -- what every kernel prints -- the log reading is the lookup by name:
   sin/sout are the pswpin/pswpout counters times the page size *)
Theorem C08_swap_counters_distinct : forall k vs i o,
  wf_kernel k = true ->
  k_vm k = Some vs -> nodupb (vnames vs) = true ->
  vfind (bs "pswpin") vs = Some i -> vfind (bs "pswpout") vs = Some o ->
  exists r, swap_memory (k_pagesize k) (k_meminfo (k_mem k)) (k_sysinfo k) (option_map k_vmstat (k_vm k)) = Val r /\
            s_sin r = i * k_pagesize k /\ s_sout r = o * k_pagesize k /\ s_warned r = false.
Proof. exact swap_counters_distinct. Qed.
Print Assumptions C08_swap_counters_distinct.

(* fixed finding: before fe3ce75 the code multiplied the page counts by the literal 4096 *)
Theorem C08_swap_literal_4096_refuted :
  exists k r, wf_kernel k = true /\ k_pagesize k = 65536 /\
    swap_memory 4096 (k_meminfo (k_mem k)) (k_sysinfo k) (option_map k_vmstat (k_vm k)) = Val r /\
    s_sin r = 4096 /\ s_sin (spec_swap k) = 65536 /\ s_sout r = 8192 /\ s_sout (spec_swap k) = 131072.
Proof. exact swap_literal_4096_refuted. Qed.
Print Assumptions C08_swap_literal_4096_refuted.

(* whichever of vmstat / pswpin / pswpout is missing: success, sin = sout = 0 and the warning;
   total, free, used unaffected *)
Theorem C08_swap_missing_counters : forall k r,
  wf_kernel k = true ->
  swap_memory (k_pagesize k) (k_meminfo (k_mem k)) (k_sysinfo k) (option_map k_vmstat (k_vm k)) = Val r ->
  (k_vm k = None \/
   (exists vs, k_vm k = Some vs /\ nodupb (vnames vs) = true /\
               (vfind (bs "pswpin") vs = None \/ vfind (bs "pswpout") vs = None))) ->
  s_sin r = 0 /\ s_sout r = 0 /\ s_warned r = true /\
  s_total r = sw_total k /\ s_free r = sw_free k /\ s_used r = sw_total k - sw_free k.
Proof. exact swap_missing_counters. Qed.
Print Assumptions C08_swap_missing_counters.

Theorem C08_swap_range : forall k,
  0 <= sw_free k <= sw_total k -> 0 <= sw_percent10 k <= 1000.
Proof. exact swap_range. Qed.
Print Assumptions C08_swap_range.

(* ------------------------------------------------------------------ _TOTAL_PHYMEM / memory_percent() *)
(* virtual_memory() stores the total it reports ... *)
Theorem C08_phymem_set : forall k,
  wf_kernel k = true -> has_total_free k = true -> float_exact k = true ->
  forall c, front_vm c (k_pagesize k) (k_meminfo (k_mem k)) (option_map k_zoneinfo (k_zone k))
            = (Some (sp_total k), Val (spec_vm k)).
Proof. exact front_vm_sets. Qed.
Print Assumptions C08_phymem_set.

(* ... Process.memory_percent() = value*100/total (exact ratio) against the cached total; it
   evaluates virtual_memory() only when nothing or 0 is cached; ValueError when the total is not
   positive *)
Theorem C08_memory_percent_spec : forall k,
  wf_kernel k = true -> has_total_free k = true -> float_exact k = true ->
  forall c value,
  memory_percent c value (k_pagesize k) (k_meminfo (k_mem k)) (option_map k_zoneinfo (k_zone k))
  = sp_memory_percent c value k.
Proof. exact memory_percent_spec. Qed.
Print Assumptions C08_memory_percent_spec.

(* a positive cached total is used whatever the files hold at that moment (arbitrary bytes) *)
Theorem C08_memory_percent_cached : forall t value ps (mi : bytes) (zi : option bytes), 0 < t ->
  memory_percent (Some t) value ps mi zi = (Some t, Val (value * 100, t)).
Proof. exact memory_percent_cached. Qed.
Print Assumptions C08_memory_percent_cached.

(* every successful virtual_memory() call refreshes the cached total: whatever was cached before,
   the next memory_percent() divides by THAT call's total (whatever the files hold by then) *)
Theorem C08_phymem_refresh : forall k c value ps' (mi' : bytes) (zi' : option bytes),
  wf_kernel k = true -> has_total_free k = true -> float_exact k = true -> 0 < sp_total k ->
  memory_percent (fst (front_vm c (k_pagesize k) (k_meminfo (k_mem k)) (option_map k_zoneinfo (k_zone k))))
                 value ps' mi' zi'
  = (Some (sp_total k), Val (value * 100, sp_total k)).
Proof. exact phymem_refresh. Qed.
Print Assumptions C08_phymem_refresh.

(* over any history of calls the module global is the total of the most recent evaluation *)
Theorem C08_phymem_history : forall h c,
  forallb pcall_ok h = true -> m_cache c h = s_cache c h.
Proof. exact phymem_history. Qed.
Print Assumptions C08_phymem_history.

(* observation: after MemTotal changed the percentage refers to the old total *)
Theorem C08_memory_percent_stale :
  exists k1 k2 value c1 r,
    wf_kernel k1 = true /\ wf_kernel k2 = true /\ sp_total k1 = 1000 * 1024 /\ sp_total k2 = 4000 * 1024 /\
    front_vm None 4096 (k_meminfo (k_mem k1)) None = (c1, Val (spec_vm k1)) /\
    memory_percent c1 value 4096 (k_meminfo (k_mem k2)) None = (c1, Val r) /\
    r = (value * 100, 1000 * 1024) /\ value = 500 * 1024.
Proof. exact memory_percent_stale. Qed.
Print Assumptions C08_memory_percent_stale.

(* ------------------------------------------------------------------ tie to the source by translation
   [gen_vm_prog] (coq/Gen/C08_Tables.v) is written on every run by props/_c08_gen.py from the body of
   psutil/_pslinux.py:virtual_memory() of the tree under check -- every statement after the meminfo
   parsing loop: the try/except KeyError ladders with their missing_fields.append calls, used and
   its negative fallback, the MemAvailable / == 0 / calculate_avail_vmem decision, the < 0 and
   > total clamps, usage_percent(..., round_=1), the svmem(...) argument order -- in the statement
   language of C08/PyGen.v ([run_vm] = its interpreter; [mems] and the outcome of
   calculate_avail_vmem(mems) are arguments). *)
(* for EVERY mems dict, page size and zoneinfo state, the translated body returns exactly the
   model's record (in svmem order) and warning names, and raises exactly when the model does *)
Theorem C08_gen_vm_prog_model : forall pagesize d zoneinfo,
  run_vm d (calc_avail pagesize d zoneinfo) gen_vm_prog = omap vm_tuple (vm_of_dict pagesize d zoneinfo).
Proof. exact gen_vm_prog_model. Qed.
Print Assumptions C08_gen_vm_prog_model.

(* with the parser in front, on ANY meminfo bytes *)
Theorem C08_gen_virtual_memory_model : forall lenient pagesize meminfo zoneinfo,
  (do d <- parse_meminfo lenient meminfo; run_vm d (calc_avail pagesize d zoneinfo) gen_vm_prog) =
  omap vm_tuple (virtual_memory_z lenient pagesize meminfo zoneinfo).
Proof. exact gen_virtual_memory_model. Qed.
Print Assumptions C08_gen_virtual_memory_model.

(* the translated body against the specification: on every well-formed kernel record the demanded
   tuple (total, available, percent, used, free, active, inactive, buffers, cached, shared, slab)
   and the demanded warning names *)
Theorem C08_gen_virtual_memory_spec : forall k,
  wf_kernel k = true -> has_total_free k = true -> float_exact k = true ->
  (do d <- parse_meminfo true (k_meminfo (k_mem k));
   run_vm d (calc_avail (k_pagesize k) d (zs_of_opt (option_map k_zoneinfo (k_zone k)))) gen_vm_prog)
  = Val (vm_tuple (spec_vm k)).
Proof. exact gen_virtual_memory_spec. Qed.
Print Assumptions C08_gen_virtual_memory_spec.

(* svmem's field order in the source is the order in which [vm_tuple] lists the record *)
Theorem C08_gen_svmem_fields :
  gen_svmem_fields = [bs "total"; bs "available"; bs "percent"; bs "used"; bs "free"; bs "active"; bs "inactive";
                      bs "buffers"; bs "cached"; bs "shared"; bs "slab"].
Proof. exact gen_svmem_fields_model. Qed.
Print Assumptions C08_gen_svmem_fields.

(* ------------------------------------------------------------------ one call = one reading of /proc/meminfo
   [serve n] = what the n-th open of {procfs}/meminfo inside ONE call delivers (None: the open fails): the file
   may change, become malformed or vanish between two opens.  Every field is the demanded answer for the FIRST
   snapshot, whatever the later opens deliver (the translated body above contains no second read:
   calculate_avail_vmem receives the parsed dict). *)
Theorem C08_vm_first_snapshot : forall k (serve : nat -> option bytes),
  wf_kernel k = true -> has_total_free k = true -> float_exact k = true ->
  serve 0%nat = Some (k_meminfo (k_mem k)) ->
  virtual_memory_opens (k_pagesize k) serve (option_map k_zoneinfo (k_zone k)) = Val (spec_vm k).
Proof. exact vm_first_snapshot. Qed.
Print Assumptions C08_vm_first_snapshot.

Theorem C08_swap_first_snapshot : forall k (serve : nat -> option bytes),
  wf_kernel k = true -> serve 0%nat = Some (k_meminfo (k_mem k)) ->
  swap_memory_opens (k_pagesize k) serve (k_sysinfo k) (option_map k_vmstat (k_vm k)) = Val (spec_swap k).
Proof. exact swap_first_snapshot. Qed.
Print Assumptions C08_swap_first_snapshot.
