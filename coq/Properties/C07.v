(* C07 -- CPU times and CPU percentages are exact shares of elapsed time.
   Statements only; proofs live in C07/Proofs*.v.  Model: C07/Model.v (transcription of
   psutil/_pslinux.py cpu_times/per_cpu_times and psutil/__init__.py cpu_percent,
   cpu_times_percent, Process.cpu_percent), specification: C07/Spec.v (kernel printer
   k_stat of /proc/stat, tick-level formulas).  Seconds and percentages are exact
   rationals; float rounding is outside the model (compared within one rounding step). *)
From PV Require Import C07.SpecLife C07.ProofsParse C07.ProofsArith C07.ProofsState C07.ProofsScript C07.ProofsLife C07.SpecBlock C07.ProofsBlock C07.ProofsNested C07.ProofsSub Gen.C07_Tables C07.PyGen C07.ProofsGen.
Local Open Scope Q_scope.

(* ---- cpu_times(): every /proc/stat the kernel can print (any CPUs, nf >= 7 decimal counters
   per line of any size, any tail lines): each named counter, divided by CLOCK_TICKS, in order *)
Theorem C07_cpu_times_roundtrip : forall clk nf r, wf_kstat nf r = true ->
  cpu_times clk (nf_of (k_stat r)) (k_stat r) = Val (map (secs clk) (map dec_val (firstn 10 (ks_total r)))).
Proof. exact cpu_times_roundtrip. Qed.
Print Assumptions C07_cpu_times_roundtrip.

(* ---- cpu_times(percpu=True): one tuple per cpuN line, in kernel order, tail lines ignored *)
Theorem C07_per_cpu_times_roundtrip : forall clk nf r, wf_kstat nf r = true ->
  per_cpu_times clk (nf_of (k_stat r)) (k_stat r)
  = Val (map (fun c => map (secs clk) (map dec_val (firstn 10 (snd c)))) (ks_cpus r)).
Proof. exact per_cpu_times_roundtrip. Qed.
Print Assumptions C07_per_cpu_times_roundtrip.

(* the tuple has 7 fields plus steal / guest / guest_nice as the kernel prints them (at most 10) *)
Theorem C07_field_count : forall nf r, wf_kstat nf r = true -> nf_of (k_stat r) = Nat.min nf 10.
Proof. exact nf_of_kstat. Qed.
Print Assumptions C07_field_count.

(* ---- cpu_percent between two samples (tick counts s1, s2 of 7..10 counters):
   100 * busy / total over clipped deltas, busy = user+nice+system+irq+softirq+steal,
   total = busy + idle + iowait (guest, guest_nice not counted twice); 0 when total = 0 *)
Theorem C07_percent_formula : forall clk s1 s2,
  length s1 = length s2 -> (7 <= length s1 <= 10)%nat ->
  calc_percent (map (secs clk) s1) (map (secs clk) s2)
  == (let d := zipw (fun a b => Z.max 0 (b - a)) s1 s2 in
      let busy := (tk iUSER d + tk iNICE d + tk iSYSTEM d + tk iIRQ d + tk iSOFTIRQ d + tk iSTEAL d)%Z in
      let total := (busy + tk iIDLE d + tk iIOWAIT d)%Z in
      if (total =? 0)%Z then 0 else inject_Z (100 * busy) / inject_Z total).
Proof. exact percent_formula. Qed.
Print Assumptions C07_percent_formula.

Theorem C07_percent_bounds : forall clk s1 s2,
  length s1 = length s2 -> (7 <= length s1 <= 10)%nat ->
  0 <= calc_percent (map (secs clk) s1) (map (secs clk) s2) <= 100.
Proof. exact percent_bounds. Qed.
Print Assumptions C07_percent_bounds.

(* ---- a counter that went backwards (or stood still) contributes a zero delta, for any
   rational samples; busy and total are sums of these deltas (C07_percent_formula) *)
Theorem C07_backwards_counts_zero : forall (t1 t2 : list Q) i a b,
  nth_error t1 i = Some a -> nth_error t2 i = Some b -> b <= a ->
  exists x, nth_error (deltas t1 t2) i = Some x /\ x == 0.
Proof. exact backwards_counts_zero_model. Qed.
Print Assumptions C07_backwards_counts_zero.

(* ---- cpu_times_percent: every value within [0,100], for any two samples whatsoever *)
Theorem C07_times_percent_bounds : forall t1 t2 : list Q,
  Forall (fun x => 0 <= x <= 100) (calc_times_percent t1 t2).
Proof. exact times_percent_bounds. Qed.
Print Assumptions C07_times_percent_bounds.

(* once at least one CPU-second (clk ticks) elapsed: each share is 100*delta/total (capped at 100) ... *)
Theorem C07_times_percent_formula : forall clk s1 s2,
  length s1 = length s2 -> (7 <= length s1 <= 10)%nat ->
  (Zpos clk <= spec_total (dticks s1 s2))%Z ->
  Forall2 Qeq (calc_times_percent (map (secs clk) s1) (map (secs clk) s2))
              (map (fun x => Qmin (inject_Z (100 * x) / inject_Z (spec_total (dticks s1 s2))) 100) (dticks s1 s2)).
Proof. exact times_percent_formula_inl. Qed.
Print Assumptions C07_times_percent_formula.

(* ... and the shares of user, nice, system, idle, iowait, irq, softirq, steal add up to exactly 100 *)
Theorem C07_times_percent_shares : forall clk s1 s2,
  length s1 = length s2 -> (7 <= length s1 <= 10)%nat ->
  (Zpos clk <= spec_total (dticks s1 s2))%Z ->
  qsum (firstn 8 (calc_times_percent (map (secs clk) s1) (map (secs clk) s2))) == 100.
Proof. exact times_percent_shares. Qed.
Print Assumptions C07_times_percent_shares.

(* the full statement -- "whenever any time elapsed, however short" (0 < total instead of
   clk <= total) -- is FALSE of the code: known finding cpu_times_percent-subsecond.
   Witness: 20 ticks at 100 ticks/s; the shares add up to 20 where the property demands 100. *)
Theorem C07_times_percent_refuted :
  exists clk s1 s2, length s1 = length s2 /\ (7 <= length s1 <= 10)%nat
    /\ (0 < spec_total (dticks s1 s2) < Zpos clk)%Z
    /\ qsum (firstn 8 (calc_times_percent (map (secs clk) s1) (map (secs clk) s2))) == 20
    /\ qsum (firstn 8 (spec_shares s1 s2)) == 100.
Proof. exact times_percent_refuted. Qed.
Print Assumptions C07_times_percent_refuted.

(* the demanded shares themselves: in [0,100], adding up to 100 whenever ANY time elapsed *)
Theorem C07_demanded_shares : forall s1 s2,
  length s1 = length s2 -> (7 <= length s1 <= 10)%nat ->
  Forall (fun x => 0 <= x <= 100) (spec_shares s1 s2)
  /\ ((0 < spec_total (dticks s1 s2))%Z -> qsum (firstn 8 (spec_shares s1 s2)) == 100).
Proof. exact demanded_shares. Qed.
Print Assumptions C07_demanded_shares.

(* nothing moved: all shares 0 *)
Theorem C07_times_percent_zero : forall clk s1 s2,
  Forall (fun x => x = 0%Z) (dticks s1 s2) ->
  Forall2 Qeq (calc_times_percent (map (secs clk) s1) (map (secs clk) s2)) (map (fun _ => 0) (dticks s1 s2)).
Proof. exact times_percent_zero_inl. Qed.
Print Assumptions C07_times_percent_zero.

(* ---- each calling thread is measured against its own previous sample, for all four
   functions/forms: calls by other threads (any number, any kind, blocking or not) neither
   touch thread t's samples nor change the result of t's next call.  n = number of counters
   per line, which the kernel never changes at run time. *)
Theorem C07_other_thread_untouched : forall clk st e t,
  e_tid e <> t -> view t (fst (step clk st e)) = view t st.
Proof. exact step_other_thread. Qed.
Print Assumptions C07_other_thread_untouched.

Theorem C07_per_thread_frame : forall clk n st others e,
  memo_ok n st ->
  (forall o, In o others -> e_tid o <> e_tid e /\ nf_of (e_k1 o) = n) ->
  nf_of (e_k1 e) = n ->
  snd (step clk (run_state clk st others) e) = snd (step clk st e).
Proof. exact per_thread_frame. Qed.
Print Assumptions C07_per_thread_frame.

(* negative interval: ValueError, state untouched (cpu_percent / cpu_times_percent, and Process below) *)
Theorem C07_negative_interval : forall clk st e,
  e_fn e <> FTimes -> e_iv e = INeg -> step clk st e = (st, Exc ValueError).
Proof. exact step_negative. Qed.
Print Assumptions C07_negative_interval.

(* ---- THE SCRIPT THEOREM.  psutil is imported by thread mt while the kernel shows k0
   (imp = Some (mt, k0); None = maps emptied), then any number of threads issue any sequence of
   cpu_times / cpu_percent / cpu_times_percent calls (percpu or not; interval None, 0, > 0 with the
   kernel moving from k1 to k2 during the sleep, < 0) over any /proc/stat contents the kernel can
   print.  The model's results are the demanded ones: spec_run gives every call the value
   computed from the kernel state at the call and the state sampled by the SAME thread's previous
   call in the SAME series (the import-time state for the importing thread's first call, the
   current state -- hence 0.0 -- for a thread without one), found by scanning the history.
   Hypotheses, all decidable (script_ok / imp_wf, coq/C07/Spec.v): every kernel state has nf >= 7
   decimal counters per cpu line and the same online CPU set ids; and, for cpu_times_percent calls
   only, each compared pair has at least one CPU-second elapsed or did not move at all -- the class
   excluded is exactly the known finding (C07_times_percent_refuted). *)
Theorem C07_script_all_threads : forall clk nf ids imp evs,
  imp_wf nf ids imp = true -> script_ok clk nf ids imp [] evs = true ->
  Forall2 (out_eq sres_eq)
          (run clk (sys_start clk (option_map (fun x => (fst x, k_stat (snd x))) imp)) (map to_event evs))
          (spec_run clk imp [] evs).
Proof. exact run_spec. Qed.
Print Assumptions C07_script_all_threads.

(* first calls as documented: the importing thread is measured against the import-time sample
   in all four series; every other thread has no sample; without a sample cpu_percent() is 0.0 *)
Theorem C07_first_call_importing_thread : forall mt k0 f p, prev_sample (Some (mt, k0)) [] mt f p = Some k0.
Proof. exact first_call_importer. Qed.
Print Assumptions C07_first_call_importing_thread.

Theorem C07_first_call_other_thread : forall imp t f p,
  match imp with Some (mt, _) => t <> mt | None => True end -> prev_sample imp [] t f p = None.
Proof. exact first_call_other. Qed.
Print Assumptions C07_first_call_other_thread.

Theorem C07_no_previous_sample_zero : forall clk imp hist e,
  ke_fn e = FPercent -> ke_percpu e = false -> ke_iv e = INone \/ ke_iv e = IZero ->
  prev_sample imp hist (ke_tid e) FPercent false = None ->
  spec_result clk imp hist e = Val (RNum 0).
Proof. exact no_sample_zero. Qed.
Print Assumptions C07_no_previous_sample_zero.

Theorem C07_proc_negative_interval : forall clk st e, pe_iv e = INeg -> proc_step clk st e = (st, Exc ValueError).
Proof. exact proc_negative. Qed.
Print Assumptions C07_proc_negative_interval.

(* ---- THREAD LIFETIMES.  Threads are named by an identity that is never reused.  A history
   (lev) is made of calls and of the events "thread starts and the OS gives it ident i", "thread
   exits", "its threading.Thread object is collected".  The code as it is now (/repo d2712e2)
   keeps the previous samples in thread-local storage: a call is keyed by the calling thread
   (lev_event); the code before that commit keyed four dicts by ident (lev_event_ident, LEGACY). *)

(* lifetime events are nothing to the code (no hook): the state after them is the state before *)
Theorem C07_lifetime_events_are_noops : forall clk st x levs,
  lev_event x = None -> run_l clk st (map lev_event (x :: levs)) = run_l clk st (map lev_event levs).
Proof. exact life_events_noop. Qed.
Print Assumptions C07_lifetime_events_are_noops.

(* THE SCRIPT THEOREM OVER LIFETIME HISTORIES, full strength: whatever threads start and exit,
   whichever ident the OS hands to whom, whenever Thread objects are collected, the results of
   the code are those demanded thread by thread -- each thread against its own previous sample of
   the series, the import counting for the importing thread only, a thread without a sample
   (new thread, recycled ident or not) against "now".  Only the hypotheses of
   C07_script_all_threads remain (field count, CPU set, no sub-second cpu_times_percent pair). *)
Theorem C07_script_with_thread_lifetimes : forall clk nf ids m levs,
  imp_wf nf ids (imp_th m) = true -> script_ok clk nf ids (imp_th m) [] (map relab (calls levs)) = true ->
  Forall2 (out_eq sres_eq)
          (run_l clk (sys_start clk (option_map (fun x => (fst x, k_stat (snd x))) (imp_th m))) (map lev_event levs))
          (spec_run clk (imp_th m) [] (map relab (calls levs))).
Proof. exact life_script. Qed.
Print Assumptions C07_script_with_thread_lifetimes.

(* LEGACY, ident-keyed dicts.  What the OS guarantees (life_wf: threads alive at the same time
   have different idents, a thread keeps its ident and starts once, only live threads call) is
   enough for THE BASELINE INVARIANT: after any history of starts, exits, ident hand-overs,
   Thread-object collections and calls, a live thread that has a sample of its own in a series
   (find_th, by identity) is looked up BY IDENT to exactly that sample ... *)
Theorem C07_own_baseline_kept : forall al0 pre th e post f p h,
  al_wf al0 = true -> life_wf al0 (map fst al0) (pre ++ LCall th e :: post) = true ->
  find_th th f p (snd (life_run al0 (map fst al0) [] pre)) = Some h ->
  find_id (ke_tid e) f p (snd (life_run al0 (map fst al0) [] pre)) = Some h.
Proof. exact own_baseline_kept. Qed.
Print Assumptions C07_own_baseline_kept.

(* ... so the ident-keyed code met the thread-by-thread demand on every history in which no
   non-blocking call by a thread WITHOUT a sample of its own found one under its ident (fresh_ok) ... *)
Theorem C07_legacy_ident_keyed_script : forall clk nf ids m al0 levs,
  al_wf al0 = true -> life_wf al0 (map fst al0) levs = true -> fresh_ok m [] levs = true ->
  imp_wf nf ids (imp_id m) = true -> script_ok clk nf ids (imp_id m) [] (map snd (calls levs)) = true ->
  Forall2 (out_eq sres_eq)
          (run_l clk (sys_start clk (option_map (fun x => (fst x, k_stat (snd x))) (imp_id m))) (map lev_event_ident levs))
          (spec_run clk (imp_th m) [] (map relab (calls levs))).
Proof. exact legacy_life_script. Qed.
Print Assumptions C07_legacy_ident_keyed_script.

(* ... and failed outside (the defect repaired by d2712e2): a thread given the ident of a dead
   thread was measured, at its first non-blocking cpu_percent(), against the dead thread's sample
   (100/3) where 0 is demanded -- and 0 is what the code as it is now answers. *)
Theorem C07_ident_reuse_refuted :
  exists clk nf ids m al0 levs,
    al_wf al0 = true /\ life_wf al0 (map fst al0) levs = true
    /\ imp_wf nf ids (imp_id m) = true /\ script_ok clk nf ids (imp_id m) [] (map snd (calls levs)) = true
    /\ fresh_ok m [] levs = false
    /\ (exists q, nth_error (run_l clk (sys_start clk (option_map (fun x => (fst x, k_stat (snd x))) (imp_id m))) (map lev_event_ident levs)) 1
                  = Some (Val (RNum q)) /\ ~ (q == 0))
    /\ nth_error (spec_run clk (imp_th m) [] (map relab (calls levs))) 1 = Some (Val (RNum 0))
    /\ nth_error (run_l clk (sys_start clk (option_map (fun x => (fst x, k_stat (snd x))) (imp_th m))) (map lev_event levs)) 1
       = Some (Val (RNum 0)).
Proof. exact ident_reuse_refuted. Qed.
Print Assumptions C07_ident_reuse_refuted.

(* ---- Process.cpu_percent: 0.0 on the first (non-blocking) call of an object *)
Theorem C07_proc_first_call : forall clk e,
  pe_iv e = INone \/ pe_iv e = IZero -> snd (proc_step clk p_init e) = Val 0.
Proof. exact proc_first_call. Qed.
Print Assumptions C07_proc_first_call.

(* one call on an object that holds its previous reading [prev] (if any), whatever cpu_count()
   answers now or answered before.  A reading is the wall clock r_t and the five tick counters of
   the pcputimes tuple (r_u user, r_s system, r_cu children_user, r_cs children_system, r_io iowait),
   ALL arbitrary.  The value is 100 * (delta user + delta system)/CLOCK_TICKS / delta wall since that
   reading (blocking: over the interval), 0 if no wall time elapsed -- children_user,
   children_system and iowait do not count, however they move; afterwards the object holds this
   call's last reading. *)
Theorem C07_proc_percent_formula : forall clk st e prev,
  let pct (a b : preading) :=
    if qzero (r_t b - r_t a) then 0
    else 100 * secs clk ((r_u b - r_u a) + (r_s b - r_s a)) / (r_t b - r_t a) in
  match prev with Some p => holds clk st p | None => st = p_init end ->
  pe_iv e <> INeg ->
  out_eq Qeq (snd (proc_step clk st e))
             (match pe_iv e with
              | IPos => Val (pct (pe_r1 e) (pe_r2 e))
              | _ => match prev with Some p => Val (pct p (pe_r1 e)) | None => Val 0 end
              end)
  /\ holds clk (fst (proc_step clk st e)) (pe_last e).
Proof. exact proc_step_spec. Qed.
Print Assumptions C07_proc_percent_formula.

(* the demanded value does not depend on the three other counters of the tuple *)
Theorem C07_proc_decoys_do_not_count : forall clk a b cu cs io cu' cs' io',
  spec_proc_pct clk {| r_t := r_t a; r_u := r_u a; r_s := r_s a; r_cu := cu; r_cs := cs; r_io := io |}
                    {| r_t := r_t b; r_u := r_u b; r_s := r_s b; r_cu := cu'; r_cs := cs'; r_io := io' |}
  = spec_proc_pct clk a b.
Proof. exact spec_proc_pct_decoys. Qed.
Print Assumptions C07_proc_decoys_do_not_count.

(* every sequence of calls (blocking, non-blocking, negative intervals) on any number of Process
   objects, with any cpu_count() answers (also changing between calls -- the defect repaired by
   /repo commit 8e92b46): each result is the demanded one (spec_proc_pct: delta(user+system) only,
   whatever children_user / children_system / iowait do), computed from the history of that
   object alone (spec_proc_run looks only at earlier calls on the same object) *)
Theorem C07_proc_percent_all_sequences : forall clk evs,
  Forall2 (out_eq Qeq) (proc_run clk [] evs) (spec_proc_run clk [] evs).
Proof. exact proc_run_spec. Qed.
Print Assumptions C07_proc_percent_all_sequences.

(* ---- Process.cpu_times() / Process.cpu_percent() INSIDE oneshot() / as_dict() /
   process_iter(attrs=...) blocks.  While a block is open the platform layer keeps the parsed
   /proc/<pid>/stat record (pb_stat) and the front end keeps cpu_times() (pb_fe); cpu_percent()
   goes through the platform cpu_times(), which reads that record. *)

(* THE READER INVARIANT: the cached stat record is never modified by a reader -- cpu_times(),
   cpu_percent() in any form, failing or not, leave it exactly as it is *)
Theorem C07_stat_cache_never_modified_by_reader : forall clk st ev c,
  pb_stat st = Some c -> (match ev with BTimes _ | BPercent _ => True | _ => False end) ->
  pb_stat (fst (pb_step clk st ev)) = Some c.
Proof. exact stat_cache_never_modified. Qed.
Print Assumptions C07_stat_cache_never_modified_by_reader.

(* the platform cpu_times() is a pure function of the record it reads: the five counters, each
   divided by CLOCK_TICKS once *)
Theorem C07_platform_cpu_times_reads_only : forall clk st f,
  snd (plat_cpu_times clk st f) = times_of clk (snd (plat_stat st f)).
Proof. exact plat_cpu_times_pure. Qed.
Print Assumptions C07_platform_cpu_times_reads_only.

(* every history of block entries/exits (nested too), cpu_times() and cpu_percent() calls on an
   object: each value is the demanded one (spec_pb_run: inside a block the counters are those of the
   block's first read; cpu_times() = counters/CLOCK_TICKS; cpu_percent() = 100*delta(utime+stime)/
   CLOCK_TICKS/delta(wall) since the object's previous call) and the sample kept for the next
   call -- in particular for a plain call after the block -- is the true one *)
Theorem C07_block_values_exact : forall clk l,
  Forall2 (out_eq pbres_eq) (pb_run clk pb_init l) (spec_pb_run clk g_init l).
Proof. exact block_values_exact. Qed.
Print Assumptions C07_block_values_exact.

(* BLOCK TRANSPARENCY: when /proc/<pid>/stat does not change while a block is open (const_blocks,
   decidable), the results are those of the same calls with every block marker removed *)
Theorem C07_oneshot_block_transparent : forall clk l,
  const_blocks 0 None l = true -> pb_run clk pb_init l = pb_run clk pb_init (erase l).
Proof. exact block_transparent. Qed.
Print Assumptions C07_oneshot_block_transparent.

(* ---- RE-ENTRANCY WITHIN ONE THREAD.  While a blocking cpu_percent(interval > 0) /
   cpu_times_percent(interval > 0) sleeps, the same thread (signal handler, gc callback, __del__,
   trace hook) may call these functions again (bevent: the blocking call, the calls nested in its
   sleep, whether the sleep is left by an exception). *)

(* the blocking call's answer is independent of ANY calls nested in its sleep (its first sample is
   a local of the call): one answer r, whatever is nested *)
Theorem C07_blocking_answer_independent_of_nested_calls : forall clk st e,
  is_blocking e = true ->
  exists r, forall nested, exists pre,
      snd (bstep clk st {| be_ev := e; be_nested := nested; be_raise := false |}) = pre ++ [r].
Proof. exact blocking_answer_independent. Qed.
Print Assumptions C07_blocking_answer_independent_of_nested_calls.

(* an exception leaving the sleep: the blocking call fails and stores nothing -- the thread's samples
   are exactly what the nested calls left *)
Theorem C07_interrupted_sleep_stores_nothing : forall clk st e nested t1,
  is_blocking e = true -> first_read clk (ensure_nf (memo st) (e_k1 e)) e = Val t1 ->
  bstep clk st {| be_ev := e; be_nested := nested; be_raise := true |}
  = (run_state clk (set_memo st (Some (ensure_nf (memo st) (e_k1 e)))) nested,
     run clk (set_memo st (Some (ensure_nf (memo st) (e_k1 e)))) nested ++ [Exc RuntimeError]).
Proof. exact interrupted_sleep_stores_nothing. Qed.
Print Assumptions C07_interrupted_sleep_stores_nothing.

(* the script theorem with nested calls: every result is the demanded one (spec_brun: nested calls
   are measured against what the thread has stored; the blocking call reports between its own two
   samples and stores its last sample after theirs, or nothing when interrupted) *)
Theorem C07_script_with_nested_calls : forall clk nf ids imp l,
  imp_wf nf ids imp = true -> bscript_ok clk nf ids imp [] l = true ->
  Forall2 (out_eq sres_eq)
          (brun clk (sys_start clk (option_map (fun x => (fst x, k_stat (snd x))) imp)) (map to_bevent l))
          (spec_brun clk imp [] l).
Proof. exact nested_script. Qed.
Print Assumptions C07_script_with_nested_calls.

(* ---- USER SUBCLASSES of psutil.Process (object protocols).  pb_run_sub ovr ov: the block machine
   for a subclass; ovr = it overrides the public cpu_times(), ov = what its cpu_times() makes of the
   library's figures. *)

(* source-level fact, re-checked on every run against the code under test (table generated by
   props/_c07_tables.py from the ast of psutil/__init__.py): everything Process.cpu_percent reaches
   through `self` is private state or the platform layer -- never a public, overridable name *)
Theorem C07_cpu_percent_samples_are_private :
  forallb (fun m => negb (String.eqb (fst m) "cpu_percent"%string)
                    || forallb (fun u => match snd u with KPublic => false | _ => true end) (snd m)) c07_self_uses = true
  /\ existsb (fun m => String.eqb (fst m) "cpu_percent"%string
                       && existsb (fun u => String.eqb (fst (fst u)) "_proc.cpu_times"%string && snd (fst u)) (snd m)) c07_self_uses = true.
Proof. split; vm_compute; reflexivity. Qed.
Print Assumptions C07_cpu_percent_samples_are_private.

(* ... and the model says the same: the answers of cpu_percent() are the same whatever the
   subclass's cpu_times() returns (children-inclusive figures, a dict, another tuple) *)
Theorem C07_percent_ignores_public_cpu_times : forall ovr ov1 ov2 clk l st,
  pcts (pb_run_sub ovr ov1 clk st l) = pcts (pb_run_sub ovr ov2 clk st l).
Proof. exact percent_ignores_public_cpu_times. Qed.
Print Assumptions C07_percent_ignores_public_cpu_times.

(* a subclass that does not override cpu_times() is Process, inside and outside blocks *)
Theorem C07_subclass_without_override_is_process : forall clk l st,
  pb_run_sub false (fun t => t) clk st l = pb_run clk st l.
Proof. exact sub_without_override_is_process. Qed.
Print Assumptions C07_subclass_without_override_is_process.

(* an overriding subclass gets the cpu_percent() answers of Process as long as no block is entered *)
Theorem C07_overriding_subclass_outside_blocks : forall ov clk l st,
  no_blocks l = true -> pcts (pb_run_sub true ov clk st l) = pcts (pb_run clk st l).
Proof. exact overriding_sub_outside_blocks. Qed.
Print Assumptions C07_overriding_subclass_outside_blocks.

(* ==== Round 2: the arithmetic TRANSLATED from the source under test (Gen/C07_Tables.v, generated on every py_run by
   props/_c07_gen.py from the ast of psutil/__init__.py; language and interpreter: C07/PyGen.v) computes the
   functions of the hand-written model, for all inputs *)

(* _cpu_tot_time(times) = sum(times) - guest - guest_nice, an absent field counting 0 *)
Theorem C07_gen_tot_time : forall l,
  run_fn no_calls c07_tot_prog "times" {| t_names := scputimes_names; t_vals := l |} = Val (tot_time l).
Proof. exact gen_tot_time. Qed.
Print Assumptions C07_gen_tot_time.

(* _cpu_busy_time(times) = _cpu_tot_time(times) - idle - iowait (the helper call goes to the translated _cpu_tot_time) *)
Theorem C07_gen_busy_time : forall l, (4 <= length l)%nat ->
  run_fn c07_call1 c07_busy_prog "times" {| t_names := scputimes_names; t_vals := l |} = Val (busy_time l).
Proof. exact gen_busy_time. Qed.
Print Assumptions C07_gen_busy_time.

(* the loop body of _cpu_times_deltas on one field: max(0, t2.f - t1.f) *)
Theorem C07_gen_delta_body : forall a b,
  py_run no_calls c07_delta_body_prog (env_ab a b) = Val (VNum (Qmax 0 (b - a))).
Proof. exact gen_delta_body. Qed.
Print Assumptions C07_gen_delta_body.

(* the model's deltas are that translated body applied field by field *)
Theorem C07_gen_deltas_fieldwise : forall t1 t2,
  map (fun ab => py_run no_calls c07_delta_body_prog (env_ab (fst ab) (snd ab))) (combine t1 t2)
  = map (fun q => Val (VNum q)) (deltas t1 t2).
Proof. exact gen_deltas_fieldwise. Qed.
Print Assumptions C07_gen_deltas_fieldwise.

(* cpu_percent.calculate(t1, t2): the translated closure (deltas, the two helpers, busy/all*100,
   ZeroDivisionError -> 0.0, round) is the model's calc_percent *)
Theorem C07_gen_calc_percent : forall t1 t2, (4 <= length (deltas t1 t2))%nat ->
  py_run c07_call2 c07_percent_calc_prog (env_t t1 t2) = Val (VNum (calc_percent t1 t2)).
Proof. exact gen_calc_percent. Qed.
Print Assumptions C07_gen_calc_percent.

(* cpu_times_percent.calculate(t1, t2): scale = 100/max(1, all_delta), per field min(max(0, fd*scale), 100), in field order *)
Theorem C07_gen_calc_times_percent : forall t1 t2,
  py_run c07_call2 c07_times_percent_calc_prog (env_t t1 t2) = Val (VTup (calc_times_percent t1 t2)).
Proof. exact gen_calc_times_percent. Qed.
Print Assumptions C07_gen_calc_times_percent.

(* the tail of Process.cpu_percent: num_cpus = cpu_count() or 1, delta_proc, delta_time, the division with its
   ZeroDivisionError handler and the num_cpus factor give the answer of the model's proc_finish (n = cpu_count(), None as 0) *)
Theorem C07_gen_proc_percent : forall n st1 pt1 st2 pt2, (0 <= n)%Z ->
  py_run no_calls c07_proc_percent_prog (env_p n st1 pt1 st2 pt2)
  = omap VNum (snd (proc_finish st1 pt1 st2 pt2 (ncpu_eff n))).
Proof. exact gen_proc_percent. Qed.
Print Assumptions C07_gen_proc_percent.
