(* C17 -- stub while the harness is brought up *)
From PV Require Import C17.Spec C17.Proofs.
Theorem C17_stub : True. Proof. exact placeholder_true. Qed.
Print Assumptions C17_stub.
