(* C17 -- the C extension is memory-safe and decodes OS records faithfully.
   Statements only; proofs live in C17/Proofs*.v.  Model: C17/Model.v (transcription of the
   decoding logic and of the index / integer arithmetic of psutil's C sources and of the
   Python code around it), specification: C17/Spec.v.  What these theorems cannot say --
   anything about the compiled code itself -- is delegated to the sanitizer runs of
   props/C17.py.  Names without suffix are the model of the code as it is now (after the
   repairs e85352e, a87b45e, 301715a, 0d52d5b); [_legacy] names model the code before them
   and occur only in the theorems about the defects that were repaired. *)
From PV Require Import C17.Spec C17.Proofs C17.ProofsMnt C17.ProofsThr Gen.C17_Tables.

(* ---------------------------------------------------------------- users() *)
(* every file of well-formed login records: user, terminal, host (':0' / ':0.0' as localhost),
   start time and PID of exactly the USER_PROCESS records, each string cut at its field width;
   in particular no read leaves a record *)
Theorem C17_users_decode : forall rs,
  forallb wf_urec rs = true -> users (k_utmp_file rs) = MOk (spec_users rs).
Proof. exact users_decode. Qed.
Print Assumptions C17_users_decode.

(* fixed defect (e85352e): the legacy code was right only when no string field of a USER_PROCESS
   record fills its whole width ... *)
Theorem C17_users_legacy_decode : forall rs,
  forallb wf_urec rs = true -> forallb terminated rs = true ->
  users_legacy (k_utmp_file rs) = MOk (spec_users rs).
Proof. exact users_legacy_decode. Qed.
Print Assumptions C17_users_legacy_decode.

(* ... a full-width field was read across the field border ... *)
Theorem C17_users_legacy_fullwidth_refuted : exists rs,
  forallb wf_urec rs = true /\
  exists rows, users_legacy (k_utmp_file rs) = MOk rows /\ rows <> spec_users rs /\
               map u_user rows = [repeat 85 32 ++ bs "example.org"].
Proof. exact users_legacy_fullwidth_refuted. Qed.
Print Assumptions C17_users_legacy_fullwidth_refuted.

(* ... and, with no NUL in the rest of the record, past the end of the record *)
Theorem C17_users_legacy_oob_refuted : exists rs,
  forallb wf_urec rs = true /\ users_legacy (k_utmp_file rs) = MOutOfBounds.
Proof. exact users_legacy_oob_refuted. Qed.
Print Assumptions C17_users_legacy_oob_refuted.

(* ---------------------------------------------------------------- buffers *)
(* PSUTIL_STRNCPY(dst, src, n), n >= 1: every write index is < n, for every source string,
   and dst holds a terminated string afterwards whatever it held before *)
Theorem C17_strncpy_in_bounds : forall src n, (1 <= n)%nat ->
  exists ws, psutil_strncpy src n = Some ws /\ in_bounds n ws /\
  forall junk, length junk = n ->
    exists s, c_str (apply_writes junk ws) = Some s /\ (length s < n)%nat.
Proof. exact strncpy_safe. Qed.
Print Assumptions C17_strncpy_in_bounds.

(* ... and its content: the first min(len, n-1) bytes of the C string src, then NULs up to n; the string the
   callee sees is src cut at n-1 bytes *)
Theorem C17_strncpy_content : forall src n junk, (1 <= n)%nat -> length junk = n ->
  exists ws, psutil_strncpy src n = Some ws /\
             apply_writes junk ws = pad n (firstn (n - 1) (cut_nul src)) /\
             c_str (apply_writes junk ws) = Some (firstn (n - 1) (cut_nul src)).
Proof. exact strncpy_content. Qed.
Print Assumptions C17_strncpy_content.

(* the interface name handed to the ioctls: the first 15 bytes of the argument, for every argument and every
   previous content of ifr.ifr_name *)
Theorem C17_ifr_name : forall junk name, length junk = IFNAMSIZ -> contains 0 name = false ->
  ifr_name junk name = Some (firstn 15 name).
Proof. exact ifr_name_exact. Qed.
Print Assumptions C17_ifr_name.

(* MAC formatting: for every hardware address of 1..255 bytes all writes stay inside buf[NI_MAXHOST] *)
Theorem C17_mac_in_bounds : forall data,
  (1 <= length data <= 255)%nat -> in_bounds NI_MAXHOST (mac_writes data).
Proof. exact mac_in_bounds. Qed.
Print Assumptions C17_mac_in_bounds.

(* ... and the text is the lower-case hex pairs joined by ':', whatever the buffer held before *)
Theorem C17_mac_text : forall junk data,
  length junk = NI_MAXHOST -> (1 <= length data <= 255)%nat -> wf_bytes data = true ->
  mac_string junk data = Some (spec_mac data).
Proof. exact mac_string_exact. Qed.
Print Assumptions C17_mac_text.

(* psutil.net_if_addrs(): an address shorter than 6 bytes is completed with zero bytes, longer ones are left alone *)
Theorem C17_mac_padding : forall data, (1 <= length data)%nat -> wf_bytes data = true ->
  py_mac_pad (spec_mac data) = spec_mac (data ++ repeat 0 (6 - length data)).
Proof. exact py_mac_pad_exact. Qed.
Print Assumptions C17_mac_padding.

(* net_if_addrs() over ANY interface list with UTF-8 names (hardware addresses of any sll_halen up to 255, IP records, nodes
   without address or of unknown family, any flags): one row per node with an address of a known family, the hardware
   address shown with all its bytes, netmask, and broadcast or peer address by the flags *)
Theorem C17_net_if_addrs_rows : forall junk l,
  length junk = NI_MAXHOST -> forallb wf_ifa l = true -> forallb name_utf8 l = true ->
  c_net_if_addrs junk l = Val (spec_if_rows l).
Proof. exact c_net_if_addrs_exact. Qed.
Print Assumptions C17_net_if_addrs_rows.

(* finding (names are bytes; the kernel forbids only '/', ':', white space): an interface called d\xff\xfe makes
   net_if_addrs() raise for the whole list and net_if_stats() fail on the name it read itself from /proc/net/dev;
   with the proposed repair the same name goes through *)
Theorem C17_ifname_refuted :
  forallb wf_ifa [ifa_badname] = true /\
  c_net_if_addrs (repeat 255 NI_MAXHOST) [ifa_badname] = Exc UnicodeError /\
  net_if_stats_names false [map fs_esc (ifa_name ifa_badname)] = Exc UnicodeError /\
  net_if_stats_names true [map fs_esc (ifa_name ifa_badname)] = Val [ifa_name ifa_badname].
Proof. exact ifname_refuted. Qed.
Print Assumptions C17_ifname_refuted.

(* proposed repair (names out through the filesystem encoding, names in through PyUnicode_FSConverter): every interface
   list whatever bytes the names are made of; every name read from /proc/net/dev reaches the ioctl byte for byte *)
Theorem C17_net_if_addrs_rows_repaired : forall junk l,
  length junk = NI_MAXHOST -> forallb wf_ifa l = true -> c_net_if_addrs_fsnames junk l = Val (spec_if_rows l).
Proof. exact c_net_if_addrs_fsnames_exact. Qed.
Print Assumptions C17_net_if_addrs_rows_repaired.

Theorem C17_nic_name_roundtrip_repaired : forall b,
  wf_bytes b = true -> contains 0 b = false -> nic_name_in true (PStr (map fs_esc b)) = Val b.
Proof. exact nic_name_fs_roundtrip. Qed.
Print Assumptions C17_nic_name_roundtrip_repaired.

(* the Python layer only reorders the rows (sort by family) and completes link-layer addresses shorter than 6 bytes *)
Theorem C17_net_if_addrs_python : forall rows,
  Permutation.Permutation (py_net_if_addrs rows) (map pad_row rows)
  /\ (forall r, n_fam r <> AF_PACKET -> pad_row r = r)
  /\ (forall r data, n_fam r = AF_PACKET -> n_addr r = spec_mac data -> (1 <= length data)%nat ->
        wf_bytes data = true -> pad_row r = spec_pad_row r data).
Proof. exact (fun rows => conj (py_net_if_addrs_perm rows) (conj pad_row_other pad_row_link)). Qed.
Print Assumptions C17_net_if_addrs_python.

(* ---------------------------------------------------------------- CPU sets *)
(* CPU_SET on any C long: the bit touched is < 1024 (the size of cpu_set_t), or nothing is touched *)
Theorem C17_cpu_set_safe : forall value c, cpu_set_touch value = Some c -> 0 <= c < 1024.
Proof. exact cpu_set_touch_bound. Qed.
Print Assumptions C17_cpu_set_safe.

(* the cpu_set sizing loop: whatever the kernel answers, it ends within 25 rounds with a
   size that fits an int or with OverflowError; ncpus * 2 never overflows *)
Theorem C17_getaffinity_terminates : forall kernel_ok : Z -> bool,
  (exists n, aff_loop 25 kernel_ok 64 = AffOk n /\ 0 < n <= INT_MAX)
  \/ aff_loop 25 kernel_ok 64 = AffOverflowError.
Proof. exact getaffinity_terminates. Qed.
Print Assumptions C17_getaffinity_terminates.

(* the read-out loop returns exactly the set bits and never indexes past the mask *)
Theorem C17_affinity_readout : forall bits, aff_scan bits 0 (popcount bits) = Some (set_bits 0 bits).
Proof. exact affinity_readout. Qed.
Print Assumptions C17_affinity_readout.

(* ---------------------------------------------------------------- integers *)
(* check_pid_range for every Python int: None, OverflowError or ValueError, by range *)
Theorem C17_pid_range : forall z,
  check_pid_range (PInt z) =
    if (z <? INT_MIN) || (z >? INT_MAX) then Exc OverflowError
    else if z <? 0 then Exc ValueError else Val tt.
Proof. exact check_pid_range_int. Qed.
Print Assumptions C17_pid_range.

(* ... and for every Python object nothing but these and TypeError *)
Theorem C17_pid_range_total : forall v,
  check_pid_range v = Val tt \/ check_pid_range v = Exc OverflowError
  \/ check_pid_range v = Exc ValueError \/ check_pid_range v = Exc TypeError.
Proof. exact check_pid_range_total. Qed.
Print Assumptions C17_pid_range_total.

(* every entry point of _psutil_linux / _psutil_posix, every argument tuple: the outcome in the model is an
   exception, None or a call into the OS -- never undefined behaviour *)
Theorem C17_entry_points_defined : forall ep args, is_ub (c_entry ep args) = false.
Proof. exact entry_no_ub. Qed.
Print Assumptions C17_entry_points_defined.

(* ... and the same for any sequence of calls made in one process: the model keeps no state between calls, so
   what a call answers does not depend on the calls made before or after it (tied to the code by the 'seq' cases of
   the harness: same answers as in a fresh process, harness-owned descriptors untouched) *)
Theorem C17_entry_sequences : forall pre calls post,
  c_entry_seq true (pre ++ calls ++ post) = c_entry_seq true pre ++ c_entry_seq true calls ++ c_entry_seq true post
  /\ forallb (fun r => negb (is_ub r)) (c_entry_seq true calls) = true.
Proof. exact (fun pre calls post => conj (entry_seq_independent pre calls post) (entry_seq_no_ub calls)). Qed.
Print Assumptions C17_entry_sequences.

(* Process.ionice(ioclass, value): never undefined; an ioclass outside 0..3 is a ValueError; what reaches
   ioprio_set(2) is a C int, equal to class * 2^13 + data for the accepted pairs *)
Theorem C17_ionice_defined : forall pid ioclass value, is_ub (ionice_set pid ioclass value) = false.
Proof. exact ionice_no_ub. Qed.
Print Assumptions C17_ionice_defined.

Theorem C17_ionice_rejects : forall pid ioclass value,
  ~ (0 <= ioclass <= 3) -> ionice_set pid ioclass value = CExc ValueError.
Proof. exact ionice_rejects. Qed.
Print Assumptions C17_ionice_rejects.

Theorem C17_ioprio_value : forall c d,
  INT_MIN <= ioprio_value_u c d <= INT_MAX /\
  (0 <= c <= 3 -> 0 <= d <= 7 -> ioprio_value_u c d = c * 8192 + d).
Proof. exact (fun c d => conj (ioprio_value_u_range c d) (ioprio_value_u_valid c d)). Qed.
Print Assumptions C17_ioprio_value.

(* fixed defect (a87b45e): the legacy signed 'ioclass << 13' is defined exactly for 0 <= ioclass < 2^18 ... *)
Theorem C17_ioprio_legacy_shift : forall c d, ioprio_value c d = None <-> ~ (0 <= c < 2 ^ 18).
Proof. exact ioprio_value_none. Qed.
Print Assumptions C17_ioprio_legacy_shift.

(* ... that was the only undefined behaviour of the legacy entry points ... *)
Theorem C17_entry_points_legacy : forall ep args w, c_entry_legacy ep args = CUB w ->
  ep = EpIoprioSet /\ exists p c d cz, args = [p; c; d] /\ conv_i c = Val cz /\ ~ (0 <= cz < 2 ^ 18).
Proof. exact entry_legacy_ub. Qed.
Print Assumptions C17_entry_points_legacy.

(* ... reachable directly and through the public ionice(), whose legacy Python layer let such a class through *)
Theorem C17_entry_points_legacy_refuted : c_entry_legacy EpIoprioSet [PInt 0; PInt (-1); PInt 0] = CUB "shift".
Proof. exact entry_legacy_refuted. Qed.
Print Assumptions C17_entry_points_legacy_refuted.

Theorem C17_ionice_legacy_refuted : exists ioclass value,
  0 <= value <= 7 /\ ionice_set_legacy 0 ioclass value = CUB "shift".
Proof. exact ionice_legacy_refuted. Qed.
Print Assumptions C17_ionice_legacy_refuted.

(* ethtool speed: ((uint32_t)speed_hi << 16) | speed is defined for every answer and the speed reported is in [0, INT_MAX] *)
Theorem C17_nic_speed : forall hi lo, exists v, nic_speed hi lo = Some v /\ 0 <= v <= INT_MAX.
Proof. exact nic_speed_total. Qed.
Print Assumptions C17_nic_speed.

(* fixed defect (301715a): the legacy signed 'speed_hi << 16' was defined for speed_hi < 0x8000 only;
   SPEED_UNKNOWN (speed_hi = 0xFFFF) overflowed *)
Theorem C17_nic_speed_legacy : forall hi lo, 0 <= hi < 2 ^ 15 ->
  exists v, nic_speed_legacy hi lo = Some v /\ 0 <= v <= INT_MAX.
Proof. exact nic_speed_legacy_defined. Qed.
Print Assumptions C17_nic_speed_legacy.

Theorem C17_nic_speed_legacy_refuted :
  exists hi lo, 0 <= hi < 2 ^ 16 /\ 0 <= lo < 2 ^ 16 /\ nic_speed_legacy hi lo = None.
Proof. exact nic_speed_legacy_refuted. Qed.
Print Assumptions C17_nic_speed_legacy_refuted.

(* ---------------------------------------------------------------- interface flags *)
Theorem C17_net_if_flags : forall flags i name, 0 <= flags -> In (i, name) spec_iff ->
  (In name (net_if_flags flags) <-> Z.testbit flags i = true).
Proof. exact net_if_flags_exact. Qed.
Print Assumptions C17_net_if_flags.

(* ---------------------------------------------------------------- mount table *)
(* glibc's decode_name undoes the kernel's octal escapes, for every byte string *)
Theorem C17_mntent_roundtrip : forall s, decode_name (mangle s) = s.
Proof. exact decode_mangle. Qed.
Print Assumptions C17_mntent_roundtrip.

(* every mounts file printed from well-formed entries (non-empty device without '#') whose lines fit glibc's
   4096-byte buffer: getmntent() delivers exactly the entries (device, mount point, type, options) *)
Theorem C17_getmntent_exact : forall es,
  forallb wf_ment es = true -> forallb dev_ok es = true -> forallb short_line es = true ->
  getmntent_all (k_mounts es) = Val es.
Proof. exact getmntent_exact. Qed.
Print Assumptions C17_getmntent_exact.

(* the other side of the boundary: of a line longer than 4095 bytes exactly the first 4095 bytes are parsed ... *)
Theorem C17_getmntent_long_line : forall line,
  (4095 < length line)%nat -> mnt_line line = mnt_parse (firstn 4095 line).
Proof. exact mnt_line_long. Qed.
Print Assumptions C17_getmntent_long_line.

(* ... e.g. when the cut falls inside the mount point: device intact, mount point cut there, type and options empty *)
Theorem C17_getmntent_cut_in_mount_point : forall e,
  wf_ment e = true -> dev_ok e = true ->
  (length (mangle (m_dev e)) + 2 <= 4095 <= length (mangle (m_dev e)) + 1 + length (mangle (m_dir e)))%nat ->
  mnt_line (k_mount_line e) =
    Some {| m_dev := m_dev e;
            m_dir := decode_name (firstn (4095 - length (mangle (m_dev e)) - 1) (mangle (m_dir e)));
            m_type := []; m_opts := [] |}.
Proof. exact mnt_line_cut_in_dir. Qed.
Print Assumptions C17_getmntent_cut_in_mount_point.

(* ... and at the boundary itself: 4095 bytes exact; 4100 bytes still exact (only ' 0 0' is lost); one more byte
   and the options come back cut *)
Theorem C17_getmntent_boundary :
  length (k_mount_line (ment_len 4071)) = 4095%nat /\ mnt_line (k_mount_line (ment_len 4071)) = Some (ment_len 4071) /\
  length (k_mount_line (ment_len 4076)) = 4100%nat /\ mnt_line (k_mount_line (ment_len 4076)) = Some (ment_len 4076) /\
  length (k_mount_line (ment_len 4077)) = 4101%nat /\
  mnt_line (k_mount_line (ment_len 4077))
    = Some {| m_dev := bs "/dev/sda1"; m_dir := 47 :: repeat 120 4077; m_type := bs "ext4"; m_opts := bs "r" |}.
Proof. exact boundary_4095. Qed.
Print Assumptions C17_getmntent_boundary.

(* /proc/filesystems, every printed list ("nodev\t<name>" / "\t<name>" lines): the set psutil builds contains
   exactly the types listed without nodev, plus zfs *)
Theorem C17_filesystems_exact : forall fs, forallb wf_fs fs = true ->
  exists types, read_fstypes (k_filesystems fs) = Val types /\ forall t, mem_bytes t types = disk_backed fs t.
Proof. exact read_fstypes_exact. Qed.
Print Assumptions C17_filesystems_exact.

(* disk_partitions(all) end to end, for every printed /proc/filesystems, every mounts table and every answer [root] of the
   root-device lookup: device 'none' shown as '', '/dev/root' and 'rootfs' shown as the looked-up root device or, when the
   lookup fails, as they are; without all=True exactly the entries with a device and a disk-backed type; with all=True all *)
Theorem C17_partitions_filter : forall all root fs es,
  forallb wf_fs fs = true -> forallb wf_ment es = true -> forallb dev_ok es = true ->
  forallb short_line es = true ->
  disk_partitions all root (k_filesystems fs) (k_mounts es) = Val (spec_partitions all fs root es).
Proof. exact disk_partitions_exact. Qed.
Print Assumptions C17_partitions_filter.

(* the row of an entry is a function of that entry and of the lookup result alone: it does not depend on the entries
   before or after it (e.g. on which spelling of the root device came first) ... *)
Theorem C17_partitions_entry_local : forall all fs fstypes root pre e post,
  spec_partitions all fs root (pre ++ e :: post)
    = spec_partitions all fs root pre ++ spec_partitions all fs root [e] ++ spec_partitions all fs root post
  /\ partitions_loop all fstypes root (pre ++ e :: post)
    = Val (filter_some (map (part_entry all fstypes root) pre) ++ filter_some [part_entry all fstypes root e]
           ++ filter_some (map (part_entry all fstypes root) post)).
Proof. exact (fun all fs fstypes root pre e post => conj (spec_partitions_local all fs root pre e post) (partitions_loop_local all fstypes root pre e post)). Qed.
Print Assumptions C17_partitions_entry_local.

(* ... nor on the order of the table: reordering the entries only reorders the rows *)
Theorem C17_partitions_order : forall all fstypes root es es', Permutation.Permutation es es' ->
  Permutation.Permutation (filter_some (map (part_entry all fstypes root) es)) (filter_some (map (part_entry all fstypes root) es')).
Proof. exact partitions_order. Qed.
Print Assumptions C17_partitions_order.

(* with all=True /proc/filesystems is not consulted at all *)
Theorem C17_partitions_all : forall root fsb es,
  forallb wf_ment es = true -> forallb dev_ok es = true -> forallb short_line es = true ->
  disk_partitions true root fsb (k_mounts es) = Val (spec_partitions true [] root es).
Proof. exact disk_partitions_all. Qed.
Print Assumptions C17_partitions_all.

(* known finding (not repaired): an entry whose fields reach beyond the first 4095 bytes of its line comes back cut *)
Theorem C17_mounts_longline_refuted : exists es,
  forallb wf_ment es = true /\ forallb dev_ok es = true /\ forallb plain_dev es = true /\ forallb utf8_ok es = true /\
  exists rows, disk_partitions true None [] (k_mounts es) = Val rows /\ map m_type rows = [[]].
Proof. exact mounts_longline_refuted. Qed.
Print Assumptions C17_mounts_longline_refuted.

(* known finding: '#' in a device name is printed by the kernel as \043 and reported like that *)
Theorem C17_mounts_hash_refuted : exists es,
  forallb wf_ment es = true /\ forallb plain_dev es = true /\ forallb short_line es = true /\ forallb utf8_ok es = true /\
  exists rows, disk_partitions true None [] (k_mounts es) = Val rows /\ map m_dev rows = [bs "\043dev"] /\ map m_dev es = [bs "#dev"].
Proof. exact mounts_hash_refuted. Qed.
Print Assumptions C17_mounts_hash_refuted.

(* known finding: an empty device name shifts all four fields *)
Theorem C17_mounts_emptydev_refuted : exists es,
  forallb wf_ment es = true /\ forallb plain_dev es = true /\ forallb short_line es = true /\ forallb utf8_ok es = true /\
  map m_dev es = [[]] /\
  disk_partitions true None [] (k_mounts es)
    = Val [ {| m_dev := bs "/mnt"; m_dir := bs "tmpfs"; m_type := bs "rw"; m_opts := bs "0" |} ].
Proof. exact mounts_emptydev_refuted. Qed.
Print Assumptions C17_mounts_emptydev_refuted.

(* observation, outside the property's quantifier (no kernel filesystem is named like this): a device-backed type
   whose name starts with "nodev" makes the /proc/filesystems loop raise IndexError; excluded by wf_fs above *)
Theorem C17_filesystems_nodev_name_observation :
  read_fstypes (k_filesystems [ {| fs_nodev := false; fs_name := bs "nodevfs" |} ]) = Exc IndexError.
Proof. exact filesystems_nodev_name_observation. Qed.
Print Assumptions C17_filesystems_nodev_name_observation.

(* fixed defect (0d52d5b): the legacy code needed UTF-8 type and options ... *)
Theorem C17_partitions_legacy_all : forall root fsb es,
  forallb wf_ment es = true -> forallb dev_ok es = true -> forallb short_line es = true ->
  forallb utf8_ok es = true ->
  disk_partitions_legacy true root fsb (k_mounts es) = Val (spec_partitions true [] root es).
Proof. exact disk_partitions_legacy_all. Qed.
Print Assumptions C17_partitions_legacy_all.

(* ... one non-UTF-8 byte made the whole call raise *)
Theorem C17_mounts_legacy_nonutf8_refuted : exists es,
  forallb wf_ment es = true /\ forallb dev_ok es = true /\ forallb plain_dev es = true /\ forallb short_line es = true /\
  disk_partitions_legacy true None [] (k_mounts es) = Exc UnicodeError.
Proof. exact mounts_legacy_nonutf8_refuted. Qed.
Print Assumptions C17_mounts_legacy_nonutf8_refuted.

(* ---------------------------------------------------------------- threads *)
(* getmntent() hands out ONE static struct mntent + line buffer.  Interleaving model: any number of threads inside
   disk_partitions(), each on its own file (equal or different), any schedule.  As the code is -- the GIL is held from
   getmntent() to the end of the decoding of that entry -- what a thread has built plus what it still has to read is
   always exactly its own file: no foreign entry, none lost, none twice *)
Theorem C17_getmntent_threads : forall files sched,
  Forall2 (fun f t => th_out t ++ th_rest t = f) files (ts_threads (run_sched step_gil sched (th_init files))).
Proof. exact gil_threads_consistent. Qed.
Print Assumptions C17_getmntent_threads.

(* ... so every finished call returns the single-threaded decode of its file *)
Theorem C17_getmntent_threads_result : forall files sched i f t,
  nth_error files i = Some f -> nth_error (ts_threads (run_sched step_gil sched (th_init files))) i = Some t ->
  th_rest t = [] -> th_out t = f.
Proof. exact gil_threads_finished. Qed.
Print Assumptions C17_getmntent_threads_result.

(* variant with the GIL released around getmntent(): a two-thread schedule in which thread 0 returns thread 1's entry *)
Theorem C17_getmntent_threads_nogil_refuted :
  exists files sched, files = [[ment_a]; [ment_b]] /\
  map th_out (ts_threads (run_sched step_nogil sched (th_init files))) = [[ment_b]; [ment_b]].
Proof. exact nogil_threads_refuted. Qed.
Print Assumptions C17_getmntent_threads_nogil_refuted.

(* which code runs without the GIL is a fact of the sources: the table Gen/C17_Tables.v is regenerated from the tree under
   check on every run.  No region between Py_BEGIN_ALLOW_THREADS and Py_END_ALLOW_THREADS calls a libc function that
   returns static storage (getmntent, getutent, getpwuid, inet_ntoa, strerror, ...) *)
Theorem C17_gil_free_regions_safe :
  forallb (fun r => forallb (fun c => negb (mem_str c static_storage_fns)) (snd r)) gil_free_regions = true.
Proof. vm_compute. reflexivity. Qed.
Print Assumptions C17_gil_free_regions_safe.

(* ... and the extension keeps no modifiable state of static storage duration besides the two module tables and the debug
   flag (no cached descriptors, no buffers shared between calls or threads) *)
Theorem C17_no_shared_mutable_state :
  forallb (fun v => mem_str (snd v) allowed_statics) mutable_statics = true.
Proof. vm_compute. reflexivity. Qed.
Print Assumptions C17_no_shared_mutable_state.

(* no caller-controlled string is ever a FORMAT: Gen/C17_Tables.v lists every call of a printf-family function
   (printf/fprintf/sprintf/snprintf/v*printf/syslog, PyErr_Format, PyUnicode_FromFormat, PyBytes_FromFormat, PyOS_snprintf ...)
   and of every printf-like macro (psutil_debug: found by the translator as a macro handing __VA_ARGS__ on as FORMAT) in the
   .c and .h files compiled on Linux, with the kind of its FORMAT argument.  Every FORMAT is a string literal (kind 0),
   except inside the body of a listed printf-like macro where it is the macro's own parameter (kind 1) -- and the calls of
   that macro are rows of the same table, so their FORMAT is a literal too.  The table is the whole source, so the finite
   check is the proof; the table is not empty and the debug macro is among the checked callees. *)
Theorem C17_format_arguments_literal :
  forallb (fun c => match c with
                    | (_, _, _, k, m) => Z.eqb k 0 || (Z.eqb k 1 && mem_str m printf_like_macros)
                    end) format_calls = true
  /\ forallb (fun m => existsb (fun c => match c with (_, _, callee, _, _) => String.eqb callee m end) format_calls)
       printf_like_macros = true
  /\ mem_str "psutil_debug" printf_like_macros = true.
Proof. vm_compute. repeat split; reflexivity. Qed.
Print Assumptions C17_format_arguments_literal.
