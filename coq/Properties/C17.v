(* C17 -- the C extension is memory-safe and decodes OS records faithfully.
   Statements only; proofs live in C17/Proofs*.v.  Model: C17/Model.v (transcription of the
   decoding logic and of the index / integer arithmetic of psutil's C sources and of the
   Python code around it), specification: C17/Spec.v.  What these theorems cannot say --
   anything about the compiled code itself -- is delegated to the sanitizer runs of
   props/C17.py.  Names without suffix are the model of the code as it is now (after the
   repairs e85352e, a87b45e, 301715a, 0d52d5b); [_legacy] names model the code before them
   and occur only in the theorems about the defects that were repaired. *)
From PV Require Import C17.Spec C17.Proofs C17.ProofsMnt.

(* ---------------------------------------------------------------- users() *)
(* every file of well-formed login records: user, terminal, host (':0' / ':0.0' as localhost),
   start time and PID of exactly the USER_PROCESS records, each string cut at its field width;
   in particular no read leaves a record *)
Theorem C17_users_decode : forall rs,
  forallb wf_urec rs = true -> users (k_utmp_file rs) = MOk (spec_users rs).
Proof. exact users_decode. Qed.
Print Assumptions C17_users_decode.

(* fixed defect (e85352e): the legacy code was right only when no string field of a USER_PROCESS
   record fills its whole width ... *)
Theorem C17_users_legacy_decode : forall rs,
  forallb wf_urec rs = true -> forallb terminated rs = true ->
  users_legacy (k_utmp_file rs) = MOk (spec_users rs).
Proof. exact users_legacy_decode. Qed.
Print Assumptions C17_users_legacy_decode.

(* ... a full-width field was read across the field border ... *)
Theorem C17_users_legacy_fullwidth_refuted : exists rs,
  forallb wf_urec rs = true /\
  exists rows, users_legacy (k_utmp_file rs) = MOk rows /\ rows <> spec_users rs /\
               map u_user rows = [repeat 85 32 ++ bs "example.org"].
Proof. exact users_legacy_fullwidth_refuted. Qed.
Print Assumptions C17_users_legacy_fullwidth_refuted.

(* ... and, with no NUL in the rest of the record, past the end of the record *)
Theorem C17_users_legacy_oob_refuted : exists rs,
  forallb wf_urec rs = true /\ users_legacy (k_utmp_file rs) = MOutOfBounds.
Proof. exact users_legacy_oob_refuted. Qed.
Print Assumptions C17_users_legacy_oob_refuted.

(* ---------------------------------------------------------------- buffers *)
(* PSUTIL_STRNCPY(dst, src, n), n >= 1: every write index is < n, for every source string,
   and dst holds a terminated string afterwards whatever it held before *)
Theorem C17_strncpy_in_bounds : forall src n, (1 <= n)%nat ->
  exists ws, psutil_strncpy src n = Some ws /\ in_bounds n ws /\
  forall junk, length junk = n ->
    exists s, c_str (apply_writes junk ws) = Some s /\ (length s < n)%nat.
Proof. exact strncpy_safe. Qed.
Print Assumptions C17_strncpy_in_bounds.

(* MAC formatting: for every hardware address of 1..255 bytes all writes stay inside buf[NI_MAXHOST] *)
Theorem C17_mac_in_bounds : forall data,
  (1 <= length data <= 255)%nat -> in_bounds NI_MAXHOST (mac_writes data).
Proof. exact mac_in_bounds. Qed.
Print Assumptions C17_mac_in_bounds.

(* ---------------------------------------------------------------- CPU sets *)
(* CPU_SET on any C long: the bit touched is < 1024 (the size of cpu_set_t), or nothing is touched *)
Theorem C17_cpu_set_safe : forall value c, cpu_set_touch value = Some c -> 0 <= c < 1024.
Proof. exact cpu_set_touch_bound. Qed.
Print Assumptions C17_cpu_set_safe.

(* the cpu_set sizing loop: whatever the kernel answers, it ends within 25 rounds with a
   size that fits an int or with OverflowError; ncpus * 2 never overflows *)
Theorem C17_getaffinity_terminates : forall kernel_ok : Z -> bool,
  (exists n, aff_loop 25 kernel_ok 64 = AffOk n /\ 0 < n <= INT_MAX)
  \/ aff_loop 25 kernel_ok 64 = AffOverflowError.
Proof. exact getaffinity_terminates. Qed.
Print Assumptions C17_getaffinity_terminates.

(* the read-out loop returns exactly the set bits and never indexes past the mask *)
Theorem C17_affinity_readout : forall bits, aff_scan bits 0 (popcount bits) = Some (set_bits 0 bits).
Proof. exact affinity_readout. Qed.
Print Assumptions C17_affinity_readout.

(* ---------------------------------------------------------------- integers *)
(* check_pid_range for every Python int: None, OverflowError or ValueError, by range *)
Theorem C17_pid_range : forall z,
  check_pid_range (PInt z) =
    if (z <? INT_MIN) || (z >? INT_MAX) then Exc OverflowError
    else if z <? 0 then Exc ValueError else Val tt.
Proof. exact check_pid_range_int. Qed.
Print Assumptions C17_pid_range.

(* ... and for every Python object nothing but these and TypeError *)
Theorem C17_pid_range_total : forall v,
  check_pid_range v = Val tt \/ check_pid_range v = Exc OverflowError
  \/ check_pid_range v = Exc ValueError \/ check_pid_range v = Exc TypeError.
Proof. exact check_pid_range_total. Qed.
Print Assumptions C17_pid_range_total.

(* every entry point of _psutil_linux / _psutil_posix, every argument tuple: the outcome in the model is an
   exception, None or a call into the OS -- never undefined behaviour *)
Theorem C17_entry_points_defined : forall ep args, is_ub (c_entry ep args) = false.
Proof. exact entry_no_ub. Qed.
Print Assumptions C17_entry_points_defined.

(* Process.ionice(ioclass, value): never undefined; an ioclass outside 0..3 is a ValueError; what reaches
   ioprio_set(2) is a C int, equal to class * 2^13 + data for the accepted pairs *)
Theorem C17_ionice_defined : forall pid ioclass value, is_ub (ionice_set pid ioclass value) = false.
Proof. exact ionice_no_ub. Qed.
Print Assumptions C17_ionice_defined.

Theorem C17_ionice_rejects : forall pid ioclass value,
  ~ (0 <= ioclass <= 3) -> ionice_set pid ioclass value = CExc ValueError.
Proof. exact ionice_rejects. Qed.
Print Assumptions C17_ionice_rejects.

Theorem C17_ioprio_value : forall c d,
  INT_MIN <= ioprio_value_u c d <= INT_MAX /\
  (0 <= c <= 3 -> 0 <= d <= 7 -> ioprio_value_u c d = c * 8192 + d).
Proof. exact (fun c d => conj (ioprio_value_u_range c d) (ioprio_value_u_valid c d)). Qed.
Print Assumptions C17_ioprio_value.

(* fixed defect (a87b45e): the legacy signed 'ioclass << 13' is defined exactly for 0 <= ioclass < 2^18 ... *)
Theorem C17_ioprio_legacy_shift : forall c d, ioprio_value c d = None <-> ~ (0 <= c < 2 ^ 18).
Proof. exact ioprio_value_none. Qed.
Print Assumptions C17_ioprio_legacy_shift.

(* ... that was the only undefined behaviour of the legacy entry points ... *)
Theorem C17_entry_points_legacy : forall ep args w, c_entry_legacy ep args = CUB w ->
  ep = EpIoprioSet /\ exists p c d cz, args = [p; c; d] /\ conv_i c = Val cz /\ ~ (0 <= cz < 2 ^ 18).
Proof. exact entry_legacy_ub. Qed.
Print Assumptions C17_entry_points_legacy.

(* ... reachable directly and through the public ionice(), whose legacy Python layer let such a class through *)
Theorem C17_entry_points_legacy_refuted : c_entry_legacy EpIoprioSet [PInt 0; PInt (-1); PInt 0] = CUB "shift".
Proof. exact entry_legacy_refuted. Qed.
Print Assumptions C17_entry_points_legacy_refuted.

Theorem C17_ionice_legacy_refuted : exists ioclass value,
  0 <= value <= 7 /\ ionice_set_legacy 0 ioclass value = CUB "shift".
Proof. exact ionice_legacy_refuted. Qed.
Print Assumptions C17_ionice_legacy_refuted.

(* ethtool speed: ((uint32_t)speed_hi << 16) | speed is defined for every answer and the speed reported is in [0, INT_MAX] *)
Theorem C17_nic_speed : forall hi lo, exists v, nic_speed hi lo = Some v /\ 0 <= v <= INT_MAX.
Proof. exact nic_speed_total. Qed.
Print Assumptions C17_nic_speed.

(* fixed defect (301715a): the legacy signed 'speed_hi << 16' was defined for speed_hi < 0x8000 only;
   SPEED_UNKNOWN (speed_hi = 0xFFFF) overflowed *)
Theorem C17_nic_speed_legacy : forall hi lo, 0 <= hi < 2 ^ 15 ->
  exists v, nic_speed_legacy hi lo = Some v /\ 0 <= v <= INT_MAX.
Proof. exact nic_speed_legacy_defined. Qed.
Print Assumptions C17_nic_speed_legacy.

Theorem C17_nic_speed_legacy_refuted :
  exists hi lo, 0 <= hi < 2 ^ 16 /\ 0 <= lo < 2 ^ 16 /\ nic_speed_legacy hi lo = None.
Proof. exact nic_speed_legacy_refuted. Qed.
Print Assumptions C17_nic_speed_legacy_refuted.

(* ---------------------------------------------------------------- interface flags *)
Theorem C17_net_if_flags : forall flags i name, 0 <= flags -> In (i, name) spec_iff ->
  (In name (net_if_flags flags) <-> Z.testbit flags i = true).
Proof. exact net_if_flags_exact. Qed.
Print Assumptions C17_net_if_flags.

(* ---------------------------------------------------------------- mount table *)
(* glibc's decode_name undoes the kernel's octal escapes, for every byte string *)
Theorem C17_mntent_roundtrip : forall s, decode_name (mangle s) = s.
Proof. exact decode_mangle. Qed.
Print Assumptions C17_mntent_roundtrip.

(* every mounts file printed from well-formed entries whose lines fit glibc's 4096-byte buffer:
   getmntent() delivers exactly the entries (device, mount point, type, options) *)
Theorem C17_getmntent_exact : forall es,
  forallb wf_ment es = true -> forallb short_line es = true -> getmntent_all (k_mounts es) = Val es.
Proof. exact getmntent_exact. Qed.
Print Assumptions C17_getmntent_exact.

(* the loop of disk_partitions(): device 'none' shown as '', and without all=True only entries with a
   device and a disk-backed type -- for any set of types that agrees with the kernel's list.
   PARTIAL: the full statement
     forall fs es, forallb wf_fs fs = true -> ... -> disk_partitions fixed false (k_filesystems fs) (k_mounts es)
                   = Val (spec_partitions false fs es)
   needs the lemma  mem_bytes t (read_fstypes (k_filesystems fs)) = disk_backed fs t  (parsing of
   /proc/filesystems), which is not proved; that step is covered by the correspondence run only. *)
Theorem C17_partitions_filter_partial : forall all fstypes fs es,
  (forall t, mem_bytes t fstypes = disk_backed fs t) -> forallb plain_dev es = true ->
  partitions_loop all fstypes es = Val (spec_partitions all fs es).
Proof. exact partitions_loop_exact. Qed.
Print Assumptions C17_partitions_filter_partial.

(* disk_partitions(all=True) end to end: every entry, with device, mount point, type and options --
   whatever bytes they contain (lines that fit glibc's buffer) *)
Theorem C17_partitions_all : forall fsb es,
  forallb wf_ment es = true -> forallb short_line es = true -> forallb plain_dev es = true ->
  disk_partitions true fsb (k_mounts es) = Val (spec_partitions true [] es).
Proof. exact disk_partitions_all. Qed.
Print Assumptions C17_partitions_all.

(* known finding (not repaired): a line longer than 4095 bytes comes back cut (type and options empty) *)
Theorem C17_mounts_longline_refuted : exists es,
  forallb wf_ment es = true /\ forallb plain_dev es = true /\ forallb utf8_ok es = true /\
  exists rows, disk_partitions true [] (k_mounts es) = Val rows /\ map m_type rows = [[]].
Proof. exact mounts_longline_refuted. Qed.
Print Assumptions C17_mounts_longline_refuted.

(* fixed defect (0d52d5b): the legacy code needed UTF-8 type and options ... *)
Theorem C17_partitions_legacy_all : forall fsb es,
  forallb wf_ment es = true -> forallb short_line es = true -> forallb plain_dev es = true ->
  forallb utf8_ok es = true ->
  disk_partitions_legacy true fsb (k_mounts es) = Val (spec_partitions true [] es).
Proof. exact disk_partitions_legacy_all. Qed.
Print Assumptions C17_partitions_legacy_all.

(* ... one non-UTF-8 byte made the whole call raise *)
Theorem C17_mounts_legacy_nonutf8_refuted : exists es,
  forallb wf_ment es = true /\ forallb plain_dev es = true /\ forallb short_line es = true /\
  disk_partitions_legacy true [] (k_mounts es) = Exc UnicodeError.
Proof. exact mounts_legacy_nonutf8_refuted. Qed.
Print Assumptions C17_mounts_legacy_nonutf8_refuted.
