(* Proc -- the invariant of the machine and what each modelled psutil function does under it. *)
From PV Require Import Proc.Spec Proc.Lib.

(* object [x] was created for incarnation [i]; or (psutil.Popen whose child was already gone) for no
   process at all: then [i] is the negative token of its PID and the object was born with _gone *)
Definition obj_ok (w : world) (x : pobj) (i : Z) : Prop :=
  ((exists s, ostart x = Some s /\ In (i, opid x, s) (hist w))
   \/ (i = -1 - opid x /\ ostart x = None /\ ogone x = true)) /\
  (ogone x = true \/ oreused x = true -> alive w i = false) /\
  (ohash x = None \/ ohash x = Some (ident x)) /\
  (oreused x = true -> ogone x = true) /\
  0 <= opid x < PID_MAX.

Record Inv (w : world) : Prop := mkInv {
  inv_next : 0 <= nextinc w;
  inv_nodeny : denied w = [];       (* every stat file is readable (wf histories have no Deny event) *)
  inv_nodup : NoDup (map kpid (table w));
  inv_tab : forall k, In k (table w) -> In (kinc k, kpid k, kstart k) (hist w);
  inv_lt : forall i p s, In (i, p, s) (hist w) -> 0 <= i < nextinc w;
  inv_fun : forall i p s p' s', In (i, p, s) (hist w) -> In (i, p', s') (hist w) -> p = p' /\ s = s';
  inv_inj : forall i i' p s, In (i, p, s) (hist w) -> In (i', p, s) (hist w) -> i = i';
  inv_objs : Forall2 (obj_ok w) (objs (ms w)) (ginc w)
}.

Lemma view_stat w p :
  kv_stat (view_of w) p =
  match lookup (table w) p with Some k => Some (kstart k, kppid k, kzomb k) | None => None end.
Proof. reflexivity. Qed.

Lemma view_ctime_ok w p : Inv w -> kv_ctime_ok (view_of w) p = true.
Proof. intros I. unfold view_of; cbn [kv_ctime_ok]. rewrite (inv_nodeny _ I). reflexivity. Qed.

Lemma kexists_view w p :
  kexists (view_of w) p = match lookup (table w) p with Some _ => true | None => false end.
Proof. unfold kexists. rewrite view_stat. destruct (lookup (table w) p); reflexivity. Qed.

Lemma owner_lookup w p :
  owner w p = match lookup (table w) p with Some k => Some (kinc k) | None => None end.
Proof. reflexivity. Qed.

Lemma table_inc_nonneg w k : Inv w -> In k (table w) -> 0 <= kinc k.
Proof. intros I Hk. apply (inv_tab _ I) in Hk. apply (inv_lt _ I) in Hk. lia. Qed.

Lemma neg_not_alive w i : Inv w -> i < 0 -> alive w i = false.
Proof.
  intros I N. apply alive_false. intros k Hk E. pose proof (table_inc_nonneg w k I Hk). lia.
Qed.

(* the incarnation is in the table exactly when /proc/<pid>/stat shows the object's start time *)
Lemma alive_char w x i : Inv w -> obj_ok w x i ->
  (alive w i = true <-> exists k, lookup (table w) (opid x) = Some k /\ ostart x = Some (kstart k)).
Proof.
  intros I ([(s & Es0 & Hh)|(Ei & Es0 & Eg)] & _ & _ & _ & R).
  - split.
    + intros A. apply alive_true in A as [k [Hk Ei]]. exists k.
      pose proof (inv_tab _ I _ Hk) as Hk'. rewrite Ei in Hk'.
      destruct (inv_fun _ I _ _ _ _ _ Hk' Hh) as [Ep Es].
      split; [|congruence]. rewrite <- Ep. apply lookup_nodup; auto. apply (inv_nodup _ I).
    + intros [k [L Es]]. apply lookup_some in L as [Hk Ep].
      pose proof (inv_tab _ I _ Hk) as Hk'. rewrite Ep in Hk'.
      assert (s = kstart k) by congruence. subst s.
      apply alive_true. exists k. split; auto. eapply (inv_inj _ I); eauto.
  - split.
    + intros A. rewrite (neg_not_alive w i I) in A by lia. discriminate.
    + intros [k [_ Es]]. congruence.
Qed.

Lemma alive_owner w x i : Inv w -> obj_ok w x i -> alive w i = true -> owner w (opid x) = Some i.
Proof.
  intros I O A. pose proof O as ([(s & Es0 & Hh)|(Ei & Es0 & Eg)] & _ & _ & _ & R).
  - apply (alive_char w x i I O) in A as [k [L Es]]. rewrite owner_lookup, L.
    apply lookup_some in L as [Hk Ep]. pose proof (inv_tab _ I _ Hk) as Hk'. rewrite Ep in Hk'.
    assert (s = kstart k) by congruence. subst s.
    f_equal. eapply (inv_inj _ I); eauto.
  - rewrite (neg_not_alive w i I) in A by lia. discriminate.
Qed.

(* == compares incarnations (for objects built for no process: their PIDs) *)
Lemma obj_eq_inc w x y i j : Inv w -> obj_ok w x i -> obj_ok w y j -> obj_eq x y = (i =? j).
Proof.
  intros I ([(s & Esx & Hx)|(Ei & Esx & Egx)] & _ & _ & _ & Rx) ([(t & Esy & Hy)|(Ej & Esy & Egy)] & _ & _ & _ & Ry);
    unfold obj_eq; rewrite Esx, Esy; cbn [opt_eqb].
  - destruct (Z.eqb_spec i j) as [E|E].
    + subst j. destruct (inv_fun _ I _ _ _ _ _ Hx Hy) as [-> ->]. rewrite !Z.eqb_refl. reflexivity.
    + destruct (Z.eqb_spec (opid x) (opid y)) as [Ep|Ep]; [|reflexivity].
      destruct (Z.eqb_spec s t) as [Es|Es]; [|reflexivity].
      exfalso. apply E. rewrite Ep, Es in Hx. eapply (inv_inj _ I); eauto.
  - rewrite andb_false_r. symmetry. apply Z.eqb_neq. apply (inv_lt _ I) in Hx. lia.
  - rewrite andb_false_r. symmetry. apply Z.eqb_neq. apply (inv_lt _ I) in Hy. lia.
  - rewrite andb_true_r. subst i j.
    destruct (Z.eqb_spec (opid x) (opid y)); symmetry; [apply Z.eqb_eq|apply Z.eqb_neq]; lia.
Qed.

(* ---------------------------------------------------------------- Process(pid) *)
Lemma new_obj_val w p y : Inv w -> new_obj (view_of w) p = Val y ->
  0 <= p < PID_MAX /\ exists k, lookup (table w) p = Some k /\
  y = {| opid := p; ostart := Some (kstart k); ogone := false; oreused := false; octime := None; ohash := None;
         oshot := O; ocppid := None; ocstat := None; oexit := false; oshared := false |}.
Proof.
  intros I. unfold new_obj. destruct (Z.ltb_spec p 0); [discriminate|].
  destruct (Z.leb_spec PID_MAX p); [discriminate|].
  rewrite view_stat, (view_ctime_ok w p I). destruct (lookup (table w) p) as [k|]; [|discriminate].
  intros E. inversion E. split; [lia|]. eauto.
Qed.

Lemma new_obj_ok w p y : Inv w -> new_obj (view_of w) p = Val y ->
  exists i, owner w p = Some i /\ obj_ok w y i /\ opid y = p /\ alive w i = true.
Proof.
  intros I H. apply (new_obj_val w p y I) in H as [R [k [L ->]]]. exists (kinc k).
  rewrite owner_lookup, L. split; [reflexivity|].
  pose proof (lookup_some _ _ _ L) as [Hk Ep].
  split; [|split; [reflexivity|apply alive_true; eauto]].
  unfold obj_ok; cbn [opid ostart ogone oreused ohash].
  split; [|split; [|split; [|split]]]; auto.
  - left. exists (kstart k). split; auto. rewrite <- Ep. apply (inv_tab _ I); auto.
  - intros [D|D]; discriminate.
Qed.

Lemma new_obj_self w x i : Inv w -> obj_ok w x i ->
  new_obj (view_of w) (opid x) =
  match lookup (table w) (opid x) with
  | Some k => Val {| opid := opid x; ostart := Some (kstart k); ogone := false; oreused := false; octime := None; ohash := None;
         oshot := O; ocppid := None; ocstat := None; oexit := false; oshared := false |}
  | None => Exc NoSuchProcess
  end.
Proof.
  intros I (_ & _ & _ & _ & R). unfold new_obj.
  destruct (Z.ltb_spec (opid x) 0); [lia|]. destruct (Z.leb_spec PID_MAX (opid x)); [lia|].
  rewrite view_stat, (view_ctime_ok w _ I). destruct (lookup (table w) (opid x)); reflexivity.
Qed.

(* ---------------------------------------------------------------- is_running() *)
(* what a method may do to the object it is called on *)
Definition obj_step (w : world) (i : Z) (x x' : pobj) : Prop :=
  opid x' = opid x /\ ostart x' = ostart x /\ obj_ok w x' i.

Ltac splits := repeat match goal with |- _ /\ _ => split end.

Lemma is_running_spec w x i : Inv w -> obj_ok w x i ->
  exists x' add, is_running (view_of w) x = (x', Val (alive w i), add)
    /\ obj_step w i x x'
    /\ (alive w i = true -> ogone x' = false /\ oreused x' = false)
    /\ (alive w i = false -> ogone x' = true)
    /\ (alive w i = false -> ogone x = false ->
        oreused x' = match owner w (opid x) with Some _ => true | None => false end).
Proof.
  intros I O. pose proof O as (Hh & Hg & Hhash & Hrg & R).
  unfold is_running. destruct (ogone x || oreused x) eqn:G.
  - assert (A : alive w i = false) by (apply Hg; apply orb_true_iff in G; tauto).
    assert (Gx : ogone x = true) by (apply orb_true_iff in G as [G|G]; auto).
    exists x, []. rewrite A. unfold obj_step.
    splits; try reflexivity; auto; try discriminate; try (intros; congruence).
  - apply orb_false_iff in G as [G1 G2].
    assert (Hreg : exists s, ostart x = Some s /\ In (i, opid x, s) (hist w)).
    { destruct Hh as [Hreg|(_ & _ & Eg)]; [exact Hreg|congruence]. }
    pose proof Hreg as (s & Es0 & Hh').
    rewrite (new_obj_self w x i I O). rewrite owner_lookup.
    destruct (lookup (table w) (opid x)) as [k|] eqn:L.
    + cbn [ostart].
      unfold obj_eq; cbn [opid ostart]. rewrite Es0, Z.eqb_refl. cbn [andb opt_eqb].
      destruct (Z.eqb_spec s (kstart k)) as [Es|Es].
      * assert (A : alive w i = true).
        { apply (alive_char w x i I O). exists k. split; auto. congruence. }
        exists (with_reused false x), []. rewrite A.
        assert (OK : obj_ok w (with_reused false x) i).
        { unfold obj_ok; cbn [with_reused opid ostart ogone oreused ohash ident].
          splits; auto; try lia; try discriminate. intros [D|D]; congruence. }
        unfold obj_step. splits; try reflexivity; auto; try discriminate.
      * assert (A : alive w i = false).
        { destruct (alive w i) eqn:A; auto. apply (alive_char w x i I O) in A as [k' [L' Es']].
          rewrite L in L'. inversion L'; subst k'. congruence. }
        exists (with_gone true (with_reused true x)), [opid x]. rewrite A.
        assert (OK : obj_ok w (with_gone true (with_reused true x)) i).
        { unfold obj_ok; cbn [with_gone with_reused opid ostart ogone oreused ohash ident].
          splits; auto; lia. }
        unfold obj_step. splits; try reflexivity; auto; try discriminate.
    + assert (A : alive w i = false).
      { destruct (alive w i) eqn:A; auto. apply (alive_char w x i I O) in A as [k' [L' _]]. congruence. }
      exists (with_gone true x), []. rewrite A.
      assert (OK : obj_ok w (with_gone true x) i).
      { unfold obj_ok; cbn [with_gone opid ostart ogone oreused ohash ident].
        splits; auto; lia. }
      unfold obj_step. splits; try reflexivity; auto; try discriminate.
Qed.

(* ---------------------------------------------------------------- _raise_if_pid_reused() *)
Lemma raise_if_spec w x i : Inv w -> obj_ok w x i ->
  exists x' r add, raise_if_pid_reused (view_of w) x = (x', r, add)
    /\ obj_step w i x x'
    /\ (alive w i = true -> r = Val tt /\ ogone x' = false /\ oreused x' = false)
    /\ (alive w i = false -> owner w (opid x) <> None -> r = Exc NoSuchProcess)
    /\ (alive w i = false -> owner w (opid x) = None -> r = Exc NoSuchProcess \/ r = Val tt)
    /\ (r = Val tt -> alive w i = false -> ogone x' = true).
Proof.
  intros I O. pose proof O as (Hh & Hg & Hhash & Hrg & R).
  unfold raise_if_pid_reused. destruct (ogone x && negb (oreused x)) eqn:C1.
  - apply andb_true_iff in C1 as [G1 _].
    assert (A : alive w i = false) by (apply Hg; auto).
    exists x, (Exc NoSuchProcess), []. unfold obj_step.
    splits; auto; try (intros; congruence).
  - destruct (oreused x) eqn:R2.
    + assert (A : alive w i = false) by (apply Hg; auto).
      exists x, (Exc NoSuchProcess), []. unfold obj_step.
      splits; auto; try (intros; congruence).
    + assert (G1 : ogone x = false) by (destruct (ogone x); auto; discriminate).
      destruct (is_running_spec w x i I O) as (x1 & add & E & St & Ha & Hd & Hr). rewrite E.
      destruct (alive w i) eqn:A.
      * cbn [negb andb]. exists x1, (Val tt), add. destruct (Ha eq_refl) as [Ha1 Ha2].
        splits; auto; try (intros; congruence).
      * cbn [negb andb]. rewrite (Hr eq_refl G1).
        destruct (owner w (opid x)) eqn:Ow.
        -- exists x1, (Exc NoSuchProcess), add. splits; auto; try (intros; congruence).
        -- exists x1, (Val tt), add. splits; auto; try (intros; congruence).
Qed.

(* ---------------------------------------------------------------- the system-call part of each method *)
Lemma esrch_none w p : lookup (table w) p = None -> esrch_exn (view_of w) p = NoSuchProcess.
Proof. intros L. unfold esrch_exn. rewrite view_stat, L. reflexivity. Qed.

Lemma sysc_pid_intended p s : sysc_pid (intended p s) = p.
Proof. destruct s; reflexivity. Qed.

Definition body_ok (w : world) (x : pobj) (s : setter) (x2 : pobj) (r2 : outcome res) (scs : list sysc) : Prop :=
  opid x2 = opid x /\ ostart x2 = ostart x /\ oreused x2 = oreused x /\ ohash x2 = ohash x
  /\ (ogone x2 = ogone x \/ (ogone x2 = true /\ owner w (opid x) = None))
  /\ (if valid_args (opid x) s
      then match owner w (opid x) with
           | Some _ => x2 = x /\ r2 = Val RNone /\ scs = [intended (opid x) s]
           | None => r2 = Exc NoSuchProcess /\ (scs = [] \/ scs = [intended (opid x) s])
           end
      else x2 = x /\ r2 = Exc ValueError /\ scs = []).

Lemma kill_body_ok w x sig s :
  valid_args (opid x) s = negb (opid x =? 0) -> intended (opid x) s = SKill (opid x) sig ->
  forall x2 r2 scs, kill_body (view_of w) x sig = (x2, r2, scs) -> body_ok w x s x2 r2 scs.
Proof.
  intros V Hi x2 r2 scs. unfold kill_body, body_ok. rewrite V, Hi, kexists_view, owner_lookup.
  destruct (opid x =? 0); cbn [negb].
  - intros E; inversion E; subst. splits; auto.
  - destruct (lookup (table w) (opid x)) eqn:L; intros E; inversion E; subst; cbn [with_gone opid ostart oreused ohash ogone].
    + splits; auto.
    + splits; auto.
Qed.

Lemma wrapped_sys_ok w x s :
  valid_args (opid x) s = true ->
  forall x2 r2 scs, wrapped_sys (view_of w) x (intended (opid x) s) = (x2, r2, scs) -> body_ok w x s x2 r2 scs.
Proof.
  intros V x2 r2 scs. unfold wrapped_sys, body_ok. rewrite V, kexists_view, owner_lookup.
  destruct (lookup (table w) (opid x)) eqn:L; intros E; inversion E; subst.
  - splits; auto.
  - rewrite (esrch_none _ _ L). splits; auto.
Qed.

Lemma invalid_ok w x s : valid_args (opid x) s = false -> body_ok w x s x (Exc ValueError) [].
Proof. intros V. unfold body_ok. rewrite V. splits; auto. Qed.

Lemma setter_body_spec w x s x2 r2 scs :
  setter_body (view_of w) x s = (x2, r2, scs) -> body_ok w x s x2 r2 scs.
Proof.
  destruct s; cbn [setter_body].
  - apply kill_body_ok; reflexivity.
  - apply kill_body_ok; reflexivity.
  - apply kill_body_ok; reflexivity.
  - apply kill_body_ok; reflexivity.
  - apply kill_body_ok; reflexivity.
  - apply (wrapped_sys_ok w x (Nice v)); reflexivity.
  - set (value := match v with Some n => n | None => 0 end).
    assert (V : valid_args (opid x) (Ionice cls v) =
                negb (negb (value =? 0) && ((cls =? 3) || (cls =? 0)))
                && negb ((value <? 0) || (7 <? value))
                && negb (negb ((0 <=? cls) && (cls <=? 3)))).
    { cbn [valid_args]. fold value. rewrite !Z.ltb_antisym.
      destruct (value =? 0), (cls =? 3), (cls =? 0), (0 <=? value), (value <=? 7), (0 <=? cls), (cls <=? 3);
        reflexivity. }
    destruct (negb (value =? 0) && ((cls =? 3) || (cls =? 0))).
    { intros E; inversion E; subst. apply invalid_ok. rewrite V. reflexivity. }
    destruct ((value <? 0) || (7 <? value)).
    { intros E; inversion E; subst. apply invalid_ok. rewrite V. reflexivity. }
    destruct (negb ((0 <=? cls) && (cls <=? 3))).
    { intros E; inversion E; subst. apply invalid_ok. rewrite V. reflexivity. }
    apply (wrapped_sys_ok w x (Ionice cls v)). rewrite V. reflexivity.
  - destruct (opid x =? 0) eqn:P0.
    + intros E; inversion E; subst. apply invalid_ok. cbn [valid_args]. rewrite P0. reflexivity.
    + destruct lims as [|a [|b [|c l]]].
      * intros E; inversion E; subst. apply invalid_ok. cbn [valid_args]. rewrite P0. reflexivity.
      * intros E; inversion E; subst. apply invalid_ok. cbn [valid_args]. rewrite P0. reflexivity.
      * apply (wrapped_sys_ok w x (Rlimit rsrc [a; b])). cbn [valid_args]. rewrite P0. reflexivity.
      * intros E; inversion E; subst. apply invalid_ok. cbn [valid_args]. rewrite P0. reflexivity.
  - apply (wrapped_sys_ok w x (Affinity cpus)). reflexivity.
Qed.

Lemma body_ok_obj w x1 i s x2 r2 scs :
  Inv w -> obj_ok w x1 i -> body_ok w x1 s x2 r2 scs -> obj_ok w x2 i.
Proof.
  intros I O (Ep & Es & Er & Eh & Eg & _). pose proof O as (Hh & Hg & Hhash & Hrg & R).
  unfold obj_ok, ident. rewrite Ep, Es, Er, Eh. splits; auto; try lia.
  - destruct Hh as [Hreg|(Ei & Es0 & Eg0)]; [left; exact Hreg|right].
    splits; auto. destruct Eg as [Eg|[Eg _]]; congruence.
  - intros [G|G]; [|auto]. destruct Eg as [Eg|[_ Ow]]; [rewrite Eg in G; auto|].
    destruct (alive w i) eqn:A; auto. rewrite (alive_owner w x1 i I O A) in Ow. discriminate.
  - intros Rx. destruct Eg as [Eg|[Eg _]]; [rewrite Eg; auto|auto].
Qed.

Lemma do_setter_spec w x i s : Inv w -> obj_ok w x i ->
  exists x' r add scs, do_setter (view_of w) x s = (x', r, add, scs)
   /\ obj_step w i x x'
   /\ (alive w i = true ->
       if valid_args (opid x) s then r = Val RNone /\ scs = [intended (opid x) s]
       else r = Exc ValueError /\ scs = [])
   /\ (alive w i = false -> owner w (opid x) <> None -> r = Exc NoSuchProcess /\ scs = [])
   /\ (alive w i = false -> owner w (opid x) = None ->
       if valid_args (opid x) s then r = Exc NoSuchProcess /\ (scs = [] \/ scs = [intended (opid x) s])
       else (r = Exc NoSuchProcess \/ r = Exc ValueError) /\ scs = []).
Proof.
  intros I O. pose proof O as (Hh & Hg & Hhash & Hrg & R).
  unfold do_setter. destruct (Z.ltb_spec (opid x) 0); [lia|].
  destruct (raise_if_spec w x i I O) as (x1 & r1 & add & E & St & Ha & Ho & Hn & Hgone). rewrite E.
  destruct St as (Ep1 & Es1 & O1).
  destruct (alive w i) eqn:A.
  - destruct (Ha eq_refl) as (-> & G1 & R1).
    destruct (setter_body (view_of w) x1 s) as [[x2 r2] scs] eqn:B.
    pose proof (setter_body_spec _ _ _ _ _ _ B) as BO.
    pose proof (body_ok_obj _ _ _ _ _ _ _ I O1 BO) as O2.
    exists x2, r2, add, scs. destruct BO as (Ep & Es & Er & Eh & Eg & Hv).
    pose proof (alive_owner w x1 i I O1 A) as Ow. rewrite Ep1 in Ow, Hv. rewrite Ow in Hv.
    unfold obj_step. splits; auto; try congruence; try discriminate.
    intros _. destruct (valid_args (opid x) s); tauto.
  - destruct (owner w (opid x)) eqn:Ow.
    + rewrite (Ho eq_refl) by discriminate.
      exists x1, (Exc NoSuchProcess), add, []. unfold obj_step.
      splits; auto; try discriminate.
    + destruct (Hn eq_refl eq_refl) as [->| ->].
      * exists x1, (Exc NoSuchProcess), add, []. unfold obj_step.
        splits; auto; try discriminate; try (intros; congruence).
        intros _ _. destruct (valid_args (opid x) s); auto.
      * destruct (setter_body (view_of w) x1 s) as [[x2 r2] scs] eqn:B.
        pose proof (setter_body_spec _ _ _ _ _ _ B) as BO.
        pose proof (body_ok_obj _ _ _ _ _ _ _ I O1 BO) as O2.
        exists x2, r2, add, scs. destruct BO as (Ep & Es & Er & Eh & Eg & Hv).
        rewrite Ep1 in Hv. rewrite Ow in Hv.
        unfold obj_step. splits; auto; try congruence; try discriminate.
        intros _ _. destruct (valid_args (opid x) s).
        -- destruct Hv as [-> Hs]. split; auto.
        -- destruct Hv as (_ & -> & ->). split; auto.
Qed.
