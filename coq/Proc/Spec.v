(* Proc -- specification side for C01 / C02, written from the property texts:
   the kernel's process table with ghost *incarnation numbers* (one per process start),
   kernel events (spawn, exit -> zombie, reap, clock step), the ghost record of which
   incarnation each Process object was created for, and the answers the properties demand.
   The machine [step] composes kernel, ghost and the model of psutil (Proc/Model.v); the model
   itself only ever sees [view_of] -- pid, start time, ppid, state -- never the incarnation. *)
From PV Require Export Proc.Model.

Record kproc := { kpid : Z; kinc : Z (* ghost *); kstart : Z; kppid : Z; kzomb : bool;
                   kcomm : bytes (* name, may contain blanks and parentheses *); knthr : Z (* threads *) }.

Record world := {
  table   : list kproc;            (* the process table: live processes and zombies *)
  hist    : list (Z * Z * Z);      (* ghost: (incarnation, pid, start) of every process ever started *)
  nextinc : Z;                     (* ghost *)
  btime   : Z;                     (* boot time the kernel publishes; moves with the wall clock *)
  ms      : mstate;                (* psutil: objects and module globals *)
  ginc    : list Z;                (* ghost: incarnation each object was created for *)
  denied  : list Z                 (* PIDs whose /proc/<pid>/stat cannot be read at the moment (EACCES) *)
}.

Inductive kev :=
| Spawn (pid start ppid : Z) (comm : bytes)   (* a new process gets [pid]; also PID reuse; any name *)
| SpawnThread (pid : Z)            (* the process starts one more thread *)
| Exit (pid : Z)                   (* terminates, stays in the table as a zombie *)
| Reap (pid : Z)                   (* leaves the table; the PID is free again *)
| ClockStep (d : Z)                (* the system clock is stepped: published boot time changes *)
| Deny (pid : Z)                   (* /proc/<pid>/stat becomes unreadable (EACCES), whoever owns the PID *)
| Allow (pid : Z).                 (* ... readable again *)

(* EK: a kernel event; EC: a psutil call, atomic with respect to kernel events;
   ER o s ks: the signal/setter call [s] on object [o] taken apart -- the identity probe, then the kernel
   events [ks] (the window between psutil's check and its system call), then the system call *)
Inductive ev := EK (k : kev) | EC (c : call) | ER (o : nat) (s : setter) (ks : list kev).

Definition lookup (t : list kproc) (p : Z) : option kproc := find (fun k => kpid k =? p) t.

Definition view_of (w : world) : kview :=
  {| kv_stat := fun p => match lookup (table w) p with
                         | Some k => Some (kstart k, kppid k, kzomb k) | None => None end;
     kv_ctime_ok := fun p => negb (memz p (denied w));
     kv_pids := map kpid (table w);
     kv_btime := btime w |}.

Definition world0 : world :=
  {| table := []; hist := []; nextinc := 0; btime := 1500000000; ms := mstate0; ginc := []; denied := [] |}.

(* ---------------------------------------------------------------- ghost notions *)
(* the incarnation is still in the process table (zombie included) *)
Definition alive (w : world) (i : Z) : bool := existsb (fun k => kinc k =? i) (table w).
(* who would receive a system call aimed at [p] now *)
Definition owner (w : world) (p : Z) : option Z :=
  match lookup (table w) p with Some k => Some (kinc k) | None => None end.
Definition g_inc (w : world) (o : nat) : Z := nth o (ginc w) (-1).
(* the PID that incarnation [i] was started under (ghost) *)
Definition inc_pid (w : world) (i : Z) : Z :=
  match find (fun e => fst (fst e) =? i) (hist w) with Some (_, p, _) => p | None => -1 end.
(* the PID of the process the object was created for (ghost) / the pid attribute of the object *)
Definition g_pid (w : world) (o : nat) : Z :=
  if g_inc w o <? 0 then -1 - g_inc w o else inc_pid w (g_inc w o).
Definition obj_pid (w : world) (o : nat) : Z :=
  match nth_error (objs (ms w)) o with Some x => opid x | None => -1 end.
Definition has_obj (w : world) (o : nat) : bool :=
  match nth_error (objs (ms w)) o with Some _ => true | None => false end.
(* an object built for an existing process while its stat file could not be read: it has no identity
   (_ident = (pid, None)) and psutil cannot tell its process from a later owner of the PID *)
Definition no_identity (w : world) (o : nat) : bool :=
  match nth_error (objs (ms w)) o with
  | Some x => match ostart x with None => 0 <=? nth o (ginc w) (-1) | Some _ => false end
  | None => false
  end.

(* ---------------------------------------------------------------- kernel events *)
Definition set_zomb (k : kproc) : kproc :=
  {| kpid := kpid k; kinc := kinc k; kstart := kstart k; kppid := kppid k; kzomb := true;
     kcomm := kcomm k; knthr := knthr k |}.
Definition add_thread (k : kproc) : kproc :=
  {| kpid := kpid k; kinc := kinc k; kstart := kstart k; kppid := kppid k; kzomb := kzomb k;
     kcomm := kcomm k; knthr := knthr k + 1 |}.

Definition kstep (w : world) (k : kev) : world :=
  match k with
  | Spawn p s pp cm =>
    {| table := table w ++ [{| kpid := p; kinc := nextinc w; kstart := s; kppid := pp; kzomb := false;
                               kcomm := cm; knthr := 1 |}];
       hist := (nextinc w, p, s) :: hist w; nextinc := nextinc w + 1; btime := btime w;
       ms := ms w; ginc := ginc w; denied := denied w |}
  | SpawnThread p =>
    {| table := map (fun k => if kpid k =? p then add_thread k else k) (table w);
       hist := hist w; nextinc := nextinc w; btime := btime w; ms := ms w; ginc := ginc w; denied := denied w |}
  | Exit p =>
    {| table := map (fun k => if kpid k =? p then set_zomb k else k) (table w);
       hist := hist w; nextinc := nextinc w; btime := btime w; ms := ms w; ginc := ginc w; denied := denied w |}
  | Reap p =>
    {| table := filter (fun k => negb (kpid k =? p)) (table w);
       hist := hist w; nextinc := nextinc w; btime := btime w; ms := ms w; ginc := ginc w; denied := denied w |}
  | ClockStep d =>
    {| table := table w; hist := hist w; nextinc := nextinc w; btime := btime w + d;
       ms := ms w; ginc := ginc w; denied := denied w |}
  | Deny p =>
    {| table := table w; hist := hist w; nextinc := nextinc w; btime := btime w;
       ms := ms w; ginc := ginc w; denied := p :: denied w |}
  | Allow p =>
    {| table := table w; hist := hist w; nextinc := nextinc w; btime := btime w;
       ms := ms w; ginc := ginc w; denied := filter (fun q => negb (q =? p)) (denied w) |}
  end.

(* a history is well formed when: a PID is given only when free, PIDs fit a pid_t, and two
   starts of one PID never carry the same start time (the assumption psutil documents) *)
Definition wf_kev (w : world) (k : kev) : bool :=
  match k with
  | Spawn p s pp _ =>
    (0 <=? p) && (p <? PID_MAX) && (0 <=? s)
    && match lookup (table w) p with None => true | Some _ => false end
    && forallb (fun e => match e with (_, p', s') => negb ((p' =? p) && (s' =? s)) end) (hist w)
  (* the theorems over well-formed histories are for a kernel that lets psutil read /proc/<pid>/stat; what
     holds when it does not (objects without identity, no reuse verdict) is in Proc/ProofsPure.v *)
  | Deny _ => false
  | _ => true
  end.

(* ---------------------------------------------------------------- the machine *)
(* effects: every system call psutil attempted, with the incarnation that received it
   (None: no such PID, the kernel answered ESRCH) *)
Definition tag (w : world) (c : sysc) : sysc * option Z := (c, owner w (sysc_pid c)).

(* ghost of a new object: the incarnation owning its PID now; for an object built for a PID nobody owns
   (psutil.Popen whose child is gone) a negative token naming that PID -- never the number of a process *)
Definition ghost_of (w : world) (y : pobj) : Z :=
  match owner w (opid y) with Some i => i | None => -1 - opid y end.

(* ghosts of the objects a call appends: a copy is bound to what its original is bound to *)
Definition new_ghosts (w : world) (c : call) (news : list pobj) : list Z :=
  match c with
  | Copy o _ _ => map (fun _ => nth o (ginc w) (-1)) news
  | _ => map (ghost_of w) news
  end.

Definition cstep (w : world) (c : call) : world * outcome res * list (sysc * option Z) :=
  let '(m1, r, scs) := mcall (view_of w) (ms w) c in
  ({| table := table w; hist := hist w; nextinc := nextinc w; btime := btime w; ms := m1;
      ginc := ginc w ++ new_ghosts w c (skipn (length (objs (ms w))) (objs m1)); denied := denied w |},
   r, map (tag w) scs).

Definition step (w : world) (e : ev) : world * outcome res * list (sysc * option Z) :=
  match e with
  | EK k => (kstep w k, Val RNone, [])
  | EC c => cstep w c
  | ER o s ks =>
    let '(w1, r1, _) := cstep w (SetProbe o) in
    let w2 := fold_left kstep ks w1 in
    match r1 with
    | Val _ => cstep w2 (SetAct o s)
    | _ => (w2, r1, [])
    end
  end.

Definition next (w : world) (e : ev) : world := fst (fst (step w e)).
Definition outcome_of (w : world) (e : ev) : outcome res := snd (fst (step w e)).
Definition effects_of (w : world) (e : ev) : list (sysc * option Z) := snd (step w e).
Definition run_from (w : world) (h : list ev) : world := fold_left next h w.
Definition run (h : list ev) : world := run_from world0 h.

Fixpoint wf_kevs (w : world) (ks : list kev) : bool :=
  match ks with [] => true | k :: r => wf_kev w k && wf_kevs (kstep w k) r end.
Definition wf_ev (w : world) (e : ev) : bool :=
  match e with
  | EK k => wf_kev w k
  | EC _ => true
  | ER o _ ks => wf_kevs (fst (fst (cstep w (SetProbe o)))) ks
  end.
Fixpoint wf_from (w : world) (h : list ev) : bool :=
  match h with [] => true | e :: r => wf_ev w e && wf_from (next w e) r end.
Definition wf_hist (h : list ev) : bool := wf_from world0 h.

(* ---------------------------------------------------------------- what the properties demand *)
(* the request a setter stands for, on pid p *)
Definition intended (p : Z) (s : setter) : sysc :=
  match s with
  | SendSignal sig => SKill p sig
  | Suspend => SKill p SIGSTOP | Resume => SKill p SIGCONT
  | Terminate => SKill p SIGTERM | Kill => SKill p SIGKILL
  | Nice v => SNice p v
  | Ionice cls v => SIonice p cls (match v with Some n => n | None => 0 end)
  | Rlimit rsrc lims => SRlimit p rsrc (nth 0 lims 0) (nth 1 lims 0)
  | Affinity cpus => SAffinity p (sort_uniq (match cpus with [] => ALL_CPUS | _ => cpus end))
  end.

(* arguments the documented interface accepts (everything else is a ValueError and changes nothing) *)
Definition valid_args (p : Z) (s : setter) : bool :=
  match s with
  | SendSignal _ | Suspend | Resume | Terminate | Kill => negb (p =? 0)
  | Nice _ => true
  | Ionice cls v =>
    let value := match v with Some n => n | None => 0 end in
    (0 <=? value) && (value <=? 7) && ((value =? 0) || negb ((cls =? 3) || (cls =? 0)))
    && ((0 <=? cls) && (cls <=? 3))
  | Rlimit _ lims => negb (p =? 0) && (length lims =? 2)%nat
  | Affinity _ => true
  end.

Definition delivered (l : list (sysc * option Z)) : list (sysc * Z) :=
  flat_map (fun e => match snd e with Some i => [(fst e, i)] | None => [] end) l.

(* acceptable (outcome, delivered effects) pairs for a call; None = these properties demand nothing *)
Definition spec_call (w : world) (c : call) : option (list (outcome res * list (sysc * Z))) :=
  match c with
  | New pid =>
    Some [ (if pid <? 0 then Exc ValueError
            else if (pid <? PID_MAX) && (match owner w pid with Some _ => true | None => false end)
                 then Val (RObj (length (ginc w))) else Exc NoSuchProcess, []) ]
  (* no demand where psutil cannot know: the object has no identity, or the stat file of the PID is unreadable now *)
  | IsRunning o =>
    if has_obj w o && negb (no_identity w o) && negb (memz (g_pid w o) (denied w))
    then Some [ (Val (RBool (alive w (g_inc w o))), []) ] else None
  (* two objects neither of which was built for a process (Popen, child gone): the property text is silent *)
  | EqC a b =>
    if has_obj w a && has_obj w b && ((0 <=? g_inc w a) || (0 <=? g_inc w b))
       && negb (no_identity w a) && negb (no_identity w b)
    then Some [ (Val (RBool (g_inc w a =? g_inc w b)), []) ] else None
  | HashEq a b =>
    if has_obj w a && has_obj w b && ((0 <=? g_inc w a) || (0 <=? g_inc w b))
       && negb (no_identity w a) && negb (no_identity w b)
    then Some [ (Val (RHash (g_inc w a =? g_inc w b) true), []) ] else None
  | Set_ o s =>
    if has_obj w o && negb (no_identity w o) && negb (memz (g_pid w o) (denied w)) then
      let p := g_pid w o in
      if alive w (g_inc w o) then
        Some [ if valid_args p s then (Val RNone, [(intended p s, g_inc w o)]) else (Exc ValueError, []) ]
      else match owner w p with
           | Some _ => Some [ (Exc NoSuchProcess, []) ]
           | None => Some ((Exc NoSuchProcess, []) :: if valid_args p s then [] else [(Exc ValueError, [])])
           end
    else None
  | EqOther o => if has_obj w o then Some [ (Val (RBool false), []) ] else None
  (* wait_procs([o], timeout=0): a process still in the table is not reported gone -- also when os.kill/waitpid
     in the caller's namespace do not see its PID (foreign procfs); a process gone whose PID nobody has is.
     (gone but the PID recycled: wait() waits for whoever has the PID -- C15's subject, no demand) *)
  | WaitProcs o vis =>
    if has_obj w o && negb (no_identity w o) && negb (memz (g_pid w o) (denied w)) && (0 <? g_pid w o)
    then if alive w (g_inc w o) then Some [ (Val (RBool false), []) ]
         else match owner w (g_pid w o) with None => Some [ (Val (RBool true), []) ] | Some _ => None end
    else None
  | Ppid _ | CreateTime _ | BootTime | ProcIter | NewPopen _ | OneshotEnter _ | OneshotExit _ | AsDict _
  | SetProbe _ | SetAct _ _ | Wait _ _ | IterStart | IterNext _ | Copy _ _ _ | PickleDump _ _ => None
  end.

(* histories in which no process_iter() generator is resumed while other calls go on
   (list(process_iter()) = ProcIter is one atomic call and is allowed) *)
Definition no_next (e : ev) : bool := match e with EC (IterNext _) => false | _ => true end.
Definition overlap_free (h : list ev) : bool := forallb no_next h.

(* no attempt at all may name PID 0 or a negative PID in os.kill *)
Definition group_kill (e : sysc * option Z) : bool :=
  match fst e with SKill p _ => p <=? 0 | _ => false end.
