(* Proc -- process_iter(): with atomic calls the b70d950 branch ("a cached instance that is_running()
   found stale is replaced") is never taken.  Invariant: every cached object whose _pid_reused is set has
   its PID in _pids_reused -- and process_iter() drops those PIDs from its copy before looping.
   The invariant holds after EVERY history (no well-formedness needed: it is a fact about psutil's code). *)
From PV Require Import Proc.Spec Proc.Lib Proc.ProofsInv Proc.ProofsStep.

Definition pmap_ok (m : mstate) : Prop :=
  forall p i, In (p, i) (pmap m) ->
  exists x, nth_error (objs m) i = Some x /\ opid x = p /\ (oreused x = true -> memz p (reused m) = true).

(* what a method may do to _pid_reused: keep it, or set it while adding the PID to _pids_reused *)
Definition logged (x x1 : pobj) (add : list Z) : Prop :=
  opid x1 = opid x /\ (oreused x1 = true -> oreused x = true \/ In (opid x) add).

Lemma logged_refl x : logged x x [].
Proof. split; auto. Qed.

Lemma memz_in a l : memz a l = true <-> In a l.
Proof.
  unfold memz. rewrite existsb_exists. split.
  - intros [b [Hb E]]. apply Z.eqb_eq in E. subst; auto.
  - intros H. exists a. split; auto. apply Z.eqb_refl.
Qed.

Lemma memz_app a l1 l2 : memz a (l1 ++ l2) = memz a l1 || memz a l2.
Proof. unfold memz. apply existsb_app. Qed.

Lemma is_running_logged K x :
  logged x (fst (fst (is_running K x))) (snd (is_running K x)).
Proof.
  unfold is_running, logged.
  repeat match goal with |- context [match ?e with _ => _ end] => destruct e end;
    cbn [fst snd with_gone with_reused opid oreused]; split; auto; try (intros; discriminate);
    intros _; right; left; reflexivity.
Qed.

Lemma raise_if_logged K x :
  logged x (fst (fst (raise_if_pid_reused K x))) (snd (raise_if_pid_reused K x)).
Proof.
  unfold raise_if_pid_reused. pose proof (is_running_logged K x) as L.
  destruct (ogone x && negb (oreused x)); [apply logged_refl|]. destruct (oreused x) eqn:R; [apply logged_refl|].
  destruct (is_running K x) as [[x1 r] add]. cbn [fst snd] in *.
  destruct r as [b| |]; [destruct (negb b && oreused x1)| |]; exact L.
Qed.

Lemma setter_body_same K x s :
  opid (fst (fst (setter_body K x s))) = opid x /\ oreused (fst (fst (setter_body K x s))) = oreused x.
Proof.
  destruct s; cbn [setter_body]; unfold kill_body, wrapped_sys;
    repeat match goal with |- context [match ?e with _ => _ end] => destruct e end;
    cbn [fst with_gone opid oreused]; auto.
Qed.

Lemma do_probe_logged K x : logged x (fst (fst (do_probe K x))) (snd (do_probe K x)).
Proof.
  unfold do_probe. destruct (opid x <? 0); [apply logged_refl|].
  pose proof (raise_if_logged K x) as L. destruct (raise_if_pid_reused K x) as [[x1 r] add]. exact L.
Qed.

Lemma do_setter_logged K x s :
  logged x (fst (fst (fst (do_setter K x s)))) (snd (fst (do_setter K x s))).
Proof.
  unfold do_setter. destruct (opid x <? 0); [apply logged_refl|].
  pose proof (raise_if_logged K x) as L. destruct (raise_if_pid_reused K x) as [[x1 r] add]. cbn [fst snd] in L.
  destruct r as [u|e|]; cbn [fst snd]; auto.
  pose proof (setter_body_same K x1 s) as [Ep Er].
  destruct (setter_body K x1 s) as [[x2 r2] scs]. cbn [fst snd] in *.
  destruct L as [L1 L2]. split; [congruence|]. rewrite Er. exact L2.
Qed.

Lemma parse_stat_same K x :
  opid (fst (parse_stat K x)) = opid x /\ oreused (fst (parse_stat K x)) = oreused x.
Proof.
  unfold parse_stat.
  repeat match goal with |- context [match ?e with _ => _ end] => destruct e end;
    cbn [fst with_shot opid oreused]; auto.
Qed.

Lemma do_ppid_logged K x : logged x (fst (fst (do_ppid K x))) (snd (do_ppid K x)).
Proof.
  unfold do_ppid.
  assert (G : logged x
    (fst (fst (let '(x1, r, add) := raise_if_pid_reused K x in
      match r with
      | Val _ =>
        let '(x2, st) := parse_stat K x1 in
        match st with
        | Some (_, pp) =>
          (match oshot x2 with S _ => with_shot (oshot x2) (Some pp) (ocstat x2) x2 | O => x2 end, Val (RInt pp), add)
        | None => (x2, Exc (stat_exn K (opid x2)), add)
        end
      | Exc e => (x1, Exc e, add)
      | OutOfModel => (x1, OutOfModel, add)
      end)))
    (snd (let '(x1, r, add) := raise_if_pid_reused K x in
      match r with
      | Val _ =>
        let '(x2, st) := parse_stat K x1 in
        match st with
        | Some (_, pp) =>
          (match oshot x2 with S _ => with_shot (oshot x2) (Some pp) (ocstat x2) x2 | O => x2 end, Val (RInt pp), add)
        | None => (x2, Exc (stat_exn K (opid x2)), add)
        end
      | Exc e => (x1, Exc e, add)
      | OutOfModel => (x1, OutOfModel, add)
      end))).
  { pose proof (raise_if_logged K x) as L. destruct (raise_if_pid_reused K x) as [[x1 r] add]. cbn [fst snd] in L.
    destruct r as [u|e|]; cbn [fst snd]; auto.
    pose proof (parse_stat_same K x1) as [Ep Er].
    destruct (parse_stat K x1) as [x2 [[? pp]|]]; cbn [fst snd] in *.
    - destruct L as [L1 L2].
      assert (G : forall xx, opid xx = opid x2 -> oreused xx = oreused x2 -> logged x xx add).
      { intros xx E1 E2. split; [congruence|]. rewrite E2, Er. exact L2. }
      destruct (oshot x2); apply G; reflexivity.
    - destruct L as [L1 L2]. split; [congruence|]. rewrite Er. exact L2. }
  destruct (oshot x); [exact G|]. destruct (ocppid x); [apply logged_refl|exact G].
Qed.

Lemma oneshot_enter_same x : opid (oneshot_enter x) = opid x /\ oreused (oneshot_enter x) = oreused x.
Proof. unfold oneshot_enter. destruct (oshot x); auto. Qed.

Lemma oneshot_exit_same x x1 : oneshot_exit x = Some x1 -> opid x1 = opid x /\ oreused x1 = oreused x.
Proof. unfold oneshot_exit. destruct (oshot x) as [|[|n]]; intros E; inversion E; auto. Qed.

Lemma do_wait_same K x vis :
  opid (fst (do_wait K x vis)) = opid x /\ oreused (fst (do_wait K x vis)) = oreused x.
Proof.
  unfold do_wait. destruct (oexit x); auto. destruct (opid x <=? 0); auto.
  destruct (vis && kexists K (opid x)); auto.
Qed.

Lemma do_wait_procs_logged K x vis :
  logged x (fst (fst (do_wait_procs K x vis))) (snd (do_wait_procs K x vis)).
Proof.
  unfold do_wait_procs.
  assert (H0 : opid (fst (do_hash x)) = opid x /\ oreused (fst (do_hash x)) = oreused x).
  { unfold do_hash. destruct (ohash x); auto. }
  destruct (do_hash x) as [x0 h0]. cbn [fst] in H0. destruct H0 as [A0 B0].
  pose proof (do_wait_same K x0 vis) as [A1 B1]. destruct (do_wait K x0 vis) as [x1 r1]. cbn [fst] in *.
  assert (L1 : logged x x1 []) by (split; [congruence|intros R; left; congruence]).
  destruct r1 as [u|e|]; cbn [fst snd]; try exact L1.
  - pose proof (is_running_logged K x1) as [P Q]. destruct (is_running K x1) as [[x2 r2] add]. cbn [fst snd] in *.
    split; [congruence|]. intros R. destruct (Q R) as [R1|R1]; [left; congruence|right; congruence].
  - destruct e; exact L1.
Qed.

(* ---------------------------------------------------------------- updates of the module state *)
Lemma pmap_ok_upd m o x x1 add :
  pmap_ok m -> nth_error (objs m) o = Some x -> logged x x1 add ->
  pmap_ok (with_reusedset (reused m ++ add) (with_objs (upd_nth o x1 (objs m)) m)).
Proof.
  intros P Ex [L1 L2] p i Hin. cbn [pmap with_reusedset with_objs objs reused] in *.
  destruct (P p i Hin) as (y & Ey & Ep & Er).
  destruct (Nat.eq_dec o i) as [->|N].
  - rewrite Ex in Ey. inversion Ey; subst y. exists x1. rewrite (nth_error_upd_same _ _ _ _ Ex).
    splits; auto; [congruence|]. intros R. rewrite memz_app. apply orb_true_iff.
    destruct (L2 R) as [R0|Hin']; [left; auto|right]. apply memz_in. congruence.
  - exists y. rewrite nth_error_upd_other by auto. splits; auto.
    intros R. rewrite memz_app, (Er R). reflexivity.
Qed.

Lemma pmap_ok_upd_same m o x x1 :
  pmap_ok m -> nth_error (objs m) o = Some x -> opid x1 = opid x -> oreused x1 = oreused x ->
  pmap_ok (with_objs (upd_nth o x1 (objs m)) m).
Proof.
  intros P Ex E1 E2 p i Hin. cbn [pmap with_objs objs reused] in *.
  destruct (P p i Hin) as (y & Ey & Ep & Er).
  destruct (Nat.eq_dec o i) as [->|N].
  - rewrite Ex in Ey. inversion Ey; subst y. exists x1. rewrite (nth_error_upd_same _ _ _ _ Ex).
    splits; auto; [congruence|]. rewrite E2. exact Er.
  - exists y. rewrite nth_error_upd_other by auto. auto.
Qed.

Lemma pmap_ok_app m l : pmap_ok m -> pmap_ok (with_objs (objs m ++ l) m).
Proof.
  intros P p i Hin. cbn [pmap with_objs objs reused] in *.
  destruct (P p i Hin) as (y & Ey & Ep & Er). exists y. splits; auto.
  rewrite nth_error_app1; auto. apply nth_error_Some. congruence.
Qed.

(* ---------------------------------------------------------------- the loop *)
Definition clean (os : list pobj) (pm : list (Z * nat)) : Prop :=
  forall p i, In (p, i) pm -> exists x, nth_error os i = Some x /\ opid x = p /\ oreused x = false.

Lemma assoc_nat_in p pm i : assoc_nat p pm = Some i -> In (p, i) pm.
Proof.
  induction pm as [|[q j] pm IH]; cbn [assoc_nat]; [discriminate|].
  destruct (Z.eqb_spec p q) as [->|N]; intros E.
  - inversion E; subst. left; reflexivity.
  - right; auto.
Qed.

Lemma new_obj_fresh K p y : new_obj K p = Val y -> opid y = p /\ oreused y = false.
Proof.
  unfold new_obj. destruct (p <? 0); [discriminate|]. destruct (PID_MAX <=? p); [discriminate|].
  destruct (kv_stat K p) as [[[st ?] ?]|]; [|discriminate]. intros E. inversion E; auto.
Qed.

Lemma clean_snoc os pm p y : clean os pm -> opid y = p -> oreused y = false ->
  clean (os ++ [y]) (pm ++ [(p, length os)]).
Proof.
  intros C Ep Er q i Hin. apply in_app_iff in Hin as [Hin|[Hin|[]]].
  - destruct (C q i Hin) as (x & Ex & E1 & E2). exists x. splits; auto.
    rewrite nth_error_app1; auto. apply nth_error_Some. congruence.
  - inversion Hin; subst. exists y. rewrite nth_error_app2, Nat.sub_diag by lia. auto.
Qed.

(* the loop never meets a stale cached entry: it runs exactly like the loop without the b70d950 branch,
   and leaves a clean cache *)
Lemma iter_loop_stale_free K ps : forall newp os pm acc,
  clean os pm ->
  iter_loop K ps newp os pm acc = iter_loop_nostale K ps newp os pm acc
  /\ clean (fst (fst (iter_loop K ps newp os pm acc))) (snd (fst (iter_loop K ps newp os pm acc))).
Proof.
  induction ps as [|p ps IH]; intros newp os pm acc C; cbn [iter_loop iter_loop_nostale fst snd]; auto.
  destruct (assoc_nat p pm) as [i|] eqn:A.
  - destruct (C p i (assoc_nat_in _ _ _ A)) as (x & Ex & _ & Er). rewrite Ex, Er. apply IH; auto.
  - destruct (memz p newp); [|apply IH; auto].
    destruct (new_obj K p) as [y|e|] eqn:N.
    + destruct (new_obj_fresh K p y N) as [Ep Er]. apply IH. apply clean_snoc; auto.
    + destruct e; try (split; [reflexivity|exact C]). apply IH; auto.
    + split; [reflexivity|exact C].
Qed.

Lemma clean_start m : pmap_ok m ->
  forall a, clean (objs m) (filter (fun e => negb (memz (fst e) (reused m)))
                                   (filter (fun e => memz (fst e) a) (pmap m))).
Proof.
  intros P a p i Hin. apply filter_In in Hin as [Hin Hr]. apply filter_In in Hin as [Hin _].
  cbn [fst] in Hr. destruct (P p i Hin) as (x & Ex & Ep & Er). exists x. splits; auto.
  destruct (oreused x); auto. rewrite (Er eq_refl) in Hr. discriminate.
Qed.

Lemma proc_iter_stale_free K m : pmap_ok m ->
  proc_iter K m = proc_iter_nostale K m /\ pmap_ok (fst (proc_iter K m)).
Proof.
  intros P. unfold proc_iter, proc_iter_nostale.
  destruct (sort_uniq (kv_pids K)) as [|p0 ps] eqn:Sa; [split; auto|].
  match goal with |- context [iter_loop K ?a ?n ?os ?pm ?acc] =>
    destruct (iter_loop_stale_free K a n os pm acc (clean_start m P a)) as [E C] end.
  rewrite <- E.
  match goal with |- context [iter_loop K ?a ?n ?os ?pm ?acc] =>
    destruct (iter_loop K a n os pm acc) as [[os' pm'] r'] end.
  cbn [fst snd] in *. split; auto.
  intros p i Hin. cbn [pmap objs reused] in *. destruct (C p i Hin) as (x & Ex & Ep & Er).
  exists x. splits; auto. rewrite Er. discriminate.
Qed.

(* ---------------------------------------------------------------- every call keeps the invariant *)
Lemma mcall_pmap_ok K m c : (forall g, c <> IterNext g) -> pmap_ok m -> pmap_ok (fst (fst (mcall K m c))).
Proof.
  intros NN P. destruct c as [pid|pid|o|o s|o|o|o|o|o|a b|a b|o s|o|o| | |o vis| |g|o vis|o hw ok|o ok]; cbn [mcall].
  - destruct (new_obj K pid); cbn [fst]; auto. apply pmap_ok_app; auto.
  - destruct (new_popen K pid); cbn [fst]; auto. apply pmap_ok_app; auto.
  - destruct (nth_error (objs m) o) as [x|] eqn:Ex; cbn [fst]; auto.
    pose proof (do_probe_logged K x) as L. destruct (do_probe K x) as [[x1 r] add]. cbn [fst snd] in *.
    eapply pmap_ok_upd; eauto.
  - destruct (nth_error (objs m) o) as [x|] eqn:Ex; cbn [fst]; auto.
    pose proof (setter_body_same K x s) as [E1 E2]. destruct (setter_body K x s) as [[x2 r2] scs]. cbn [fst] in *.
    eapply pmap_ok_upd_same; eauto.
  - destruct (nth_error (objs m) o); cbn [fst]; auto.
  - destruct (nth_error (objs m) o) as [x|] eqn:Ex; cbn [fst]; auto.
    destruct (oshared x); cbn [fst]; auto.
    destruct (oneshot_enter_same x). eapply pmap_ok_upd_same; eauto.
  - destruct (nth_error (objs m) o) as [x|] eqn:Ex; cbn [fst]; auto.
    destruct (oneshot_exit x) as [x1|] eqn:Eo; cbn [fst]; auto.
    destruct (oneshot_exit_same x x1 Eo). eapply pmap_ok_upd_same; eauto.
  - destruct (nth_error (objs m) o) as [x|] eqn:Ex; cbn [fst]; auto.
    destruct (oshared x); cbn [fst]; auto.
    pose proof (do_ppid_logged K (oneshot_enter x)) as [L1 L2]. destruct (oneshot_enter_same x) as [Ee1 Ee2].
    destruct (do_ppid K (oneshot_enter x)) as [[x1 r] add]. cbn [fst snd] in *.
    destruct (oneshot_exit x1) as [x2|] eqn:Eo; cbn [fst]; auto.
    destruct (oneshot_exit_same x1 x2 Eo) as [Ex1 Ex2].
    eapply pmap_ok_upd; eauto. split; [congruence|]. rewrite Ex2, <- Ee2, <- Ee1. exact L2.
  - destruct (nth_error (objs m) o) as [x|] eqn:Ex; cbn [fst]; auto.
    pose proof (is_running_logged K x) as L. destruct (is_running K x) as [[x1 r] add]. cbn [fst snd] in *.
    eapply pmap_ok_upd; eauto.
  - destruct (nth_error (objs m) a), (nth_error (objs m) b); cbn [fst]; auto.
  - destruct (nth_error (objs m) a) as [x|] eqn:Ex; cbn [fst]; auto.
    assert (H1 : opid (fst (do_hash x)) = opid x /\ oreused (fst (do_hash x)) = oreused x).
    { unfold do_hash. destruct (ohash x); auto. }
    destruct (do_hash x) as [x1 h1]. cbn [fst] in H1. destruct H1 as [Ea Eb].
    pose proof (pmap_ok_upd_same m a x x1 P Ex Ea Eb) as P1.
    destruct (nth_error (upd_nth a x1 (objs m)) b) as [y|] eqn:Ey; cbn [fst]; auto.
    assert (H2 : opid (fst (do_hash y)) = opid y /\ oreused (fst (do_hash y)) = oreused y).
    { unfold do_hash. destruct (ohash y); auto. }
    destruct (do_hash y) as [y1 h2]. cbn [fst] in *. destruct H2 as [Ec Ed].
    exact (pmap_ok_upd_same (with_objs (upd_nth a x1 (objs m)) m) b y y1 P1 Ey Ec Ed).
  - destruct (nth_error (objs m) o) as [x|] eqn:Ex; cbn [fst]; auto.
    pose proof (do_setter_logged K x s) as L. destruct (do_setter K x s) as [[[x1 r] add] scs]. cbn [fst snd] in *.
    eapply pmap_ok_upd; eauto.
  - destruct (nth_error (objs m) o) as [x|] eqn:Ex; cbn [fst]; auto.
    pose proof (do_ppid_logged K x) as L. destruct (do_ppid K x) as [[x1 r] add]. cbn [fst snd] in *.
    eapply pmap_ok_upd; eauto.
  - destruct (nth_error (objs m) o) as [x|] eqn:Ex; cbn [fst]; auto.
    assert (H1 : forall m', pmap m' = pmap m -> objs m' = objs m -> reused m' = reused m -> pmap_ok m').
    { intros m' E1 E2 E3 p i Hin. rewrite E1 in Hin. rewrite E2, E3. apply P; auto. }
    unfold do_create_time. destruct (octime x); cbn [fst]; [eapply pmap_ok_upd_same; eauto|].
    pose proof (parse_stat_same K x) as [Ea Eb].
    destruct (parse_stat K x) as [x1 [[st ?]|]]; cbn [fst] in *; [|eapply pmap_ok_upd_same; eauto].
    destruct (bootc m) as [bb|]; [destruct (bb =? 0)|]; cbn [do_boot_time fst];
      (eapply pmap_ok_upd_same; [apply H1; reflexivity|cbn [with_bootc objs]; eauto|cbn [with_ctime opid]; auto|cbn [with_ctime oreused]; auto]).
  - cbn [do_boot_time fst]. intros p i Hin. apply P; auto.
  - pose proof (proc_iter_stale_free K m P) as [_ P']. destruct (proc_iter K m) as [m1 r]. exact P'.
  - destruct (nth_error (objs m) o) as [x|] eqn:Ex; cbn [fst]; auto.
    pose proof (do_wait_same K x vis) as [E1 E2]. destruct (do_wait K x vis) as [x1 r1]. cbn [fst] in *.
    eapply pmap_ok_upd_same; eauto.
  - cbn [fst]. intros p i Hin. apply P; auto.
  - exfalso. eapply NN; reflexivity.
  - destruct (nth_error (objs m) o) as [x|] eqn:Ex; cbn [fst]; auto.
    pose proof (do_wait_procs_logged K x vis) as L.
    destruct (do_wait_procs K x vis) as [[x1 r] add]. cbn [fst snd] in *.
    eapply pmap_ok_upd; eauto.
  - destruct (nth_error (objs m) o) as [x|] eqn:Ex; cbn [fst]; auto.
    destruct ok; [|destruct hw; cbn [fst]; auto]. destruct (oshot x); cbn [fst]; auto.
    apply (pmap_ok_app (with_objs (upd_nth o (with_shared x) (objs m)) m) [with_shared x]).
    eapply pmap_ok_upd_same; eauto.
  - destruct (nth_error (objs m) o); cbn [fst]; auto.
Qed.

Lemma cstep_pmap_ok w c : (forall g, c <> IterNext g) -> pmap_ok (ms w) -> pmap_ok (ms (fst (fst (cstep w c)))).
Proof. intros NN P. rewrite cstep_eq. cbn [fst ms]. apply mcall_pmap_ok; auto. Qed.

Lemma ksteps_ms' ks : forall w, ms (fold_left kstep ks w) = ms w.
Proof. induction ks as [|k ks IH]; intros w; cbn [fold_left]; auto. rewrite IH. destruct k; reflexivity. Qed.

Lemma next_pmap_ok w e : no_next e = true -> pmap_ok (ms w) -> pmap_ok (ms (next w e)).
Proof.
  intros NN P. unfold next. destruct e as [k|c|o s ks]; cbn [step].
  - destruct k; exact P.
  - apply cstep_pmap_ok; auto. intros g ->. discriminate.
  - assert (P1 : pmap_ok (ms (fst (fst (cstep w (SetProbe o)))))) by (apply cstep_pmap_ok; auto; discriminate).
    destruct (cstep w (SetProbe o)) as [[w1 r1] e1]. cbn [fst] in *.
    destruct r1; cbn [fst]; try (rewrite ksteps_ms'; exact P1).
    apply cstep_pmap_ok; [discriminate|]. rewrite ksteps_ms'. exact P1.
Qed.

Lemma run_pmap_ok h : overlap_free h = true -> pmap_ok (ms (run h)).
Proof.
  unfold run, run_from, overlap_free. assert (P0 : pmap_ok (ms world0)) by (intros p i []).
  revert P0. generalize world0. induction h as [|e h IH]; intros w P F; cbn [fold_left]; auto.
  cbn [forallb] in F. apply andb_true_iff in F as [F1 F2].
  apply IH; auto. apply next_pmap_ok; auto.
Qed.

(* in every world reached without resuming a generator in between (any events otherwise, well formed or not)
   process_iter() behaves exactly as it did before b70d950 *)
Theorem stale_branch_unreachable h : overlap_free h = true ->
  proc_iter (view_of (run h)) (ms (run h)) = proc_iter_nostale (view_of (run h)) (ms (run h)).
Proof. intros F. apply proc_iter_stale_free. apply run_pmap_ok; auto. Qed.

(* ... and WITH a suspended generator the branch is taken: the first pass caches object 0 for PID 5, the PID is
   recycled, a second generator is resumed up to PID 3, is_running() marks object 0 stale, the generator goes on
   and replaces it (object 3 is new) -- the object the caller holds is left alone *)
Definition ex_overlap : list ev :=
  [EK (Spawn 3 100 1 [97]); EK (Spawn 5 100 1 [98]); EC ProcIter; EK (Reap 5); EK (Spawn 5 101 1 [99]);
   EC IterStart; EC (IterNext 0); EC (IsRunning 1)].
Lemma stale_branch_reached :
  wf_hist ex_overlap = true
  /\ outcome_of (run ex_overlap) (EC (IterNext 0)) = Val (RObj 2)
  /\ g_inc (next (run ex_overlap) (EC (IterNext 0))) 1 = 1
  /\ g_inc (next (run ex_overlap) (EC (IterNext 0))) 2 = 2
  /\ outcome_of (next (run ex_overlap) (EC (IterNext 0))) (EC (IsRunning 1)) = Val (RBool false)
  /\ outcome_of (next (run ex_overlap) (EC (IterNext 0))) (EC (EqC 1 2)) = Val (RBool false).
Proof. vm_compute. repeat split. Qed.
