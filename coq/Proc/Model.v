(* Proc -- model of the process layer of psutil (shared by C01 and C02):
   psutil/__init__.py  Process._init, _get_ident, __eq__, __hash__, _raise_if_pid_reused,
                       is_running, ppid, create_time, nice/ionice/rlimit/cpu_affinity (set forms),
                       _send_signal, send_signal/suspend/resume/terminate/kill, process_iter, pids, boot_time,
                       oneshot (nesting, the ppid memo), as_dict(attrs=["ppid"]), Popen.__init__ (child present)
   psutil/_common.py   memoize_when_activated (cache_activate/deactivate, exceptions not memoized)
   psutil/_pslinux.py  Process.create_time, nice_set, ionice_set, rlimit, cpu_affinity_set,
                       _get_eligible_cpus, ppid, wrap_exceptions, boot_time, pids
   transcribed from the code as it is in /repo now (after 32d3689, 5d0422d, a4fac6f, 7214dea, a87b45e, b70d950).

   The model sees the kernel only through [kview] -- what /proc and the system calls
   answer.  It never sees incarnation numbers: those exist only in Proc/Spec.v.
   Every psutil call is atomic with respect to kernel events: one [kview] per call. *)
From PV Require Export Base.Prelude.

(* ---------------------------------------------------------------- kernel, as seen by psutil *)
Record kview := {
  kv_stat  : Z -> option (Z * Z * bool);  (* /proc/<pid>/stat: starttime (ticks), ppid, state = 'Z';
                                             None = no such directory; the same answer decides ESRCH *)
  kv_ctime_ok : Z -> bool;                (* /proc/<pid>/stat is readable; false = EACCES/EPERM: _get_ident()
                                             raises AccessDenied, which _init swallows leaving
                                             _ident = (pid, None); ppid()/create_time() raise AccessDenied *)
  kv_pids  : list Z;                      (* numeric entries of os.listdir(/proc), any order *)
  kv_btime : Z                            (* btime line of /proc/stat *)
}.

(* ---------------------------------------------------------------- Process object state *)
(* _ident = (pid, starttime / CLOCK_TICKS) on Linux; the float is an injective image of the tick count
   (ticks < 2^52), so the model keeps the tick count.  _create_time is kept in 1/100 s (exact). *)
Record pobj := {
  opid    : Z;               (* _pid *)
  ostart  : option Z;        (* second component of _ident, in ticks; None = could not be read *)
  ogone   : bool;            (* _gone *)
  oreused : bool;            (* _pid_reused *)
  octime  : option Z;        (* _create_time (x 100) *)
  ohash   : option (Z * option Z);  (* _hash: None or the hashed identity *)
  oshot   : nat;             (* depth of active "with p.oneshot():" blocks; > 0 = the memoize caches exist *)
  ocppid  : option Z;        (* Process._cache[ppid]: value memoized by Process.ppid() inside oneshot *)
  ocstat  : option (Z * Z);  (* _proc._cache[_parse_stat_file]: (starttime, ppid) of the memoized stat record *)
  oexit   : bool;            (* _exitcode is cached (wait() returned; for a process that is not our child: None) *)
  oshared : bool             (* a copy.copy() of this object exists, or it is one: both share _proc (and its cache) *)
}.

Definition with_gone (b : bool) (x : pobj) : pobj :=
  {| opid := opid x; ostart := ostart x; ogone := b; oreused := oreused x; octime := octime x; ohash := ohash x; oshot := oshot x; ocppid := ocppid x; ocstat := ocstat x; oexit := oexit x; oshared := oshared x |}.
Definition with_reused (b : bool) (x : pobj) : pobj :=
  {| opid := opid x; ostart := ostart x; ogone := ogone x; oreused := b; octime := octime x; ohash := ohash x; oshot := oshot x; ocppid := ocppid x; ocstat := ocstat x; oexit := oexit x; oshared := oshared x |}.
Definition with_ctime (c : option Z) (x : pobj) : pobj :=
  {| opid := opid x; ostart := ostart x; ogone := ogone x; oreused := oreused x; octime := c; ohash := ohash x; oshot := oshot x; ocppid := ocppid x; ocstat := ocstat x; oexit := oexit x; oshared := oshared x |}.
Definition with_hash (h : option (Z * option Z)) (x : pobj) : pobj :=
  {| opid := opid x; ostart := ostart x; ogone := ogone x; oreused := oreused x; octime := octime x; ohash := h; oshot := oshot x; ocppid := ocppid x; ocstat := ocstat x; oexit := oexit x; oshared := oshared x |}.
Definition with_exit (b : bool) (x : pobj) : pobj :=
  {| opid := opid x; ostart := ostart x; ogone := ogone x; oreused := oreused x; octime := octime x; ohash := ohash x; oshot := oshot x; ocppid := ocppid x; ocstat := ocstat x; oexit := b; oshared := oshared x |}.
Definition with_shared (x : pobj) : pobj :=
  {| opid := opid x; ostart := ostart x; ogone := ogone x; oreused := oreused x; octime := octime x; ohash := ohash x; oshot := oshot x; ocppid := ocppid x; ocstat := ocstat x; oexit := oexit x; oshared := true |}.
(* oneshot state: depth and the two memoize caches *)
Definition with_shot (n : nat) (p : option Z) (t : option (Z * Z)) (x : pobj) : pobj :=
  {| opid := opid x; ostart := ostart x; ogone := ogone x; oreused := oreused x; octime := octime x; ohash := ohash x; oshot := n; ocppid := p; ocstat := t; oexit := oexit x; oshared := oshared x |}.

Definition ident (x : pobj) : Z * option Z := (opid x, ostart x).
Definition opt_eqb (a b : option Z) : bool :=
  match a, b with Some u, Some v => u =? v | None, None => true | _, _ => false end.
(* __eq__ : self._ident == other._ident *)
Definition obj_eq (a b : pobj) : bool := (opid a =? opid b) && opt_eqb (ostart a) (ostart b).
Definition ident_eqb (a b : Z * option Z) : bool := (fst a =? fst b) && opt_eqb (snd a) (snd b).

(* a process_iter() generator: nothing runs before the first next(); then the local copy of the cache
   and the list it is walking *)
Record gen := {
  g_started : bool;
  g_done    : bool;
  g_ls      : list (Z * option nat);   (* rest of sorted(pmap.items() + new pids): (pid, cached object or None) *)
  g_pm      : list (Z * nat)           (* its local pmap *)
}.

(* module globals of psutil/__init__.py and psutil/_pslinux.py *)
Record mstate := {
  objs   : list pobj;          (* the Process objects the caller holds, in order of creation *)
  bootc  : option Z;           (* _pslinux.BOOT_TIME *)
  pmap   : list (Z * nat);     (* psutil._pmap : pid -> object *)
  reused : list Z;             (* psutil._pids_reused *)
  gens   : list gen            (* process_iter() generators the caller has created and not exhausted *)
}.
Definition with_objs (l : list pobj) (m : mstate) : mstate :=
  {| objs := l; bootc := bootc m; pmap := pmap m; reused := reused m; gens := gens m |}.
Definition with_bootc (b : option Z) (m : mstate) : mstate :=
  {| objs := objs m; bootc := b; pmap := pmap m; reused := reused m; gens := gens m |}.
Definition with_pmap (p : list (Z * nat)) (m : mstate) : mstate :=
  {| objs := objs m; bootc := bootc m; pmap := p; reused := reused m; gens := gens m |}.
Definition with_reusedset (r : list Z) (m : mstate) : mstate :=
  {| objs := objs m; bootc := bootc m; pmap := pmap m; reused := r; gens := gens m |}.
Definition with_gens (g : list gen) (m : mstate) : mstate :=
  {| objs := objs m; bootc := bootc m; pmap := pmap m; reused := reused m; gens := g |}.
Definition mstate0 : mstate := {| objs := []; bootc := None; pmap := []; reused := []; gens := [] |}.

(* ---------------------------------------------------------------- system calls psutil issues *)
Inductive sysc :=
| SKill (pid sig : Z)                   (* os.kill(pid, sig) *)
| SNice (pid v : Z)                     (* cext_posix.setpriority(pid, v) *)
| SIonice (pid cls v : Z)               (* cext.proc_ioprio_set(pid, cls, v) *)
| SRlimit (pid rsrc soft hard : Z)      (* resource.prlimit(pid, rsrc, (soft, hard)) *)
| SAffinity (pid : Z) (cpus : list Z).  (* cext.proc_cpu_affinity_set(pid, cpus); cpus as a sorted set *)

Definition sysc_pid (c : sysc) : Z :=
  match c with SKill p _ | SNice p _ | SIonice p _ _ | SRlimit p _ _ _ | SAffinity p _ => p end.

(* signal and setter requests: arguments of the public methods *)
Inductive setter :=
| SendSignal (sig : Z) | Suspend | Resume | Terminate | Kill
| Nice (v : Z)
| Ionice (cls : Z) (v : option Z)
| Rlimit (rsrc : Z) (lims : list Z)
| Affinity (cpus : list Z).

Inductive how := HCopy | HDeep | HPickle | HLoad.

Inductive call :=
| New (pid : Z)                 (* psutil.Process(pid) *)
| NewPopen (pid : Z)            (* psutil.Popen(...) whose child has PID pid: _init(pid, _ignore_nsp=True);
                                   a child already gone leaves an object with _gone = True, _ident = (pid, None) *)
| SetProbe (o : nat)            (* first half of a signal/setter call: _raise_if_pid_reused() *)
| SetAct (o : nat) (s : setter) (* second half: argument checks and the system call (no identity check) *)
| EqOther (o : nat)             (* o == x for an x that is not a Process (int, tuple equal to _ident, object()) *)
| OneshotEnter (o : nat)        (* entering "with o.oneshot():" *)
| OneshotExit (o : nat)         (* leaving the innermost oneshot block of o *)
| AsDict (o : nat)              (* o.as_dict(attrs=["ppid"])["ppid"] *)
| IsRunning (o : nat)
| EqC (a b : nat)               (* a == b *)
| HashEq (a b : nat)            (* hash(a) == hash(b), and each hash equal to its first value *)
| Set_ (o : nat) (s : setter)
| Ppid (o : nat)
| CreateTime (o : nat)
| BootTime                      (* psutil.boot_time() *)
| ProcIter                      (* list(psutil.process_iter()) *)
| Wait (o : nat) (vis : bool)   (* o.wait(timeout=0) -- the process is not a child of the caller; [vis]: os.kill(pid, 0)
                                   in the caller's PID namespace sees the PID (false: procfs is a foreign one) *)
| IterStart                     (* g = psutil.process_iter(): a generator the caller keeps *)
| IterNext (g : nat)            (* next(g) *)
| WaitProcs (o : nat) (vis : bool)   (* psutil.wait_procs([o], timeout=0): is o reported gone? *)
| Copy (o : nat) (hw : how) (ok : bool)   (* copy.copy(o) / copy.deepcopy(o) / pickle.loads(pickle.dumps(o)) / loading a
                                     pickle of o dumped earlier; [ok]: the tree under test produces a copy this way
                                     (as of now: copy.copy does -- a shallow copy --, the others raise TypeError: RLock) *)
| PickleDump (o : nat) (ok : bool). (* pickle.dumps(o), kept for a later load *)

Inductive res :=
| RNone | RBool (b : bool) | RInt (n : Z) | RObj (i : nat) | RObjs (l : list nat)
| RCenti (n : Z)                (* seconds x 100, exact *)
| RHash (eq stable : bool)
| RGen (g : nat)                (* a new generator *)
| RStop.                        (* StopIteration *)

Definition SIGKILL := 9. Definition SIGTERM := 15. Definition SIGCONT := 18. Definition SIGSTOP := 19.
Definition PID_MAX := 2147483648.   (* _Py_PARSE_PID is a C int *)
Definition CLOCK_TICKS := 100.
(* cpu_affinity([]) on Linux: tuple(range(1024)), every CPU a cpu_set_t can hold *)
Definition ALL_CPUS : list Z := map Z.of_nat (seq 0 1024).

(* sorted(set(l)) *)
Fixpoint insert_uniq (a : Z) (l : list Z) : list Z :=
  match l with
  | [] => [a]
  | b :: r => if a <? b then a :: l else if a =? b then l else b :: insert_uniq a r
  end.
Definition sort_uniq (l : list Z) : list Z := fold_right insert_uniq [] l.
Definition memz (a : Z) (l : list Z) : bool := existsb (Z.eqb a) l.

Fixpoint upd_nth {A} (n : nat) (a : A) (l : list A) : list A :=
  match l, n with
  | [], _ => []
  | _ :: r, O => a :: r
  | b :: r, S k => b :: upd_nth k a r
  end.

Fixpoint assoc_nat (p : Z) (l : list (Z * nat)) : option nat :=
  match l with
  | [] => None
  | (q, i) :: r => if p =? q then Some i else assoc_nat p r
  end.

Section WithKernel.
Variable K : kview.

Definition kexists (pid : Z) : bool := match kv_stat K pid with Some _ => true | None => false end.

(* wrap_exceptions on ProcessLookupError / FileNotFoundError: _raise_if_zombie() first *)
Definition esrch_exn (pid : Z) : exn :=
  match kv_stat K pid with Some (_, _, true) => ZombieProcess | _ => NoSuchProcess end.

(* Process() / Process(None): __init__ "if pid is None: pid = os.getpid()" -- the ONLY place where the code consults the
   caller's own PID; [getpid] is what os.getpid() answers in the calling process at that moment (after a fork: the child's
   number).  There is no other process-wide "who am I" state: a handle on one's own number is a handle like any other. *)
Definition process_noarg (getpid : Z) : call := New getpid.

(* Process.__init__(pid) -> _init: negative pid, pid range, _get_ident() reading /proc/<pid>/stat *)
Definition new_obj (pid : Z) : outcome pobj :=
  if pid <? 0 then Exc ValueError
  else if PID_MAX <=? pid then Exc NoSuchProcess
  else match kv_stat K pid with
       | None => Exc NoSuchProcess
       | Some (st, _, _) =>
         Val {| opid := pid; ostart := if kv_ctime_ok K pid then Some st else None;
                ogone := false; oreused := false; octime := None; ohash := None;
                oshot := O; ocppid := None; ocstat := None; oexit := false; oshared := false |}
       end.

(* Popen.__init__ -> _init(pid, _ignore_nsp=True): a vanished child is not an error *)
Definition orphan_obj (pid : Z) : pobj :=
  {| opid := pid; ostart := None; ogone := true; oreused := false; octime := None; ohash := None;
     oshot := O; ocppid := None; ocstat := None; oexit := false; oshared := false |}.
Definition new_popen (pid : Z) : outcome pobj :=
  if pid <? 0 then Exc ValueError
  else if PID_MAX <=? pid then Exc NoSuchProcess
  else match kv_stat K pid with None => Val (orphan_obj pid) | Some _ => new_obj pid end.

(* is_running(): result, new object state, PIDs added to _pids_reused *)
Definition is_running (x : pobj) : pobj * outcome bool * list Z :=
  if ogone x || oreused x then (x, Val false, [])
  else match new_obj (opid x) with
       | Val y =>
         (* creation time unreadable this time: the PID exists and nothing says it was reused *)
         if match ostart y, ostart x with None, Some _ => true | _, _ => false end then (x, Val true, [])
         else
         if obj_eq x y then (with_reused false x, Val true, [])
         else (with_gone true (with_reused true x), Val false, [opid x])
       | Exc ZombieProcess => (x, Val true, [])
       | Exc NoSuchProcess => (with_gone true x, Val false, [])
       | Exc e => (x, Exc e, [])
       | OutOfModel => (x, OutOfModel, [])
       end.

(* _raise_if_pid_reused() *)
Definition raise_if_pid_reused (x : pobj) : pobj * outcome unit * list Z :=
  if ogone x && negb (oreused x) then (x, Exc NoSuchProcess, [])
  else if oreused x then (x, Exc NoSuchProcess, [])
  else let '(x1, r, add) := is_running x in
       match r with
       | Val b => if negb b && oreused x1 then (x1, Exc NoSuchProcess, add) else (x1, Val tt, add)
       | Exc e => (x1, Exc e, add)
       | OutOfModel => (x1, OutOfModel, add)
       end.

(* the part of each method that follows _raise_if_pid_reused() *)
Definition kill_body (x : pobj) (sig : Z) : pobj * outcome res * list sysc :=
  if opid x =? 0 then (x, Exc ValueError, [])
  else if kexists (opid x) then (x, Val RNone, [SKill (opid x) sig])
  else (with_gone true x, Exc NoSuchProcess, [SKill (opid x) sig]).   (* ProcessLookupError: _gone = True *)

(* a wrap_exceptions-decorated call into the C layer *)
Definition wrapped_sys (x : pobj) (c : sysc) : pobj * outcome res * list sysc :=
  if kexists (opid x) then (x, Val RNone, [c]) else (x, Exc (esrch_exn (opid x)), [c]).

Definition setter_body (x : pobj) (s : setter) : pobj * outcome res * list sysc :=
  match s with
  | SendSignal sig => kill_body x sig
  | Suspend => kill_body x SIGSTOP
  | Resume => kill_body x SIGCONT
  | Terminate => kill_body x SIGTERM
  | Kill => kill_body x SIGKILL
  | Nice v => wrapped_sys x (SNice (opid x) v)
  | Ionice cls v =>
    let value := match v with Some n => n | None => 0 end in
    if negb (value =? 0) && ((cls =? 3) || (cls =? 0)) then (x, Exc ValueError, [])
    else if (value <? 0) || (7 <? value) then (x, Exc ValueError, [])
    else if negb ((0 <=? cls) && (cls <=? 3)) then (x, Exc ValueError, [])     (* a87b45e *)
    else wrapped_sys x (SIonice (opid x) cls value)
  | Rlimit rsrc lims =>
    if opid x =? 0 then (x, Exc ValueError, [])
    else match lims with
         | [soft; hard] => wrapped_sys x (SRlimit (opid x) rsrc soft hard)
         | _ => (x, Exc ValueError, [])
         end
  | Affinity cpus =>
    (* if not cpus: cpus = tuple(range(1024)) [LINUX];  cpu_affinity_set(list(set(cpus))) *)
    wrapped_sys x (SAffinity (opid x) (sort_uniq (match cpus with [] => ALL_CPUS | _ => cpus end)))
  end.

(* first half of a guarded call, as a step of its own *)
Definition do_probe (x : pobj) : pobj * outcome res * list Z :=
  if opid x <? 0 then (x, OutOfModel, [])
  else let '(x1, r, add) := raise_if_pid_reused x in
       (x1, match r with Val _ => Val RNone | Exc e => Exc e | OutOfModel => OutOfModel end, add).

Definition do_setter (x : pobj) (s : setter) : pobj * outcome res * list Z * list sysc :=
  if opid x <? 0 then (x, OutOfModel, [], [])       (* assert not self.pid < 0: no such object exists *)
  else
  let '(x1, r, add) := raise_if_pid_reused x in
  match r with
  | Val _ => let '(x2, r2, scs) := setter_body x1 s in (x2, r2, add, scs)
  | Exc e => (x1, Exc e, add, [])
  | OutOfModel => (x1, OutOfModel, add, [])
  end.

(* the same method as python -O / -OO run it: the `assert not self.pid < 0` of _send_signal is stripped *)
Definition do_setter_O (x : pobj) (s : setter) : pobj * outcome res * list Z * list sysc :=
  let '(x1, r, add) := raise_if_pid_reused x in
  match r with
  | Val _ => let '(x2, r2, scs) := setter_body x1 s in (x2, r2, add, scs)
  | Exc e => (x1, Exc e, add, [])
  | OutOfModel => (x1, OutOfModel, add, [])
  end.

(* _proc._parse_stat_file(): memoized while a oneshot block is active (exceptions are not memoized) *)
Definition parse_stat (x : pobj) : pobj * option (Z * Z) :=
  match oshot x, ocstat x with
  | S _, Some c => (x, Some c)
  | _, _ =>
    match kv_stat K (opid x) with
    | Some (st, pp, _) =>
      if kv_ctime_ok K (opid x)
      then (match oshot x with S _ => with_shot (oshot x) (ocppid x) (Some (st, pp)) x | O => x end, Some (st, pp))
      else (x, None)                      (* PermissionError reading stat: see stat_exn *)
    | None => (x, None)
    end
  end.
(* the exception of a failed stat read (wrap_exceptions): the file is there but unreadable -> AccessDenied;
   no such file -> NoSuchProcess (ZombieProcess) *)
Definition stat_exn (pid : Z) : exn := if kexists pid then AccessDenied else esrch_exn pid.

(* Process.ppid(): @memoize_when_activated around the whole method, _raise_if_pid_reused() included *)
Definition do_ppid (x : pobj) : pobj * outcome res * list Z :=
  match oshot x, ocppid x with
  | S _, Some v => (x, Val (RInt v), [])
  | _, _ =>
    let '(x1, r, add) := raise_if_pid_reused x in
    match r with
    | Val _ =>
      let '(x2, st) := parse_stat x1 in
      match st with
      | Some (_, pp) =>
        (match oshot x2 with S _ => with_shot (oshot x2) (Some pp) (ocstat x2) x2 | O => x2 end, Val (RInt pp), add)
      | None => (x2, Exc (stat_exn (opid x2)), add)
      end
    | Exc e => (x1, Exc e, add)
    | OutOfModel => (x1, OutOfModel, add)
    end
  end.

(* with p.oneshot(): nested blocks are no-ops; the outermost one creates and finally deletes the caches *)
Definition oneshot_enter (x : pobj) : pobj :=
  match oshot x with
  | O => with_shot 1 None None x
  | S n => with_shot (S (S n)) (ocppid x) (ocstat x) x
  end.
Definition oneshot_exit (x : pobj) : option pobj :=
  match oshot x with
  | O => None
  | S O => Some (with_shot O None None x)
  | S (S n) => Some (with_shot (S n) (ocppid x) (ocstat x) x)
  end.

(* boot_time(): reads btime and stores it in BOOT_TIME *)
Definition do_boot_time (m : mstate) : mstate * Z := (with_bootc (Some (kv_btime K)) m, kv_btime K).

(* Process.create_time(): cached; start/CLOCK_TICKS + (BOOT_TIME or boot_time()) *)
Definition do_create_time (m : mstate) (x : pobj) : mstate * pobj * outcome res :=
  match octime x with
  | Some c => (m, x, Val (RCenti c))
  | None =>
    let '(x1, ps) := parse_stat x in
    match ps with
    | None => (m, x1, Exc (stat_exn (opid x1)))
    | Some (st, _) =>
      let '(m1, bt) := match bootc m with
                       | Some b => if b =? 0 then do_boot_time m else (m, b)
                       | None => do_boot_time m
                       end in
      let c := st + CLOCK_TICKS * bt in
      (m1, with_ctime (Some c) x1, Val (RCenti c))
    end
  end.

(* __hash__ *)
Definition do_hash (x : pobj) : pobj * (Z * option Z) :=
  match ohash x with
  | Some h => (x, h)
  | None => (with_hash (Some (ident x)) x, ident x)
  end.

(* the loop of process_iter() over sorted(pmap.items() + new pids):
   ps = sorted pids of the listing; cached entries are yielded as they are, PIDs in [newp] get a new object *)
Fixpoint iter_loop (ps newp : list Z) (os : list pobj) (pm : list (Z * nat)) (acc : list nat)
  : list pobj * list (Z * nat) * outcome (list nat) :=
  match ps with
  | [] => (os, pm, Val (rev acc))
  | p :: rest =>
    match assoc_nat p pm with
    | Some i =>
      (* b70d950: a cached instance that is_running() found stale is replaced *)
      if match nth_error os i with Some x => oreused x | None => false end then
        match new_obj p with
        | Val y => iter_loop rest newp (os ++ [y])
                             (filter (fun e => negb (fst e =? p)) pm ++ [(p, length os)]) (length os :: acc)
        | Exc NoSuchProcess => iter_loop rest newp os (filter (fun e => negb (fst e =? p)) pm) acc
        | Exc e => (os, pm, Exc e)
        | OutOfModel => (os, pm, OutOfModel)
        end
      else iter_loop rest newp os pm (i :: acc)
    | None =>
      if memz p newp then
        match new_obj p with
        | Val y => iter_loop rest newp (os ++ [y]) (pm ++ [(p, length os)]) (length os :: acc)
        | Exc NoSuchProcess => iter_loop rest newp os pm acc
        | Exc e => (os, pm, Exc e)
        | OutOfModel => (os, pm, OutOfModel)
        end
      else iter_loop rest newp os pm acc
    end
  end.

Definition proc_iter (m : mstate) : mstate * outcome res :=
  let a := sort_uniq (kv_pids K) in
  match a with
  | [] => (m, Exc IndexError)                      (* pids(): ret[0] on an empty list *)
  | _ =>
    let b := map fst (pmap m) in
    let newp := filter (fun p => negb (memz p b)) a in
    let pm1 := filter (fun e => memz (fst e) a) (pmap m) in                 (* gone_pids removed *)
    let pm2 := filter (fun e => negb (memz (fst e) (reused m))) pm1 in     (* _pids_reused popped *)
    let '(os, pm, r) := iter_loop a newp (objs m) pm2 [] in
    ({| objs := os; bootc := bootc m; pmap := pm; reused := []; gens := gens m |},
     match r with Val l => Val (RObjs l) | Exc e => Exc e | OutOfModel => OutOfModel end)
  end.

(* the same loop without the b70d950 branch (process_iter() as it was before): used only to STATE that the
   branch is never taken when calls are atomic (Proc/ProofsIter.v) *)
Fixpoint iter_loop_nostale (ps newp : list Z) (os : list pobj) (pm : list (Z * nat)) (acc : list nat)
  : list pobj * list (Z * nat) * outcome (list nat) :=
  match ps with
  | [] => (os, pm, Val (rev acc))
  | p :: rest =>
    match assoc_nat p pm with
    | Some i => iter_loop_nostale rest newp os pm (i :: acc)
    | None =>
      if memz p newp then
        match new_obj p with
        | Val y => iter_loop_nostale rest newp (os ++ [y]) (pm ++ [(p, length os)]) (length os :: acc)
        | Exc NoSuchProcess => iter_loop_nostale rest newp os pm acc
        | Exc e => (os, pm, Exc e)
        | OutOfModel => (os, pm, OutOfModel)
        end
      else iter_loop_nostale rest newp os pm acc
    end
  end.

Definition proc_iter_nostale (m : mstate) : mstate * outcome res :=
  let a := sort_uniq (kv_pids K) in
  match a with
  | [] => (m, Exc IndexError)
  | _ =>
    let b := map fst (pmap m) in
    let newp := filter (fun p => negb (memz p b)) a in
    let pm1 := filter (fun e => memz (fst e) a) (pmap m) in
    let pm2 := filter (fun e => negb (memz (fst e) (reused m))) pm1 in
    let '(os, pm, r) := iter_loop_nostale a newp (objs m) pm2 [] in
    ({| objs := os; bootc := bootc m; pmap := pm; reused := []; gens := gens m |},
     match r with Val l => Val (RObjs l) | Exc e => Exc e | OutOfModel => OutOfModel end)
  end.

(* Process.wait(timeout=0) for a process that is not our child (_psposix.wait_pid polls pid_exists):
   still there (zombie included) -> TimeoutExpired; gone -> None, cached in _exitcode *)
Definition do_wait (x : pobj) (vis : bool) : pobj * outcome res :=
  if oexit x then (x, Val RNone)                          (* Process.wait: _exitcode cached *)
  else if opid x <=? 0 then (x, Exc ValueError)           (* wait_pid: "can't wait for PID 0" *)
  else if vis && kexists (opid x) then (x, Exc TimeoutExpired)   (* ECHILD, pid_exists() true, timeout 0 *)
  else (with_exit true x, Val RNone).                     (* ECHILD, pid_exists() false: None, cached *)

(* psutil.wait_procs([x], timeout=0): set([x]) hashes x; check_gone(x, 0): wait(), and when that returns None,
   "not x.is_running()" decides *)
Definition do_wait_procs (x : pobj) (vis : bool) : pobj * outcome res * list Z :=
  let '(x0, _) := do_hash x in
  let '(x1, r) := do_wait x0 vis in
  match r with
  | Exc TimeoutExpired => (x1, Val (RBool false), [])
  | Exc e => (x1, Exc e, [])
  | OutOfModel => (x1, OutOfModel, [])
  | Val _ =>
    let '(x2, r2, add) := is_running x1 in
    (x2, match r2 with Val b => Val (RBool (negb b)) | Exc e => Exc e | OutOfModel => OutOfModel end, add)
  end.

(* one resumption of a process_iter() generator: walk the list until something is yielded.
   result: rest of the list, objects, local pmap, Val (Some i) = yielded object i / Val None = exhausted *)
Definition pm_del (p : Z) (pm : list (Z * nat)) : list (Z * nat) := filter (fun e => negb (fst e =? p)) pm.
Fixpoint gen_loop (ls : list (Z * option nat)) (os : list pobj) (pm : list (Z * nat))
  : list (Z * option nat) * list pobj * list (Z * nat) * outcome (option nat) :=
  match ls with
  | [] => ([], os, pm, Val None)
  | (p, c) :: rest =>
    match (match c with
           | Some i => if match nth_error os i with Some x => oreused x | None => false end then None else Some i
           | None => None
           end) with
    | Some i => (rest, os, pm, Val (Some i))                     (* a cached instance, yielded as it is *)
    | None =>                                                    (* new PID, or stale cached instance: add(pid) *)
      match new_obj p with
      | Val y => (rest, os ++ [y], pm_del p pm ++ [(p, length os)], Val (Some (length os)))
      | Exc NoSuchProcess => gen_loop rest os (pm_del p pm)      (* except NoSuchProcess: remove(pid) *)
      | Exc e => (rest, os, pm, Exc e)
      | OutOfModel => (rest, os, pm, OutOfModel)
      end
    end
  end.

Definition gen0 : gen := {| g_started := false; g_done := false; g_ls := []; g_pm := [] |}.
Definition gen_dead : gen := {| g_started := true; g_done := true; g_ls := []; g_pm := [] |}.

(* next(g) *)
Definition iter_next (m : mstate) (g : nat) : mstate * outcome res :=
  match nth_error (gens m) g with
  | None => (m, OutOfModel)
  | Some ge =>
    if g_done ge then (m, Val RStop)
    else
      (* first next(): copy the cache, list the PIDs, drop gone and reused PIDs, empty _pids_reused *)
      let start : option (mstate * list (Z * option nat) * list (Z * nat)) :=
        if g_started ge then Some (m, g_ls ge, g_pm ge)
        else
          let a := sort_uniq (kv_pids K) in
          match a with
          | [] => None                                          (* pids(): ret[0] -> IndexError *)
          | _ =>
            let b := map fst (pmap m) in
            let pm1 := filter (fun e => memz (fst e) a) (pmap m) in
            let pm2 := filter (fun e => negb (memz (fst e) (reused m))) pm1 in
            let ps := filter (fun p => memz p (map fst pm2) || negb (memz p b)) a in
            Some (with_reusedset [] m, map (fun p => (p, assoc_nat p pm2)) ps, pm2)
          end in
      match start with
      | None => (with_gens (upd_nth g gen_dead (gens m)) m, Exc IndexError)
      | Some (m0, ls, pm) =>
        let '(ls1, os1, pm1, r) := gen_loop ls (objs m0) pm in
        match r with
        | Val (Some i) =>
          (with_gens (upd_nth g {| g_started := true; g_done := false; g_ls := ls1; g_pm := pm1 |} (gens m0))
                     (with_objs os1 m0), Val (RObj i))
        | Val None =>                                           (* finally: _pmap = pmap *)
          (with_gens (upd_nth g gen_dead (gens m0)) (with_pmap pm1 (with_objs os1 m0)), Val RStop)
        | Exc e =>
          (with_gens (upd_nth g gen_dead (gens m0)) (with_pmap pm1 (with_objs os1 m0)), Exc e)
        | OutOfModel =>
          (with_gens (upd_nth g gen_dead (gens m0)) (with_pmap pm1 (with_objs os1 m0)), OutOfModel)
        end
      end
  end.

(* one public call: new module/object state, outcome, system calls attempted (in order) *)
Definition mcall (m : mstate) (c : call) : mstate * outcome res * list sysc :=
  match c with
  | New pid =>
    match new_obj pid with
    | Val y => (with_objs (objs m ++ [y]) m, Val (RObj (length (objs m))), [])
    | Exc e => (m, Exc e, [])
    | OutOfModel => (m, OutOfModel, [])
    end
  | NewPopen pid =>
    match new_popen pid with
    | Val y => (with_objs (objs m ++ [y]) m, Val (RObj (length (objs m))), [])
    | Exc e => (m, Exc e, [])
    | OutOfModel => (m, OutOfModel, [])
    end
  | SetProbe o =>
    match nth_error (objs m) o with
    | None => (m, OutOfModel, [])
    | Some x =>
      let '(x1, r, add) := do_probe x in
      (with_reusedset (reused m ++ add) (with_objs (upd_nth o x1 (objs m)) m), r, [])
    end
  | SetAct o s =>
    match nth_error (objs m) o with
    | None => (m, OutOfModel, [])
    | Some x =>
      let '(x2, r2, scs) := setter_body x s in
      (with_objs (upd_nth o x2 (objs m)) m, r2, scs)
    end
  | EqOther o =>
    match nth_error (objs m) o with
    | None => (m, OutOfModel, [])
    | Some _ => (m, Val (RBool false), [])      (* __eq__ returns NotImplemented: Python answers False *)
    end
  | OneshotEnter o =>
    match nth_error (objs m) o with
    | None => (m, OutOfModel, [])
    | Some x =>
      (* objects that share _proc with a copy would share the stat cache: outside the model *)
      if oshared x then (m, OutOfModel, [])
      else (with_objs (upd_nth o (oneshot_enter x) (objs m)) m, Val RNone, [])
    end
  | OneshotExit o =>
    match nth_error (objs m) o with
    | None => (m, OutOfModel, [])
    | Some x =>
      match oneshot_exit x with
      | Some x1 => (with_objs (upd_nth o x1 (objs m)) m, Val RNone, [])
      | None => (m, OutOfModel, [])
      end
    end
  | AsDict o =>
    match nth_error (objs m) o with
    | None => (m, OutOfModel, [])
    | Some x =>
      if oshared x then (m, OutOfModel, []) else
      let '(x1, r, add) := do_ppid (oneshot_enter x) in
      match oneshot_exit x1 with
      | Some x2 =>
        (with_reusedset (reused m ++ add) (with_objs (upd_nth o x2 (objs m)) m),
         match r with Exc ZombieProcess | Exc AccessDenied => Val RNone (* ad_value *) | _ => r end, [])
      | None => (m, OutOfModel, [])
      end
    end
  | IsRunning o =>
    match nth_error (objs m) o with
    | None => (m, OutOfModel, [])
    | Some x =>
      let '(x1, r, add) := is_running x in
      (with_reusedset (reused m ++ add) (with_objs (upd_nth o x1 (objs m)) m), omap RBool r, [])
    end
  | EqC a b =>
    match nth_error (objs m) a, nth_error (objs m) b with
    | Some x, Some y => (m, Val (RBool (obj_eq x y)), [])
    | _, _ => (m, OutOfModel, [])
    end
  | HashEq a b =>
    match nth_error (objs m) a with
    | None => (m, OutOfModel, [])
    | Some x =>
      let '(x1, h1) := do_hash x in
      let os1 := upd_nth a x1 (objs m) in
      match nth_error os1 b with
      | None => (m, OutOfModel, [])
      | Some y =>
        let '(y1, h2) := do_hash y in
        (with_objs (upd_nth b y1 os1) m,
         Val (RHash (ident_eqb h1 h2) (ident_eqb h1 (ident x) && ident_eqb h2 (ident y))), [])
      end
    end
  | Set_ o s =>
    match nth_error (objs m) o with
    | None => (m, OutOfModel, [])
    | Some x =>
      let '(x1, r, add, scs) := do_setter x s in
      (with_reusedset (reused m ++ add) (with_objs (upd_nth o x1 (objs m)) m), r, scs)
    end
  | Ppid o =>
    match nth_error (objs m) o with
    | None => (m, OutOfModel, [])
    | Some x =>
      let '(x1, r, add) := do_ppid x in
      (with_reusedset (reused m ++ add) (with_objs (upd_nth o x1 (objs m)) m), r, [])
    end
  | CreateTime o =>
    match nth_error (objs m) o with
    | None => (m, OutOfModel, [])
    | Some x =>
      let '(m1, x1, r) := do_create_time m x in
      (with_objs (upd_nth o x1 (objs m1)) m1, r, [])
    end
  | BootTime => let '(m1, b) := do_boot_time m in (m1, Val (RInt b), [])
  | ProcIter => let '(m1, r) := proc_iter m in (m1, r, [])
  | Wait o vis =>
    match nth_error (objs m) o with
    | None => (m, OutOfModel, [])
    | Some x => let '(x1, r) := do_wait x vis in (with_objs (upd_nth o x1 (objs m)) m, r, [])
    end
  | IterStart => (with_gens (gens m ++ [gen0]) m, Val (RGen (length (gens m))), [])
  | IterNext g => let '(m1, r) := iter_next m g in (m1, r, [])
  | WaitProcs o vis =>
    match nth_error (objs m) o with
    | None => (m, OutOfModel, [])
    | Some x =>
      let '(x1, r, add) := do_wait_procs x vis in
      (with_reusedset (reused m ++ add) (with_objs (upd_nth o x1 (objs m)) m), r, [])
    end
  | Copy o hw ok =>
    match nth_error (objs m) o with
    | None => (m, OutOfModel, [])
    | Some x =>
      if ok then
        (* a copy is another handle on the same process: every attribute as it is now (inside a oneshot block the
           caches would be shared: outside the model) *)
        match oshot x with
        | O => (with_objs (upd_nth o (with_shared x) (objs m) ++ [with_shared x]) m, Val (RObj (length (objs m))), [])
        | S _ => (m, OutOfModel, [])
        end
      else match hw with HLoad => (m, OutOfModel, []) | _ => (m, Exc TypeError, []) end
    end
  | PickleDump o ok =>
    match nth_error (objs m) o with
    | None => (m, OutOfModel, [])
    | Some _ => (m, if ok then Val RNone else Exc TypeError, [])
    end
  end.

End WithKernel.
