(* Proc -- the theorems of C01 and C02 (statements repeated in Properties/C01.v, C02.v). *)
From PV Require Import Proc.Spec Proc.Lib Proc.ProofsInv Proc.ProofsStep.

Lemma outcome_call w c : outcome_of w (EC c) = snd (fst (mcall (view_of w) (ms w) c)).
Proof. unfold outcome_of. rewrite step_call. reflexivity. Qed.

Lemma effects_call w c : effects_of w (EC c) = map (tag w) (snd (mcall (view_of w) (ms w) c)).
Proof. unfold effects_of. rewrite step_call. reflexivity. Qed.

Lemma inc_pid_ok w i p s : Inv w -> In (i, p, s) (hist w) -> inc_pid w i = p.
Proof.
  intros I H. unfold inc_pid.
  destruct (find (fun e => fst (fst e) =? i) (hist w)) as [[[i' p'] s']|] eqn:F.
  - apply find_some in F as [F1 F2]. cbn [fst] in F2. apply Z.eqb_eq in F2. subst i'.
    destruct (inv_fun _ I _ _ _ _ _ F1 H); auto.
  - apply (find_none _ _ F) in H. cbn [fst] in H. rewrite Z.eqb_refl in H. discriminate.
Qed.

(* an object of a reachable world and its ghost incarnation *)
Lemma obj_facts w o : Inv w -> has_obj w o = true ->
  exists x, nth_error (objs (ms w)) o = Some x /\ obj_ok w x (g_inc w o)
            /\ nth_error (ginc w) o = Some (g_inc w o) /\ g_pid w o = opid x /\ obj_pid w o = opid x.
Proof.
  intros I H. unfold has_obj in H. destruct (nth_error (objs (ms w)) o) as [x|] eqn:Ex; [|discriminate].
  destruct (Forall2_nth_l _ _ _ _ _ (inv_objs _ I) Ex) as (i & Ei & O).
  assert (Eg : g_inc w o = i) by (unfold g_inc; apply nth_error_nth_default; auto).
  exists x. rewrite Eg. splits; auto.
  - unfold g_pid. rewrite Eg. destruct O as [(s0 & _ & Hh) _]. eapply inc_pid_ok; eauto.
  - unfold obj_pid. rewrite Ex. reflexivity.
Qed.

(* ================================================================ C01 *)
Lemma mcall_set w o s x : nth_error (objs (ms w)) o = Some x ->
  snd (fst (mcall (view_of w) (ms w) (Set_ o s))) = snd (fst (fst (do_setter (view_of w) x s))) /\
  snd (mcall (view_of w) (ms w) (Set_ o s)) = snd (do_setter (view_of w) x s).
Proof.
  intros Ex. cbn [mcall]. rewrite Ex. destruct (do_setter (view_of w) x s) as [[[x1 r] add] scs]. auto.
Qed.

Lemma tag_intended w p s : tag w (intended p s) = (intended p s, owner w p).
Proof. unfold tag. rewrite sysc_pid_intended. reflexivity. Qed.

(* the complete answer of a signal / setter call in a reachable world *)
Lemma set_answer w o s : Inv w -> has_obj w o = true ->
  let p := obj_pid w o in let i := g_inc w o in
  let r := outcome_of w (EC (Set_ o s)) in let eff := effects_of w (EC (Set_ o s)) in
  (alive w i = true ->
     if valid_args p s then r = Val RNone /\ eff = [(intended p s, Some i)]
     else r = Exc ValueError /\ eff = [])
  /\ (alive w i = false -> owner w p <> None -> r = Exc NoSuchProcess /\ eff = [])
  /\ (alive w i = false -> owner w p = None ->
      if valid_args p s then r = Exc NoSuchProcess /\ (eff = [] \/ eff = [(intended p s, None)])
      else (r = Exc NoSuchProcess \/ r = Exc ValueError) /\ eff = []).
Proof.
  intros I H. destruct (obj_facts w o I H) as (x & Ex & O & Ei & Egp & Eop).
  cbn zeta. rewrite Eop, outcome_call, effects_call.
  destruct (mcall_set w o s x Ex) as [-> ->].
  destruct (do_setter_spec w x (g_inc w o) s I O) as (x1 & r & add & scs & E & _ & Ha & Ho & Hn).
  rewrite E. cbn [fst snd]. splits.
  - intros A. specialize (Ha A). destruct (valid_args (opid x) s).
    + destruct Ha as [-> ->]. cbn [map]. rewrite tag_intended, (alive_owner w x _ I O A). auto.
    + destruct Ha as [-> ->]. auto.
  - intros A Ow. destruct (Ho A Ow) as [-> ->]. auto.
  - intros A Ow. specialize (Hn A Ow). destruct (valid_args (opid x) s).
    + destruct Hn as [-> [-> | ->]]; cbn [map]; rewrite ?tag_intended, ?Ow; auto.
    + destruct Hn as [Hr ->]. auto.
Qed.

Lemma no_effect_on_new_owner h o s :
  wf_hist h = true -> has_obj (run h) o = true ->
  alive (run h) (g_inc (run h) o) = false ->
  owner (run h) (obj_pid (run h) o) <> None ->
  outcome_of (run h) (EC (Set_ o s)) = Exc NoSuchProcess /\ effects_of (run h) (EC (Set_ o s)) = [].
Proof.
  intros W H A Ow. destruct (set_answer (run h) o s (run_inv h W) H) as (_ & S & _). auto.
Qed.

Lemma gone_not_reused h o s :
  wf_hist h = true -> has_obj (run h) o = true ->
  alive (run h) (g_inc (run h) o) = false ->
  owner (run h) (obj_pid (run h) o) = None ->
  (outcome_of (run h) (EC (Set_ o s)) = Exc NoSuchProcess
   \/ (outcome_of (run h) (EC (Set_ o s)) = Exc ValueError /\ valid_args (obj_pid (run h) o) s = false))
  /\ delivered (effects_of (run h) (EC (Set_ o s))) = []
  /\ (effects_of (run h) (EC (Set_ o s)) = []
      \/ effects_of (run h) (EC (Set_ o s)) = [(intended (obj_pid (run h) o) s, None)]).
Proof.
  intros W H A Ow. destruct (set_answer (run h) o s (run_inv h W) H) as (_ & _ & S).
  specialize (S A Ow). cbn zeta in S. destruct (valid_args (obj_pid (run h) o) s).
  - destruct S as [-> [-> | ->]]; cbn; auto.
  - destruct S as [[-> | ->] ->]; cbn; auto.
Qed.

Lemma exact_delivery h o s :
  wf_hist h = true -> has_obj (run h) o = true ->
  effects_of (run h) (EC (Set_ o s)) = []
  \/ effects_of (run h) (EC (Set_ o s)) = [(intended (obj_pid (run h) o) s, None)]
  \/ effects_of (run h) (EC (Set_ o s)) = [(intended (obj_pid (run h) o) s, Some (g_inc (run h) o))].
Proof.
  intros W H. destruct (set_answer (run h) o s (run_inv h W) H) as (Sa & So & Sn). cbn zeta in *.
  destruct (alive (run h) (g_inc (run h) o)) eqn:A.
  - specialize (Sa eq_refl). destruct (valid_args (obj_pid (run h) o) s); destruct Sa as [_ ->]; auto.
  - destruct (owner (run h) (obj_pid (run h) o)) eqn:Ow.
    + destruct (So eq_refl) as [_ ->]; [discriminate|auto].
    + specialize (Sn eq_refl eq_refl). destruct (valid_args (obj_pid (run h) o) s).
      * destruct Sn as [_ [-> | ->]]; auto.
      * destruct Sn as [_ ->]; auto.
Qed.

Lemma delivered_when_alive h o s :
  wf_hist h = true -> has_obj (run h) o = true ->
  alive (run h) (g_inc (run h) o) = true ->
  if valid_args (obj_pid (run h) o) s
  then outcome_of (run h) (EC (Set_ o s)) = Val RNone
       /\ effects_of (run h) (EC (Set_ o s)) = [(intended (obj_pid (run h) o) s, Some (g_inc (run h) o))]
  else outcome_of (run h) (EC (Set_ o s)) = Exc ValueError /\ effects_of (run h) (EC (Set_ o s)) = [].
Proof.
  intros W H A. destruct (set_answer (run h) o s (run_inv h W) H) as (Sa & _ & _). apply Sa; auto.
Qed.

Lemma obj_pid_creation h o :
  wf_hist h = true -> has_obj (run h) o = true ->
  obj_pid (run h) o = g_pid (run h) o /\ 0 <= obj_pid (run h) o < PID_MAX.
Proof.
  intros W H. destruct (obj_facts (run h) o (run_inv h W) H) as (x & Ex & O & Ei & Egp & Eop).
  rewrite Egp, Eop. split; auto. apply O.
Qed.

(* calls other than signals/setters issue no system call *)
Lemma mcall_nonset_scs K m c : (forall o s, c <> Set_ o s) -> snd (mcall K m c) = [].
Proof.
  intros N. destruct c; cbn [mcall]; try (exfalso; eapply N; reflexivity);
    repeat match goal with
           | |- context [match ?e with _ => _ end] => destruct e
           end; reflexivity.
Qed.

Lemma valid_kill_pid p s sig : intended p s = SKill p sig -> valid_args p s = true -> p <> 0.
Proof.
  destruct s; cbn [intended valid_args]; intros E V; try discriminate;
    apply negb_true_iff in V; apply Z.eqb_neq in V; auto.
Qed.

Lemma never_group h e c :
  wf_hist h = true -> In c (effects_of (run h) e) -> group_kill c = false.
Proof.
  intros W Hc. pose proof (run_inv h W) as I. destruct e as [k|cl].
  - cbn in Hc. contradiction.
  - assert (Set_case : forall o s, cl = Set_ o s -> group_kill c = false).
    { intros o s ->. destruct (has_obj (run h) o) eqn:H.
      - destruct (obj_pid_creation h o W H) as [_ R].
        destruct (set_answer (run h) o s I H) as (Sa & So & Sn). cbn zeta in *.
        assert (K : forall t, c = (intended (obj_pid (run h) o) s, t) ->
                    valid_args (obj_pid (run h) o) s = true -> group_kill c = false).
        { intros t -> V. unfold group_kill. cbn [fst].
          destruct (intended (obj_pid (run h) o) s) eqn:Ei; auto.
          assert (pid = obj_pid (run h) o).
          { pose proof (sysc_pid_intended (obj_pid (run h) o) s) as Hp. rewrite Ei in Hp. auto. }
          subst pid. pose proof (valid_kill_pid _ _ _ Ei V). apply Z.leb_gt. lia. }
        destruct (alive (run h) (g_inc (run h) o)) eqn:A.
        + specialize (Sa eq_refl). destruct (valid_args (obj_pid (run h) o) s) eqn:V.
          * destruct Sa as [_ E]. rewrite E in Hc. destruct Hc as [<-|[]]. eapply K; eauto.
          * destruct Sa as [_ E]. rewrite E in Hc. contradiction.
        + destruct (owner (run h) (obj_pid (run h) o)) eqn:Ow.
          * destruct (So eq_refl) as [_ E]; [discriminate|]. rewrite E in Hc. contradiction.
          * specialize (Sn eq_refl eq_refl). destruct (valid_args (obj_pid (run h) o) s) eqn:V.
            -- destruct Sn as [_ [E|E]]; rewrite E in Hc; [contradiction|].
               destruct Hc as [<-|[]]. eapply K; eauto.
            -- destruct Sn as [_ E]. rewrite E in Hc. contradiction.
      - rewrite effects_call in Hc. cbn [mcall] in Hc. unfold has_obj in H.
        destruct (nth_error (objs (ms (run h))) o); [discriminate|]. cbn in Hc. contradiction. }
    destruct cl; try (eapply Set_case; reflexivity);
      rewrite effects_call, mcall_nonset_scs in Hc by (intros; discriminate); contradiction.
Qed.

Lemma negative_pid_rejected w pid : pid < 0 ->
  outcome_of w (EC (New pid)) = Exc ValueError /\ effects_of w (EC (New pid)) = []
  /\ objs (ms (next w (EC (New pid)))) = objs (ms w).
Proof.
  intros N. unfold next. rewrite outcome_call, effects_call, step_call. cbn [mcall fst snd ms].
  unfold new_obj. destruct (Z.ltb_spec pid 0); [|lia]. cbn. auto.
Qed.

Lemma pid0_refused h o s :
  wf_hist h = true -> has_obj (run h) o = true -> obj_pid (run h) o = 0 ->
  (exists sig, intended 0 s = SKill 0 sig) ->
  (outcome_of (run h) (EC (Set_ o s)) = Exc ValueError \/ outcome_of (run h) (EC (Set_ o s)) = Exc NoSuchProcess)
  /\ effects_of (run h) (EC (Set_ o s)) = [].
Proof.
  intros W H P0 [sig Es].
  assert (V : valid_args 0 s = false) by (destruct s; cbn in Es |- *; try discriminate; reflexivity).
  destruct (set_answer (run h) o s (run_inv h W) H) as (Sa & So & Sn). cbn zeta in *. rewrite P0, V in *.
  destruct (alive (run h) (g_inc (run h) o)) eqn:A.
  - destruct (Sa eq_refl) as [-> ->]. auto.
  - destruct (owner (run h) 0) eqn:Ow.
    + destruct (So eq_refl) as [-> ->]; [discriminate|auto].
    + destruct (Sn eq_refl eq_refl) as [[-> | ->] ->]; auto.
Qed.

(* ================================================================ C02 *)
Lemma eq_iff_same_incarnation h a b :
  wf_hist h = true -> has_obj (run h) a = true -> has_obj (run h) b = true ->
  outcome_of (run h) (EC (EqC a b)) = Val (RBool (g_inc (run h) a =? g_inc (run h) b)).
Proof.
  intros W Ha Hb. pose proof (run_inv h W) as I.
  destruct (obj_facts _ a I Ha) as (x & Ex & Ox & _). destruct (obj_facts _ b I Hb) as (y & Ey & Oy & _).
  rewrite outcome_call. cbn [mcall]. rewrite Ex, Ey. cbn [fst snd].
  rewrite (obj_eq_inc _ _ _ _ _ I Ox Oy). reflexivity.
Qed.

Lemma ident_eqb_obj_eq x y : ident_eqb (ident x) (ident y) = obj_eq x y.
Proof. reflexivity. Qed.

Lemma hash_follows_eq h a b :
  wf_hist h = true -> has_obj (run h) a = true -> has_obj (run h) b = true ->
  outcome_of (run h) (EC (HashEq a b)) = Val (RHash (g_inc (run h) a =? g_inc (run h) b) true).
Proof.
  intros W Ha Hb. pose proof (run_inv h W) as I. set (w := run h) in *.
  destruct (obj_facts _ a I Ha) as (x & Ex & Ox & Eia & _).
  destruct (obj_facts _ b I Hb) as (y0 & Ey0 & Oy0 & Eib & _).
  rewrite outcome_call. cbn [mcall]. rewrite Ex.
  destruct (do_hash x) as [x1 h1] eqn:Hx.
  pose proof (do_hash_ok w x _ Ox) as (Ox1 & Eh1 & Eid1). rewrite Hx in Ox1, Eh1, Eid1. cbn [fst snd] in *.
  pose proof (upd_objs_ok _ _ _ _ _ _ (inv_objs _ I) Eia Ox1) as F1.
  assert (Len : (b < length (upd_nth a x1 (objs (ms w))))%nat).
  { rewrite upd_nth_length. apply nth_error_Some. congruence. }
  destruct (nth_error (upd_nth a x1 (objs (ms w))) b) as [y|] eqn:Ey; [|apply nth_error_None in Ey; lia].
  destruct (Forall2_nth_l _ _ _ _ _ F1 Ey) as (j & Ej & Oy). rewrite Eib in Ej. inversion Ej; subst j.
  destruct (do_hash y) as [y1 h2] eqn:Hy.
  pose proof (do_hash_ok w y _ Oy) as (_ & Eh2 & _). rewrite Hy in Eh2. cbn [fst snd] in *.
  rewrite Eh1, Eh2, !ident_eqb_obj_eq. rewrite (obj_eq_inc _ _ _ _ _ I Ox Oy).
  assert (R1 : obj_eq x x = true) by (rewrite (obj_eq_inc _ _ _ _ _ I Ox Ox); apply Z.eqb_refl).
  assert (R2 : obj_eq y y = true) by (rewrite (obj_eq_inc _ _ _ _ _ I Oy Oy); apply Z.eqb_refl).
  rewrite R1, R2. reflexivity.
Qed.

Lemma is_running_answer h o :
  wf_hist h = true -> has_obj (run h) o = true ->
  outcome_of (run h) (EC (IsRunning o)) = Val (RBool (alive (run h) (g_inc (run h) o))).
Proof.
  intros W H. pose proof (run_inv h W) as I.
  destruct (obj_facts _ o I H) as (x & Ex & O & _).
  rewrite outcome_call. cbn [mcall]. rewrite Ex.
  destruct (is_running_spec _ x _ I O) as (x1 & add & E & _). rewrite E. reflexivity.
Qed.

(* the ghost record: a new object belongs to the process that owns the PID at that moment ... *)
Lemma new_records_owner h pid n :
  wf_hist h = true -> outcome_of (run h) (EC (New pid)) = Val (RObj n) ->
  n = length (objs (ms (run h))) /\ has_obj (next (run h) (EC (New pid))) n = true
  /\ owner (run h) pid = Some (g_inc (next (run h) (EC (New pid))) n)
  /\ obj_pid (next (run h) (EC (New pid))) n = pid.
Proof.
  intros W. pose proof (run_inv h W) as I. set (w := run h) in *.
  unfold next. rewrite outcome_call, step_call. cbn [mcall fst snd].
  destruct (new_obj (view_of w) pid) as [y|e|] eqn:N; cbn [fst snd]; try discriminate.
  intros E. inversion E; subst n. split; [reflexivity|].
  destruct (new_obj_ok w pid y I N) as (i & Ow & O & Ep & _).
  pose proof (Forall2_len _ _ _ (inv_objs _ I)) as Len.
  unfold has_obj, g_inc, obj_pid. cbn [ms ginc with_objs objs].
  rewrite skipn_app_exact. cbn [map]. rewrite nth_error_app2 by lia. rewrite Nat.sub_diag. cbn [nth_error].
  rewrite Len, app_nth2 by lia. rewrite Nat.sub_diag. cbn [nth]. rewrite Ep, Ow. auto.
Qed.

(* ... and never changes afterwards *)
Lemma ginc_prefix w e : exists l, ginc (next w e) = ginc w ++ l.
Proof.
  destruct e as [k|c].
  - exists []. rewrite app_nil_r. destruct k; reflexivity.
  - unfold next. rewrite step_call. cbn [fst ginc]. eauto.
Qed.

Lemma hist_mono w e x : In x (hist w) -> In x (hist (next w e)).
Proof.
  destruct e as [k|c].
  - destruct k; cbn; auto.
  - unfold next. rewrite step_call. cbn [fst hist]. auto.
Qed.

Lemma g_inc_next w e o : (o < length (ginc w))%nat -> g_inc (next w e) o = g_inc w o.
Proof.
  intros L. destruct (ginc_prefix w e) as [l E]. unfold g_inc. rewrite E, app_nth1; auto.
Qed.

Lemma objs_len_next w e : Inv w -> wf_ev w e = true ->
  (length (ginc w) <= length (ginc (next w e)))%nat.
Proof. intros _ _. destruct (ginc_prefix w e) as [l E]. rewrite E, app_length. lia. Qed.

Lemma has_obj_len w o : Inv w -> (has_obj w o = true <-> (o < length (ginc w))%nat).
Proof.
  intros I. rewrite <- (Forall2_len _ _ _ (inv_objs _ I)). unfold has_obj.
  destruct (nth_error (objs (ms w)) o) eqn:E.
  - split; auto. intros _. apply nth_error_Some. congruence.
  - split; [discriminate|]. intros L. apply nth_error_None in E. lia.
Qed.

(* an incarnation that has left the table never comes back *)
Lemma alive_next_false w e i p s :
  Inv w -> wf_ev w e = true -> In (i, p, s) (hist w) -> alive w i = false -> alive (next w e) i = false.
Proof.
  intros I W Hi A. destruct e as [k|c].
  - unfold next. cbn [step fst]. apply alive_false. intros k' Hk' E.
    pose proof (proj1 (alive_false w i) A) as Nw.
    destruct k as [q t pp cm|q|q|q|d]; cbn [kstep table] in Hk'.
    + apply in_app_iff in Hk' as [Hk'|[Hk'|[]]]; [eapply Nw; eauto|].
      subst k'. cbn [kinc] in E. apply (inv_lt _ I) in Hi. lia.
    + apply in_map_iff in Hk' as [k0 [E0 Hk0]]. subst k'.
      apply (Nw k0 Hk0). destruct (kpid k0 =? q); auto.
    + apply in_map_iff in Hk' as [k0 [E0 Hk0]]. subst k'.
      apply (Nw k0 Hk0). destruct (kpid k0 =? q); auto.
    + apply filter_In in Hk' as [Hk' _]. eapply Nw; eauto.
    + eapply Nw; eauto.
  - unfold next. rewrite step_call. cbn [fst]. exact A.
Qed.

Lemma still_dead h2 : forall w o,
  Inv w -> wf_from w h2 = true -> has_obj w o = true ->
  alive w (g_inc w o) = false ->
  has_obj (run_from w h2) o = true /\ g_inc (run_from w h2) o = g_inc w o
  /\ alive (run_from w h2) (g_inc w o) = false.
Proof.
  induction h2 as [|e h2 IH]; intros w o I W H A; cbn [run_from fold_left]; auto.
  cbn [wf_from] in W. apply andb_true_iff in W as [W1 W2].
  pose proof (next_inv w e I W1) as I'.
  destruct (obj_facts w o I H) as (x & Ex & ((s0 & _ & Hh) & _) & _).
  pose proof (proj1 (has_obj_len w o I) H) as L.
  assert (H' : has_obj (next w e) o = true).
  { apply (has_obj_len _ o I'). pose proof (objs_len_next w e I W1). lia. }
  assert (G' : g_inc (next w e) o = g_inc w o) by (apply g_inc_next; auto).
  assert (A' : alive (next w e) (g_inc (next w e) o) = false).
  { rewrite G'. eapply alive_next_false; eauto. }
  destruct (IH (next w e) o I' W2 H' A') as (R1 & R2 & R3).
  fold (run_from (next w e) h2). rewrite R2, G' in *. auto.
Qed.

Lemma is_running_monotone h1 h2 o :
  wf_hist (h1 ++ h2) = true -> has_obj (run h1) o = true ->
  outcome_of (run h1) (EC (IsRunning o)) = Val (RBool false) ->
  outcome_of (run (h1 ++ h2)) (EC (IsRunning o)) = Val (RBool false).
Proof.
  intros W H R. pose proof W as W12. apply wf_from_app in W as [W1 W2].
  rewrite (is_running_answer h1 o W1 H) in R. injection R as A.
  assert (E : run (h1 ++ h2) = run_from (run h1) h2) by (unfold run; apply run_from_app).
  destruct (still_dead h2 _ o (run_inv h1 W1) W2 H A) as (H2 & G2 & A2).
  pose proof (is_running_answer (h1 ++ h2) o W12) as Ans. rewrite E in *.
  rewrite Ans by exact H2. rewrite G2, A2. reflexivity.
Qed.

Lemma ginc_stable_from h2 o : forall w,
  Inv w -> wf_from w h2 = true -> has_obj w o = true ->
  has_obj (run_from w h2) o = true /\ g_inc (run_from w h2) o = g_inc w o
  /\ obj_pid (run_from w h2) o = obj_pid w o.
Proof.
  induction h2 as [|e h2 IH]; intros w I W2 H; cbn [run_from fold_left]; auto.
  cbn [wf_from] in W2. apply andb_true_iff in W2 as [Wa Wb].
  pose proof (next_inv w e I Wa) as I'.
  pose proof (proj1 (has_obj_len w o I) H) as L.
  assert (H' : has_obj (next w e) o = true).
  { apply (has_obj_len _ o I'). pose proof (objs_len_next w e I Wa). lia. }
  destruct (IH (next w e) I' Wb H') as (R1 & R2 & R3). fold (run_from (next w e) h2).
  rewrite R2, R3. splits; auto.
  - apply g_inc_next; auto.
  - destruct (obj_facts w o I H) as (x & _ & ((s0 & _ & Hh) & _) & _ & Egp & Eop).
    destruct (obj_facts (next w e) o I' H') as (x' & _ & ((s1 & _ & Hh') & _) & _ & Egp' & Eop').
    rewrite Eop, Eop'. rewrite g_inc_next in Hh' by auto.
    apply (hist_mono w e) in Hh. destruct (inv_fun _ I' _ _ _ _ _ Hh Hh'); auto.
Qed.

Lemma ginc_stable h1 h2 o :
  wf_hist (h1 ++ h2) = true -> has_obj (run h1) o = true ->
  has_obj (run (h1 ++ h2)) o = true /\ g_inc (run (h1 ++ h2)) o = g_inc (run h1) o
  /\ obj_pid (run (h1 ++ h2)) o = obj_pid (run h1) o.
Proof.
  intros W H. apply wf_from_app in W as [W1 W2].
  assert (E : run (h1 ++ h2) = run_from (run h1) h2) by (unfold run; apply run_from_app).
  rewrite E. apply ginc_stable_from; auto. apply run_inv; auto.
Qed.

(* ================================================================ model answers are among the demanded ones *)
Lemma nonset_effects w c : (forall o s, c <> Set_ o s) -> effects_of w (EC c) = [].
Proof. intros N. rewrite effects_call, mcall_nonset_scs by auto. reflexivity. Qed.

Lemma step_meets_spec h c : wf_hist h = true ->
  match spec_call (run h) c with
  | Some l => In (outcome_of (run h) (EC c), delivered (effects_of (run h) (EC c))) l
  | None => True
  end.
Proof.
  intros W. pose proof (run_inv h W) as I.
  destruct c as [pid|pid|o|o|o|o|a b|a b|o s|o|o| |]; cbn [spec_call]; auto.
  - (* New *)
    rewrite nonset_effects by (intros; discriminate). left. f_equal.
    rewrite outcome_call. cbn [mcall]. unfold new_obj.
    destruct (Z.ltb_spec pid 0); [reflexivity|].
    destruct (Z.leb_spec PID_MAX pid) as [L|L].
    + destruct (Z.ltb_spec pid PID_MAX); [lia|]. reflexivity.
    + destruct (Z.ltb_spec pid PID_MAX); [|lia]. cbn [andb].
      rewrite view_stat, owner_lookup. destruct (lookup (table (run h)) pid); cbn [fst snd]; auto.
      rewrite (Forall2_len _ _ _ (inv_objs _ I)). reflexivity.
  - (* IsRunning *)
    destruct (has_obj (run h) o) eqn:H; auto.
    rewrite nonset_effects by (intros; discriminate). rewrite (is_running_answer h o W H). left; reflexivity.
  - (* EqC *)
    destruct (has_obj (run h) a) eqn:Ha; cbn [andb]; auto. destruct (has_obj (run h) b) eqn:Hb; auto.
    rewrite nonset_effects by (intros; discriminate). rewrite (eq_iff_same_incarnation h a b W Ha Hb). left; reflexivity.
  - (* HashEq *)
    destruct (has_obj (run h) a) eqn:Ha; cbn [andb]; auto. destruct (has_obj (run h) b) eqn:Hb; auto.
    rewrite nonset_effects by (intros; discriminate). rewrite (hash_follows_eq h a b W Ha Hb). left; reflexivity.
  - (* Set_ *)
    destruct (has_obj (run h) o) eqn:H; auto.
    destruct (obj_pid_creation h o W H) as [Ep _]. rewrite <- Ep.
    destruct (set_answer (run h) o s I H) as (Sa & So & Sn). cbn zeta in *.
    destruct (alive (run h) (g_inc (run h) o)) eqn:A.
    + specialize (Sa eq_refl). destruct (valid_args (obj_pid (run h) o) s); destruct Sa as [-> ->]; left; reflexivity.
    + destruct (owner (run h) (obj_pid (run h) o)) eqn:Ow.
      * destruct (So eq_refl) as [-> ->]; [discriminate|]. left; reflexivity.
      * specialize (Sn eq_refl eq_refl). destruct (valid_args (obj_pid (run h) o) s).
        -- destruct Sn as [-> [-> | ->]]; left; reflexivity.
        -- destruct Sn as [[-> | ->] ->]; [left|right; left]; reflexivity.
Qed.

(* ================================================================ the hypotheses are inhabited *)
Definition ex_reuse : list ev :=
  [EK (Spawn 5 100 1 [97; 32; 98]); EC (New 5); EK (Exit 5); EK (Reap 5); EC (IsRunning 0);
   EK (Spawn 5 101 1 [97; 32; 98])].
Definition ex_gone : list ev := [EK (Spawn 5 100 1 [112]); EC (New 5); EK (Reap 5)].
Definition ex_live : list ev :=
  [EK (Spawn 5 100 1 [97; 32; 98; 32; 99]); EC (New 5); EK (ClockStep 3); EC BootTime; EK (SpawnThread 5);
   EC (New 5); EK (Exit 5)].

Lemma ex_reuse_ok :
  wf_hist ex_reuse = true /\ has_obj (run ex_reuse) 0 = true
  /\ alive (run ex_reuse) (g_inc (run ex_reuse) 0) = false
  /\ owner (run ex_reuse) (obj_pid (run ex_reuse) 0) = Some 1
  /\ outcome_of (run ex_reuse) (EC (Set_ 0%nat Kill)) = Exc NoSuchProcess
  /\ effects_of (run ex_reuse) (EC (Set_ 0%nat Kill)) = [].
Proof. vm_compute. repeat split. Qed.

Lemma ex_gone_ok :
  wf_hist ex_gone = true /\ has_obj (run ex_gone) 0 = true
  /\ alive (run ex_gone) (g_inc (run ex_gone) 0) = false
  /\ owner (run ex_gone) (obj_pid (run ex_gone) 0) = None
  /\ outcome_of (run ex_gone) (EC (Set_ 0%nat Terminate)) = Exc NoSuchProcess
  /\ effects_of (run ex_gone) (EC (Set_ 0%nat Terminate)) = [(SKill 5 15, None)]
  /\ outcome_of (run ex_gone) (EC (IsRunning 0)) = Val (RBool false).
Proof. vm_compute. repeat split. Qed.

Lemma ex_live_ok :
  wf_hist ex_live = true /\ has_obj (run ex_live) 0 = true /\ has_obj (run ex_live) 1 = true
  /\ alive (run ex_live) (g_inc (run ex_live) 0) = true
  /\ outcome_of (run ex_live) (EC (EqC 0 1)) = Val (RBool true)
  /\ outcome_of (run ex_live) (EC (IsRunning 0)) = Val (RBool true)
  /\ outcome_of (run ex_live) (EC (Set_ 0%nat Kill)) = Val RNone
  /\ effects_of (run ex_live) (EC (Set_ 0%nat Kill)) = [(SKill 5 9, Some 0)].
Proof. vm_compute. repeat split. Qed.

Lemma same_incarnation_same_pid h a b :
  wf_hist h = true -> has_obj (run h) a = true -> has_obj (run h) b = true ->
  g_inc (run h) a = g_inc (run h) b -> obj_pid (run h) a = obj_pid (run h) b.
Proof.
  intros W Ha Hb E. destruct (obj_pid_creation h a W Ha) as [-> _]. destruct (obj_pid_creation h b W Hb) as [-> _].
  unfold g_pid. rewrite E. reflexivity.
Qed.
