(* Proc -- the theorems of C01 and C02 (statements repeated in Properties/C01.v, C02.v). *)
From PV Require Import Proc.Spec Proc.Lib Proc.ProofsInv Proc.ProofsStep.

Lemma outcome_call w c : outcome_of w (EC c) = snd (fst (mcall (view_of w) (ms w) c)).
Proof. unfold outcome_of. rewrite step_call. reflexivity. Qed.

Lemma effects_call w c : effects_of w (EC c) = map (tag w) (snd (mcall (view_of w) (ms w) c)).
Proof. unfold effects_of. rewrite step_call. reflexivity. Qed.

Lemma inc_pid_ok w i p s : Inv w -> In (i, p, s) (hist w) -> inc_pid w i = p.
Proof.
  intros I H. unfold inc_pid.
  destruct (find (fun e => fst (fst e) =? i) (hist w)) as [[[i' p'] s']|] eqn:F.
  - apply find_some in F as [F1 F2]. cbn [fst] in F2. apply Z.eqb_eq in F2. subst i'.
    destruct (inv_fun _ I _ _ _ _ _ F1 H); auto.
  - apply (find_none _ _ F) in H. cbn [fst] in H. rewrite Z.eqb_refl in H. discriminate.
Qed.

(* an object of a reachable world and its ghost incarnation *)
Lemma obj_facts w o : Inv w -> has_obj w o = true ->
  exists x, nth_error (objs (ms w)) o = Some x /\ obj_ok w x (g_inc w o)
            /\ nth_error (ginc w) o = Some (g_inc w o) /\ g_pid w o = opid x /\ obj_pid w o = opid x.
Proof.
  intros I H. unfold has_obj in H. destruct (nth_error (objs (ms w)) o) as [x|] eqn:Ex; [|discriminate].
  destruct (Forall2_nth_l _ _ _ _ _ (inv_objs _ I) Ex) as (i & Ei & O).
  assert (Eg : g_inc w o = i) by (unfold g_inc; apply nth_error_nth_default; auto).
  exists x. rewrite Eg. splits; auto.
  - unfold g_pid. rewrite Eg. destruct O as ([(s0 & _ & Hh)|(Ei' & _ & _)] & _ & _ & _ & R).
    + apply (inv_lt _ I) in Hh as Hl. destruct (Z.ltb_spec i 0); [lia|]. eapply inc_pid_ok; eauto.
    + destruct (Z.ltb_spec i 0); lia.
  - unfold obj_pid. rewrite Ex. reflexivity.
Qed.

(* ================================================================ C01 *)
Lemma mcall_set w o s x : nth_error (objs (ms w)) o = Some x ->
  snd (fst (mcall (view_of w) (ms w) (Set_ o s))) = snd (fst (fst (do_setter (view_of w) x s))) /\
  snd (mcall (view_of w) (ms w) (Set_ o s)) = snd (do_setter (view_of w) x s).
Proof.
  intros Ex. cbn [mcall]. rewrite Ex. destruct (do_setter (view_of w) x s) as [[[x1 r] add] scs]. auto.
Qed.

Lemma tag_intended w p s : tag w (intended p s) = (intended p s, owner w p).
Proof. unfold tag. rewrite sysc_pid_intended. reflexivity. Qed.

(* the complete answer of a signal / setter call in a reachable world *)
Lemma set_answer w o s : Inv w -> has_obj w o = true ->
  let p := obj_pid w o in let i := g_inc w o in
  let r := outcome_of w (EC (Set_ o s)) in let eff := effects_of w (EC (Set_ o s)) in
  (alive w i = true ->
     if valid_args p s then r = Val RNone /\ eff = [(intended p s, Some i)]
     else r = Exc ValueError /\ eff = [])
  /\ (alive w i = false -> owner w p <> None -> r = Exc NoSuchProcess /\ eff = [])
  /\ (alive w i = false -> owner w p = None ->
      if valid_args p s then r = Exc NoSuchProcess /\ (eff = [] \/ eff = [(intended p s, None)])
      else (r = Exc NoSuchProcess \/ r = Exc ValueError) /\ eff = []).
Proof.
  intros I H. destruct (obj_facts w o I H) as (x & Ex & O & Ei & Egp & Eop).
  cbn zeta. rewrite Eop, outcome_call, effects_call.
  destruct (mcall_set w o s x Ex) as [-> ->].
  destruct (do_setter_spec w x (g_inc w o) s I O) as (x1 & r & add & scs & E & _ & Ha & Ho & Hn).
  rewrite E. cbn [fst snd]. splits.
  - intros A. specialize (Ha A). destruct (valid_args (opid x) s).
    + destruct Ha as [-> ->]. cbn [map]. rewrite tag_intended, (alive_owner w x _ I O A). auto.
    + destruct Ha as [-> ->]. auto.
  - intros A Ow. destruct (Ho A Ow) as [-> ->]. auto.
  - intros A Ow. specialize (Hn A Ow). destruct (valid_args (opid x) s).
    + destruct Hn as [-> [-> | ->]]; cbn [map]; rewrite ?tag_intended, ?Ow; auto.
    + destruct Hn as [Hr ->]. auto.
Qed.

Lemma no_effect_on_new_owner h o s :
  wf_hist h = true -> has_obj (run h) o = true ->
  alive (run h) (g_inc (run h) o) = false ->
  owner (run h) (obj_pid (run h) o) <> None ->
  outcome_of (run h) (EC (Set_ o s)) = Exc NoSuchProcess /\ effects_of (run h) (EC (Set_ o s)) = [].
Proof.
  intros W H A Ow. destruct (set_answer (run h) o s (run_inv h W) H) as (_ & S & _). auto.
Qed.

Lemma gone_not_reused h o s :
  wf_hist h = true -> has_obj (run h) o = true ->
  alive (run h) (g_inc (run h) o) = false ->
  owner (run h) (obj_pid (run h) o) = None ->
  (outcome_of (run h) (EC (Set_ o s)) = Exc NoSuchProcess
   \/ (outcome_of (run h) (EC (Set_ o s)) = Exc ValueError /\ valid_args (obj_pid (run h) o) s = false))
  /\ delivered (effects_of (run h) (EC (Set_ o s))) = []
  /\ (effects_of (run h) (EC (Set_ o s)) = []
      \/ effects_of (run h) (EC (Set_ o s)) = [(intended (obj_pid (run h) o) s, None)]).
Proof.
  intros W H A Ow. destruct (set_answer (run h) o s (run_inv h W) H) as (_ & _ & S).
  specialize (S A Ow). cbn zeta in S. destruct (valid_args (obj_pid (run h) o) s).
  - destruct S as [-> [-> | ->]]; cbn; auto.
  - destruct S as [[-> | ->] ->]; cbn; auto.
Qed.

Lemma exact_delivery h o s :
  wf_hist h = true -> has_obj (run h) o = true ->
  effects_of (run h) (EC (Set_ o s)) = []
  \/ effects_of (run h) (EC (Set_ o s)) = [(intended (obj_pid (run h) o) s, None)]
  \/ effects_of (run h) (EC (Set_ o s)) = [(intended (obj_pid (run h) o) s, Some (g_inc (run h) o))].
Proof.
  intros W H. destruct (set_answer (run h) o s (run_inv h W) H) as (Sa & So & Sn). cbn zeta in *.
  destruct (alive (run h) (g_inc (run h) o)) eqn:A.
  - specialize (Sa eq_refl). destruct (valid_args (obj_pid (run h) o) s); destruct Sa as [_ ->]; auto.
  - destruct (owner (run h) (obj_pid (run h) o)) eqn:Ow.
    + destruct (So eq_refl) as [_ ->]; [discriminate|auto].
    + specialize (Sn eq_refl eq_refl). destruct (valid_args (obj_pid (run h) o) s).
      * destruct Sn as [_ [-> | ->]]; auto.
      * destruct Sn as [_ ->]; auto.
Qed.

Lemma delivered_when_alive h o s :
  wf_hist h = true -> has_obj (run h) o = true ->
  alive (run h) (g_inc (run h) o) = true ->
  if valid_args (obj_pid (run h) o) s
  then outcome_of (run h) (EC (Set_ o s)) = Val RNone
       /\ effects_of (run h) (EC (Set_ o s)) = [(intended (obj_pid (run h) o) s, Some (g_inc (run h) o))]
  else outcome_of (run h) (EC (Set_ o s)) = Exc ValueError /\ effects_of (run h) (EC (Set_ o s)) = [].
Proof.
  intros W H A. destruct (set_answer (run h) o s (run_inv h W) H) as (Sa & _ & _). apply Sa; auto.
Qed.

Lemma obj_pid_creation h o :
  wf_hist h = true -> has_obj (run h) o = true ->
  obj_pid (run h) o = g_pid (run h) o /\ 0 <= obj_pid (run h) o < PID_MAX.
Proof.
  intros W H. destruct (obj_facts (run h) o (run_inv h W) H) as (x & Ex & O & Ei & Egp & Eop).
  rewrite Egp, Eop. split; auto. apply O.
Qed.

(* calls other than signals/setters issue no system call *)
Lemma mcall_nonset_scs K m c :
  (forall o s, c <> Set_ o s) -> (forall o s, c <> SetAct o s) -> snd (mcall K m c) = [].
Proof.
  intros N N'. destruct c; cbn [mcall]; try (exfalso; eapply N; reflexivity); try (exfalso; eapply N'; reflexivity);
    try (destruct (iter_next K m g); reflexivity); try (destruct (proc_iter K m); reflexivity);
    repeat match goal with
           | |- context [match ?e with _ => _ end] => destruct e
           end; reflexivity.
Qed.

(* no os.kill with pid <= 0: a fact about the code of the methods alone *)
Definition no_group (sc : sysc) : Prop := match sc with SKill p _ => p <=? 0 | _ => false end = false.

Lemma is_running_pid K x : opid (fst (fst (is_running K x))) = opid x.
Proof.
  unfold is_running.
  repeat match goal with |- context [match ?e with _ => _ end] => destruct e end; reflexivity.
Qed.

Lemma raise_if_pid K x : opid (fst (fst (raise_if_pid_reused K x))) = opid x.
Proof.
  unfold raise_if_pid_reused. pose proof (is_running_pid K x) as P.
  destruct (ogone x && negb (oreused x)); [reflexivity|]. destruct (oreused x); [reflexivity|].
  destruct (is_running K x) as [[x1 r] add]. cbn [fst] in P.
  destruct r as [b| |]; [destruct (negb b && oreused x1)| |]; exact P.
Qed.

Lemma body_no_group K x s : 0 <= opid x -> Forall no_group (snd (setter_body K x s)).
Proof.
  intros R.
  assert (KB : forall sig, Forall no_group (snd (kill_body K x sig))).
  { intros sig. unfold kill_body. destruct (opid x =? 0) eqn:E; [constructor|].
    apply Z.eqb_neq in E. destruct (kexists K (opid x)); cbn [snd]; constructor; try constructor;
      unfold no_group; apply Z.leb_gt; lia. }
  destruct s; cbn [setter_body]; auto; unfold wrapped_sys;
    repeat match goal with |- context [match ?e with _ => _ end] => destruct e end;
    cbn [snd]; repeat constructor.
Qed.

Lemma mcall_no_group K m c :
  (forall x, In x (objs m) -> 0 <= opid x) -> Forall no_group (snd (mcall K m c)).
Proof.
  intros R.
  assert (Nth : forall o x, nth_error (objs m) o = Some x -> 0 <= opid x).
  { intros o x E. apply R. eapply nth_error_In; eauto. }
  destruct c; try (rewrite mcall_nonset_scs by (intros; discriminate); constructor); cbn [mcall].
  - (* SetAct *)
    destruct (nth_error (objs m) o) as [x|] eqn:Ex; [|constructor].
    pose proof (body_no_group K x s (Nth _ _ Ex)) as B.
    destruct (setter_body K x s) as [[x2 r2] scs]. exact B.
  - (* Set_ *)
    destruct (nth_error (objs m) o) as [x|] eqn:Ex; [|constructor].
    unfold do_setter. destruct (opid x <? 0); [constructor|].
    pose proof (raise_if_pid K x) as P.
    destruct (raise_if_pid_reused K x) as [[x1 r] add]. cbn [fst] in P.
    destruct r as [u|e|]; cbn [snd]; try constructor.
    pose proof (body_no_group K x1 s) as B. rewrite P in B. specialize (B (Nth _ _ Ex)).
    destruct (setter_body K x1 s) as [[x2 r2] scs]. exact B.
Qed.

Lemma inv_objs_nonneg w : Inv w -> forall x, In x (objs (ms w)) -> 0 <= opid x.
Proof.
  intros I x Hx. apply In_nth_error in Hx as [n Hn].
  destruct (Forall2_nth_l _ _ _ _ _ (inv_objs _ I) Hn) as (i & _ & O). apply O.
Qed.

Lemma ksteps_ms ks : forall w, ms (fold_left kstep ks w) = ms w.
Proof.
  induction ks as [|k ks IH]; intros w; cbn [fold_left]; auto. rewrite IH. destruct k; reflexivity.
Qed.

Lemma cstep_effects w c : snd (cstep w c) = map (tag w) (snd (mcall (view_of w) (ms w) c)).
Proof. rewrite cstep_eq. reflexivity. Qed.

Lemma cstep_no_group w c e :
  (forall x, In x (objs (ms w)) -> 0 <= opid x) -> In e (snd (cstep w c)) -> group_kill e = false.
Proof.
  intros R He. rewrite cstep_effects in He. apply in_map_iff in He as [sc [<- Hsc]].
  pose proof (mcall_no_group (view_of w) (ms w) c R) as F. rewrite Forall_forall in F.
  apply F in Hsc. unfold group_kill, tag. cbn [fst]. exact Hsc.
Qed.

Lemma never_group h e c :
  wf_hist h = true -> In c (effects_of (run h) e) -> group_kill c = false.
Proof.
  intros W Hc. pose proof (run_inv h W) as I. unfold effects_of in Hc. destruct e as [k|cl|o s ks]; cbn [step] in Hc.
  - cbn in Hc. contradiction.
  - eapply cstep_no_group; eauto. apply inv_objs_nonneg; auto.
  - pose proof (cstep_inv (run h) (SetProbe o) I) as I1.
    destruct (cstep (run h) (SetProbe o)) as [[w1 r1] e1]. cbn [fst] in I1.
    destruct r1; cbn [snd] in Hc; try contradiction.
    eapply cstep_no_group; eauto. rewrite ksteps_ms. apply inv_objs_nonneg; auto.
Qed.

Lemma negative_pid_rejected w pid : pid < 0 ->
  outcome_of w (EC (New pid)) = Exc ValueError /\ effects_of w (EC (New pid)) = []
  /\ objs (ms (next w (EC (New pid)))) = objs (ms w).
Proof.
  intros N. unfold next. rewrite outcome_call, effects_call, step_call. cbn [mcall fst snd ms].
  unfold new_obj. destruct (Z.ltb_spec pid 0); [|lia]. cbn. auto.
Qed.

Lemma pid0_refused h o s :
  wf_hist h = true -> has_obj (run h) o = true -> obj_pid (run h) o = 0 ->
  (exists sig, intended 0 s = SKill 0 sig) ->
  (outcome_of (run h) (EC (Set_ o s)) = Exc ValueError \/ outcome_of (run h) (EC (Set_ o s)) = Exc NoSuchProcess)
  /\ effects_of (run h) (EC (Set_ o s)) = [].
Proof.
  intros W H P0 [sig Es].
  assert (V : valid_args 0 s = false) by (destruct s; cbn [intended valid_args] in Es |- *; try discriminate; reflexivity).
  destruct (set_answer (run h) o s (run_inv h W) H) as (Sa & So & Sn). cbn zeta in *. rewrite P0, V in *.
  destruct (alive (run h) (g_inc (run h) o)) eqn:A.
  - destruct (Sa eq_refl) as [-> ->]. auto.
  - destruct (owner (run h) 0) eqn:Ow.
    + destruct (So eq_refl) as [-> ->]; [discriminate|auto].
    + destruct (Sn eq_refl eq_refl) as [[-> | ->] ->]; auto.
Qed.

(* ================================================================ C02 *)
Lemma eq_iff_same_incarnation h a b :
  wf_hist h = true -> has_obj (run h) a = true -> has_obj (run h) b = true ->
  outcome_of (run h) (EC (EqC a b)) = Val (RBool (g_inc (run h) a =? g_inc (run h) b)).
Proof.
  intros W Ha Hb. pose proof (run_inv h W) as I.
  destruct (obj_facts _ a I Ha) as (x & Ex & Ox & _). destruct (obj_facts _ b I Hb) as (y & Ey & Oy & _).
  rewrite outcome_call. cbn [mcall]. rewrite Ex, Ey. cbn [fst snd].
  rewrite (obj_eq_inc _ _ _ _ _ I Ox Oy). reflexivity.
Qed.

Lemma ident_eqb_obj_eq x y : ident_eqb (ident x) (ident y) = obj_eq x y.
Proof. reflexivity. Qed.

Lemma hash_follows_eq h a b :
  wf_hist h = true -> has_obj (run h) a = true -> has_obj (run h) b = true ->
  outcome_of (run h) (EC (HashEq a b)) = Val (RHash (g_inc (run h) a =? g_inc (run h) b) true).
Proof.
  intros W Ha Hb. pose proof (run_inv h W) as I. set (w := run h) in *.
  destruct (obj_facts _ a I Ha) as (x & Ex & Ox & Eia & _).
  destruct (obj_facts _ b I Hb) as (y0 & Ey0 & Oy0 & Eib & _).
  rewrite outcome_call. cbn [mcall]. rewrite Ex.
  destruct (do_hash x) as [x1 h1] eqn:Hx.
  pose proof (do_hash_ok w x _ Ox) as (Ox1 & Eh1 & Eid1). rewrite Hx in Ox1, Eh1, Eid1. cbn [fst snd] in *.
  pose proof (upd_objs_ok _ _ _ _ _ _ (inv_objs _ I) Eia Ox1) as F1.
  assert (Len : (b < length (upd_nth a x1 (objs (ms w))))%nat).
  { rewrite upd_nth_length. apply nth_error_Some. congruence. }
  destruct (nth_error (upd_nth a x1 (objs (ms w))) b) as [y|] eqn:Ey; [|apply nth_error_None in Ey; lia].
  destruct (Forall2_nth_l _ _ _ _ _ F1 Ey) as (j & Ej & Oy). rewrite Eib in Ej. inversion Ej; subst j.
  destruct (do_hash y) as [y1 h2] eqn:Hy.
  pose proof (do_hash_ok w y _ Oy) as (_ & Eh2 & _). rewrite Hy in Eh2. cbn [fst snd] in *.
  rewrite Eh1, Eh2, !ident_eqb_obj_eq. rewrite (obj_eq_inc _ _ _ _ _ I Ox Oy).
  assert (R1 : obj_eq x x = true) by (rewrite (obj_eq_inc _ _ _ _ _ I Ox Ox); apply Z.eqb_refl).
  assert (R2 : obj_eq y y = true) by (rewrite (obj_eq_inc _ _ _ _ _ I Oy Oy); apply Z.eqb_refl).
  rewrite R1, R2. reflexivity.
Qed.

Lemma is_running_answer h o :
  wf_hist h = true -> has_obj (run h) o = true ->
  outcome_of (run h) (EC (IsRunning o)) = Val (RBool (alive (run h) (g_inc (run h) o))).
Proof.
  intros W H. pose proof (run_inv h W) as I.
  destruct (obj_facts _ o I H) as (x & Ex & O & _).
  rewrite outcome_call. cbn [mcall]. rewrite Ex.
  destruct (is_running_spec _ x _ I O) as (x1 & add & E & _). rewrite E. reflexivity.
Qed.

(* the ghost record: a new object belongs to the process that owns the PID at that moment ... *)
Lemma new_records_owner h pid n :
  wf_hist h = true -> outcome_of (run h) (EC (New pid)) = Val (RObj n) ->
  n = length (objs (ms (run h))) /\ has_obj (next (run h) (EC (New pid))) n = true
  /\ owner (run h) pid = Some (g_inc (next (run h) (EC (New pid))) n)
  /\ obj_pid (next (run h) (EC (New pid))) n = pid.
Proof.
  intros W. pose proof (run_inv h W) as I. set (w := run h) in *.
  unfold next. rewrite outcome_call, step_call. cbn [mcall fst snd].
  destruct (new_obj (view_of w) pid) as [y|e|] eqn:N; cbn [fst snd]; try discriminate.
  intros E. inversion E; subst n. split; [reflexivity|].
  destruct (new_obj_ok w pid y I N) as (i & Ow & O & Ep & _).
  pose proof (Forall2_len _ _ _ (inv_objs _ I)) as Len.
  unfold has_obj, g_inc, obj_pid. cbn [ms ginc with_objs objs].
  rewrite skipn_app_exact. cbn [new_ghosts map]. rewrite nth_error_app2 by lia. rewrite Nat.sub_diag. cbn [nth_error].
  rewrite Len, app_nth2 by lia. rewrite Nat.sub_diag. cbn [nth]. unfold ghost_of. rewrite Ep, Ow. auto.
Qed.

(* ... and never changes afterwards *)
Lemma next_race w o s ks :
  next w (ER o s ks) =
  match snd (fst (cstep w (SetProbe o))) with
  | Val _ => fst (fst (cstep (fold_left kstep ks (fst (fst (cstep w (SetProbe o))))) (SetAct o s)))
  | _ => fold_left kstep ks (fst (fst (cstep w (SetProbe o))))
  end.
Proof.
  unfold next. cbn [step]. destruct (cstep w (SetProbe o)) as [[w1 r1] e1]. cbn [fst snd].
  destruct r1; reflexivity.
Qed.

Lemma ksteps_ginc ks : forall w, ginc (fold_left kstep ks w) = ginc w.
Proof.
  induction ks as [|k ks IH]; intros w; cbn [fold_left]; auto. rewrite IH. destruct k; reflexivity.
Qed.

Lemma cstep_ginc w c : exists l, ginc (fst (fst (cstep w c))) = ginc w ++ l.
Proof. rewrite cstep_eq. cbn [fst ginc]. eauto. Qed.

Lemma ginc_prefix w e : exists l, ginc (next w e) = ginc w ++ l.
Proof.
  destruct e as [k|c|o s ks].
  - exists []. rewrite app_nil_r. destruct k; reflexivity.
  - apply cstep_ginc.
  - rewrite next_race. destruct (cstep_ginc w (SetProbe o)) as [l1 E1].
    destruct (snd (fst (cstep w (SetProbe o)))).
    + destruct (cstep_ginc (fold_left kstep ks (fst (fst (cstep w (SetProbe o))))) (SetAct o s)) as [l2 E2].
      rewrite E2, ksteps_ginc, E1, <- app_assoc. eauto.
    + rewrite ksteps_ginc. eauto.
    + rewrite ksteps_ginc. eauto.
Qed.

Lemma kstep_hist w k x : In x (hist w) -> In x (hist (kstep w k)).
Proof. destruct k; cbn; auto. Qed.

Lemma ksteps_hist ks : forall w x, In x (hist w) -> In x (hist (fold_left kstep ks w)).
Proof. induction ks as [|k ks IH]; intros w x H; cbn [fold_left]; auto. apply IH, kstep_hist, H. Qed.

Lemma cstep_hist w c : hist (fst (fst (cstep w c))) = hist w.
Proof. rewrite cstep_eq. reflexivity. Qed.

Lemma hist_mono w e x : In x (hist w) -> In x (hist (next w e)).
Proof.
  destruct e as [k|c|o s ks]; intros H.
  - apply kstep_hist, H.
  - unfold next. cbn [step]. rewrite cstep_hist. exact H.
  - rewrite next_race. destruct (snd (fst (cstep w (SetProbe o)))); [rewrite cstep_hist| |];
      apply ksteps_hist; rewrite cstep_hist; exact H.
Qed.

Lemma g_inc_next w e o : (o < length (ginc w))%nat -> g_inc (next w e) o = g_inc w o.
Proof.
  intros L. destruct (ginc_prefix w e) as [l E]. unfold g_inc. rewrite E, app_nth1; auto.
Qed.

Lemma objs_len_next w e : Inv w -> wf_ev w e = true ->
  (length (ginc w) <= length (ginc (next w e)))%nat.
Proof. intros _ _. destruct (ginc_prefix w e) as [l E]. rewrite E, app_length. lia. Qed.

Lemma has_obj_len w o : Inv w -> (has_obj w o = true <-> (o < length (ginc w))%nat).
Proof.
  intros I. rewrite <- (Forall2_len _ _ _ (inv_objs _ I)). unfold has_obj.
  destruct (nth_error (objs (ms w)) o) eqn:E.
  - split; auto. intros _. apply nth_error_Some. congruence.
  - split; [discriminate|]. intros L. apply nth_error_None in E. lia.
Qed.

(* an incarnation that has left the table never comes back *)
Lemma kstep_alive_false w k i :
  i < nextinc w -> alive w i = false -> alive (kstep w k) i = false /\ i < nextinc (kstep w k).
Proof.
  intros Hi A. split.
  - apply alive_false. intros k' Hk' E.
    pose proof (proj1 (alive_false w i) A) as Nw.
    destruct k as [q t pp cm|q|q|q|d|q|q]; cbn [kstep table] in Hk'.
    + apply in_app_iff in Hk' as [Hk'|[Hk'|[]]]; [eapply Nw; eauto|].
      subst k'. cbn [kinc] in E. lia.
    + apply in_map_iff in Hk' as [k0 [E0 Hk0]]. subst k'.
      apply (Nw k0 Hk0). destruct (kpid k0 =? q); auto.
    + apply in_map_iff in Hk' as [k0 [E0 Hk0]]. subst k'.
      apply (Nw k0 Hk0). destruct (kpid k0 =? q); auto.
    + apply filter_In in Hk' as [Hk' _]. eapply Nw; eauto.
    + eapply Nw; eauto.
    + eapply Nw; eauto.
    + eapply Nw; eauto.
  - destruct k; cbn [kstep nextinc]; lia.
Qed.

Lemma ksteps_alive_false ks i : forall w,
  i < nextinc w -> alive w i = false ->
  alive (fold_left kstep ks w) i = false /\ i < nextinc (fold_left kstep ks w).
Proof.
  induction ks as [|k ks IH]; intros w Hi A; cbn [fold_left]; auto.
  destruct (kstep_alive_false w k i Hi A) as [A' Hi']. apply IH; auto.
Qed.

Lemma cstep_alive w c i : alive (fst (fst (cstep w c))) i = alive w i.
Proof. rewrite cstep_eq. reflexivity. Qed.

Lemma cstep_nextinc w c : nextinc (fst (fst (cstep w c))) = nextinc w.
Proof. rewrite cstep_eq. reflexivity. Qed.

Lemma alive_next_false w e i :
  i < nextinc w -> alive w i = false -> alive (next w e) i = false.
Proof.
  intros Hi A. destruct e as [k|c|o s ks].
  - apply kstep_alive_false; auto.
  - unfold next. cbn [step]. rewrite cstep_alive. exact A.
  - rewrite next_race.
    assert (P : alive (fold_left kstep ks (fst (fst (cstep w (SetProbe o))))) i = false).
    { apply ksteps_alive_false; [rewrite cstep_nextinc|rewrite cstep_alive]; auto. }
    destruct (snd (fst (cstep w (SetProbe o)))); [rewrite cstep_alive|idtac|idtac]; exact P.
Qed.

Lemma obj_inc_lt w x i : Inv w -> obj_ok w x i -> i < nextinc w.
Proof.
  intros I ([(s0 & _ & Hh)|(Ei & _ & _)] & _ & _ & _ & R).
  - apply (inv_lt _ I) in Hh. lia.
  - pose proof (inv_next _ I). lia.
Qed.

Lemma still_dead h2 : forall w o,
  Inv w -> wf_from w h2 = true -> has_obj w o = true ->
  alive w (g_inc w o) = false ->
  has_obj (run_from w h2) o = true /\ g_inc (run_from w h2) o = g_inc w o
  /\ alive (run_from w h2) (g_inc w o) = false.
Proof.
  induction h2 as [|e h2 IH]; intros w o I W H A; cbn [run_from fold_left]; auto.
  cbn [wf_from] in W. apply andb_true_iff in W as [W1 W2].
  pose proof (next_inv w e I W1) as I'.
  destruct (obj_facts w o I H) as (x & Ex & Ox & _).
  pose proof (obj_inc_lt w x _ I Ox) as Hlt.
  pose proof (proj1 (has_obj_len w o I) H) as L.
  assert (H' : has_obj (next w e) o = true).
  { apply (has_obj_len _ o I'). pose proof (objs_len_next w e I W1). lia. }
  assert (G' : g_inc (next w e) o = g_inc w o) by (apply g_inc_next; auto).
  assert (A' : alive (next w e) (g_inc (next w e) o) = false).
  { rewrite G'. apply alive_next_false; auto. }
  destruct (IH (next w e) o I' W2 H' A') as (R1 & R2 & R3).
  fold (run_from (next w e) h2). rewrite R2, G' in *. auto.
Qed.

Lemma is_running_monotone h1 h2 o :
  wf_hist (h1 ++ h2) = true -> has_obj (run h1) o = true ->
  outcome_of (run h1) (EC (IsRunning o)) = Val (RBool false) ->
  outcome_of (run (h1 ++ h2)) (EC (IsRunning o)) = Val (RBool false).
Proof.
  intros W H R. pose proof W as W12. apply wf_from_app in W as [W1 W2].
  rewrite (is_running_answer h1 o W1 H) in R. injection R as A.
  assert (E : run (h1 ++ h2) = run_from (run h1) h2) by (unfold run; apply run_from_app).
  destruct (still_dead h2 _ o (run_inv h1 W1) W2 H A) as (H2 & G2 & A2).
  pose proof (is_running_answer (h1 ++ h2) o W12) as Ans. rewrite E in *.
  rewrite Ans by exact H2. rewrite G2, A2. reflexivity.
Qed.

Lemma ginc_stable_from h2 o : forall w,
  Inv w -> wf_from w h2 = true -> has_obj w o = true ->
  has_obj (run_from w h2) o = true /\ g_inc (run_from w h2) o = g_inc w o
  /\ obj_pid (run_from w h2) o = obj_pid w o.
Proof.
  induction h2 as [|e h2 IH]; intros w I W2 H; cbn [run_from fold_left]; auto.
  cbn [wf_from] in W2. apply andb_true_iff in W2 as [Wa Wb].
  pose proof (next_inv w e I Wa) as I'.
  pose proof (proj1 (has_obj_len w o I) H) as L.
  assert (H' : has_obj (next w e) o = true).
  { apply (has_obj_len _ o I'). pose proof (objs_len_next w e I Wa). lia. }
  destruct (IH (next w e) I' Wb H') as (R1 & R2 & R3). fold (run_from (next w e) h2).
  rewrite R2, R3. splits; auto.
  - apply g_inc_next; auto.
  - destruct (obj_facts w o I H) as (x & _ & Ox & _ & _ & Eop).
    destruct (obj_facts (next w e) o I' H') as (x' & _ & Ox' & _ & _ & Eop').
    rewrite Eop, Eop'. rewrite g_inc_next in Ox' by auto.
    destruct Ox as ([(s0 & _ & Hh)|(Ei & _ & _)] & _ & _ & _ & R);
      destruct Ox' as ([(s1 & _ & Hh')|(Ei' & _ & _)] & _ & _ & _ & R').
    + apply (hist_mono w e) in Hh. destruct (inv_fun _ I' _ _ _ _ _ Hh Hh'); auto.
    + apply (inv_lt _ I) in Hh. lia.
    + apply (inv_lt _ I') in Hh'. lia.
    + lia.
Qed.

Lemma ginc_stable h1 h2 o :
  wf_hist (h1 ++ h2) = true -> has_obj (run h1) o = true ->
  has_obj (run (h1 ++ h2)) o = true /\ g_inc (run (h1 ++ h2)) o = g_inc (run h1) o
  /\ obj_pid (run (h1 ++ h2)) o = obj_pid (run h1) o.
Proof.
  intros W H. apply wf_from_app in W as [W1 W2].
  assert (E : run (h1 ++ h2) = run_from (run h1) h2) by (unfold run; apply run_from_app).
  rewrite E. apply ginc_stable_from; auto. apply run_inv; auto.
Qed.

(* ================================================================ model answers are among the demanded ones *)
Lemma nonset_effects w c :
  (forall o s, c <> Set_ o s) -> (forall o s, c <> SetAct o s) -> effects_of w (EC c) = [].
Proof. intros N N'. rewrite effects_call, mcall_nonset_scs by auto. reflexivity. Qed.

Lemma no_identity_false w o : Inv w -> no_identity w o = false.
Proof.
  intros I. unfold no_identity. destruct (nth_error (objs (ms w)) o) as [x|] eqn:Ex; auto.
  destruct (Forall2_nth_l _ _ _ _ _ (inv_objs _ I) Ex) as (i & Ei & O).
  rewrite (nth_error_nth_default _ _ _ (-1) Ei).
  destruct O as ([(s0 & -> & _)|(Ei' & -> & _)] & _ & _ & _ & R); auto.
  apply Z.leb_gt. lia.
Qed.

Lemma is_running_answer_w w o : Inv w -> has_obj w o = true ->
  outcome_of w (EC (IsRunning o)) = Val (RBool (alive w (g_inc w o))).
Proof.
  intros I H. destruct (obj_facts _ o I H) as (x & Ex & O & _).
  rewrite outcome_call. cbn [mcall]. rewrite Ex.
  destruct (is_running_spec _ x _ I O) as (x1 & add & E & _). rewrite E. reflexivity.
Qed.

(* wait_procs([o], timeout=0) *)
Lemma wait_procs_answer w o vis : Inv w -> has_obj w o = true -> 0 < obj_pid w o ->
  (alive w (g_inc w o) = true -> outcome_of w (EC (WaitProcs o vis)) = Val (RBool false))
  /\ (alive w (g_inc w o) = false -> owner w (obj_pid w o) = None ->
      outcome_of w (EC (WaitProcs o vis)) = Val (RBool true)).
Proof.
  intros I H P. destruct (obj_facts _ o I H) as (x & Ex & O & _ & _ & Eop). rewrite Eop in *.
  rewrite outcome_call. cbn [mcall]. rewrite Ex. unfold do_wait_procs.
  pose proof (do_hash_ok w x _ O) as (O0 & _ & Ei0). destruct (do_hash x) as [x0 h0]. cbn [fst] in *.
  assert (Ep0 : opid x0 = opid x) by (unfold ident in Ei0; congruence).
  unfold do_wait. rewrite Ep0. destruct (Z.leb_spec (opid x) 0); [lia|].
  rewrite kexists_view. rewrite owner_lookup.
  assert (IR : forall y, obj_ok w y (g_inc w o) ->
          exists y2 add, is_running (view_of w) y = (y2, Val (alive w (g_inc w o)), add)).
  { intros y Oy. destruct (is_running_spec w y _ I Oy) as (y2 & add & E & _). eauto. }
  destruct (oexit x0).
  - destruct (IR x0 O0) as (y2 & add & ->). cbn [fst snd]. split; intros A; rewrite A; reflexivity.
  - destruct (lookup (table w) (opid x)) as [k|] eqn:L.
    + destruct vis; cbn [andb].
      * cbn [fst snd]. split; [reflexivity|]. intros _ Ow. discriminate.
      * destruct (IR (with_exit true x0) (obj_ok_with_exit w x0 _ true O0)) as (y2 & add & ->). cbn [fst snd].
        split; [intros A; rewrite A; reflexivity|]. intros _ Ow. discriminate.
    + rewrite andb_false_r.
      destruct (IR (with_exit true x0) (obj_ok_with_exit w x0 _ true O0)) as (y2 & add & ->). cbn [fst snd].
      split; intros A; rewrite A; reflexivity.
Qed.

(* a wait() on a PID the caller's namespace does not see returns None at once -- and changes no later answer *)
Lemma wait_foreign_harmless h o o' :
  wf_hist h = true -> has_obj (run h) o = true -> has_obj (run h) o' = true -> 0 < obj_pid (run h) o ->
  (outcome_of (run h) (EC (Wait o false)) = Val RNone)
  /\ outcome_of (next (run h) (EC (Wait o false))) (EC (IsRunning o'))
     = Val (RBool (alive (run h) (g_inc (run h) o'))).
Proof.
  intros W H H' P. pose proof (run_inv h W) as I. set (w := run h) in *. split.
  - destruct (obj_facts _ o I H) as (x & Ex & O & _ & _ & Eop). rewrite Eop in P.
    rewrite outcome_call. cbn [mcall]. rewrite Ex. unfold do_wait.
    destruct (oexit x); [reflexivity|]. destruct (Z.leb_spec (opid x) 0); [lia|]. reflexivity.
  - pose proof (call_inv w (Wait o false) I) as I1.
    assert (H1 : has_obj (next w (EC (Wait o false))) o' = true).
    { apply (has_obj_len _ o' I1). pose proof (proj1 (has_obj_len w o' I) H').
      destruct (ginc_prefix w (EC (Wait o false))) as [l E]. rewrite E, app_length. lia. }
    rewrite (is_running_answer_w _ o' I1 H1).
    rewrite g_inc_next by (apply (has_obj_len w o' I); auto).
    unfold next. cbn [step]. rewrite cstep_alive. reflexivity.
Qed.

Lemma step_meets_spec h c : wf_hist h = true ->
  match spec_call (run h) c with
  | Some l => In (outcome_of (run h) (EC c), delivered (effects_of (run h) (EC c))) l
  | None => True
  end.
Proof.
  intros W. pose proof (run_inv h W) as I.
  destruct c as [pid|pid|o|o s|o|o|o|o|o|a b|a b|o s|o|o| | |o vis| |g|o vis|o hw ok|o ok]; cbn [spec_call]; auto.
  - (* New *)
    rewrite nonset_effects by (intros; discriminate). left. f_equal.
    rewrite outcome_call. cbn [mcall]. unfold new_obj.
    destruct (Z.ltb_spec pid 0); [reflexivity|].
    destruct (Z.leb_spec PID_MAX pid) as [L|L].
    + destruct (Z.ltb_spec pid PID_MAX); [lia|]. reflexivity.
    + destruct (Z.ltb_spec pid PID_MAX); [|lia]. cbn [andb].
      rewrite view_stat, owner_lookup. destruct (lookup (table (run h)) pid); cbn [fst snd]; auto.
      rewrite (Forall2_len _ _ _ (inv_objs _ I)). reflexivity.
  - (* EqOther *)
    destruct (has_obj (run h) o) eqn:H; auto.
    rewrite nonset_effects by (intros; discriminate). rewrite outcome_call. cbn [mcall]. unfold has_obj in H.
    destruct (nth_error (objs (ms (run h))) o); [|discriminate]. left; reflexivity.
  - (* IsRunning *)
    rewrite (no_identity_false _ o I), (inv_nodeny _ I). cbn [memz existsb negb]. rewrite !andb_true_r.
    destruct (has_obj (run h) o) eqn:H; auto.
    rewrite nonset_effects by (intros; discriminate). rewrite (is_running_answer h o W H). left; reflexivity.
  - (* EqC *)
    rewrite (no_identity_false _ a I), (no_identity_false _ b I). cbn [negb]. rewrite !andb_true_r.
    destruct (has_obj (run h) a) eqn:Ha; cbn [andb]; auto. destruct (has_obj (run h) b) eqn:Hb; cbn [andb]; auto.
    destruct ((0 <=? g_inc (run h) a) || (0 <=? g_inc (run h) b)); auto.
    rewrite nonset_effects by (intros; discriminate). rewrite (eq_iff_same_incarnation h a b W Ha Hb). left; reflexivity.
  - (* HashEq *)
    rewrite (no_identity_false _ a I), (no_identity_false _ b I). cbn [negb]. rewrite !andb_true_r.
    destruct (has_obj (run h) a) eqn:Ha; cbn [andb]; auto. destruct (has_obj (run h) b) eqn:Hb; cbn [andb]; auto.
    destruct ((0 <=? g_inc (run h) a) || (0 <=? g_inc (run h) b)); auto.
    rewrite nonset_effects by (intros; discriminate). rewrite (hash_follows_eq h a b W Ha Hb). left; reflexivity.
  - (* Set_ *)
    rewrite (no_identity_false _ o I), (inv_nodeny _ I). cbn [memz existsb negb]. rewrite !andb_true_r.
    destruct (has_obj (run h) o) eqn:H; auto.
    destruct (obj_pid_creation h o W H) as [Ep _]. rewrite <- Ep.
    destruct (set_answer (run h) o s I H) as (Sa & So & Sn). cbn zeta in *.
    destruct (alive (run h) (g_inc (run h) o)) eqn:A.
    + specialize (Sa eq_refl). destruct (valid_args (obj_pid (run h) o) s); destruct Sa as [-> ->]; left; reflexivity.
    + destruct (owner (run h) (obj_pid (run h) o)) eqn:Ow.
      * destruct (So eq_refl) as [-> ->]; [discriminate|]. left; reflexivity.
      * specialize (Sn eq_refl eq_refl). destruct (valid_args (obj_pid (run h) o) s).
        -- destruct Sn as [-> [-> | ->]]; left; reflexivity.
        -- destruct Sn as [[-> | ->] ->]; [left|right; left]; reflexivity.
  - (* WaitProcs *)
    rewrite (no_identity_false _ o I), (inv_nodeny _ I). cbn [memz existsb negb]. rewrite !andb_true_r.
    destruct (has_obj (run h) o) eqn:H; cbn [andb]; auto.
    destruct (obj_pid_creation h o W H) as [Ep _]. rewrite <- Ep.
    destruct (Z.ltb_spec 0 (obj_pid (run h) o)) as [P|P]; auto.
    destruct (wait_procs_answer (run h) o vis I H P) as [Wa Wd].
    rewrite nonset_effects by (intros; discriminate).
    destruct (alive (run h) (g_inc (run h) o)) eqn:A.
    + rewrite (Wa eq_refl). left; reflexivity.
    + destruct (owner (run h) (obj_pid (run h) o)) eqn:Ow; auto. rewrite (Wd eq_refl eq_refl). left; reflexivity.
Qed.

(* ================================================================ the hypotheses are inhabited *)
Definition ex_reuse : list ev :=
  [EK (Spawn 5 100 1 [97; 32; 98]); EC (New 5); EK (Exit 5); EK (Reap 5); EC (IsRunning 0);
   EK (Spawn 5 101 1 [97; 32; 98])].
Definition ex_gone : list ev := [EK (Spawn 5 100 1 [112]); EC (New 5); EK (Reap 5)].
Definition ex_live : list ev :=
  [EK (Spawn 5 100 1 [97; 32; 98; 32; 99]); EC (New 5); EK (ClockStep 3); EC BootTime; EK (SpawnThread 5);
   EC (New 5); EK (Exit 5)].

Lemma ex_reuse_ok :
  wf_hist ex_reuse = true /\ has_obj (run ex_reuse) 0 = true
  /\ alive (run ex_reuse) (g_inc (run ex_reuse) 0) = false
  /\ owner (run ex_reuse) (obj_pid (run ex_reuse) 0) = Some 1
  /\ outcome_of (run ex_reuse) (EC (Set_ 0%nat Kill)) = Exc NoSuchProcess
  /\ effects_of (run ex_reuse) (EC (Set_ 0%nat Kill)) = [].
Proof. vm_compute. repeat split. Qed.

Lemma ex_gone_ok :
  wf_hist ex_gone = true /\ has_obj (run ex_gone) 0 = true
  /\ alive (run ex_gone) (g_inc (run ex_gone) 0) = false
  /\ owner (run ex_gone) (obj_pid (run ex_gone) 0) = None
  /\ outcome_of (run ex_gone) (EC (Set_ 0%nat Terminate)) = Exc NoSuchProcess
  /\ effects_of (run ex_gone) (EC (Set_ 0%nat Terminate)) = [(SKill 5 15, None)]
  /\ outcome_of (run ex_gone) (EC (IsRunning 0)) = Val (RBool false).
Proof. vm_compute. repeat split. Qed.

Lemma ex_live_ok :
  wf_hist ex_live = true /\ has_obj (run ex_live) 0 = true /\ has_obj (run ex_live) 1 = true
  /\ alive (run ex_live) (g_inc (run ex_live) 0) = true
  /\ outcome_of (run ex_live) (EC (EqC 0 1)) = Val (RBool true)
  /\ outcome_of (run ex_live) (EC (IsRunning 0)) = Val (RBool true)
  /\ outcome_of (run ex_live) (EC (Set_ 0%nat Kill)) = Val RNone
  /\ effects_of (run ex_live) (EC (Set_ 0%nat Kill)) = [(SKill 5 9, Some 0)].
Proof. vm_compute. repeat split. Qed.

Lemma same_incarnation_same_pid h a b :
  wf_hist h = true -> has_obj (run h) a = true -> has_obj (run h) b = true ->
  g_inc (run h) a = g_inc (run h) b -> obj_pid (run h) a = obj_pid (run h) b.
Proof.
  intros W Ha Hb E. destruct (obj_pid_creation h a W Ha) as [-> _]. destruct (obj_pid_creation h b W Hb) as [-> _].
  unfold g_pid. rewrite E. reflexivity.
Qed.

(* ================================================================ C02: other operands *)
Lemma different_pid_not_equal h a b :
  wf_hist h = true -> has_obj (run h) a = true -> has_obj (run h) b = true ->
  obj_pid (run h) a <> obj_pid (run h) b ->
  outcome_of (run h) (EC (EqC a b)) = Val (RBool false)
  /\ outcome_of (run h) (EC (HashEq a b)) = Val (RHash false true).
Proof.
  intros W Ha Hb N.
  assert (E : (g_inc (run h) a =? g_inc (run h) b) = false).
  { apply Z.eqb_neq. intros E. apply N. apply same_incarnation_same_pid; auto. }
  rewrite (eq_iff_same_incarnation h a b W Ha Hb), (hash_follows_eq h a b W Ha Hb), E. auto.
Qed.

Lemma eq_other_false w o : has_obj w o = true ->
  outcome_of w (EC (EqOther o)) = Val (RBool false) /\ effects_of w (EC (EqOther o)) = []
  /\ ms (next w (EC (EqOther o))) = ms w.
Proof.
  intros H. unfold next. rewrite outcome_call, effects_call, step_call. cbn [mcall fst snd ms].
  unfold has_obj in H. destruct (nth_error (objs (ms w)) o); [|discriminate]. cbn. auto.
Qed.

(* ================================================================ C01: the call taken apart (probe, window, system call) *)
Lemma view_of_ext w w' : table w' = table w -> btime w' = btime w -> denied w' = denied w -> view_of w' = view_of w.
Proof. intros Et Eb Ed. unfold view_of. rewrite Et, Eb, Ed. reflexivity. Qed.

Lemma tag_ext w w' : table w' = table w -> tag w' = tag w.
Proof. intros Et. unfold tag, owner. rewrite Et. reflexivity. Qed.

Lemma skipn_upd_nil {A} o (a : A) l : skipn (length l) (upd_nth o a l) = [].
Proof. apply skipn_all2. rewrite upd_nth_length. lia. Qed.

(* the state after the probe half *)
Lemma probe_world w o x : nth_error (objs (ms w)) o = Some x ->
  let x1 := fst (fst (do_probe (view_of w) x)) in
  let w1 := fst (fst (cstep w (SetProbe o))) in
  table w1 = table w /\ btime w1 = btime w /\ (hist w1 = hist w /\ denied w1 = denied w)
  /\ nth_error (objs (ms w1)) o = Some x1
  /\ snd (fst (cstep w (SetProbe o))) = snd (fst (do_probe (view_of w) x)).
Proof.
  intros Ex. cbn zeta. rewrite cstep_eq. cbn [fst snd mcall]. rewrite Ex.
  destruct (do_probe (view_of w) x) as [[x1 r] add]. cbn [fst snd table btime hist denied ms with_reusedset with_objs objs].
  splits; auto. eapply nth_error_upd_same; eauto.
Qed.

Lemma do_setter_split K x s :
  do_setter K x s =
  let '(x1, r, add) := do_probe K x in
  match r with
  | Val _ => let '(x2, r2, scs) := setter_body K x1 s in (x2, r2, add, scs)
  | Exc e => (x1, Exc e, add, [])
  | OutOfModel => (x1, OutOfModel, add, [])
  end.
Proof.
  unfold do_setter, do_probe. destruct (opid x <? 0); [reflexivity|].
  destruct (raise_if_pid_reused K x) as [[x1 r] add]. destruct r; reflexivity.
Qed.

(* no kernel event between probe and system call: the two-step call IS the atomic call *)
Lemma race_no_event_between w o s : has_obj w o = true ->
  outcome_of w (ER o s []) = outcome_of w (EC (Set_ o s))
  /\ effects_of w (ER o s []) = effects_of w (EC (Set_ o s)).
Proof.
  intros H. unfold has_obj in H. destruct (nth_error (objs (ms w)) o) as [x|] eqn:Ex; [|discriminate].
  rewrite outcome_call, effects_call. destruct (mcall_set w o s x Ex) as [-> ->].
  rewrite do_setter_split.
  destruct (probe_world w o x Ex) as (Et & Eb & (_ & Ed) & En & Er). cbn zeta in *.
  unfold outcome_of, effects_of. cbn [step fold_left].
  destruct (cstep w (SetProbe o)) as [[w1 r1] e1]. cbn [fst snd] in *. subst r1.
  destruct (do_probe (view_of w) x) as [[x1 r] add]. cbn [fst snd] in *.
  destruct r as [u|e|]; cbn [fst snd]; auto.
  rewrite cstep_eq. cbn [fst snd mcall]. rewrite En, (view_of_ext w w1 Et Eb Ed), (tag_ext w w1 Et).
  destruct (setter_body (view_of w) x1 s) as [[x2 r2] scs]. cbn [fst snd]. auto.
Qed.

Lemma ksteps_objs ks w : objs (ms (fold_left kstep ks w)) = objs (ms w).
Proof. rewrite ksteps_ms. reflexivity. Qed.

(* whatever happens in the window, the system call names the PID of the object and the requested value *)
Lemma race_names_own_pid w o s ks : has_obj w o = true ->
  effects_of w (ER o s ks) = []
  \/ exists t, effects_of w (ER o s ks) = [(intended (obj_pid w o) s, t)].
Proof.
  intros H. unfold has_obj in H. destruct (nth_error (objs (ms w)) o) as [x|] eqn:Ex; [|discriminate].
  assert (Eop : obj_pid w o = opid x) by (unfold obj_pid; rewrite Ex; reflexivity). rewrite Eop.
  destruct (probe_world w o x Ex) as (_ & _ & _ & En & Er). cbn zeta in *.
  assert (Ep : opid (fst (fst (do_probe (view_of w) x))) = opid x).
  { unfold do_probe. destruct (opid x <? 0); [reflexivity|]. pose proof (raise_if_pid (view_of w) x) as P.
    destruct (raise_if_pid_reused (view_of w) x) as [[x1 r] add]. exact P. }
  unfold effects_of. cbn [step].
  destruct (cstep w (SetProbe o)) as [[w1 r1] e1]. cbn [fst snd] in *.
  destruct r1; cbn [snd]; auto.
  set (x1 := fst (fst (do_probe (view_of w) x))) in *.
  assert (Eo2 : nth_error (objs (ms (fold_left kstep ks w1))) o = Some x1) by (rewrite ksteps_objs; exact En).
  set (w2 := fold_left kstep ks w1) in *. rewrite cstep_eq. cbn [snd mcall]. rewrite Eo2.
  destruct (setter_body (view_of w2) x1 s) as [[x2 r2] scs] eqn:B. cbn [snd].
  pose proof (setter_body_spec w2 x1 s x2 r2 scs B) as (_ & _ & _ & _ & _ & Hv). rewrite Ep in Hv.
  destruct (valid_args (opid x) s).
  - destruct (owner w2 (opid x)).
    + destruct Hv as (_ & _ & ->). right. cbn [map]. rewrite tag_intended. eauto.
    + destruct Hv as (_ & [-> | ->]); [left; reflexivity|right]. cbn [map]. rewrite tag_intended. eauto.
  - destruct Hv as (_ & _ & ->). left; reflexivity.
Qed.

(* the process is gone and the PID taken at the time of the probe: nothing happens, whatever follows *)
Lemma race_no_effect_on_new_owner h o s ks :
  wf_hist h = true -> has_obj (run h) o = true ->
  alive (run h) (g_inc (run h) o) = false ->
  owner (run h) (obj_pid (run h) o) <> None ->
  outcome_of (run h) (ER o s ks) = Exc NoSuchProcess /\ effects_of (run h) (ER o s ks) = [].
Proof.
  intros W H A Ow. pose proof (run_inv h W) as I.
  destruct (obj_facts _ o I H) as (x & Ex & O & _ & _ & Eop). rewrite Eop in Ow.
  destruct (probe_world _ o x Ex) as (_ & _ & _ & _ & Er). cbn zeta in *.
  unfold outcome_of, effects_of. cbn [step].
  destruct (cstep (run h) (SetProbe o)) as [[w1 r1] e1]. cbn [fst snd] in *. subst r1.
  unfold do_probe. destruct O as (Hh & Hg & Hhash & Hrg & R) eqn:EO. destruct (Z.ltb_spec (opid x) 0); [lia|].
  assert (O' : obj_ok (run h) x (g_inc (run h) o)) by (unfold obj_ok; auto).
  destruct (raise_if_spec _ x _ I O') as (x1 & r & add & E & _ & _ & Ho & _). rewrite E. cbn [fst snd].
  rewrite (Ho A Ow). auto.
Qed.

(* with no event in the window a delivered request reaches the object's own process *)
Lemma race_receiver_own h o s c i :
  wf_hist h = true -> has_obj (run h) o = true ->
  In (c, Some i) (effects_of (run h) (ER o s [])) ->
  i = g_inc (run h) o /\ c = intended (obj_pid (run h) o) s.
Proof.
  intros W H Hin. destruct (race_no_event_between (run h) o s H) as [_ E]. rewrite E in Hin.
  destruct (exact_delivery h o s W H) as [E0|[E0|E0]]; rewrite E0 in Hin; cbn in Hin.
  - contradiction.
  - destruct Hin as [Hin|[]]. inversion Hin.
  - destruct Hin as [Hin|[]]. inversion Hin; subst. auto.
Qed.

(* ... and with a reap + spawn in the window it reaches the new owner: the residual TOCTOU *)
Definition ex_race_hist : list ev := [EK (Spawn 5 100 1 [112]); EC (New 5)].
Definition ex_race_window : list kev := [Reap 5; Spawn 5 101 1 [113]].

Lemma race_receiver_refuted :
  wf_hist (ex_race_hist ++ [ER 0%nat Kill ex_race_window]) = true
  /\ has_obj (run ex_race_hist) 0 = true
  /\ g_inc (run ex_race_hist) 0 = 0
  /\ alive (run ex_race_hist) 0 = true
  /\ outcome_of (run ex_race_hist) (ER 0%nat Kill ex_race_window) = Val RNone
  /\ effects_of (run ex_race_hist) (ER 0%nat Kill ex_race_window) = [(SKill 5 9, Some 1)].
Proof. vm_compute. repeat split. Qed.

(* ================================================================ psutil.Popen whose child is already gone *)
Lemma popen_gone_child h pid :
  wf_hist h = true -> 0 <= pid < PID_MAX -> owner (run h) pid = None ->
  let n := length (objs (ms (run h))) in
  let w' := next (run h) (EC (NewPopen pid)) in
  outcome_of (run h) (EC (New pid)) = Exc NoSuchProcess
  /\ outcome_of (run h) (EC (NewPopen pid)) = Val (RObj n)
  /\ has_obj w' n = true /\ obj_pid w' n = pid /\ g_inc w' n = -1 - pid
  /\ alive w' (g_inc w' n) = false.
Proof.
  intros W R Ow. pose proof (run_inv h W) as I. set (w := run h) in *. cbn zeta.
  rewrite owner_lookup in Ow. destruct (lookup (table w) pid) eqn:L; [discriminate|].
  assert (N1 : new_obj (view_of w) pid = Exc NoSuchProcess).
  { unfold new_obj. destruct (Z.ltb_spec pid 0); [lia|]. destruct (Z.leb_spec PID_MAX pid); [lia|].
    rewrite view_stat, L. reflexivity. }
  assert (N2 : new_popen (view_of w) pid = Val (orphan_obj pid)).
  { unfold new_popen. destruct (Z.ltb_spec pid 0); [lia|]. destruct (Z.leb_spec PID_MAX pid); [lia|].
    rewrite view_stat, L. reflexivity. }
  pose proof (Forall2_len _ _ _ (inv_objs _ I)) as Len.
  unfold next. rewrite !outcome_call, step_call. cbn [mcall fst snd]. rewrite N1, N2. cbn [fst snd].
  splits; auto.
  - unfold has_obj. cbn [ms with_objs objs]. rewrite nth_error_app2, Nat.sub_diag by lia. reflexivity.
  - unfold obj_pid. cbn [ms with_objs objs]. rewrite nth_error_app2, Nat.sub_diag by lia. reflexivity.
  - unfold g_inc. cbn [ginc ms with_objs objs]. rewrite skipn_app_exact. cbn [new_ghosts map].
    rewrite Len, app_nth2, Nat.sub_diag by lia. cbn [nth]. unfold ghost_of, orphan_obj; cbn [opid].
    rewrite owner_lookup, L. reflexivity.
  - unfold g_inc. cbn [ginc ms with_objs objs]. rewrite skipn_app_exact. cbn [new_ghosts map].
    rewrite Len, app_nth2, Nat.sub_diag by lia. cbn [nth]. unfold ghost_of, orphan_obj; cbn [opid].
    rewrite owner_lookup, L. unfold alive. cbn [table]. fold (alive w (-1 - pid)). apply neg_not_alive; auto. lia.
Qed.

Lemma race_receiver_own_explicit h o s ks c i :
  wf_hist h = true -> has_obj (run h) o = true -> ks = [] ->
  In (c, Some i) (effects_of (run h) (ER o s ks)) ->
  i = g_inc (run h) o /\ c = intended (obj_pid (run h) o) s.
Proof. intros W H -> Hin. eapply race_receiver_own; eauto. Qed.

(* ================================================================ copies: other handles on the same incarnation *)
Lemma run_snoc h e : run (h ++ [e]) = next (run h) e.
Proof. unfold run. rewrite run_from_app. reflexivity. Qed.

Lemma wf_snoc_call h c : wf_hist h = true -> wf_hist (h ++ [EC c]) = true.
Proof.
  unfold wf_hist. generalize world0. induction h as [|e h IH]; intros w W; cbn [app wf_from] in *; auto.
  apply andb_true_iff in W as [W1 W2]. rewrite W1. cbn [andb]. apply IH; auto.
Qed.

Lemma copy_binding h o hw n :
  wf_hist h = true -> outcome_of (run h) (EC (Copy o hw true)) = Val (RObj n) ->
  let w' := run (h ++ [EC (Copy o hw true)]) in
  has_obj w' n = true /\ has_obj (run h) o = true
  /\ g_inc w' n = g_inc (run h) o /\ obj_pid w' n = obj_pid (run h) o
  /\ (forall i, alive w' i = alive (run h) i) /\ (forall p, owner w' p = owner (run h) p).
Proof.
  intros W. pose proof (run_inv h W) as I. cbn zeta. rewrite run_snoc. set (w := run h) in *.
  unfold next, outcome_of, has_obj, g_inc, obj_pid. cbn [step]. rewrite cstep_eq. cbn [fst snd mcall ms ginc].
  destruct (nth_error (objs (ms w)) o) as [x|] eqn:Ex; [|discriminate].
  destruct (oshot x); [|discriminate]. cbn [fst snd with_objs objs]. intros E. inversion E; subst n.
  pose proof (Forall2_len _ _ _ (inv_objs _ I)) as Len.
  assert (L : length (upd_nth o (with_shared x) (objs (ms w))) = length (objs (ms w))) by apply upd_nth_length.
  assert (Sk : skipn (length (objs (ms w))) (upd_nth o (with_shared x) (objs (ms w)) ++ [with_shared x]) = [with_shared x])
    by (rewrite <- L; apply skipn_app_exact).
  rewrite Sk. cbn [new_ghosts map].
  rewrite nth_error_app2 by lia. rewrite L, Nat.sub_diag. cbn [nth_error].
  rewrite Len, app_nth2 by lia. rewrite Nat.sub_diag. cbn [nth with_shared opid].
  splits; auto.
Qed.

(* a copy of a stale object is stale: not running, and nothing can be sent through it to the new owner of the PID *)
Lemma copy_of_stale_object h o hw n s :
  wf_hist h = true -> outcome_of (run h) (EC (Copy o hw true)) = Val (RObj n) ->
  alive (run h) (g_inc (run h) o) = false ->
  let w' := run (h ++ [EC (Copy o hw true)]) in
  outcome_of w' (EC (IsRunning n)) = Val (RBool false)
  /\ outcome_of w' (EC (EqC n o)) = Val (RBool true)
  /\ (owner (run h) (obj_pid (run h) o) <> None ->
      outcome_of w' (EC (Set_ n s)) = Exc NoSuchProcess /\ effects_of w' (EC (Set_ n s)) = []).
Proof.
  intros W E A. cbn zeta.
  destruct (copy_binding h o hw n W E) as (Hn & Ho & Gi & Pi & Al & Ow). cbn zeta in *.
  pose proof (wf_snoc_call h (Copy o hw true) W) as W'.
  set (h' := h ++ [EC (Copy o hw true)]) in *.
  assert (Ho' : has_obj (run h') o = true).
  { destruct (ginc_stable h [EC (Copy o hw true)] o W' Ho) as (R & _). exact R. }
  assert (Go' : g_inc (run h') o = g_inc (run h) o).
  { destruct (ginc_stable h [EC (Copy o hw true)] o W' Ho) as (_ & R & _). exact R. }
  splits.
  - rewrite (is_running_answer h' n W' Hn), Gi, Al, A. reflexivity.
  - rewrite (eq_iff_same_incarnation h' n o W' Hn Ho'), Gi, Go', Z.eqb_refl. reflexivity.
  - intros Own. apply (no_effect_on_new_owner h' n s W' Hn).
    + rewrite Gi, Al. exact A.
    + rewrite Pi, Ow. exact Own.
Qed.

(* wave 8: the call form Process() in a process whose own number is [me] (a PID of the table psutil reads) *)
Lemma own_pid_handle_follows_table h me :
  wf_hist h = true -> 0 <= me < PID_MAX ->
  (owner (run h) me = None -> outcome_of (run h) (EC (process_noarg me)) = Exc NoSuchProcess)
  /\ (forall n, outcome_of (run h) (EC (process_noarg me)) = Val (RObj n) ->
        let h' := h ++ [EC (process_noarg me)] in
        wf_hist h' = true /\ has_obj (run h') n = true /\ obj_pid (run h') n = me
        /\ owner (run h) me = Some (g_inc (run h') n)
        /\ outcome_of (run h') (EC (IsRunning n)) = Val (RBool (alive (run h') (g_inc (run h') n)))).
Proof.
  intros W R. unfold process_noarg. split.
  - intros Ow. exact (proj1 (popen_gone_child h me W R Ow)).
  - intros n E. cbn zeta. pose proof (wf_snoc_call h (New me) W) as W'.
    destruct (new_records_owner h me n W E) as (_ & H1 & H2 & H3).
    rewrite run_snoc. repeat split; try assumption.
    rewrite <- run_snoc. apply is_running_answer; [exact W'|]. rewrite run_snoc. exact H1.
Qed.
