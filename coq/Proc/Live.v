(* Proc -- the setters THROUGH THE REAL C EXTENSION onto a live process: the integer conversions of the C layer
   (psutil/arch/linux/proc.c psutil_proc_cpu_affinity_set, psutil_proc_ioprio_set; psutil/_psutil_posix.c
   psutil_posix_setpriority; CPython's resource.prlimit) as functions on Z with their explicit widths, the
   argument checks of psutil/_pslinux.py, and the kernel's answer (EINVAL for an empty mask, clamping of nice).
   State of the live process: affinity mask, nice, (ioclass, iodata), (soft, hard) of one resource.
   "Delivered with exactly the value asked for -- or an exception and nothing changed" for EVERY integer. *)
From PV Require Export Proc.Model.

Definition LONG_MAX : Z := 9223372036854775807.
Definition LONG_MIN : Z := -9223372036854775808.
Definition INT_MAX : Z := 2147483647.
Definition INT_MIN : Z := -2147483648.
(* PyLong_AsLong / PyLong_AsLongLong: no narrowing, OverflowError outside the 64-bit range *)
Definition c_long (n : Z) : outcome Z :=
  if (n <? LONG_MIN) || (LONG_MAX <? n) then Exc OverflowError else Val n.
(* PyArg_ParseTuple "i": OverflowError outside the 32-bit range *)
Definition c_int (n : Z) : outcome Z :=
  if (n <? INT_MIN) || (INT_MAX <? n) then Exc OverflowError else Val n.

(* ---------------------------------------------------------------- cpu_affinity(cpus) *)
Definition CPU_SETSIZE : Z := 1024.
(* the loop of psutil_proc_cpu_affinity_set: long value = PyLong_AsLong(item); -1 is taken for an error;
   CPU_SET(value, &cpu_set) drops values outside [0, CPU_SETSIZE) (glibc: __cpu / 8 < setsize) *)
Fixpoint cpu_bits (cpus : list Z) : outcome (list Z) :=
  match cpus with
  | [] => Val []
  | n :: r =>
    do v <- c_long n;
    if v =? -1 then Exc ValueError
    else do rest <- cpu_bits r;
         Val (if (0 <=? v) && (v <? CPU_SETSIZE) then v :: rest else rest)
  end.

(* sched_setaffinity: the mask is intersected with the CPUs the process may use; empty -> EINVAL *)
Definition kernel_setaffinity (elig bits : list Z) : option (list Z) :=
  match filter (fun c => memz c elig) bits with [] => None | m => Some m end.

(* Process.cpu_affinity(cpus) on a live process whose current mask is [cur]: outcome, mask afterwards.
   Every error (ValueError / OverflowError of the C loop, EINVAL of the kernel) leaves the diagnosis loop of
   _pslinux.cpu_affinity_set as a ValueError. *)
Definition affinity_live (elig cur cpus : list Z) : outcome res * list Z :=
  let cs := sort_uniq (match cpus with [] => ALL_CPUS | _ => cpus end) in
  match cpu_bits cs with
  | Val bits =>
    match kernel_setaffinity elig bits with
    | Some m => (Val RNone, m)
    | None => (Exc ValueError, cur)
    end
  | Exc _ => (Exc ValueError, cur)
  | OutOfModel => (OutOfModel, cur)
  end.

(* ---------------------------------------------------------------- nice(v) *)
Definition clamp_nice (v : Z) : Z := if v <? -20 then -20 else if 19 <? v then 19 else v.
Definition nice_live (cur v : Z) : outcome res * Z :=
  match c_int v with
  | Val v' => (Val RNone, clamp_nice v')          (* setpriority(2): out-of-range values are clamped by the kernel *)
  | Exc e => (Exc e, cur)
  | OutOfModel => (OutOfModel, cur)
  end.

(* ---------------------------------------------------------------- ionice(cls, v) *)
Definition ionice_ok (cls : Z) (v : option Z) : bool :=
  let value := match v with Some n => n | None => 0 end in
  negb (negb (value =? 0) && ((cls =? 3) || (cls =? 0)))
  && negb ((value <? 0) || (7 <? value)) && ((0 <=? cls) && (cls <=? 3)).
Definition ionice_live (cur : Z * Z) (cls : Z) (v : option Z) : outcome res * (Z * Z) :=
  if ionice_ok cls v then (Val RNone, (cls, match v with Some n => n | None => 0 end))
  else (Exc ValueError, cur).

(* ---------------------------------------------------------------- rlimit(res, (soft, hard)), one resource *)
(* limits are non-negative or -1 (RLIM_INFINITY); inf as -1 in the state.  Raising the hard limit needs a
   privilege the model does not know about: OutOfModel. *)
Definition rl_le (a b : Z) : bool := if b =? -1 then true else if a =? -1 then false else a <=? b.
Definition rlimit_live (cur : Z * Z) (lims : list Z) : outcome res * (Z * Z) :=
  match lims with
  | [soft; hard] =>
    match c_long soft, c_long hard with
    | Val s, Val h =>
      if (s <? -1) || (h <? -1) then (OutOfModel, cur)
      else if negb (rl_le s h) then (Exc ValueError, cur)
      else if negb (rl_le h (snd cur)) then (OutOfModel, cur)
      else (Val RNone, (s, h))
    | Exc e, _ => (Exc e, cur)
    | _, Exc e => (Exc e, cur)
    | _, _ => (OutOfModel, cur)
    end
  | _ => (Exc ValueError, cur)
  end.

(* ================================================================ what is demanded, and that the model meets it *)
(* one CPU number, ANY integer: the mask becomes exactly {n} if n is a CPU the process may use, else ValueError
   and the mask is unchanged -- never another CPU (no n mod 2^32, no truncation) *)
Definition spec_affinity_single (elig cur : list Z) (n : Z) : outcome res * list Z :=
  if memz n elig then (Val RNone, [n]) else (Exc ValueError, cur).

Lemma memz_true a l : memz a l = true <-> In a l.
Proof.
  unfold memz. rewrite existsb_exists. split.
  - intros [b [Hb E]]. apply Z.eqb_eq in E. subst; auto.
  - intros H. exists a. split; auto. apply Z.eqb_refl.
Qed.

Theorem affinity_single_exact elig cur n :
  (forall c, In c elig -> 0 <= c < CPU_SETSIZE) ->
  affinity_live elig cur [n] = spec_affinity_single elig cur n.
Proof.
  intros R. unfold affinity_live, spec_affinity_single. cbn [sort_uniq fold_right insert_uniq cpu_bits].
  unfold c_long, obind. destruct ((n <? LONG_MIN) || (LONG_MAX <? n)) eqn:O.
  - destruct (memz n elig) eqn:M; auto. apply memz_true, R in M. unfold CPU_SETSIZE, LONG_MAX, LONG_MIN in *.
    apply orb_true_iff in O as [O|O]; [apply Z.ltb_lt in O|apply Z.ltb_lt in O]; lia.
  - destruct (Z.eqb_spec n (-1)) as [->|N1].
    + destruct (memz (-1) elig) eqn:M; auto. apply memz_true, R in M. lia.
    + cbn [obind]. destruct ((0 <=? n) && (n <? CPU_SETSIZE)) eqn:B; unfold kernel_setaffinity; cbn [filter].
      * destruct (memz n elig); reflexivity.
      * destruct (memz n elig) eqn:M; auto. apply memz_true, R in M.
        apply andb_false_iff in B as [B|B]; [apply Z.leb_gt in B|apply Z.ltb_ge in B]; lia.
Qed.

(* the coordinator's boundary family in one statement: n = k * 2^32 + c, or 2^31 + c, for an eligible c *)
Corollary affinity_no_wraparound elig cur c k :
  (forall c, In c elig -> 0 <= c < CPU_SETSIZE) -> In c elig -> k <> 0 ->
  affinity_live elig cur [k * 4294967296 + c] = (Exc ValueError, cur)
  /\ affinity_live elig cur [2147483648 + c] = (Exc ValueError, cur).
Proof.
  intros R Hc K. pose proof (R c Hc) as Rc. unfold CPU_SETSIZE in *.
  rewrite !affinity_single_exact by exact R. unfold spec_affinity_single.
  assert (N1 : memz (k * 4294967296 + c) elig = false).
  { destruct (memz (k * 4294967296 + c) elig) eqn:M; auto. apply memz_true, R in M. unfold CPU_SETSIZE in M. lia. }
  assert (N2 : memz (2147483648 + c) elig = false).
  { destruct (memz (2147483648 + c) elig) eqn:M; auto. apply memz_true, R in M. unfold CPU_SETSIZE in M. lia. }
  rewrite N1, N2. auto.
Qed.

(* nice: a value the kernel accepts is set exactly; one that does not fit the C int is an OverflowError, unchanged *)
Theorem nice_exact cur v :
  (-20 <= v <= 19 -> nice_live cur v = (Val RNone, v))
  /\ (v < -2147483648 \/ 2147483647 < v -> nice_live cur v = (Exc OverflowError, cur)).
Proof.
  unfold nice_live, c_int, clamp_nice. split; intros H.
  - destruct (Z.ltb_spec v INT_MIN) as [A|A]; [unfold INT_MIN in A; lia|].
    destruct (Z.ltb_spec INT_MAX v) as [B|B]; [unfold INT_MAX in B; lia|]. cbn [orb].
    destruct (Z.ltb_spec v (-20)); [lia|]. destruct (Z.ltb_spec 19 v); [lia|]. reflexivity.
  - destruct (Z.ltb_spec v INT_MIN) as [A|A]; [reflexivity|].
    destruct (Z.ltb_spec INT_MAX v) as [B|B]; [reflexivity|]. unfold INT_MIN, INT_MAX in *. lia.
Qed.

(* ionice: accepted arguments are set exactly, everything else (every class/value outside the documented ones,
   whatever its size) is a ValueError with nothing changed *)
Theorem ionice_exact cur cls v :
  ionice_live cur cls v = if ionice_ok cls v then (Val RNone, (cls, match v with Some n => n | None => 0 end))
                          else (Exc ValueError, cur).
Proof. reflexivity. Qed.

Theorem ionice_ok_small cls v : ionice_ok cls v = true ->
  0 <= cls <= 3 /\ 0 <= match v with Some n => n | None => 0 end <= 7.
Proof.
  unfold ionice_ok. intros H. apply andb_true_iff in H as [H Hc]. apply andb_true_iff in H as [_ Hv].
  apply andb_true_iff in Hc as [C1 C2]. apply negb_true_iff, orb_false_iff in Hv as [V1 V2].
  apply Z.leb_le in C1, C2. apply Z.ltb_ge in V1, V2. lia.
Qed.

(* rlimit: a pair the caller may set is set exactly; a value beyond 64 bits is an OverflowError, soft > hard a
   ValueError, both with nothing changed *)
Theorem rlimit_exact cur s h :
  (0 <= s <= h -> h <= LONG_MAX -> rl_le h (snd cur) = true -> rlimit_live cur [s; h] = (Val RNone, (s, h)))
  /\ (LONG_MAX < s \/ LONG_MAX < h -> rlimit_live cur [s; h] = (Exc OverflowError, cur))
  /\ (0 <= h < s -> s <= LONG_MAX -> rlimit_live cur [s; h] = (Exc ValueError, cur)).
Proof.
  unfold rlimit_live, c_long. repeat match goal with |- _ /\ _ => split end.
  - intros R1 R2 R3.
    destruct (Z.ltb_spec s LONG_MIN) as [A|A]; [unfold LONG_MIN in A; lia|].
    destruct (Z.ltb_spec LONG_MAX s) as [B|B]; [lia|].
    destruct (Z.ltb_spec h LONG_MIN) as [C|C]; [unfold LONG_MIN in C; lia|].
    destruct (Z.ltb_spec LONG_MAX h) as [D|D]; [lia|].
    cbn [orb]. destruct (Z.ltb_spec s (-1)); [lia|]. destruct (Z.ltb_spec h (-1)); [lia|]. cbn [orb].
    assert (E : rl_le s h = true).
    { unfold rl_le. destruct (Z.eqb_spec h (-1)); [lia|]. destruct (Z.eqb_spec s (-1)); [lia|]. apply Z.leb_le. lia. }
    rewrite E, R3. reflexivity.
  - intros [R|R].
    + destruct (Z.ltb_spec s LONG_MIN) as [A|A]; [reflexivity|]. destruct (Z.ltb_spec LONG_MAX s) as [B|B]; [reflexivity|lia].
    + destruct ((s <? LONG_MIN) || (LONG_MAX <? s)); [reflexivity|].
      destruct (Z.ltb_spec h LONG_MIN) as [C|C]; [reflexivity|]. destruct (Z.ltb_spec LONG_MAX h) as [D|D]; [reflexivity|lia].
  - intros R1 R2.
    destruct (Z.ltb_spec s LONG_MIN) as [A|A]; [unfold LONG_MIN in A; lia|].
    destruct (Z.ltb_spec LONG_MAX s) as [B|B]; [lia|].
    destruct (Z.ltb_spec h LONG_MIN) as [C|C]; [unfold LONG_MIN in C; lia|].
    destruct (Z.ltb_spec LONG_MAX h) as [D|D]; [unfold LONG_MAX in *; lia|].
    cbn [orb]. destruct (Z.ltb_spec s (-1)); [lia|]. destruct (Z.ltb_spec h (-1)); [lia|]. cbn [orb].
    assert (E : rl_le s h = false).
    { unfold rl_le. destruct (Z.eqb_spec h (-1)); [lia|]. destruct (Z.eqb_spec s (-1)); [lia|]. apply Z.leb_gt. lia. }
    rewrite E. reflexivity.
Qed.

(* ================================================================ sequences of setter calls on one live process *)
Inductive lop :=
| LAff (cpus : list Z) | LNice (v : Z) | LIonice (cls : Z) (v : option Z) | LRlimit (lims : list Z).
Record lstate := { l_mask : list Z; l_nice : Z; l_io : Z * Z; l_rl : Z * Z }.

Definition lstep (elig : list Z) (st : lstate) (op : lop) : outcome res * lstate :=
  match op with
  | LAff cpus => let '(r, m) := affinity_live elig (l_mask st) cpus in
                 (r, {| l_mask := m; l_nice := l_nice st; l_io := l_io st; l_rl := l_rl st |})
  | LNice v => let '(r, n) := nice_live (l_nice st) v in
               (r, {| l_mask := l_mask st; l_nice := n; l_io := l_io st; l_rl := l_rl st |})
  | LIonice c v => let '(r, i) := ionice_live (l_io st) c v in
                   (r, {| l_mask := l_mask st; l_nice := l_nice st; l_io := i; l_rl := l_rl st |})
  | LRlimit l => let '(r, x) := rlimit_live (l_rl st) l in
                 (r, {| l_mask := l_mask st; l_nice := l_nice st; l_io := l_io st; l_rl := x |})
  end.

(* the demanded answer, written from the property text ("exactly the value asked for, or an exception and
   nothing changed"); None where the kernel documents another behaviour (several CPUs of which some are not
   eligible: the kernel keeps the eligible ones; nice outside -20..19: clamped) or where privileges decide *)
Definition lspec (elig : list Z) (st : lstate) (op : lop) : option (outcome res * lstate) :=
  let same := st in
  match op with
  | LAff [n] =>
    Some (if memz n elig
          then (Val RNone, {| l_mask := [n]; l_nice := l_nice st; l_io := l_io st; l_rl := l_rl st |})
          else (Exc ValueError, same))
  | LAff _ => None
  | LNice v =>
    if (-20 <=? v) && (v <=? 19)
    then Some (Val RNone, {| l_mask := l_mask st; l_nice := v; l_io := l_io st; l_rl := l_rl st |})
    else if (v <? INT_MIN) || (INT_MAX <? v) then Some (Exc OverflowError, same) else None
  | LIonice c v =>
    Some (if ionice_ok c v
          then (Val RNone, {| l_mask := l_mask st; l_nice := l_nice st;
                              l_io := (c, match v with Some n => n | None => 0 end); l_rl := l_rl st |})
          else (Exc ValueError, same))
  | LRlimit [s; h] =>
    if (LONG_MAX <? s) || (LONG_MAX <? h) then Some (Exc OverflowError, same)
    else if (0 <=? h) && (h <? s) then Some (Exc ValueError, same)
    else if (0 <=? s) && (s <=? h) && rl_le h (snd (l_rl st))
         then Some (Val RNone, {| l_mask := l_mask st; l_nice := l_nice st; l_io := l_io st; l_rl := (s, h) |})
         else None
  | LRlimit _ => Some (Exc ValueError, same)
  end.

Theorem lstep_meets_lspec elig st op :
  (forall c, In c elig -> 0 <= c < CPU_SETSIZE) ->
  match lspec elig st op with Some a => lstep elig st op = a | None => True end.
Proof.
  intros R. destruct op as [cpus|v|c v|lims]; cbn [lspec lstep].
  - destruct cpus as [|n [|m r]]; auto.
    rewrite (affinity_single_exact elig (l_mask st) n R). unfold spec_affinity_single.
    destruct (memz n elig); destruct st; reflexivity.
  - destruct ((-20 <=? v) && (v <=? 19)) eqn:A.
    + apply andb_true_iff in A as [A1 A2]. apply Z.leb_le in A1, A2.
      rewrite (proj1 (nice_exact (l_nice st) v)) by lia. reflexivity.
    + destruct ((v <? INT_MIN) || (INT_MAX <? v)) eqn:B; auto.
      rewrite (proj2 (nice_exact (l_nice st) v)); [destruct st; reflexivity|].
      apply orb_true_iff in B as [B|B]; apply Z.ltb_lt in B; unfold INT_MIN, INT_MAX in B; lia.
  - unfold ionice_live. destruct (ionice_ok c v); destruct st; reflexivity.
  - destruct lims as [|s [|h [|x r]]]; try (destruct st; reflexivity).
    destruct (rlimit_exact (l_rl st) s h) as (E1 & E2 & E3).
    destruct ((LONG_MAX <? s) || (LONG_MAX <? h)) eqn:O.
    + rewrite E2; [destruct st; reflexivity|]. apply orb_true_iff in O as [O|O]; apply Z.ltb_lt in O; auto.
    + apply orb_false_iff in O as [O1 O2]. apply Z.ltb_ge in O1, O2.
      destruct ((0 <=? h) && (h <? s)) eqn:V.
      * apply andb_true_iff in V as [V1 V2]. apply Z.leb_le in V1. apply Z.ltb_lt in V2.
        rewrite E3 by lia. destruct st; reflexivity.
      * destruct ((0 <=? s) && (s <=? h) && rl_le h (snd (l_rl st))) eqn:W; auto.
        apply andb_true_iff in W as [W W3]. apply andb_true_iff in W as [W1 W2]. apply Z.leb_le in W1, W2.
        rewrite E1 by (auto; lia). reflexivity.
Qed.
