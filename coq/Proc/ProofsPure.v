(* Proc -- facts that hold after EVERY history: any events in any order, well formed or not, with or without
   unreadable stat files (Deny/Allow), with suspended generators, two-step calls ...  They are facts about
   psutil's code alone and need no invariant of the kernel:
     - the identity (pid, start-or-None) of an object never changes (so hash() is stable, membership in a set
       built earlier cannot change, an identity is never adopted from a later owner of the PID);
     - hash agrees with ==: equal objects hash alike, in every world;
     - _gone / _pid_reused are never reset: once is_running() has answered False it answers False for ever. *)
From PV Require Import Proc.Spec Proc.Lib Proc.ProofsInv Proc.ProofsStep.

Definition PI (x : pobj) : Prop :=
  (ohash x = None \/ ohash x = Some (ident x)) /\ (oreused x = true -> ogone x = true).

Definition keep (x x1 : pobj) : Prop :=
  opid x1 = opid x /\ ostart x1 = ostart x
  /\ (ogone x = true -> ogone x1 = true) /\ (oreused x = true -> oreused x1 = true)
  /\ (PI x -> PI x1).

Lemma keep_refl x : keep x x.
Proof. unfold keep; tauto. Qed.

Lemma keep_trans x y z : keep x y -> keep y z -> keep x z.
Proof. unfold keep. intros (A1 & A2 & A3 & A4 & A5) (B1 & B2 & B3 & B4 & B5). splits; auto; congruence. Qed.

(* changing fields other than pid/ident/flags/hash *)
Lemma keep_same x x1 :
  opid x1 = opid x -> ostart x1 = ostart x -> ogone x1 = ogone x -> oreused x1 = oreused x -> ohash x1 = ohash x ->
  keep x x1.
Proof.
  intros E1 E2 E3 E4 E5. unfold keep, PI, ident. rewrite E1, E2, E3, E4, E5. tauto.
Qed.

Lemma keep_gone x : keep x (with_gone true x).
Proof. unfold keep, PI, ident; cbn [with_gone opid ostart ogone oreused ohash]. tauto. Qed.

Lemma is_running_keep K x :
  keep x (fst (fst (is_running K x)))
  /\ (snd (fst (is_running K x)) = Val false -> PI x -> ogone (fst (fst (is_running K x))) = true).
Proof.
  unfold is_running. destruct (ogone x || oreused x) eqn:GR; cbn [fst snd].
  { split; [apply keep_refl|]. intros _ [_ P]. apply orb_true_iff in GR as [G|R]; auto. }
  apply orb_false_iff in GR as [G R].
  assert (K1 : keep x (with_reused false x)).
  { unfold keep, PI, ident; cbn [with_reused opid ostart ogone oreused ohash]. rewrite R.
    splits; auto; try discriminate; try (intros [P1 _]; split; [exact P1|discriminate]). }
  assert (K2 : keep x (with_gone true (with_reused true x))).
  { unfold keep, PI, ident; cbn [with_gone with_reused opid ostart ogone oreused ohash]. splits; auto. tauto. }
  destruct (new_obj K (opid x)) as [y|e|]; cbn [fst snd].
  - destruct (match ostart y, ostart x with None, Some _ => true | _, _ => false end); cbn [fst snd].
    + split; [apply keep_refl|discriminate].
    + destruct (obj_eq x y); cbn [fst snd]; split; auto; discriminate.
  - destruct e; cbn [fst snd]; try (split; [apply keep_refl|discriminate]).
    split; [apply keep_gone|reflexivity].
  - split; [apply keep_refl|discriminate].
Qed.

Lemma raise_if_keep K x : keep x (fst (fst (raise_if_pid_reused K x))).
Proof.
  unfold raise_if_pid_reused. destruct (ogone x && negb (oreused x)); [apply keep_refl|].
  destruct (oreused x); [apply keep_refl|].
  pose proof (is_running_keep K x) as [Kp _]. destruct (is_running K x) as [[x1 r] add]. cbn [fst] in Kp.
  destruct r as [b| |]; [destruct (negb b && oreused x1)| |]; exact Kp.
Qed.

Lemma setter_body_keep K x s : keep x (fst (fst (setter_body K x s))).
Proof.
  destruct s; cbn [setter_body]; unfold kill_body, wrapped_sys;
    repeat match goal with |- context [match ?e with _ => _ end] => destruct e end;
    cbn [fst]; try apply keep_refl; apply keep_gone.
Qed.

Lemma do_probe_keep K x : keep x (fst (fst (do_probe K x))).
Proof.
  unfold do_probe. destruct (opid x <? 0); [apply keep_refl|].
  pose proof (raise_if_keep K x) as Kp. destruct (raise_if_pid_reused K x) as [[x1 r] add]. exact Kp.
Qed.

Lemma do_setter_keep K x s : keep x (fst (fst (fst (do_setter K x s)))).
Proof.
  unfold do_setter. destruct (opid x <? 0); [apply keep_refl|].
  pose proof (raise_if_keep K x) as Kp. destruct (raise_if_pid_reused K x) as [[x1 r] add]. cbn [fst] in Kp.
  destruct r as [u|e|]; cbn [fst]; auto.
  pose proof (setter_body_keep K x1 s) as Kb. destruct (setter_body K x1 s) as [[x2 r2] scs]. cbn [fst] in *.
  eapply keep_trans; eauto.
Qed.

Lemma keep_shot x n p t : keep x (with_shot n p t x).
Proof. apply keep_same; reflexivity. Qed.

Lemma parse_stat_keep K x : keep x (fst (parse_stat K x)).
Proof.
  unfold parse_stat.
  repeat match goal with |- context [match ?e with _ => _ end] => destruct e end;
    cbn [fst]; try apply keep_refl; apply keep_shot.
Qed.

Lemma do_ppid_keep K x : keep x (fst (fst (do_ppid K x))).
Proof.
  unfold do_ppid.
  assert (G : keep x
    (fst (fst (let '(x1, r, add) := raise_if_pid_reused K x in
      match r with
      | Val _ =>
        let '(x2, st) := parse_stat K x1 in
        match st with
        | Some (_, pp) =>
          (match oshot x2 with S _ => with_shot (oshot x2) (Some pp) (ocstat x2) x2 | O => x2 end, Val (RInt pp), add)
        | None => (x2, Exc (stat_exn K (opid x2)), add)
        end
      | Exc e => (x1, Exc e, add)
      | OutOfModel => (x1, OutOfModel, add)
      end)))).
  { pose proof (raise_if_keep K x) as Kp. destruct (raise_if_pid_reused K x) as [[x1 r] add]. cbn [fst] in Kp.
    destruct r as [u|e|]; cbn [fst]; auto.
    pose proof (parse_stat_keep K x1) as Ks. destruct (parse_stat K x1) as [x2 [[? pp]|]]; cbn [fst] in *.
    - destruct (oshot x2); [eapply keep_trans; eauto|].
      eapply keep_trans; [exact Kp|]. eapply keep_trans; [exact Ks|apply keep_shot].
    - eapply keep_trans; eauto. }
  destruct (oshot x); [exact G|]. destruct (ocppid x); [apply keep_refl|exact G].
Qed.

Lemma oneshot_enter_keep x : keep x (oneshot_enter x).
Proof. unfold oneshot_enter. destruct (oshot x); apply keep_shot. Qed.

Lemma oneshot_exit_keep x x1 : oneshot_exit x = Some x1 -> keep x x1.
Proof. unfold oneshot_exit. destruct (oshot x) as [|[|n]]; intros E; inversion E; apply keep_shot. Qed.

Lemma do_hash_keep x : keep x (fst (do_hash x)) /\ (PI x -> snd (do_hash x) = ident x).
Proof.
  unfold do_hash. destruct (ohash x) as [hh|] eqn:H; cbn [fst snd].
  - split; [apply keep_refl|]. intros [[P|P] _]; congruence.
  - split; [|reflexivity].
    unfold keep, PI, ident; cbn [with_hash opid ostart ogone oreused ohash]. splits; auto. tauto.
Qed.

Lemma do_create_time_keep K m x : keep x (snd (fst (do_create_time K m x))).
Proof.
  unfold do_create_time. destruct (octime x); cbn [fst snd]; [apply keep_refl|].
  pose proof (parse_stat_keep K x) as Ks. destruct (parse_stat K x) as [x1 [[st ?]|]]; cbn [fst snd] in *; auto.
  assert (Kc : forall c, keep x1 (with_ctime c x1)) by (intros c; apply keep_same; reflexivity).
  destruct (bootc m) as [bb|]; [destruct (bb =? 0)|]; cbn [do_boot_time fst snd]; eapply keep_trans; eauto.
Qed.

Lemma do_wait_keep K x vis : keep x (fst (do_wait K x vis)).
Proof.
  unfold do_wait. destruct (oexit x); [apply keep_refl|]. destruct (opid x <=? 0); [apply keep_refl|].
  destruct (vis && kexists K (opid x)); cbn [fst]; [apply keep_refl|].
  apply keep_same; reflexivity.
Qed.

Lemma do_wait_procs_keep K x vis : keep x (fst (fst (do_wait_procs K x vis))).
Proof.
  unfold do_wait_procs. pose proof (do_hash_keep x) as [K0 _]. destruct (do_hash x) as [x0 h0]. cbn [fst] in K0.
  pose proof (do_wait_keep K x0 vis) as K1. destruct (do_wait K x0 vis) as [x1 r1]. cbn [fst] in K1.
  assert (K01 : keep x x1) by (eapply keep_trans; eauto).
  destruct r1 as [u|e|]; cbn [fst]; try exact K01.
  - pose proof (is_running_keep K x1) as [K2 _]. destruct (is_running K x1) as [[x2 r2] add]. cbn [fst] in *.
    eapply keep_trans; eauto.
  - destruct e; exact K01.
Qed.

Lemma new_obj_PI K p y : new_obj K p = Val y -> PI y.
Proof.
  unfold new_obj. destruct (p <? 0); [discriminate|]. destruct (PID_MAX <=? p); [discriminate|].
  destruct (kv_stat K p) as [[[st ?] ?]|]; [|discriminate]. intros E. inversion E. unfold PI; cbn. split; auto; discriminate.
Qed.

Lemma new_popen_PI K p y : new_popen K p = Val y -> PI y.
Proof.
  unfold new_popen. destruct (p <? 0); [discriminate|]. destruct (PID_MAX <=? p); [discriminate|].
  destruct (kv_stat K p) as [[[st ?] ?]|] eqn:S.
  - apply new_obj_PI.
  - intros E. inversion E. unfold PI, orphan_obj; cbn. split; auto; discriminate.
Qed.

(* ---------------------------------------------------------------- object lists *)
(* every object of [l] is still there in [l'], kept; and all objects satisfy PI *)
Definition ext (l l' : list pobj) : Prop :=
  forall o x, nth_error l o = Some x -> exists x', nth_error l' o = Some x' /\ keep x x'.

Lemma ext_refl l : ext l l.
Proof. intros o x E. exists x. split; auto. apply keep_refl. Qed.

Lemma ext_trans l1 l2 l3 : ext l1 l2 -> ext l2 l3 -> ext l1 l3.
Proof.
  intros A B o x E. destruct (A o x E) as (y & Ey & Ky). destruct (B o y Ey) as (z & Ez & Kz).
  exists z. split; auto. eapply keep_trans; eauto.
Qed.

Lemma ext_app l news : ext l (l ++ news).
Proof.
  intros o x E. exists x. split; [|apply keep_refl]. rewrite nth_error_app1; auto. apply nth_error_Some. congruence.
Qed.

Lemma ext_upd l o x x1 : nth_error l o = Some x -> keep x x1 -> ext l (upd_nth o x1 l).
Proof.
  intros Ex Kp n y Ey. destruct (Nat.eq_dec o n) as [->|N].
  - rewrite Ex in Ey. inversion Ey; subst y. exists x1. split; auto. eapply nth_error_upd_same; eauto.
  - exists y. rewrite nth_error_upd_other by auto. split; auto. apply keep_refl.
Qed.

Lemma PI_upd l o x x1 : Forall PI l -> nth_error l o = Some x -> keep x x1 -> Forall PI (upd_nth o x1 l).
Proof.
  intros F; revert o; induction F as [|a l Pa F IH]; intros [|o] Ex Kp; cbn in *; try discriminate.
  - inversion Ex; subst. constructor; auto. destruct Kp as (_ & _ & _ & _ & Kp). auto.
  - constructor; eauto.
Qed.

Definition good (l l' : list pobj) : Prop := ext l l' /\ (Forall PI l -> Forall PI l').

Lemma good_refl l : good l l.
Proof. split; [apply ext_refl|auto]. Qed.

Lemma good_trans l1 l2 l3 : good l1 l2 -> good l2 l3 -> good l1 l3.
Proof. intros [A1 A2] [B1 B2]. split; [eapply ext_trans; eauto|auto]. Qed.

Lemma good_upd l o x x1 : nth_error l o = Some x -> keep x x1 -> good l (upd_nth o x1 l).
Proof. intros Ex Kp. split; [eapply ext_upd; eauto|intros F; eapply PI_upd; eauto]. Qed.

Lemma good_app l news : Forall PI news -> good l (l ++ news).
Proof. intros Fn. split; [apply ext_app|]. intros F. apply Forall_app; auto. Qed.

(* every public call keeps every object, and keeps PI *)
Lemma mcall_good K m c : good (objs m) (objs (fst (fst (mcall K m c)))).
Proof.
  destruct c as [pid|pid|o|o s|o|o|o|o|o|a b|a b|o s|o|o| | |o vis| |g|o vis|o hw ok|o ok]; cbn [mcall].
  - destruct (new_obj K pid) eqn:N; cbn [fst with_objs objs]; try apply good_refl.
    apply good_app. constructor; [eapply new_obj_PI; eauto|constructor].
  - destruct (new_popen K pid) eqn:N; cbn [fst with_objs objs]; try apply good_refl.
    apply good_app. constructor; [eapply new_popen_PI; eauto|constructor].
  - destruct (nth_error (objs m) o) as [x|] eqn:Ex; cbn [fst]; try apply good_refl.
    pose proof (do_probe_keep K x) as Kp. destruct (do_probe K x) as [[x1 r] add]. cbn [fst with_reusedset with_objs objs] in *.
    eapply good_upd; eauto.
  - destruct (nth_error (objs m) o) as [x|] eqn:Ex; cbn [fst]; try apply good_refl.
    pose proof (setter_body_keep K x s) as Kp. destruct (setter_body K x s) as [[x2 r2] scs]. cbn [fst with_objs objs] in *.
    eapply good_upd; eauto.
  - destruct (nth_error (objs m) o); cbn [fst]; apply good_refl.
  - destruct (nth_error (objs m) o) as [x|] eqn:Ex; cbn [fst with_objs objs]; try apply good_refl.
    destruct (oshared x); cbn [fst with_objs objs]; try apply good_refl.
    eapply good_upd; eauto. apply oneshot_enter_keep.
  - destruct (nth_error (objs m) o) as [x|] eqn:Ex; cbn [fst]; try apply good_refl.
    destruct (oneshot_exit x) as [x1|] eqn:Eo; cbn [fst with_objs objs]; try apply good_refl.
    eapply good_upd; eauto. eapply oneshot_exit_keep; eauto.
  - destruct (nth_error (objs m) o) as [x|] eqn:Ex; cbn [fst]; try apply good_refl.
    destruct (oshared x); cbn [fst]; try apply good_refl.
    pose proof (do_ppid_keep K (oneshot_enter x)) as Kp.
    destruct (do_ppid K (oneshot_enter x)) as [[x1 r] add]. cbn [fst] in Kp.
    destruct (oneshot_exit x1) as [x2|] eqn:Eo; cbn [fst with_reusedset with_objs objs]; try apply good_refl.
    eapply good_upd; eauto.
    eapply keep_trans; [apply oneshot_enter_keep|]. eapply keep_trans; [exact Kp|]. eapply oneshot_exit_keep; eauto.
  - destruct (nth_error (objs m) o) as [x|] eqn:Ex; cbn [fst]; try apply good_refl.
    pose proof (is_running_keep K x) as [Kp _]. destruct (is_running K x) as [[x1 r] add]. cbn [fst with_reusedset with_objs objs] in *.
    eapply good_upd; eauto.
  - destruct (nth_error (objs m) a), (nth_error (objs m) b); cbn [fst]; apply good_refl.
  - destruct (nth_error (objs m) a) as [x|] eqn:Ex; cbn [fst]; try apply good_refl.
    pose proof (do_hash_keep x) as [Ka _]. destruct (do_hash x) as [x1 h1]. cbn [fst] in Ka.
    destruct (nth_error (upd_nth a x1 (objs m)) b) as [y|] eqn:Ey; cbn [fst]; try apply good_refl.
    pose proof (do_hash_keep y) as [Kb _]. destruct (do_hash y) as [y1 h2]. cbn [fst with_objs objs] in *.
    eapply good_trans; [eapply good_upd; eauto|eapply good_upd; eauto].
  - destruct (nth_error (objs m) o) as [x|] eqn:Ex; cbn [fst]; try apply good_refl.
    pose proof (do_setter_keep K x s) as Kp. destruct (do_setter K x s) as [[[x1 r] add] scs]. cbn [fst with_reusedset with_objs objs] in *.
    eapply good_upd; eauto.
  - destruct (nth_error (objs m) o) as [x|] eqn:Ex; cbn [fst]; try apply good_refl.
    pose proof (do_ppid_keep K x) as Kp. destruct (do_ppid K x) as [[x1 r] add]. cbn [fst with_reusedset with_objs objs] in *.
    eapply good_upd; eauto.
  - destruct (nth_error (objs m) o) as [x|] eqn:Ex; cbn [fst]; try apply good_refl.
    pose proof (do_create_time_keep K m x) as Kp.
    assert (Eo : objs (fst (fst (do_create_time K m x))) = objs m).
    { unfold do_create_time. destruct (octime x); cbn [fst]; auto.
      destruct (parse_stat K x) as [x1 [[st ?]|]]; cbn [fst]; auto.
      destruct (bootc m) as [bb|]; [destruct (bb =? 0)|]; reflexivity. }
    destruct (do_create_time K m x) as [[m1 x1] r]. cbn [fst snd with_objs objs] in *. rewrite Eo.
    eapply good_upd; eauto.
  - cbn [do_boot_time fst with_bootc objs]. apply good_refl.
  - unfold proc_iter. destruct (sort_uniq (kv_pids K)); cbn [fst]; try apply good_refl.
    match goal with |- context [iter_loop K ?a ?n ?os ?pm ?acc] =>
      destruct (iter_loop K a n os pm acc) as [[os' pm'] r'] eqn:L end.
    apply iter_loop_objs in L as [news [-> Fn]]. cbn [fst objs]. apply good_app.
    eapply Forall_impl; [|exact Fn]. intros y [p Hy]. eapply new_obj_PI; eauto.
  - destruct (nth_error (objs m) o) as [x|] eqn:Ex; cbn [fst]; try apply good_refl.
    pose proof (do_wait_keep K x vis) as Kp. destruct (do_wait K x vis) as [x1 r]. cbn [fst with_objs objs] in *.
    eapply good_upd; eauto.
  - cbn [fst with_gens objs]. apply good_refl.
  - unfold iter_next. destruct (nth_error (gens m) g) as [ge|]; cbn [fst]; try apply good_refl.
    destruct (g_done ge); cbn [fst]; try apply good_refl.
    match goal with |- context [match ?st with Some _ => _ | None => _ end] => destruct st as [[[m0 ls] pm]|] eqn:St end;
      cbn [fst with_gens objs]; try apply good_refl.
    assert (Eo : objs m0 = objs m).
    { destruct (g_started ge); [inversion St; subst; reflexivity|].
      destruct (sort_uniq (kv_pids K)); [discriminate|]. inversion St; subst. reflexivity. }
    destruct (gen_loop K ls (objs m0) pm) as [[[ls1 os1] pm1] r1] eqn:L.
    apply gen_loop_objs in L as [news [-> Fn]]. rewrite Eo.
    assert (G : good (objs m) (objs m ++ news)).
    { apply good_app. eapply Forall_impl; [|exact Fn]. intros y [p Hy]. eapply new_obj_PI; eauto. }
    destruct r1 as [[i|]|e|]; cbn [fst with_gens with_pmap with_objs objs]; exact G.
  - destruct (nth_error (objs m) o) as [x|] eqn:Ex; cbn [fst]; try apply good_refl.
    pose proof (do_wait_procs_keep K x vis) as Kp.
    destruct (do_wait_procs K x vis) as [[x1 r] add]. cbn [fst with_reusedset with_objs objs] in *.
    eapply good_upd; eauto.
  - destruct (nth_error (objs m) o) as [x|] eqn:Ex; cbn [fst]; try apply good_refl.
    destruct ok; [|destruct hw; cbn [fst]; apply good_refl]. destruct (oshot x); cbn [fst with_objs objs]; try apply good_refl.
    assert (Ks : keep x (with_shared x)) by (apply keep_same; reflexivity).
    eapply good_trans; [eapply good_upd; eauto|]. split; [apply ext_app|].
    intros F. apply Forall_app. split; auto. constructor; [|constructor].
    rewrite Forall_forall in F. destruct Ks as (_ & _ & _ & _ & Kpi).
    assert (Px : PI (with_shared x)) by (apply F; eapply nth_error_In; eapply nth_error_upd_same; eauto).
    exact Px.
  - destruct (nth_error (objs m) o); cbn [fst]; apply good_refl.
Qed.



(* ---------------------------------------------------------------- histories *)
Lemma cstep_good w c : good (objs (ms w)) (objs (ms (fst (fst (cstep w c))))).
Proof. rewrite cstep_eq. cbn [fst ms]. apply mcall_good. Qed.

Lemma ksteps_objs' ks : forall w, objs (ms (fold_left kstep ks w)) = objs (ms w).
Proof. induction ks as [|k ks IH]; intros w; cbn [fold_left]; auto. rewrite IH. destruct k; reflexivity. Qed.

Lemma next_good w e : good (objs (ms w)) (objs (ms (next w e))).
Proof.
  unfold next. destruct e as [k|c|o s ks]; cbn [step].
  - destruct k; apply good_refl.
  - apply cstep_good.
  - pose proof (cstep_good w (SetProbe o)) as G1.
    destruct (cstep w (SetProbe o)) as [[w1 r1] e1]. cbn [fst] in *.
    destruct r1; cbn [fst]; try (rewrite ksteps_objs'; exact G1).
    eapply good_trans; [exact G1|]. rewrite <- (ksteps_objs' ks w1). apply cstep_good.
Qed.

Lemma run_from_good h : forall w, good (objs (ms w)) (objs (ms (run_from w h))).
Proof.
  induction h as [|e h IH]; intros w; cbn [run_from fold_left]; [apply good_refl|].
  eapply good_trans; [apply next_good|apply IH].
Qed.

Lemma run_PI h : Forall PI (objs (ms (run h))).
Proof. unfold run. apply (run_from_good h world0). constructor. Qed.

Definition obj_ident (w : world) (o : nat) : option (Z * option Z) :=
  match nth_error (objs (ms w)) o with Some x => Some (ident x) | None => None end.

(* 1. the identity of an object never changes *)
Theorem identity_never_changes h1 h2 o id :
  obj_ident (run h1) o = Some id -> obj_ident (run (h1 ++ h2)) o = Some id.
Proof.
  unfold obj_ident. destruct (nth_error (objs (ms (run h1))) o) as [x|] eqn:Ex; [|discriminate].
  intros E. inversion E; subst id.
  assert (R : run (h1 ++ h2) = run_from (run h1) h2) by (unfold run; apply run_from_app).
  destruct (run_from_good h2 (run h1)) as [X _]. destruct (X o x Ex) as (x' & Ex' & (E1 & E2 & _)).
  rewrite R, Ex'. unfold ident. rewrite E1, E2. reflexivity.
Qed.

(* 2. hash agrees with ==, and is the hash of the (constant) identity: equal objects hash alike, hash() repeats *)
Theorem hash_agrees_with_eq h a b :
  has_obj (run h) a = true -> has_obj (run h) b = true ->
  exists e, outcome_of (run h) (EC (EqC a b)) = Val (RBool e)
            /\ outcome_of (run h) (EC (HashEq a b)) = Val (RHash e true).
Proof.
  intros Ha Hb. unfold has_obj in *. set (w := run h) in *.
  destruct (nth_error (objs (ms w)) a) as [x|] eqn:Ex; [|discriminate].
  destruct (nth_error (objs (ms w)) b) as [y0|] eqn:Ey0; [|discriminate].
  pose proof (run_PI h) as F. fold w in F. rewrite Forall_forall in F.
  assert (Px : PI x) by (apply F; eapply nth_error_In; eauto).
  assert (Py0 : PI y0) by (apply F; eapply nth_error_In; eauto).
  exists (obj_eq x y0). unfold outcome_of. cbn [step]. rewrite !cstep_eq. cbn [fst snd mcall]. rewrite Ex, Ey0.
  split; [reflexivity|].
  pose proof (do_hash_keep x) as [Kx Hx]. specialize (Hx Px). destruct (do_hash x) as [x1 h1]. cbn [fst snd] in *.
  assert (R : forall z, obj_eq z z = true).
  { intros z. unfold obj_eq. rewrite Z.eqb_refl. destruct (ostart z); cbn; [apply Z.eqb_refl|reflexivity]. }
  assert (IE : forall u v, ident_eqb (ident u) (ident v) = obj_eq u v) by reflexivity.
  destruct (Nat.eq_dec a b) as [->|N].
  - rewrite Ex in Ey0. inversion Ey0; subst y0. rewrite (nth_error_upd_same _ _ _ _ Ex).
    pose proof (do_hash_keep x1) as [_ Hy]. specialize (Hy (proj2 (proj2 (proj2 (proj2 Kx))) Px)).
    destruct (do_hash x1) as [y1 h2]. cbn [fst snd] in *.
    assert (Ei : ident x1 = ident x) by (destruct Kx as (E1 & E2 & _); unfold ident; rewrite E1, E2; reflexivity).
    subst h1 h2. rewrite Ei, !IE, !R. reflexivity.
  - rewrite nth_error_upd_other, Ey0 by auto.
    pose proof (do_hash_keep y0) as [_ Hy]. specialize (Hy Py0). destruct (do_hash y0) as [y1 h2]. cbn [fst snd] in *.
    subst h1 h2. rewrite !IE, !R. reflexivity.
Qed.

Corollary equal_implies_same_hash h a b :
  has_obj (run h) a = true -> has_obj (run h) b = true ->
  outcome_of (run h) (EC (EqC a b)) = Val (RBool true) ->
  outcome_of (run h) (EC (HashEq a b)) = Val (RHash true true).
Proof.
  intros Ha Hb E. destruct (hash_agrees_with_eq h a b Ha Hb) as (e & E1 & E2). rewrite E1 in E. inversion E; subst. exact E2.
Qed.

(* 3. once is_running() has answered False it answers False for ever *)
Lemma gone_answers_false w o x : nth_error (objs (ms w)) o = Some x -> ogone x = true ->
  outcome_of w (EC (IsRunning o)) = Val (RBool false).
Proof.
  intros Ex G. unfold outcome_of. cbn [step]. rewrite cstep_eq. cbn [fst snd mcall]. rewrite Ex.
  unfold is_running. rewrite G. reflexivity.
Qed.

Theorem is_running_false_for_ever h1 h2 o :
  outcome_of (run h1) (EC (IsRunning o)) = Val (RBool false) ->
  outcome_of (run (h1 ++ EC (IsRunning o) :: h2)) (EC (IsRunning o)) = Val (RBool false).
Proof.
  intros E. set (w := run h1) in *.
  assert (R : run (h1 ++ EC (IsRunning o) :: h2) = run_from (next w (EC (IsRunning o))) h2).
  { unfold run. rewrite run_from_app. reflexivity. }
  unfold outcome_of in E. cbn [step] in E. rewrite cstep_eq in E. cbn [fst snd mcall] in E.
  destruct (nth_error (objs (ms w)) o) as [x|] eqn:Ex; [|discriminate].
  pose proof (run_PI h1) as F. fold w in F. rewrite Forall_forall in F.
  assert (Px : PI x) by (apply F; eapply nth_error_In; eauto).
  pose proof (is_running_keep (view_of w) x) as [Kp Hg].
  assert (Ex1 : exists x1, nth_error (objs (ms (next w (EC (IsRunning o))))) o = Some x1 /\ ogone x1 = true).
  { unfold next. cbn [step]. rewrite cstep_eq. cbn [fst snd mcall ms]. rewrite Ex.
    destruct (is_running (view_of w) x) as [[x1 r] add]. cbn [fst snd with_reusedset with_objs objs] in *.
    exists x1. split; [eapply nth_error_upd_same; eauto|]. apply Hg; auto.
    destruct r as [[]| |]; cbn in E; try discriminate; reflexivity. }
  destruct Ex1 as (x1 & Ex1 & G1).
  destruct (run_from_good h2 (next w (EC (IsRunning o)))) as [X _].
  destruct (X o x1 Ex1) as (x2 & Ex2 & (_ & _ & Kg & _)).
  rewrite R. eapply gone_answers_false; eauto.
Qed.

(* 4. an object without identity (built while the stat file was unreadable) equals no object that has one --
   in particular not a fresh object for the very same process, nor one for a later owner of the PID *)
Theorem no_identity_equals_none_with h a b x y :
  nth_error (objs (ms (run h))) a = Some x -> nth_error (objs (ms (run h))) b = Some y ->
  ostart x = None -> ostart y <> None ->
  outcome_of (run h) (EC (EqC a b)) = Val (RBool false)
  /\ outcome_of (run h) (EC (EqC b a)) = Val (RBool false).
Proof.
  intros Ex Ey Sx Sy. unfold outcome_of. cbn [step]. rewrite !cstep_eq. cbn [fst snd mcall]. rewrite Ex, Ey.
  unfold obj_eq. rewrite Sx. destruct (ostart y); [|congruence]. cbn [opt_eqb]. rewrite !andb_false_r. auto.
Qed.

(* the class is inhabited: PID 5 is denied while the object is built (no identity), later readable; the PID is
   recycled in between; hash before = hash after; is_running() then False (a later owner is never adopted) *)
Definition ex_blind : list ev :=
  [EK (Spawn 5 100 1 [112]); EK (Deny 5); EC (New 5); EC (HashEq 0 0); EC (IsRunning 0);
   EK (Reap 5); EK (Spawn 5 101 1 [113]); EC (IsRunning 0); EK (Allow 5); EC (New 5)].
Lemma ex_blind_ok :
  obj_ident (run ex_blind) 0 = Some (5, None) /\ obj_ident (run ex_blind) 1 = Some (5, Some 101)
  /\ outcome_of (run ex_blind) (EC (HashEq 0 0)) = Val (RHash true true)
  /\ outcome_of (run ex_blind) (EC (EqC 0 1)) = Val (RBool false)
  /\ outcome_of (run ex_blind) (EC (IsRunning 0)) = Val (RBool false)
  /\ obj_ident (run (ex_blind ++ [EC (IsRunning 0); EC (HashEq 0 1)])) 0 = Some (5, None).
Proof. vm_compute. repeat split. Qed.

(* a copy carries the identity of its original -- and by identity_never_changes keeps it for ever *)
Theorem copy_has_identity_of_original w o hw n :
  outcome_of w (EC (Copy o hw true)) = Val (RObj n) ->
  obj_ident (next w (EC (Copy o hw true))) n = obj_ident w o /\ obj_ident w o <> None
  /\ obj_ident (next w (EC (Copy o hw true))) o = obj_ident w o.
Proof.
  unfold outcome_of, next, obj_ident. cbn [step]. rewrite cstep_eq. cbn [fst snd mcall ms].
  destruct (nth_error (objs (ms w)) o) as [x|] eqn:Ex; [|discriminate].
  destruct (oshot x); [|discriminate]. cbn [fst snd with_objs objs]. intros E. inversion E; subst n.
  assert (L : length (upd_nth o (with_shared x) (objs (ms w))) = length (objs (ms w))) by apply upd_nth_length.
  rewrite nth_error_app2 by lia. rewrite L, Nat.sub_diag. cbn [nth_error].
  rewrite nth_error_app1 by (rewrite L; apply nth_error_Some; congruence).
  rewrite (nth_error_upd_same _ _ _ _ Ex). splits; auto. discriminate.
Qed.
