(* Proc -- interpreter modes: under python -O / -OO (PYTHONOPTIMIZE) every `assert` statement vanishes, together with
   every call made inside it.  coq/Gen/C01_Tables.v lists (ast, regenerated from the tree under test on every run)
   all assert statements of the functions on the path of the PID-reuse guard.  This file proves
   (a) none of them contains a Call (or :=, await, yield): stripping them removes no effect, so the functions
       transcribed in Proc/Model.v behave under -O as they do normally, except that a failing assert no longer
       raises AssertionError;
   (b) the one assert on the path (`assert not self.pid < 0` in _send_signal, modelled as the first test of
       do_setter) never fails for an object of a reachable world: the model without it (do_setter_O) gives the
       same answer -- so every C01 theorem holds for both interpreter modes. *)
From PV Require Import Proc.Spec Proc.Lib Proc.ProofsInv Proc.ProofsStep Proc.Proofs.
From PV Require Import Gen.C01_Tables.

Lemma guard_asserts_pure : forallb (fun a => negb (snd a)) guard_asserts = true.
Proof. vm_compute. reflexivity. Qed.

Lemma guard_functions_scanned : (40 <= length guard_functions)%nat.
Proof. vm_compute. repeat constructor. Qed.

Lemma do_setter_O_eq K x s : 0 <= opid x -> do_setter_O K x s = do_setter K x s.
Proof. intros R. unfold do_setter_O, do_setter. destruct (Z.ltb_spec (opid x) 0); [lia|reflexivity]. Qed.

Lemma guard_same_without_asserts h o x s :
  wf_hist h = true -> nth_error (objs (ms (run h))) o = Some x ->
  do_setter_O (view_of (run h)) x s = do_setter (view_of (run h)) x s.
Proof.
  intros W Ex. apply do_setter_O_eq. apply (inv_objs_nonneg (run h) (run_inv h W)). eapply nth_error_In; eauto.
Qed.
