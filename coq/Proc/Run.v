(* Entry points evaluated by the correspondence harness (props/_proc_common.py, props/C01.py, props/C02.py). *)
From PV Require Export Proc.Spec Proc.Live.

Definition jv_sysc (c : sysc) : jv :=
  match c with
  | SKill p s => JC "Kill" [JZ p; JZ s]
  | SNice p v => JC "Nice" [JZ p; JZ v]
  | SIonice p c v => JC "Ionice" [JZ p; JZ c; JZ v]
  | SRlimit p r s h => JC "Rlimit" [JZ p; JZ r; JZ s; JZ h]
  | SAffinity p l => JC "Affinity" [JZ p; JL (map JZ l)]
  end.

Definition jnat (n : nat) : jv := JZ (Z.of_nat n).
Definition jv_res (r : res) : jv :=
  match r with
  | RNone => jnone
  | RBool b => jbool b
  | RInt n => JZ n
  | RObj i => JC "Obj" [jnat i]
  | RObjs l => JC "Objs" [JL (map jnat l)]
  | RCenti n => JC "Centi" [JZ n]
  | RHash e s => JC "Hash" [jbool e; jbool s]
  | RGen g => JC "Gen" [jnat g]
  | RStop => JC "Stop" []
  end.

Definition jv_eff (e : sysc * option Z) : jv := JL [jv_sysc (fst e); jopt JZ (snd e)].
Definition jv_deff (e : sysc * Z) : jv := JL [jv_sysc (fst e); JZ (snd e)].
Definition jv_allowed (a : outcome res * list (sysc * Z)) : jv :=
  JL [jv_outcome jv_res (fst a); JL (map jv_deff (snd a))].

(* per event: model outcome, system calls attempted (with receiver), acceptable answers or None *)
Fixpoint run_steps (w : world) (h : list ev) : list jv :=
  match h with
  | [] => []
  | e :: r =>
    let '(w1, o, eff) := step w e in
    JL [ jv_outcome jv_res o; JL (map jv_eff eff);
         match e with
         | EC c => match spec_call w c with Some l => JL (map jv_allowed l) | None => jnone end
         | ER o s [] => match spec_call w (Set_ o s) with Some l => JL (map jv_allowed l) | None => jnone end
         | ER _ _ _ => jnone     (* an event inside the window: the inherent TOCTOU, no demand *)
         | EK _ => jnone
         end ] :: run_steps w1 r
  end.

(* sanity flag for the generator: the kernel part of well-formedness (PIDs handed out when free, distinct start
   ticks); Deny events are allowed here -- they only take a history out of the domain of the wf_hist theorems *)
Definition wfp_kev (w : world) (k : kev) : bool := match k with Deny _ => true | _ => wf_kev w k end.
Fixpoint wfp_kevs (w : world) (ks : list kev) : bool :=
  match ks with [] => true | k :: r => wfp_kev w k && wfp_kevs (kstep w k) r end.
Definition wfp_ev (w : world) (e : ev) : bool :=
  match e with
  | EK k => wfp_kev w k
  | EC _ => true
  | ER o _ ks => wfp_kevs (fst (fst (cstep w (SetProbe o)))) ks
  end.
Fixpoint wfp_from (w : world) (h : list ev) : bool :=
  match h with [] => true | e :: r => wfp_ev w e && wfp_from (next w e) r end.

Definition run_hist (h : list ev) : jv := JL [ jbool (wfp_from world0 h); JL (run_steps world0 h) ].


(* ---------------------------------------------------------------- setters through the real C extension *)
Definition jv_lstate (st : lstate) : jv :=
  JL [ JL (map JZ (l_mask st)); JZ (l_nice st); JL [JZ (fst (l_io st)); JZ (snd (l_io st))];
       JL [JZ (fst (l_rl st)); JZ (snd (l_rl st))] ].
Fixpoint run_lsteps (elig : list Z) (st : lstate) (ops : list lop) : list jv :=
  match ops with
  | [] => []
  | op :: r =>
    let '(o, st1) := lstep elig st op in
    JL [ jv_outcome jv_res o; jv_lstate st1;
         match lspec elig st op with
         | Some (o', s') => JL [jv_outcome jv_res o'; jv_lstate s']
         | None => jnone
         end ] :: run_lsteps elig st1 r
  end.
(* elig: the CPUs the live process may use; then its initial mask, nice, ioprio and limits *)
Definition run_live (elig mask0 : list Z) (nice0 ioc iod rls rlh : Z) (ops : list lop) : jv :=
  JL (run_lsteps elig {| l_mask := mask0; l_nice := nice0; l_io := (ioc, iod); l_rl := (rls, rlh) |} ops).
