(* Proc -- list lemmas used by the invariant proofs. *)
From PV Require Import Proc.Spec.

Lemma upd_nth_length {A} n (a : A) l : length (upd_nth n a l) = length l.
Proof. revert n; induction l as [|b l IH]; intros [|n]; simpl; auto. Qed.

Lemma nth_error_upd_same {A} n (a : A) l x :
  nth_error l n = Some x -> nth_error (upd_nth n a l) n = Some a.
Proof. revert n; induction l as [|b l IH]; intros [|n]; simpl; try discriminate; auto. Qed.

Lemma nth_error_upd_other {A} n m (a : A) l :
  n <> m -> nth_error (upd_nth n a l) m = nth_error l m.
Proof.
  revert n m; induction l as [|b l IH]; intros [|n] [|m] H; simpl; auto; try congruence.
Qed.

Lemma Forall2_refl {A} (R : A -> A -> Prop) l : (forall a, R a a) -> Forall2 R l l.
Proof. intros H; induction l; constructor; auto. Qed.

Lemma Forall2_trans {A} (R : A -> A -> Prop) l1 l2 l3 :
  (forall a b c, R a b -> R b c -> R a c) -> Forall2 R l1 l2 -> Forall2 R l2 l3 -> Forall2 R l1 l3.
Proof.
  intros T H; revert l3; induction H; intros l3 H3; inversion H3; subst; constructor; eauto.
Qed.

Lemma Forall2_upd_nth {A} (R : A -> A -> Prop) l n x x1 :
  (forall a, R a a) -> nth_error l n = Some x -> R x x1 -> Forall2 R l (upd_nth n x1 l).
Proof.
  intros Rr; revert n; induction l as [|b l IH]; intros [|n] H HR; simpl in *; try discriminate.
  - inversion H; subst. constructor; auto. apply Forall2_refl; auto.
  - constructor; auto.
Qed.

Lemma Forall2_nth_l {A B} (R : A -> B -> Prop) l1 l2 n a :
  Forall2 R l1 l2 -> nth_error l1 n = Some a -> exists b, nth_error l2 n = Some b /\ R a b.
Proof.
  intros H; revert n; induction H; intros [|n] E; simpl in *; try discriminate.
  - inversion E; subst; eauto.
  - eauto.
Qed.

Lemma Forall2_nth_r {A B} (R : A -> B -> Prop) l1 l2 n b :
  Forall2 R l1 l2 -> nth_error l2 n = Some b -> exists a, nth_error l1 n = Some a /\ R a b.
Proof.
  intros H; revert n; induction H; intros [|n] E; simpl in *; try discriminate.
  - inversion E; subst; eauto.
  - eauto.
Qed.

Lemma Forall2_impl {A B} (R S : A -> B -> Prop) l1 l2 :
  (forall a b, R a b -> S a b) -> Forall2 R l1 l2 -> Forall2 S l1 l2.
Proof. intros H F; induction F; constructor; auto. Qed.

Lemma nth_error_nth_default {A} (l : list A) n a d : nth_error l n = Some a -> nth n l d = a.
Proof. revert n; induction l; intros [|n] H; simpl in *; try discriminate; [congruence|auto]. Qed.

Lemma skipn_app_exact {A} (l1 l2 : list A) : skipn (length l1) (l1 ++ l2) = l2.
Proof. induction l1; simpl; auto. Qed.

(* ---------------------------------------------------------------- lookup in the process table *)
Lemma lookup_some t p k : lookup t p = Some k -> In k t /\ kpid k = p.
Proof.
  unfold lookup; intros H. apply find_some in H as [H1 H2]. split; auto. apply Z.eqb_eq; auto.
Qed.

Lemma lookup_none t p : lookup t p = None -> forall k, In k t -> kpid k <> p.
Proof.
  unfold lookup; intros H k Hk E. apply (find_none _ _ H) in Hk. apply Z.eqb_neq in Hk. auto.
Qed.

Lemma lookup_nodup t k : NoDup (map kpid t) -> In k t -> lookup t (kpid k) = Some k.
Proof.
  unfold lookup. induction t as [|a t IH]; simpl; intros ND H; [contradiction|].
  inversion ND as [|? ? Hn ND']; subst.
  destruct H as [->|H].
  - rewrite Z.eqb_refl; auto.
  - destruct (Z.eqb_spec (kpid a) (kpid k)) as [E|E].
    + exfalso. apply Hn. rewrite E. apply in_map; auto.
    + auto.
Qed.

Lemma alive_true w i : alive w i = true <-> exists k, In k (table w) /\ kinc k = i.
Proof.
  unfold alive. rewrite existsb_exists. split; intros [k [H1 H2]]; exists k; split; auto.
  - apply Z.eqb_eq; auto.
  - apply Z.eqb_eq; auto.
Qed.

Lemma alive_false w i : alive w i = false <-> forall k, In k (table w) -> kinc k <> i.
Proof.
  split.
  - intros H k Hk E. assert (alive w i = true) by (apply alive_true; eauto). congruence.
  - intros H. destruct (alive w i) eqn:E; auto. apply alive_true in E as [k [H1 H2]]. exfalso; eapply H; eauto.
Qed.

Lemma Forall2_len {A B} (R : A -> B -> Prop) l1 l2 : Forall2 R l1 l2 -> length l1 = length l2.
Proof. induction 1; simpl; auto. Qed.
