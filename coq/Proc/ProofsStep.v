(* Proc -- the invariant holds in every reachable world. *)
From PV Require Import Proc.Spec Proc.Lib Proc.ProofsInv.

Lemma obj_ok_ext w w' x i :
  table w' = table w -> hist w' = hist w -> obj_ok w x i -> obj_ok w' x i.
Proof.
  intros Et Eh (H1 & H2 & H3). unfold obj_ok, alive in *. rewrite Et, Eh. auto.
Qed.

(* ---------------------------------------------------------------- kernel events *)
Lemma nodup_snoc {A} (l : list A) a : NoDup l -> ~ In a l -> NoDup (l ++ [a]).
Proof.
  induction l as [|b l IH]; simpl; intros ND Hn.
  - repeat constructor; auto.
  - inversion ND; subst. constructor.
    + rewrite in_app_iff. simpl. intros [H|[H|[]]]; auto.
    + apply IH; auto.
Qed.

Lemma nodup_map_filter {A B} (f : A -> B) g l : NoDup (map f l) -> NoDup (map f (filter g l)).
Proof.
  induction l as [|a l IH]; simpl; intros ND; auto.
  inversion ND; subst. destruct (g a); simpl; auto.
  constructor; auto. intros H. apply H1. apply in_map_iff in H as [x [E Hx]].
  apply filter_In in Hx as [Hx _]. apply in_map_iff. eauto.
Qed.

(* a change of the table that keeps or drops entries (exit, reap, clock step) *)
Lemma inv_table_shrink w w' :
  Inv w -> hist w' = hist w -> nextinc w' = nextinc w -> ms w' = ms w -> ginc w' = ginc w ->
  denied w' = [] ->
  NoDup (map kpid (table w')) ->
  (forall k', In k' (table w') -> exists k, In k (table w) /\ kinc k' = kinc k /\ kpid k' = kpid k /\ kstart k' = kstart k) ->
  Inv w'.
Proof.
  intros I Eh En Em Eg Ed ND Sub.
  assert (Al : forall i, alive w i = false -> alive w' i = false).
  { intros i A. apply alive_false. intros k' Hk' E. destruct (Sub _ Hk') as (k & Hk & Ei & _).
    apply (proj1 (alive_false w i) A k Hk). congruence. }
  constructor; rewrite ?Eh, ?En, ?Em, ?Eg.
  - apply (inv_next _ I).
  - exact Ed.
  - exact ND.
  - intros k' Hk'. destruct (Sub _ Hk') as (k & Hk & Ei & Ep & Es). rewrite Ei, Ep, Es. apply (inv_tab _ I); auto.
  - apply (inv_lt _ I).
  - apply (inv_fun _ I).
  - apply (inv_inj _ I).
  - eapply Forall2_impl; [|apply (inv_objs _ I)].
    intros x i (H1 & H2 & H3 & H4 & H5). unfold obj_ok. rewrite Eh. splits; auto; lia.
Qed.

Lemma kstep_inv w k : Inv w -> wf_kev w k = true -> Inv (kstep w k).
Proof.
  intros I W. pose proof (inv_nodeny _ I) as ND0. destruct k as [p s pp cm|p|p|p|d|p|p].
  - (* Spawn *)
    cbn [wf_kev] in W. apply andb_true_iff in W as [W Wh]. apply andb_true_iff in W as [W Wl].
    apply andb_true_iff in W as [W Ws]. apply andb_true_iff in W as [Wp0 Wp1].
    destruct (lookup (table w) p) eqn:L; [discriminate|].
    assert (Fresh : forall i, ~ In (i, p, s) (hist w)).
    { intros i Hi. rewrite forallb_forall in Wh. apply Wh in Hi. rewrite !Z.eqb_refl in Hi. discriminate. }
    pose proof (inv_next _ I) as N0.
    assert (Al : forall i, i < nextinc w -> alive w i = false -> alive (kstep w (Spawn p s pp cm)) i = false).
    { intros i Hi A. apply alive_false. cbn [kstep table]. intros k Hk E.
      apply in_app_iff in Hk as [Hk|[Hk|[]]].
      - apply (proj1 (alive_false w i) A k Hk E).
      - subst k. cbn [kinc] in E. lia. }
    constructor; cbn [kstep table hist nextinc ms ginc denied].
    + lia.
    + exact ND0.
    + rewrite map_app. cbn [map kpid]. apply nodup_snoc; [apply (inv_nodup _ I)|].
      intros H. apply in_map_iff in H as [k [E Hk]]. eapply lookup_none; eauto.
    + intros k Hk. apply in_app_iff in Hk as [Hk|[Hk|[]]].
      * right. apply (inv_tab _ I); auto.
      * subst k. left. reflexivity.
    + intros i q t [E|H]; [inversion E; subst; lia|]. apply (inv_lt _ I) in H. lia.
    + intros i q t q' t' [E|H] [E'|H'].
      * inversion E; inversion E'; subst; auto.
      * inversion E; subst. apply (inv_lt _ I) in H'. lia.
      * inversion E'; subst. apply (inv_lt _ I) in H. lia.
      * eapply (inv_fun _ I); eauto.
    + intros i i' q t [E|H] [E'|H'].
      * inversion E; inversion E'; subst; auto.
      * inversion E; subst. exfalso. eapply Fresh; eauto.
      * inversion E'; subst. exfalso. eapply Fresh; eauto.
      * eapply (inv_inj _ I); eauto.
    + eapply Forall2_impl; [|apply (inv_objs _ I)].
      intros x i (H1 & H2 & H3 & H4 & H5). unfold obj_ok. cbn [hist]. splits; auto; try lia.
      * destruct H1 as [(s0 & Es0 & H1)|H1]; [left; exists s0; split; auto; right; auto|right; auto].
      * intros G. apply Al; auto.
        destruct H1 as [(s0 & Es0 & H1)|(Ei & _)]; [apply (inv_lt _ I) in H1; lia|lia].
  - (* SpawnThread *)
    apply (inv_table_shrink w); auto; cbn [kstep table denied]; auto.
    + rewrite map_map. erewrite map_ext; [apply (inv_nodup _ I)|].
      intros k. destruct (kpid k =? p); reflexivity.
    + intros k' Hk'. apply in_map_iff in Hk' as [k [E Hk]]. exists k. split; auto.
      subst k'. destruct (kpid k =? p); auto.
  - (* Exit *)
    apply (inv_table_shrink w); auto; cbn [kstep table denied]; auto.
    + rewrite map_map. erewrite map_ext; [apply (inv_nodup _ I)|].
      intros k. destruct (kpid k =? p); reflexivity.
    + intros k' Hk'. apply in_map_iff in Hk' as [k [E Hk]]. exists k. split; auto.
      subst k'. destruct (kpid k =? p); auto.
  - (* Reap *)
    apply (inv_table_shrink w); auto; cbn [kstep table denied]; auto.
    + apply nodup_map_filter. apply (inv_nodup _ I).
    + intros k' Hk'. apply filter_In in Hk' as [Hk _]. eauto.
  - (* ClockStep *)
    apply (inv_table_shrink w); auto; cbn [kstep table denied]; auto.
    + apply (inv_nodup _ I).
    + intros k' Hk'. eauto.
  - (* Deny: not in a well-formed history *)
    discriminate.
  - (* Allow *)
    apply (inv_table_shrink w); auto; cbn [kstep table denied].
    + rewrite ND0. reflexivity.
    + apply (inv_nodup _ I).
    + intros k' Hk'. eauto.
Qed.

(* ---------------------------------------------------------------- psutil calls *)
Lemma upd_objs_ok w os gs o x1 i :
  Forall2 (obj_ok w) os gs -> nth_error gs o = Some i -> obj_ok w x1 i ->
  Forall2 (obj_ok w) (upd_nth o x1 os) gs.
Proof.
  intros F; revert o; induction F; intros [|o] E O1; simpl in *; try discriminate.
  - inversion E; subst. constructor; auto.
  - constructor; auto.
Qed.

Lemma obj_ok_with_hash w x i : obj_ok w x i -> obj_ok w (with_hash (Some (ident x)) x) i.
Proof. intros (H1 & H2 & H3 & H4 & H5). unfold obj_ok; cbn [with_hash opid ostart ogone oreused ohash ident]. splits; auto; lia. Qed.

Lemma obj_ok_with_ctime w x i c : obj_ok w x i -> obj_ok w (with_ctime c x) i.
Proof. intros (H1 & H2 & H3 & H4 & H5). unfold obj_ok; cbn [with_ctime opid ostart ogone oreused ohash ident]. splits; auto; lia. Qed.

Lemma do_hash_ok w x i : obj_ok w x i ->
  obj_ok w (fst (do_hash x)) i /\ snd (do_hash x) = ident x /\ ident (fst (do_hash x)) = ident x.
Proof.
  intros O. pose proof O as (H1 & H2 & [H3|H3] & H4 & H5); unfold do_hash; rewrite H3; cbn [fst snd].
  - splits; auto. apply obj_ok_with_hash; auto.
  - splits; auto.
Qed.

Lemma iter_loop_objs K ps : forall newp os pm acc os' pm' r,
  iter_loop K ps newp os pm acc = (os', pm', r) ->
  exists news, os' = os ++ news /\ Forall (fun y => exists p, new_obj K p = Val y) news.
Proof.
  induction ps as [|p ps IH]; intros newp os pm acc os' pm' r H; cbn [iter_loop] in H.
  - inversion H; subst. exists []. rewrite app_nil_r. auto.
  - destruct (assoc_nat p pm) as [i0|].
    { destruct (match nth_error os i0 with Some x => oreused x | None => false end); [|eauto].
      destruct (new_obj K p) as [y|e|] eqn:N.
      + apply IH in H as [news [E F]]. exists (y :: news). rewrite <- app_assoc in E. split; auto.
        constructor; eauto.
      + destruct e; try (inversion H; subst; exists []; rewrite app_nil_r; split; [reflexivity|constructor]).
        eauto.
      + inversion H; subst. exists []. rewrite app_nil_r. auto. }
    destruct (memz p newp); [|eauto].
    destruct (new_obj K p) as [y|e|] eqn:N.
    + apply IH in H as [news [E F]]. exists (y :: news). rewrite <- app_assoc in E. split; auto.
      constructor; eauto.
    + destruct e; try (inversion H; subst; exists []; rewrite app_nil_r; split; [reflexivity|constructor]).
      eauto.
    + inversion H; subst. exists []. rewrite app_nil_r. auto.
Qed.

Lemma obj_ok_with_exit w x i b : obj_ok w x i -> obj_ok w (with_exit b x) i.
Proof. intros (H1 & H2 & H3 & H4 & H5). unfold obj_ok; cbn [with_exit opid ostart ogone oreused ohash ident]. splits; auto; lia. Qed.

Lemma gen_loop_objs K ls : forall os pm ls1 os1 pm1 r,
  gen_loop K ls os pm = (ls1, os1, pm1, r) ->
  exists news, os1 = os ++ news /\ Forall (fun y => exists p, new_obj K p = Val y) news.
Proof.
  induction ls as [|[p c] ls IH]; intros os pm ls1 os1 pm1 r H; cbn [gen_loop] in H.
  - inversion H; subst. exists []. rewrite app_nil_r. auto.
  - destruct (match c with
              | Some i => if match nth_error os i with Some x => oreused x | None => false end then None else Some i
              | None => None end).
    + inversion H; subst. exists []. rewrite app_nil_r. auto.
    + destruct (new_obj K p) as [y|e|] eqn:N.
      * inversion H; subst. exists [y]. split; auto. constructor; eauto.
      * destruct e; try (inversion H; subst; exists []; rewrite app_nil_r; split; [reflexivity|constructor]).
        eauto.
      * inversion H; subst. exists []. rewrite app_nil_r. auto.
Qed.

Lemma do_wait_obj w x i vis : obj_ok w x i -> obj_ok w (fst (do_wait (view_of w) x vis)) i.
Proof.
  intros O. unfold do_wait. destruct (oexit x); [exact O|]. destruct (opid x <=? 0); [exact O|].
  destruct (vis && kexists (view_of w) (opid x)); cbn [fst]; [exact O|]. apply obj_ok_with_exit; auto.
Qed.

Lemma obj_ok_with_shot w x i n p t : obj_ok w x i -> obj_ok w (with_shot n p t x) i.
Proof. intros (H1 & H2 & H3 & H4 & H5). unfold obj_ok; cbn [with_shot opid ostart ogone oreused ohash ident]. splits; auto; lia. Qed.

Lemma parse_stat_obj w x i : obj_ok w x i -> obj_ok w (fst (parse_stat (view_of w) x)) i.
Proof.
  intros O. unfold parse_stat.
  destruct (oshot x) as [|n]; [|destruct (ocstat x)]; cbn [fst]; auto;
    destruct (kv_stat (view_of w) (opid x)) as [[[? ?] ?]|]; cbn [fst]; auto;
    destruct (kv_ctime_ok (view_of w) (opid x)); cbn [fst]; auto;
    try (apply obj_ok_with_shot; auto).
Qed.

Lemma oneshot_enter_obj w x i : obj_ok w x i -> obj_ok w (oneshot_enter x) i.
Proof. intros O. unfold oneshot_enter. destruct (oshot x); apply obj_ok_with_shot; auto. Qed.

Lemma oneshot_exit_obj w x i x1 : obj_ok w x i -> oneshot_exit x = Some x1 -> obj_ok w x1 i.
Proof.
  intros O. unfold oneshot_exit. destruct (oshot x) as [|[|n]]; intros E; inversion E; subst;
    apply obj_ok_with_shot; auto.
Qed.

Lemma do_ppid_obj w x i : Inv w -> obj_ok w x i ->
  obj_ok w (fst (fst (do_ppid (view_of w) x))) i.
Proof.
  intros I O. unfold do_ppid.
  assert (G : obj_ok w
    (fst (fst (let '(x1, r, add) := raise_if_pid_reused (view_of w) x in
      match r with
      | Val _ =>
        let '(x2, st) := parse_stat (view_of w) x1 in
        match st with
        | Some (_, pp) =>
          (match oshot x2 with S _ => with_shot (oshot x2) (Some pp) (ocstat x2) x2 | O => x2 end, Val (RInt pp), add)
        | None => (x2, Exc (stat_exn (view_of w) (opid x2)), add)
        end
      | Exc e => (x1, Exc e, add)
      | OutOfModel => (x1, OutOfModel, add)
      end))) i).
  { destruct (raise_if_spec w x i I O) as (x1 & r1 & add & E & (_ & _ & O1) & _). rewrite E.
    destruct r1 as [u|e|]; cbn [fst]; auto.
    pose proof (parse_stat_obj w x1 i O1) as O2.
    destruct (parse_stat (view_of w) x1) as [x2 [[? pp]|]]; cbn [fst] in *; auto.
    destruct (oshot x2); auto; try (apply obj_ok_with_shot; auto). }
  destruct (oshot x); [exact G|]. destruct (ocppid x); [cbn [fst]; auto|exact G].
Qed.

Lemma do_create_time_obj w m x i :
  obj_ok w x i ->
  obj_ok w (snd (fst (do_create_time (view_of w) m x))) i /\
  objs (fst (fst (do_create_time (view_of w) m x))) = objs m.
Proof.
  intros O. unfold do_create_time. destruct (octime x); cbn [fst snd]; auto.
  pose proof (parse_stat_obj w x i O) as O1.
  destruct (parse_stat (view_of w) x) as [x1 [[st ?]|]]; cbn [fst snd] in *; auto.
  destruct (bootc m) as [bb|]; [destruct (bb =? 0)|]; cbn [do_boot_time fst snd with_bootc objs];
    split; auto; apply obj_ok_with_ctime; auto.
Qed.

(* every call keeps the old objects (possibly updated in place, still tied to their incarnation)
   and appends objects built by Process(pid) *)
(* objects a call may append: built by Process(pid), or the identity-less object of a Popen whose child is gone *)
Definition fresh (w : world) (y : pobj) : Prop :=
  (exists p, new_obj (view_of w) p = Val y)
  \/ (exists p, y = orphan_obj p /\ 0 <= p < PID_MAX /\ lookup (table w) p = None).

Lemma fresh_ok w y : Inv w -> fresh w y -> obj_ok w y (ghost_of w y).
Proof.
  intros I [[p N]|(p & -> & R & L)].
  - destruct (new_obj_ok w p y I N) as (i & Ow & O & Ep & _). unfold ghost_of. rewrite Ep, Ow. exact O.
  - unfold ghost_of, orphan_obj; cbn [opid]. rewrite owner_lookup, L.
    unfold obj_ok; cbn [opid ostart ogone oreused ohash]. splits; auto; try lia; try discriminate.
    intros _. apply neg_not_alive; auto. lia.
Qed.

Lemma obj_ok_with_shared w x i : obj_ok w x i -> obj_ok w (with_shared x) i.
Proof. intros (H1 & H2 & H3 & H4 & H5). unfold obj_ok; cbn [with_shared opid ostart ogone oreused ohash ident]. splits; auto; lia. Qed.

Lemma mcall_objs w c m1 r scs : Inv w -> (forall o hw ok, c <> Copy o hw ok) -> mcall (view_of w) (ms w) c = (m1, r, scs) ->
  exists upd news, objs m1 = upd ++ news /\ Forall2 (obj_ok w) upd (ginc w) /\
                   Forall (fresh w) news.
Proof.
  intros I NC H. pose proof (inv_objs _ I) as F.
  assert (Same : forall m, objs m = objs (ms w) ->
          exists upd news, objs m = upd ++ news /\ Forall2 (obj_ok w) upd (ginc w) /\
                           Forall (fresh w) news).
  { intros m E. exists (objs (ms w)), []. rewrite app_nil_r. auto. }
  assert (Upd : forall m o x1 x i, nth_error (objs (ms w)) o = Some x -> nth_error (ginc w) o = Some i ->
          obj_ok w x1 i -> objs m = upd_nth o x1 (objs (ms w)) ->
          exists upd news, objs m = upd ++ news /\ Forall2 (obj_ok w) upd (ginc w) /\
                           Forall (fresh w) news).
  { intros m o x1 x i Ex Ei O1 E. exists (upd_nth o x1 (objs (ms w))), []. rewrite app_nil_r.
    splits; auto. eapply upd_objs_ok; eauto. }
  destruct c as [pid|pid|o|o s|o|o|o|o|o|a b|a b|o s|o|o| | |o vis| |g|o vis|o hw ok|o ok]; cbn [mcall] in H.
  - (* New *)
    destruct (new_obj (view_of w) pid) as [y|e|] eqn:N; inversion H; subst; auto.
    exists (objs (ms w)), [y]. cbn [with_objs objs]. splits; auto. constructor; [left; eauto|constructor].
  - (* NewPopen *)
    destruct (new_popen (view_of w) pid) as [y|e|] eqn:N; inversion H; subst; auto.
    exists (objs (ms w)), [y]. cbn [with_objs objs]. splits; auto. constructor; [|constructor].
    unfold new_popen in N. destruct (Z.ltb_spec pid 0); [discriminate|].
    destruct (Z.leb_spec PID_MAX pid); [discriminate|]. rewrite view_stat in N.
    destruct (lookup (table w) pid) eqn:L; [left; eauto|].
    inversion N; subst. right. exists pid. splits; auto; lia.
  - (* SetProbe *)
    destruct (nth_error (objs (ms w)) o) as [x|] eqn:Ex; [|inversion H; subst; auto].
    destruct (Forall2_nth_l _ _ _ _ _ F Ex) as (i & Ei & O).
    unfold do_probe in H. destruct (opid x <? 0).
    + inversion H; subst. apply (Upd _ o x x i); auto.
    + destruct (raise_if_spec w x i I O) as (x1 & r1 & add & E & (_ & _ & O1) & _). rewrite E in H.
      inversion H; subst. apply (Upd _ o x1 x i); auto.
  - (* SetAct *)
    destruct (nth_error (objs (ms w)) o) as [x|] eqn:Ex; [|inversion H; subst; auto].
    destruct (Forall2_nth_l _ _ _ _ _ F Ex) as (i & Ei & O).
    destruct (setter_body (view_of w) x s) as [[x2 r2] scs2] eqn:B.
    pose proof (body_ok_obj _ _ _ _ _ _ _ I O (setter_body_spec _ _ _ _ _ _ B)) as O2.
    inversion H; subst. apply (Upd _ o x2 x i); auto.
  - (* EqOther *)
    destruct (nth_error (objs (ms w)) o); inversion H; subst; auto.
  - (* OneshotEnter *)
    destruct (nth_error (objs (ms w)) o) as [x|] eqn:Ex; [|inversion H; subst; auto].
    destruct (Forall2_nth_l _ _ _ _ _ F Ex) as (i & Ei & O).
    destruct (oshared x); [inversion H; subst; auto|].
    inversion H; subst. apply (Upd _ o (oneshot_enter x) x i); auto. apply oneshot_enter_obj; auto.
  - (* OneshotExit *)
    destruct (nth_error (objs (ms w)) o) as [x|] eqn:Ex; [|inversion H; subst; auto].
    destruct (Forall2_nth_l _ _ _ _ _ F Ex) as (i & Ei & O).
    destruct (oneshot_exit x) as [x1|] eqn:Eo; inversion H; subst; auto.
    apply (Upd _ o x1 x i); auto. eapply oneshot_exit_obj; eauto.
  - (* AsDict *)
    destruct (nth_error (objs (ms w)) o) as [x|] eqn:Ex; [|inversion H; subst; auto].
    destruct (Forall2_nth_l _ _ _ _ _ F Ex) as (i & Ei & O).
    destruct (oshared x); [inversion H; subst; auto|].
    pose proof (do_ppid_obj w (oneshot_enter x) i I (oneshot_enter_obj w x i O)) as O1.
    destruct (do_ppid (view_of w) (oneshot_enter x)) as [[x1 r1] add]. cbn [fst] in O1.
    destruct (oneshot_exit x1) as [x2|] eqn:Eo; inversion H; subst; auto.
    apply (Upd _ o x2 x i); auto. eapply oneshot_exit_obj; eauto.
  - (* IsRunning *)
    destruct (nth_error (objs (ms w)) o) as [x|] eqn:Ex; [|inversion H; subst; auto].
    destruct (Forall2_nth_l _ _ _ _ _ F Ex) as (i & Ei & O).
    destruct (is_running_spec w x i I O) as (x1 & add & E & (_ & _ & O1) & _). rewrite E in H.
    inversion H; subst. eapply Upd; eauto.
  - (* EqC *)
    destruct (nth_error (objs (ms w)) a), (nth_error (objs (ms w)) b); inversion H; subst; auto.
  - (* HashEq *)
    destruct (nth_error (objs (ms w)) a) as [x|] eqn:Ex; [|inversion H; subst; auto].
    destruct (Forall2_nth_l _ _ _ _ _ F Ex) as (i & Ei & O).
    destruct (do_hash x) as [x1 h1] eqn:Hx.
    pose proof (do_hash_ok w x i O) as (O1 & _ & _). rewrite Hx in O1; cbn [fst] in O1.
    pose proof (upd_objs_ok _ _ _ _ _ _ F Ei O1) as F1.
    destruct (nth_error (upd_nth a x1 (objs (ms w))) b) as [y|] eqn:Ey; [|inversion H; subst; auto].
    destruct (Forall2_nth_l _ _ _ _ _ F1 Ey) as (j & Ej & Oy).
    destruct (do_hash y) as [y1 h2] eqn:Hy.
    pose proof (do_hash_ok w y j Oy) as (Oy1 & _ & _). rewrite Hy in Oy1; cbn [fst] in Oy1.
    inversion H; subst. cbn [with_objs objs].
    exists (upd_nth b y1 (upd_nth a x1 (objs (ms w)))), []. rewrite app_nil_r. splits; auto.
    eapply upd_objs_ok; eauto.
  - (* Set_ *)
    destruct (nth_error (objs (ms w)) o) as [x|] eqn:Ex; [|inversion H; subst; auto].
    destruct (Forall2_nth_l _ _ _ _ _ F Ex) as (i & Ei & O).
    destruct (do_setter_spec w x i s I O) as (x1 & r1 & add & scs1 & E & (_ & _ & O1) & _). rewrite E in H.
    inversion H; subst. eapply Upd; eauto.
  - (* Ppid *)
    destruct (nth_error (objs (ms w)) o) as [x|] eqn:Ex; [|inversion H; subst; auto].
    destruct (Forall2_nth_l _ _ _ _ _ F Ex) as (i & Ei & O).
    pose proof (do_ppid_obj w x i I O) as O1.
    destruct (do_ppid (view_of w) x) as [[x1 r1] add]. cbn [fst] in O1.
    inversion H; subst. eapply Upd; eauto.
  - (* CreateTime *)
    destruct (nth_error (objs (ms w)) o) as [x|] eqn:Ex; [|inversion H; subst; auto].
    destruct (Forall2_nth_l _ _ _ _ _ F Ex) as (i & Ei & O).
    pose proof (do_create_time_obj w (ms w) x i O) as [O1 Eo].
    destruct (do_create_time (view_of w) (ms w) x) as [[m2 x1] r1]. cbn [fst snd] in O1, Eo.
    inversion H; subst. eapply Upd; eauto. cbn [with_objs objs]. rewrite Eo. reflexivity.
  - (* BootTime *)
    cbn [do_boot_time] in H. inversion H; subst. apply Same. reflexivity.
  - (* ProcIter *)
    unfold proc_iter in H. destruct (sort_uniq (kv_pids (view_of w))) as [|p0 ps] eqn:Sa.
    + inversion H; subst; auto.
    + match type of H with context [iter_loop ?K ?a ?n ?os ?pm ?acc] =>
        destruct (iter_loop K a n os pm acc) as [[os' pm'] r'] eqn:L end.
      apply iter_loop_objs in L as [news [E Fn]]. inversion H; subst. cbn [objs].
      exists (objs (ms w)), news. splits; auto.
      eapply Forall_impl; [|exact Fn]. intros y Hy. left. exact Hy.
  - (* Wait *)
    destruct (nth_error (objs (ms w)) o) as [x|] eqn:Ex; [|inversion H; subst; auto].
    destruct (Forall2_nth_l _ _ _ _ _ F Ex) as (i & Ei & O).
    pose proof (do_wait_obj w x i vis O) as O1.
    destruct (do_wait (view_of w) x vis) as [x1 r1]. cbn [fst] in O1. inversion H; subst.
    apply (Upd _ o x1 x i); auto.
  - (* IterStart *)
    inversion H; subst. apply Same. reflexivity.
  - (* IterNext *)
    unfold iter_next in H. destruct (nth_error (gens (ms w)) g) as [ge|]; [|inversion H; subst; auto].
    destruct (g_done ge); [inversion H; subst; auto|].
    match type of H with context [match ?st with Some _ => _ | None => _ end] => destruct st as [[[m0 ls] pm]|] eqn:St end.
    + assert (Eo : objs m0 = objs (ms w)).
      { destruct (g_started ge); [inversion St; subst; reflexivity|].
        destruct (sort_uniq (kv_pids (view_of w))); [discriminate|]. inversion St; subst. reflexivity. }
      destruct (gen_loop (view_of w) ls (objs m0) pm) as [[[ls1 os1] pm1] r1] eqn:L.
      apply gen_loop_objs in L as [news [E Fn]]. rewrite Eo in E.
      assert (G : forall m, objs m = os1 ->
              exists upd news0, objs m = upd ++ news0 /\ Forall2 (obj_ok w) upd (ginc w) /\ Forall (fresh w) news0).
      { intros m Em. exists (objs (ms w)), news. rewrite Em. splits; auto.
        eapply Forall_impl; [|exact Fn]. intros y Hy. left. exact Hy. }
      destruct r1 as [[i|]|e|]; inversion H; subst; apply G; reflexivity.
    + inversion H; subst. apply Same. reflexivity.
  - (* WaitProcs *)
    destruct (nth_error (objs (ms w)) o) as [x|] eqn:Ex; [|inversion H; subst; auto].
    destruct (Forall2_nth_l _ _ _ _ _ F Ex) as (i & Ei & O).
    unfold do_wait_procs in H.
    pose proof (do_hash_ok w x i O) as (O0 & _ & _). destruct (do_hash x) as [x0 h0]. cbn [fst] in O0.
    pose proof (do_wait_obj w x0 i vis O0) as O1. destruct (do_wait (view_of w) x0 vis) as [x1 r1]. cbn [fst] in O1.
    destruct r1 as [u|e|].
    + destruct (is_running_spec w x1 i I O1) as (x2 & add & E & (_ & _ & O2) & _). rewrite E in H.
      inversion H; subst. apply (Upd _ o x2 x i); auto.
    + destruct e; inversion H; subst; apply (Upd _ o x1 x i); auto.
    + inversion H; subst. apply (Upd _ o x1 x i); auto.
  - (* Copy *)
    exfalso. eapply NC; reflexivity.
  - (* PickleDump *)
    destruct (nth_error (objs (ms w)) o); inversion H; subst; auto.
Qed.

(* a copy: the original is marked, the copy appended; both stay bound to the original's incarnation *)
Lemma mcall_copy_objs w o hw ok m1 r scs : Inv w -> mcall (view_of w) (ms w) (Copy o hw ok) = (m1, r, scs) ->
  exists upd news, objs m1 = upd ++ news /\ Forall2 (obj_ok w) upd (ginc w) /\
                   Forall2 (obj_ok w) news (new_ghosts w (Copy o hw ok) news).
Proof.
  intros I H. pose proof (inv_objs _ I) as F. cbn [mcall] in H.
  assert (Same : objs m1 = objs (ms w) -> exists upd news, objs m1 = upd ++ news /\ Forall2 (obj_ok w) upd (ginc w) /\
                   Forall2 (obj_ok w) news (new_ghosts w (Copy o hw ok) news)).
  { intros E. exists (objs (ms w)), []. rewrite app_nil_r. splits; auto. constructor. }
  destruct (nth_error (objs (ms w)) o) as [x|] eqn:Ex; [|inversion H; subst; auto].
  destruct (Forall2_nth_l _ _ _ _ _ F Ex) as (i & Ei & O).
  destruct ok; [|destruct hw; inversion H; subst; auto].
  destruct (oshot x); [|inversion H; subst; auto].
  inversion H; subst. cbn [with_objs objs].
  exists (upd_nth o (with_shared x) (objs (ms w))), [with_shared x]. splits; auto.
  - eapply upd_objs_ok; eauto; apply obj_ok_with_shared; auto.
  - cbn [new_ghosts map]. constructor; [|constructor].
    rewrite (nth_error_nth_default _ _ _ (-1) Ei). apply obj_ok_with_shared; auto.
Qed.

Lemma cstep_eq w c :
  cstep w c =
  ({| table := table w; hist := hist w; nextinc := nextinc w; btime := btime w;
      ms := fst (fst (mcall (view_of w) (ms w) c));
      ginc := ginc w ++ new_ghosts w c
                            (skipn (length (objs (ms w))) (objs (fst (fst (mcall (view_of w) (ms w) c)))));
      denied := denied w |},
   snd (fst (mcall (view_of w) (ms w) c)),
   map (tag w) (snd (mcall (view_of w) (ms w) c))).
Proof. unfold cstep. destruct (mcall (view_of w) (ms w) c) as [[m1 r] scs]. reflexivity. Qed.

Lemma step_call w c :
  step w (EC c) =
  ({| table := table w; hist := hist w; nextinc := nextinc w; btime := btime w;
      ms := fst (fst (mcall (view_of w) (ms w) c));
      ginc := ginc w ++ new_ghosts w c
                            (skipn (length (objs (ms w))) (objs (fst (fst (mcall (view_of w) (ms w) c)))));
      denied := denied w |},
   snd (fst (mcall (view_of w) (ms w) c)),
   map (tag w) (snd (mcall (view_of w) (ms w) c))).
Proof. cbn [step]. apply cstep_eq. Qed.

Lemma cstep_inv w c : Inv w -> Inv (fst (fst (cstep w c))).
Proof.
  intros I. rewrite cstep_eq. cbn [fst].
  destruct (mcall (view_of w) (ms w) c) as [[m1 r] scs] eqn:M. cbn [fst snd].
  assert (G : exists upd news, objs m1 = upd ++ news /\ Forall2 (obj_ok w) upd (ginc w) /\
                               Forall2 (obj_ok w) news (new_ghosts w c news)).
  { assert (D : (exists o hw ok, c = Copy o hw ok) \/ (forall o hw ok, c <> Copy o hw ok)).
    { destruct c; try (right; intros; discriminate). left; eauto. }
    destruct D as [(o & hw & ok & ->)|NC].
    - eapply mcall_copy_objs; eauto.
    - destruct (mcall_objs w c m1 r scs I NC M) as (upd & news & E & Fu & Fn).
      exists upd, news. splits; auto.
      assert (NG : new_ghosts w c news = map (ghost_of w) news) by (destruct c; try reflexivity; exfalso; eapply NC; reflexivity).
      rewrite NG. clear E NG. induction Fn as [|y news Hy Fn IH]; cbn [map]; constructor; auto.
      apply (fresh_ok w y I Hy). }
  destruct G as (upd & news & E & Fu & Fn).
  assert (Len : length upd = length (objs (ms w))).
  { rewrite (Forall2_len _ _ _ Fu). symmetry. apply (Forall2_len _ _ _ (inv_objs _ I)). }
  rewrite E, <- Len, skipn_app_exact.
  constructor; cbn [table hist nextinc ms ginc denied]; try apply I.
  rewrite E. apply Forall2_app.
  - eapply Forall2_impl; [|exact Fu]. intros x i O. eapply obj_ok_ext; [| |exact O]; reflexivity.
  - eapply Forall2_impl; [|exact Fn]. intros x i O. eapply obj_ok_ext; [| |exact O]; reflexivity.
Qed.

Lemma call_inv w c : Inv w -> Inv (next w (EC c)).
Proof. intros I. unfold next. cbn [step]. apply cstep_inv; auto. Qed.

Lemma ksteps_inv ks : forall w, Inv w -> wf_kevs w ks = true -> Inv (fold_left kstep ks w).
Proof.
  induction ks as [|k ks IH]; intros w I W; cbn [fold_left]; auto.
  cbn [wf_kevs] in W. apply andb_true_iff in W as [W1 W2]. apply IH; auto. apply kstep_inv; auto.
Qed.

Lemma race_inv w o s ks : Inv w -> wf_ev w (ER o s ks) = true -> Inv (next w (ER o s ks)).
Proof.
  intros I W. cbn [wf_ev] in W. unfold next. cbn [step].
  pose proof (cstep_inv w (SetProbe o) I) as I1.
  destruct (cstep w (SetProbe o)) as [[w1 r1] e1]. cbn [fst] in *.
  pose proof (ksteps_inv ks w1 I1 W) as I2.
  destruct r1; cbn [fst]; auto. apply cstep_inv; auto.
Qed.

Lemma next_inv w e : Inv w -> wf_ev w e = true -> Inv (next w e).
Proof.
  intros I W. destruct e as [k|c|o s ks].
  - apply kstep_inv; auto.
  - apply call_inv; auto.
  - apply race_inv; auto.
Qed.

Lemma inv0 : Inv world0.
Proof.
  constructor; cbn; try (intros; contradiction); try lia; constructor.
Qed.

Lemma run_from_inv h : forall w, Inv w -> wf_from w h = true -> Inv (run_from w h).
Proof.
  induction h as [|e h IH]; intros w I W; cbn [run_from fold_left]; auto.
  cbn [wf_from] in W. apply andb_true_iff in W as [W1 W2].
  apply IH; auto. apply next_inv; auto.
Qed.

Theorem run_inv h : wf_hist h = true -> Inv (run h).
Proof. intros W. apply run_from_inv; auto. apply inv0. Qed.

Lemma run_from_app w h1 h2 : run_from w (h1 ++ h2) = run_from (run_from w h1) h2.
Proof. unfold run_from. apply fold_left_app. Qed.

Lemma wf_from_app w h1 h2 :
  wf_from w (h1 ++ h2) = true -> wf_from w h1 = true /\ wf_from (run_from w h1) h2 = true.
Proof.
  revert w; induction h1 as [|e h1 IH]; intros w W; cbn [app wf_from run_from fold_left] in *; auto.
  apply andb_true_iff in W as [W1 W2]. apply IH in W2 as [W2 W3]. rewrite W1, W2. auto.
Qed.
