(* Entry points evaluated by the correspondence harness (props/C19.py). *)
From PV Require Export C19.Spec.

Definition jq (q : Q) : jv := JC "Q" [JZ (Qnum q); JZ (Zpos (Qden q))].
Definition jfres (f : fres) : jv :=
  match f with FC b => JB b | FAbsent => JC "Absent" [] | FError => JC "Error" [] end.

Definition jv_treading (r : treading) : jv :=
  JL [JB (tr_label r); jq (tr_cur r); jopt jq (tr_high r); jopt jq (tr_crit r)].
Definition jv_tdict (d : tdict) : jv :=
  JL (map (fun kv => JL [JB (fst kv); JL (map jv_treading (snd kv))]) d).
Definition jv_tentry (e : tentry) : jv :=
  JL [jfres (t_input e); jfres (t_name e); jfres (t_max e); jfres (t_crit e); jfres (t_label e)].
Definition jv_zentry (z : zentry) : jv :=
  JL [jfres (z_temp z); jfres (z_type z); JL (map (fun t => JL [jfres (tp_type t); jfres (tp_temp t)]) (z_trips z))].

Definition present_names {A} (names : list (kf bytes)) (of : bytes -> list A) : list (bytes * list A) :=
  flat_map (fun n => match of n with [] => [] | l => [(n, l)] end)
           (distinct (rev (somes (map (fun f => match f with Present n => Some n | _ => None end) names)))).

(* hwmon chips + thermal zones as the kernel shows them *)
Definition run_temps (chips : list kchip) (zones : list kzone) (fahr : bool) : jv :=
  let es := hwmon_entries chips in
  let zs := map zone_entry zones in
  JL [ JL [JL (map jv_tentry es); JL (map jv_zentry zs)];
       jv_outcome jv_tdict (sensors_temperatures es zs fahr);
       (if forallb kchip_ok chips && forallb kzone_ok zones then
          JC "Val" [jv_tdict (match es with
                              | [] => present_names (map kz_type zones) (fun n => spec_zones_of fahr n zones)
                              | _ => present_names (map kc_name chips) (fun n => spec_temps_of fahr n chips)
                              end)]
        else jnone);
       jbool (match es with
              | [] => fahr || no_zero_trip zones
              | _ => fahr || no_zero_threshold chips end) ].

(* class chips + coretemp platform chips (none of them also visible below /sys/class/hwmon) *)
Definition readable_sensor (c : kchip) : bool :=
  is_present (kc_name c) && existsb (fun s => match spec_milli (ks_input s) with Some _ => true | None => false end) (kc_sensors c).
Definition run_temps_coretemp (chips plat : list kchip) (zones : list kzone) (fahr : bool) : jv :=
  let es := hwmon_entries chips ++ hwmon_entries plat in
  let zs := map zone_entry zones in
  let all := chips ++ plat in
  JL [ JL [JL (map jv_tentry (hwmon_entries chips)); JL (map jv_zentry zs); JL (map jv_tentry (hwmon_entries plat))];
       jv_outcome jv_tdict (sensors_temperatures es zs fahr);
       (if forallb kchip_ok all && forallb kzone_ok zones && (existsb readable_sensor all) then
          JC "Val" [jv_tdict (present_names (map kc_name all) (fun n => spec_temps_of fahr n all))]
        else jnone);
       jbool (existsb readable_sensor plat) ].

(* arbitrary file contents: model only *)
Definition run_temps_raw (es : list tentry) (zs : list zentry) (fahr : bool) : jv :=
  JL [ jv_outcome jv_tdict (sensors_temperatures es zs fahr) ].

Definition jv_freading (r : freading) : jv := JL [JB (fr_label r); JZ (fr_cur r)].
Definition jv_fdict (d : list (bytes * list freading)) : jv :=
  JL (map (fun kv => JL [JB (fst kv); JL (map jv_freading (snd kv))]) d).
Definition jv_fentry (e : fentry) : jv := JL [jfres (f_input e); jfres (f_name e); jfres (f_label e)].

(* chips in psutil's basename order, each tagged nested (below device/) or direct *)
Definition run_fans (tagged : list (bool * kfanchip)) : jv :=
  let direct := map snd (filter (fun x => negb (fst x)) tagged) in
  let nested := map snd (filter (fun x => fst x) tagged) in
  let chips := map snd tagged in
  JL [ JL (map jv_fentry (fan_entries chips));
       jv_outcome jv_fdict (sensors_fans true (fan_entries chips));
       (if forallb kfanchip_ok chips then
          JC "Val" [jv_fdict (present_names (map kfc_name chips) (fun n => spec_fans_of n chips))]
        else jnone);
       jbool (match fan_entries direct, fan_entries nested with _ :: _, _ :: _ => true | _, _ => false end) ].
Definition run_fans_raw (es : list fentry) : jv :=
  JL [ jv_outcome jv_fdict (sensors_fans true es) ].

Definition jv_battery (b : battery) : jv :=
  JL [match bt_percent b with RInt z => JZ z | RFloat q => jq q end;
      match bt_secsleft b with
      | RUnlimited => JC "Enum" [JB (bs "BatteryTime"); JB (bs "POWER_TIME_UNLIMITED"); JZ (-2)]
      | RUnknown => JC "Enum" [JB (bs "BatteryTime"); JB (bs "POWER_TIME_UNKNOWN"); JZ (-1)]
      | RSecs z => JZ z
      end;
      jopt jbool (bt_plugged b)].
Definition jv_batfiles (b : batfiles) : jv :=
  JL [jfres (b_energy_now b); jfres (b_charge_now b); jfres (b_power_now b); jfres (b_current_now b);
      jfres (b_energy_full b); jfres (b_charge_full b); jfres (b_time_to_empty b); jfres (b_capacity b);
      jfres (b_status b)].

(* exact value of now/power*3600 of the reported battery (harness: float truncation hazard) *)
Definition secs_exact (b : kbat) : jv :=
  match spec_salt (kb_now b), spec_salt (kb_power b) with
  | Some n, Some w => if w =? 0 then jnone else jq (inject_Z (n * 3600) / inject_Z (Z.abs w))%Q
  | _, _ => jnone
  end.

Definition run_battery (dir_exists : bool) (l : supply) (ac0 ac : kf bool) : jv :=
  let listing := if dir_exists then Some (supply_listing l) else None in
  let chosen := pick_first (batteries l) in
  JL [ JL [JL (map (fun e => JL [JB (fst e); jv_batfiles (snd e)]) (supply_listing l));
           jfres (to_fres k_online ac0); jfres (to_fres k_online ac)];
       jv_outcome (jopt jv_battery) (sensors_battery true listing (to_fres k_online ac0) (to_fres k_online ac));
       (if supply_ok l then
          match (if dir_exists then chosen else None) with
          | None => JC "Val" [jnone]
          | Some (_, b) => if tte_unused b then JC "Val" [jopt jv_battery (spec_battery b ac0 ac)] else jnone
          end
        else jnone);
       match chosen with Some (_, b) => secs_exact b | None => jnone end;
       jbool (match chosen with Some (_, b) => neg_power_matters b ac0 ac | None => false end) ].
Definition run_battery_raw (listing : option (list (bytes * batfiles))) (ac0 ac : fres) : jv :=
  JL [ jv_outcome (jopt jv_battery) (sensors_battery true listing ac0 ac) ].

Definition jv_freq (f : freq) : jv := JL [jq (fq_cur f); jq (fq_min f); jq (fq_max f)].
Definition jv_policy (p : policy) : jv :=
  JL [jfres (p_scaling_cur p); jfres (p_cpuinfo_cur p); jfres (p_min p); jfres (p_max p); jfres (p_online p)].

Definition spec_mean (l : list freq) : option freq :=
  match l with
  | [] => None
  | _ => Some {| fq_cur := mean (map fq_cur l); fq_min := mean (map fq_min l); fq_max := mean (map fq_max l) |}
  end.

Fixpoint zip_cpuinfo (ms : list Q) (cs : list kcpu) : option (list freq) :=
  match ms, cs with
  | [], [] => Some []
  | m :: ms', Online _ mn mx :: cs' =>
    match zip_cpuinfo ms' cs' with
    | Some r => Some ({| fq_cur := m; fq_min := mhz (dec_val mn); fq_max := mhz (dec_val mx) |} :: r)
    | None => None
    end
  | _, _ => None
  end.

Definition run_cpufreq (sysfs : bool) (blocks : list cblock) (cpus : list kcpu) : jv :=
  let cpuinfo := FC (k_cpuinfo blocks) in
  let ps := map cpu_policy cpus in
  let m := cpu_freq_platform sysfs cpuinfo ps in
  let ms := spec_mhz_list blocks in
  let spec :=
    if cpuinfo_ok blocks && forallb kcpu_ok cpus then
      if sysfs then
        if Nat.eqb (length ms) (length cpus) then zip_cpuinfo ms cpus
        else Some (map spec_freq cpus)
      else Some (map (fun x => {| fq_cur := x; fq_min := 0; fq_max := 0 |}) ms)
    else None in
  JL [ JL [JB (k_cpuinfo blocks); JL (map jv_policy ps)];
       JL [jv_outcome (fun l => JL (map jv_freq l)) m;
           jv_outcome (jopt jv_freq) (do l <- m; Val (cpu_freq_mean l))];
       match spec with
       | Some l => JL [JC "Val" [JL (map jv_freq l)]; JC "Val" [jopt jv_freq (spec_mean l)]]
       | None => jnone
       end ].
Definition run_cpufreq_raw (sysfs : bool) (cpuinfo : fres) (ps : list policy) : jv :=
  let m := cpu_freq_platform sysfs cpuinfo ps in
  JL [ JL [jv_outcome (fun l => JL (map jv_freq l)) m;
           jv_outcome (jopt jv_freq) (do l <- m; Val (cpu_freq_mean l))] ].

Definition jz_opt := jopt JZ.
Definition spec_front (n : Z) : option Z := if 1 <=? n then Some n else None.

(* cpu_count(logical=True / False) *)
Definition run_cpucount (sysconf : option Z) (blocks : list cblock) (stat : list statline)
                        (lists : list (kf bytes)) : jv :=
  let cpuinfo := FC (k_cpuinfo blocks) in
  let st := FC (k_stat stat) in
  let ok := cpuinfo_ok blocks && forallb statline_ok stat && forallb (kf_ok text_ok) lists in
  JL [ JL [JB (k_cpuinfo blocks); JB (k_stat stat); JL (map (fun f => jfres (to_fres k_text f)) lists)];
       JL [jv_outcome jz_opt (omap cpu_count_front (cpu_count_logical sysconf cpuinfo st));
           jv_outcome jz_opt (omap cpu_count_front (cpu_count_cores (map (to_fres k_text) lists) cpuinfo))];
       (if ok then
          JL [JC "Val" [jz_opt (match sysconf with
                                | Some n => spec_front n
                                | None => if 0 <? n_processors blocks then Some (n_processors blocks)
                                          else spec_front (n_cpu_lines stat)
                                end)];
              (if forallb is_present lists then
                 JC "Val" [jz_opt (match lists with
                                   | [] => spec_front (spec_cores blocks)
                                   | _ => Some (Z.of_nat (length (distinct (map spec_text lists)))) end)]
               else jnone)]
        else jnone);
       jbool (no_processor_like blocks) ].
Definition run_cpucount_raw (sysconf : option Z) (cpuinfo stat : fres) (lists : list fres) : jv :=
  JL [ JL [jv_outcome jz_opt (omap cpu_count_front (cpu_count_logical sysconf cpuinfo stat));
           jv_outcome jz_opt (omap cpu_count_front (cpu_count_cores lists cpuinfo))] ].

Definition jv_stats (s : option Z * option Z * option Z * Z) : jv :=
  let '(c, i, f, y) := s in JL [jz_opt c; jz_opt i; jz_opt f; JZ y].

(* cpu_stats() and boot_time() over a printed /proc/stat *)
Definition run_stat (ls : list statline) : jv :=
  let st := FC (k_stat ls) in
  JL [ JB (k_stat ls);
       JL [jv_outcome jv_stats (cpu_stats st); jv_outcome jq (boot_time st)];
       (if forallb sl_ok ls then
          JL [ (if stat_ok ls then JC "Val" [jv_stats (first_ctxt ls, first_intr ls, first_softirq ls, 0)] else jnone);
               match first_btime ls with Some b => JC "Val" [jq (inject_Z b)] | None => jnone end ]
        else jnone) ].
Definition run_stat_raw (stat : fres) : jv :=
  JL [ JL [jv_outcome jv_stats (cpu_stats stat); jv_outcome jq (boot_time stat)] ].
