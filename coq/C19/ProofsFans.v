(* C19 -- sensors_fans() *)
From PV Require Import C19.Lib.

Definition fan_tag (name : kf bytes) (f : kfan) : option (bytes * freading) :=
  match name with Present m => option_map (pair m) (spec_fan f) | _ => None end.
Definition mk_fentry (name : kf bytes) (f : kfan) : fentry :=
  {| f_input := to_fres k_knum (kn_input f); f_name := to_fres k_text name;
     f_label := to_fres k_text (kn_label f) |}.
Definition has_input (fs : list kfan) : bool := existsb (fun f => is_present (kn_input f)) fs.

Lemma fan_chip_loop g name : kf_ok text_ok name = true -> forall fs d rest,
  forallb kfan_ok fs = true ->
  g = true \/ is_present name = true \/ has_input fs = false ->
  fans_loop g (map (mk_fentry name) fs ++ rest) d =
  fans_loop g rest (fold_left app_opt (map (fan_tag name) fs) d).
Proof.
  intros Hn. induction fs as [|f fs IH]; intros d rest H Hg; [reflexivity|].
  cbn [forallb] in H. apply andb_true_iff in H as [Hf Hfs].
  unfold kfan_ok in Hf. apply andb_true_iff in Hf as [Hi Hl].
  assert (Hg' : g = true \/ is_present name = true \/ has_input fs = false).
  { destruct Hg as [Hg|[Hg|Hg]]; auto. right. right. unfold has_input in *. cbn [existsb] in Hg.
    now apply orb_false_iff in Hg as [_ Hg]. }
  cbn [map app fans_loop fold_left]. cbn [mk_fentry f_input f_name f_label].
  unfold fan_tag at 2. unfold spec_fan.
  destruct (kn_input f) as [[neg ds|b]| |] eqn:E; cbn [kf_ok knum_nonneg_ok to_fres] in *.
  - destruct neg; [discriminate|]. cbn [k_knum app]. unfold py_int. rewrite parse_int_nl by exact Hi.
    cbn [of_option obind].
    destruct name as [m| |]; cbn [to_fres option_map app_opt kf_ok] in *.
    + rewrite strip_text by exact Hn. rewrite text_or_empty_spec by exact Hl. now apply IH.
    + destruct Hg as [->|[Hg|Hg]]; [now apply IH|discriminate|].
      unfold has_input in Hg. cbn [existsb] in Hg. rewrite E in Hg. discriminate.
    + destruct Hg as [->|[Hg|Hg]]; [now apply IH|discriminate|].
      unfold has_input in Hg. cbn [existsb] in Hg. rewrite E in Hg. discriminate.
  - discriminate.
  - destruct name; cbn [app_opt]; now apply IH.
  - destruct name; cbn [app_opt]; now apply IH.
Qed.

Lemma existsb_filter_false {A} (p q : A -> bool) l : existsb p l = false -> existsb p (filter q l) = false.
Proof.
  induction l as [|x l IH]; auto. cbn [existsb filter]. intros H.
  apply orb_false_iff in H as [Hx Hl]. destruct (q x); cbn [existsb]; auto. now rewrite Hx, IH.
Qed.
Lemma forallb_filter' {A} (p q : A -> bool) l : forallb p l = true -> forallb p (filter q l) = true.
Proof.
  induction l as [|x l IH]; auto. cbn [forallb filter]. intros H.
  apply andb_true_iff in H as [Hx Hl]. destruct (q x); cbn [forallb]; auto. now rewrite Hx, IH.
Qed.

Definition fan_stream (c : kfanchip) := map (fan_tag (kfc_name c)) (filter fan_visible (kfc_fans c)).

Lemma fan_chips_loop g chips : forallb kfanchip_ok chips = true ->
  g = true \/ fan_names_readable chips = true -> forall d,
  fans_loop g (fan_entries chips) d = Val (fold_left app_opt (flat_map fan_stream chips) d).
Proof.
  induction chips as [|c chips IH]; intros H Hg d; [reflexivity|].
  cbn [forallb] in H. apply andb_true_iff in H as [Hc Hcs].
  unfold kfanchip_ok in Hc. apply andb_true_iff in Hc as [Hn Hfs].
  unfold fan_entries. cbn [flat_map]. fold (fan_entries chips).
  unfold fanchip_entries. fold (mk_fentry (kfc_name c)).
  rewrite fan_chip_loop; [|exact Hn|now apply forallb_filter'|].
  - rewrite IH; [now rewrite fold_left_app|exact Hcs|].
    destruct Hg as [Hg|Hg]; [now left|right]. unfold fan_names_readable in *. cbn [forallb] in Hg.
    now apply andb_true_iff in Hg as [_ Hg].
  - destruct Hg as [Hg|Hg]; [now left|right]. unfold fan_names_readable in Hg. cbn [forallb] in Hg.
    apply andb_true_iff in Hg as [Hg _]. apply orb_true_iff in Hg as [Hg|Hg]; [now left|right].
    apply negb_true_iff in Hg. unfold has_input. now apply existsb_filter_false.
Qed.

Lemma invisible_fan f : fan_visible f = false -> spec_fan f = None.
Proof.
  unfold fan_visible, spec_fan. intros H.
  destruct (kn_input f) as [k| |]; cbn [exists_file] in H; auto;
    rewrite ?orb_true_r in H; cbn [orb] in H; try discriminate.
Qed.
Lemma somes_filter_fans fs : somes (map spec_fan (filter fan_visible fs)) = somes (map spec_fan fs).
Proof.
  induction fs as [|f fs IH]; [reflexivity|]. cbn [filter map].
  destruct (fan_visible f) eqn:E; cbn [map somes].
  - now rewrite IH.
  - rewrite (invisible_fan f E). exact IH.
Qed.

Lemma sel_fan_stream n chips : sel n (flat_map fan_stream chips) = spec_fans_of n chips.
Proof.
  induction chips as [|c chips IH]; [reflexivity|]. cbn [flat_map]. rewrite sel_app, IH.
  unfold spec_fans_of at 2. cbn [flat_map]. f_equal.
  unfold fan_stream, fan_tag.
  rewrite <- (map_map spec_fan (fun o => match kfc_name c with Present m => option_map (pair m) o | _ => None end)).
  rewrite sel_tagged. now rewrite somes_filter_fans.
Qed.

(* g = true: the repaired code; g = false: the code as it is, for layouts in which every chip
   with a readable fan has a readable name file *)
Theorem fans_values g chips : forallb kfanchip_ok chips = true ->
  g = true \/ fan_names_readable chips = true ->
  exists d, sensors_fans g (fan_entries chips) = Val d /\
    forall n, dict_get n d = match spec_fans_of n chips with [] => None | l => Some l end.
Proof.
  intros Hok Hg. unfold sensors_fans. rewrite fan_chips_loop by assumption.
  eexists. split; [reflexivity|]. intros n. now rewrite dict_get_fold_nil, sel_fan_stream.
Qed.

Definition fans_witness : list kfanchip :=
  [{| kfc_name := Absent;
      kfc_fans := [{| kn_input := Present (KN false (bs "1200")); kn_label := Absent; kn_other := false |}] |}].
(* the code as it is: a missing name file makes the whole call fail *)
Theorem fans_name_refuted :
  exists chips, forallb kfanchip_ok chips = true /\ sensors_fans false (fan_entries chips) = Exc OSError
                /\ sensors_fans true (fan_entries chips) = Val [].
Proof. exists fans_witness. repeat split. Qed.

Example fans_values_example :
  let chips := [{| kfc_name := Present (bs "it8728");
      kfc_fans := [{| kn_input := Present (KN false (bs "1200")); kn_label := Present (bs "CPU Fan"); kn_other := false |};
                   {| kn_input := Unreadable; kn_label := Absent; kn_other := false |}] |}] in
  forallb kfanchip_ok chips = true /\ fan_names_readable chips = true /\
  spec_fans_of (bs "it8728") chips = [{| fr_label := bs "CPU Fan"; fr_cur := 1200 |}].
Proof. cbv zeta. repeat split. Qed.
