(* C19 -- what the kernel's hardware tree and CPU tables hold, how the kernel
   prints them, and the answers the property text demands.  Written from the
   property text and the kernel ABI documents (Documentation/hwmon/sysfs-interface,
   ABI/testing/sysfs-class-power, sysfs-class-thermal, admin-guide/pm/cpufreq,
   proc(5) for /proc/stat and /proc/cpuinfo), not from psutil's code. *)
From PV Require Export C19.Model.

(* ------------------------------------------------------------ sysfs attributes *)
(* presence of an attribute file *)
Inductive kf (A : Type) := Present (a : A) | Absent | Unreadable.
Arguments Present {A} a.
Arguments Absent {A}.
Arguments Unreadable {A}.

(* numeric attribute: "%d\n"; or (broken drivers) text that is not a number *)
Inductive knum := KN (neg : bool) (ds : bytes) | KJunk (b : bytes).

Definition is_gl (c : Z) : bool := (97 <=? c) && (c <=? 122) && negb (c =? 110).
Definition knum_ok (k : knum) : bool :=
  match k with KN _ ds => is_dec ds | KJunk b => forallb is_gl b end.
Definition knum_nonneg_ok (k : knum) : bool :=
  match k with KN false ds => is_dec ds | _ => false end.

Definition k_knum (k : knum) : bytes :=
  match k with
  | KN neg ds => (if neg then [45] else []) ++ ds ++ [10]
  | KJunk b => b
  end.
Definition sval (neg : bool) (ds : bytes) : Z := if neg then - dec_val ds else dec_val ds.

(* text attribute (name, label, type): "%s\n", no leading/trailing blank *)
Definition text_ok (n : bytes) : bool :=
  match n with [] => true | c :: _ => negb (is_ws c) && negb (is_ws (last n 0)) end.
Definition k_text (n : bytes) : bytes := n ++ [10].

Definition kf_ok {A} (ok : A -> bool) (f : kf A) : bool :=
  match f with Present a => ok a | _ => true end.
Definition to_fres {A} (pr : A -> bytes) (f : kf A) : fres :=
  match f with Present a => FC (pr a) | Absent => FAbsent | Unreadable => FError end.

(* value of a numeric attribute in thousandths (millidegrees -> degrees, kHz -> MHz) *)
Definition spec_milli (f : kf knum) : option Q :=
  match f with
  | Present (KN neg ds) => Some (inject_Z (sval neg ds) / 1000)%Q
  | _ => None
  end.

(* ------------------------------------------------------------ temperatures *)
(* [ks_other]: some other attribute of this sensor exists (tempN_min, tempN_alarm, ...) *)
Record ksensor := { ks_input : kf knum; ks_max : kf knum; ks_crit : kf knum; ks_label : kf bytes; ks_other : bool }.
Record kchip := { kc_name : kf bytes; kc_sensors : list ksensor }.

Definition ksensor_ok (s : ksensor) : bool :=
  kf_ok knum_ok (ks_input s) && kf_ok knum_ok (ks_max s) && kf_ok knum_ok (ks_crit s)
  && kf_ok text_ok (ks_label s).
Definition kchip_ok (c : kchip) : bool := kf_ok text_ok (kc_name c) && forallb ksensor_ok (kc_sensors c).

(* a sensor is listed when at least one tempN_* file exists (readable or not) *)
Definition exists_file {A} (f : kf A) : bool := match f with Absent => false | _ => true end.
Definition sensor_visible (s : ksensor) : bool :=
  ks_other s || exists_file (ks_input s) || exists_file (ks_max s) || exists_file (ks_crit s) || exists_file (ks_label s).
Definition chip_entries (c : kchip) : list tentry :=
  map (fun s => {| t_input := to_fres k_knum (ks_input s); t_name := to_fres k_text (kc_name c);
                   t_max := to_fres k_knum (ks_max s); t_crit := to_fres k_knum (ks_crit s);
                   t_label := to_fres k_text (ks_label s) |}) (filter sensor_visible (kc_sensors c)).
Definition hwmon_entries (chips : list kchip) : list tentry := flat_map chip_entries chips.

(* /sys/devices/platform/coretemp.N/hwmon/hwmonK/tempM_* : the code before commit 64999d5 appended every such FILE
   name to the list of basenames (after the sort), so the entry's "<name>_input" never existed.  (Now the platform
   basenames not already listed below /sys/class/hwmon are appended: the entry list is
   [hwmon_entries chips ++ hwmon_entries plat].) *)
Definition absent_entry (name : kf bytes) : tentry :=
  {| t_input := FAbsent; t_name := to_fres k_text name; t_max := FAbsent; t_crit := FAbsent; t_label := FAbsent |}.
Definition n_files (s : ksensor) : nat :=
  ((if ks_other s then 1 else 0) + (if exists_file (ks_input s) then 1 else 0) + (if exists_file (ks_max s) then 1 else 0)
   + (if exists_file (ks_crit s) then 1 else 0) + (if exists_file (ks_label s) then 1 else 0))%nat.
Definition coretemp_names (plat : list kchip) : list tentry :=
  flat_map (fun c => flat_map (fun s => repeat (absent_entry (kc_name c)) (n_files s)) (kc_sensors c)) plat.

(* degrees C, or Fahrenheit = C*9/5+32 *)
Definition spec_unit (fahr : bool) (c : Q) : Q := if fahr then (c * 9 / 5 + 32)%Q else c.

(* a missing high or critical threshold is filled from the other *)
Definition spec_fill (hi cr : option Q) : option Q * option Q :=
  match hi, cr with
  | Some h, None => (Some h, Some h)
  | None, Some c => (Some c, Some c)
  | _, _ => (hi, cr)
  end.

Definition spec_text (f : kf bytes) : bytes := match f with Present l => l | _ => [] end.

Definition spec_reading (fahr : bool) (label : bytes) (cur : kf knum) (hi cr : option Q) : option treading :=
  match spec_milli cur with
  | None => None      (* reading missing / unreadable / not a number: sensor skipped *)
  | Some c =>
    let '(h, k) := spec_fill (option_map (spec_unit fahr) hi) (option_map (spec_unit fahr) cr) in
    Some {| tr_label := label; tr_cur := spec_unit fahr c; tr_high := h; tr_crit := k |}
  end.

Definition spec_sensor (fahr : bool) (s : ksensor) : option treading :=
  spec_reading fahr (spec_text (ks_label s)) (ks_input s) (spec_milli (ks_max s)) (spec_milli (ks_crit s)).

Fixpoint somes {A} (l : list (option A)) : list A :=
  match l with
  | [] => []
  | Some a :: r => a :: somes r
  | None :: r => somes r
  end.

Definition name_is {A} (n : bytes) (name : kf bytes) (l : list A) : list A :=
  match name with Present m => if beqb n m then l else [] | _ => [] end.

(* what must be reported under unit name n *)
Definition spec_temps_of (fahr : bool) (n : bytes) (chips : list kchip) : list treading :=
  flat_map (fun c => name_is n (kc_name c) (somes (map (spec_sensor fahr) (kc_sensors c)))) chips.

(* thresholds whose value is exactly 0 (see the zero-threshold finding) *)
Definition zero_milli (f : kf knum) : bool :=
  match f with Present (KN _ ds) => dec_val ds =? 0 | _ => false end.
Definition no_zero_threshold (chips : list kchip) : bool :=
  forallb (fun c => forallb (fun s => negb (zero_milli (ks_max s)) && negb (zero_milli (ks_crit s))) (kc_sensors c)) chips.

(* thermal zones (used only when hwmon shows no temperature file) *)
Record ktrip := { kt_type : kf bytes; kt_temp : kf knum }.
Record kzone := { kz_temp : kf knum; kz_type : kf bytes; kz_trips : list ktrip }.
Definition ktrip_ok (t : ktrip) : bool := kf_ok text_ok (kt_type t) && kf_ok knum_ok (kt_temp t).
Definition kzone_ok (z : kzone) : bool :=
  kf_ok knum_ok (kz_temp z) && kf_ok text_ok (kz_type z) && forallb ktrip_ok (kz_trips z).
Definition zone_entry (z : kzone) : zentry :=
  {| z_temp := to_fres k_knum (kz_temp z); z_type := to_fres k_text (kz_type z);
     z_trips := map (fun t => {| tp_type := to_fres k_text (kt_type t); tp_temp := to_fres k_knum (kt_temp t) |}) (kz_trips z) |}.

(* the trip point of the given type that the iteration reaches last; its
   temperature scaled ONCE *)
Definition spec_trip (ty : bytes) (trips : list ktrip) : option Q :=
  match find (fun t => beqb (spec_text (kt_type t)) ty) (rev trips) with
  | Some t => spec_milli (kt_temp t)
  | None => None
  end.
Definition spec_zone (fahr : bool) (z : kzone) : option treading :=
  spec_reading fahr [] (kz_temp z) (spec_trip (bs "high") (kz_trips z)) (spec_trip (bs "critical") (kz_trips z)).
Definition spec_zones_of (fahr : bool) (n : bytes) (zs : list kzone) : list treading :=
  flat_map (fun z => name_is n (kz_type z) (somes [spec_zone fahr z])) zs.
Definition no_zero_trip (zs : list kzone) : bool :=
  forallb (fun z => forallb (fun t => negb (zero_milli (kt_temp t))) (kz_trips z)) zs.

(* ------------------------------------------------------------ fans *)
Record kfan := { kn_input : kf knum; kn_label : kf bytes; kn_other : bool }.
Record kfanchip := { kfc_name : kf bytes; kfc_fans : list kfan }.
Definition kfan_ok (f : kfan) : bool := kf_ok knum_nonneg_ok (kn_input f) && kf_ok text_ok (kn_label f).
Definition kfanchip_ok (c : kfanchip) : bool := kf_ok text_ok (kfc_name c) && forallb kfan_ok (kfc_fans c).
Definition fan_visible (f : kfan) : bool := kn_other f || exists_file (kn_input f) || exists_file (kn_label f).
Definition fanchip_entries (c : kfanchip) : list fentry :=
  map (fun f => {| f_input := to_fres k_knum (kn_input f); f_name := to_fres k_text (kfc_name c);
                   f_label := to_fres k_text (kn_label f) |}) (filter fan_visible (kfc_fans c)).
Definition fan_entries (chips : list kfanchip) : list fentry := flat_map fanchip_entries chips.

Definition spec_fan (f : kfan) : option freading :=
  match kn_input f with
  | Present (KN _ ds) => Some {| fr_label := spec_text (kn_label f); fr_cur := dec_val ds |}
  | _ => None
  end.
Definition spec_fans_of (n : bytes) (chips : list kfanchip) : list freading :=
  flat_map (fun c => name_is n (kfc_name c) (somes (map spec_fan (kfc_fans c)))) chips.

Definition is_present {A} (f : kf A) : bool := match f with Present _ => true | _ => false end.
(* every chip that has a readable fan also has a readable name file *)
Definition fan_names_readable (chips : list kfanchip) : bool :=
  forallb (fun c => is_present (kfc_name c) || negb (existsb (fun f => is_present (kn_input f)) (kfc_fans c))) chips.

(* ------------------------------------------------------------ battery *)
(* a quantity that drivers expose under one of two names (energy_* / charge_*, power_now / current_now) *)
Record kalt := { a_first : kf bytes; a_second : kf bytes }.
Definition dec_ok (f : kf bytes) : bool := kf_ok is_dec f.
Definition kalt_ok (a : kalt) : bool := dec_ok (a_first a) && dec_ok (a_second a).
Definition k_dec (ds : bytes) : bytes := ds ++ [10].
Definition spec_alt (a : kalt) : option Z :=
  match a_first a with
  | Present ds => Some (dec_val ds)
  | _ => match a_second a with Present ds => Some (dec_val ds) | _ => None end
  end.

Inductive kstatus := StDischarging | StCharging | StFull | StNotCharging | StUnknown.
Definition k_status (s : kstatus) : bytes :=
  match s with
  | StDischarging => bs "Discharging" | StCharging => bs "Charging" | StFull => bs "Full"
  | StNotCharging => bs "Not charging" | StUnknown => bs "Unknown"
  end ++ [10].

(* power_supply integer attributes are SIGNED (ABI/testing/sysfs-class-power): fuel gauges (bq27xxx, sbs-battery,
   Chromebook / Android drivers) report a negative current_now / power_now while discharging and
   time_to_empty_now = -1 when unknown; the text may carry a '+', and surrounding blanks *)
Inductive sgn := SgNone | SgPlus | SgMinus.
Record snum := { sn_lead : bytes; sn_sign : sgn; sn_digits : bytes; sn_trail : bytes }.
Definition is_blank (c : Z) : bool := (c =? 32) || (c =? 9).
Definition snum_ok (x : snum) : bool :=
  forallb is_blank (sn_lead x) && is_dec (sn_digits x) && forallb is_blank (sn_trail x).
Definition sgn_bytes (g : sgn) : bytes := match g with SgNone => [] | SgPlus => [43] | SgMinus => [45] end.
Definition k_snum (x : snum) : bytes := sn_lead x ++ sgn_bytes (sn_sign x) ++ sn_digits x ++ sn_trail x ++ [10].
Definition snum_val (x : snum) : Z :=
  match sn_sign x with SgMinus => - dec_val (sn_digits x) | _ => dec_val (sn_digits x) end.

(* a battery quantity under its two alternative names *)
Record salt := { s_first : kf snum; s_second : kf snum }.
Definition salt_ok (a : salt) : bool := kf_ok snum_ok (s_first a) && kf_ok snum_ok (s_second a).
Definition spec_salt (a : salt) : option Z :=
  match s_first a with
  | Present x => Some (snum_val x)
  | _ => match s_second a with Present x => Some (snum_val x) | _ => None end
  end.

Record kbat := { kb_now : salt; kb_power : salt; kb_full : salt; kb_tte : kf snum;
                 kb_capacity : kf bytes; kb_status : kf kstatus }.
Definition kbat_ok (b : kbat) : bool :=
  salt_ok (kb_now b) && salt_ok (kb_power b) && salt_ok (kb_full b) && kf_ok snum_ok (kb_tte b) && dec_ok (kb_capacity b).
Definition bat_files (b : kbat) : batfiles :=
  {| b_energy_now := to_fres k_snum (s_first (kb_now b)); b_charge_now := to_fres k_snum (s_second (kb_now b));
     b_power_now := to_fres k_snum (s_first (kb_power b)); b_current_now := to_fres k_snum (s_second (kb_power b));
     b_energy_full := to_fres k_snum (s_first (kb_full b)); b_charge_full := to_fres k_snum (s_second (kb_full b));
     b_time_to_empty := to_fres k_snum (kb_tte b); b_capacity := to_fres k_dec (kb_capacity b);
     b_status := to_fres k_status (kb_status b) |}.

(* mains adapter "online" attribute: "1\n" / "0\n" ; AC0 is looked at before AC *)
Definition k_online (b : bool) : bytes := [if b then 49 else 48; 10].
Definition spec_mains (ac0 ac : kf bool) : option bool :=
  match ac0 with Present b => Some b | _ => match ac with Present b => Some b | _ => None end end.

Definition spec_plugged (ac0 ac : kf bool) (st : kf kstatus) : option bool :=
  match spec_mains ac0 ac with
  | Some b => Some b
  | None =>
    match st with
    | Present StDischarging => Some false
    | Present StCharging | Present StFull => Some true
    | _ => None
    end
  end.

(* percent = now/full*100 (0 when full is 0), else the kernel's own "capacity";
   seconds left = now/|power|*3600 (whole seconds; the sign of power_now / current_now only tells the direction of
   the flow), UNLIMITED on mains, UNKNOWN when it cannot be computed (power 0 or unknown);
   None when there is nothing to compute a percentage from *)
Definition spec_battery (b : kbat) (ac0 ac : kf bool) : option battery :=
  let percent :=
    match spec_salt (kb_full b), spec_salt (kb_now b) with
    | Some f, Some n => Some (RFloat (if f =? 0 then 0%Q else (100 * inject_Z n / inject_Z f)%Q))
    | _, _ => match kb_capacity b with Present ds => Some (RInt (dec_val ds)) | _ => None end
    end in
  match percent with
  | None => None
  | Some p =>
    let plugged := spec_plugged ac0 ac (kb_status b) in
    let secs :=
      match plugged with
      | Some true => RUnlimited
      | _ =>
        match spec_salt (kb_now b), spec_salt (kb_power b) with
        | Some n, Some w => if w =? 0 then RUnknown else RSecs (Z.quot (n * 3600) (Z.abs w))
        | _, _ => RUnknown
        end
      end in
    Some {| bt_percent := p; bt_secsleft := secs; bt_plugged := plugged |}
  end.

(* the property text says nothing about time_to_empty_now: batteries where psutil would use a non-negative value
   of it (now or power unknown, file present) are outside the specification; a negative value (-1 = unknown)
   means UNKNOWN, as the specification says anyway *)
Definition tte_unused (b : kbat) : bool :=
  match kb_tte b with Present x => snum_val x <? 0 | _ => true end
  || match spec_salt (kb_now b), spec_salt (kb_power b) with Some _, Some _ => true | _, _ => false end.

(* finding: a NEGATIVE power_now / current_now (discharging, as signed fuel gauges report it) that is actually used
   (not on mains, energy known) and large enough for a non-zero answer *)
Definition neg_power_matters (b : kbat) (ac0 ac : kf bool) : bool :=
  match spec_plugged ac0 ac (kb_status b) with
  | Some true => false
  | _ =>
    match spec_salt (kb_now b), spec_salt (kb_power b) with
    | Some n, Some w => (w <? 0) && negb (Z.quot (n * 3600) (Z.abs w) =? 0)
    | _, _ => false
    end
  end.

(* /sys/class/power_supply: entries in directory order; None = not a battery (mains, USB, ...) *)
Definition supply := list (bytes * option kbat).
Definition supply_ok (l : supply) : bool :=
  forallb (fun e => match snd e with
                    | Some b => is_battery_name (fst e) && kbat_ok b
                    | None => negb (is_battery_name (fst e))
                    end) l.
Definition dummy_files : batfiles :=
  {| b_energy_now := FAbsent; b_charge_now := FAbsent; b_power_now := FAbsent; b_current_now := FAbsent;
     b_energy_full := FAbsent; b_charge_full := FAbsent; b_time_to_empty := FAbsent; b_capacity := FAbsent;
     b_status := FAbsent |}.
Definition supply_listing (l : supply) : list (bytes * batfiles) :=
  map (fun e => (fst e, match snd e with Some b => bat_files b | None => dummy_files end)) l.
Definition batteries (l : supply) : list (bytes * kbat) :=
  flat_map (fun e => match snd e with Some b => [(fst e, b)] | None => [] end) l.

(* the battery reported is the first in name order *)
Fixpoint pick_first (l : list (bytes * kbat)) : option (bytes * kbat) :=
  match l with
  | [] => None
  | x :: r =>
    match pick_first r with
    | Some y => if bytes_ltb (fst y) (fst x) then Some y else Some x
    | None => Some x
    end
  end.

(* ------------------------------------------------------------ cpufreq *)
Inductive kcpu :=
| Online (cur : kalt) (mn mx : bytes)   (* scaling_cur_freq | cpuinfo_cur_freq ; scaling_min_freq ; scaling_max_freq (kHz) *)
| Offline.                               (* cpufreq directory without frequency files, cpuN/online = 0 *)
Definition kcpu_ok (c : kcpu) : bool :=
  match c with
  | Online cur mn mx => kalt_ok cur && (is_present (a_first cur) || is_present (a_second cur)) && is_dec mn && is_dec mx
  | Offline => true
  end.
Definition cpu_policy (c : kcpu) : policy :=
  match c with
  | Online cur mn mx =>
    {| p_scaling_cur := to_fres k_dec (a_first cur); p_cpuinfo_cur := to_fres k_dec (a_second cur);
       p_min := FC (k_dec mn); p_max := FC (k_dec mx); p_online := FC (k_online true) |}
  | Offline =>
    {| p_scaling_cur := FAbsent; p_cpuinfo_cur := FAbsent; p_min := FAbsent; p_max := FAbsent;
       p_online := FC (k_online false) |}
  end.
Definition mhz (khz : Z) : Q := (inject_Z khz / 1000)%Q.
Definition spec_freq (c : kcpu) : freq :=
  match c with
  | Online cur mn mx =>
    {| fq_cur := mhz (match spec_alt cur with Some k => k | None => 0 end);
       fq_min := mhz (dec_val mn); fq_max := mhz (dec_val mx) |}
  | Offline => {| fq_cur := 0; fq_min := 0; fq_max := 0 |}
  end.

Definition qsum_r (l : list Q) : Q := fold_right Qplus 0%Q l.
Definition mean (l : list Q) : Q := (qsum_r l / inject_Z (Z.of_nat (length l)))%Q.
Definition freq_eq (a b : freq) : Prop :=
  (fq_cur a == fq_cur b)%Q /\ (fq_min a == fq_min b)%Q /\ (fq_max a == fq_max b)%Q.

(* ------------------------------------------------------------ /proc/stat *)
Inductive statline :=
| SCpu (label : bytes) (rest : bytes)    (* "cpu" / "cpuN" + "  1 2 3 ..." *)
| SIntr (total : bytes) (rest : bytes)
| SCtxt (n : bytes)
| SBtime (n : bytes)
| SSoftirq (total : bytes) (rest : bytes)
| SOther (key : bytes) (rest : bytes).   (* processes, procs_running, procs_blocked, page, swap ... *)

Definition is_lower (c : Z) : bool := (97 <=? c) && (c <=? 122).
Definition is_lower_dig_us (c : Z) : bool := is_lower c || is_digit c || (c =? 95).
(* rest of a line: " 12 34 ..." -- digits and single blanks, no newline *)
Definition rest_ok (r : bytes) : bool := forallb (fun c => is_digit c || (c =? 32)) r.
Definition cpuN_like (k : bytes) : bool :=
  match k with 99 :: 112 :: 117 :: d :: _ => is_digit d | _ => false end.
Definition other_key_ok (k : bytes) : bool :=
  forallb is_lower_dig_us k && negb (cpuN_like k) && negb (prefixb (bs "ctxt") k) && negb (prefixb (bs "intr") k)
  && negb (prefixb (bs "softirq") k) && negb (prefixb (bs "btime") k)
  && match k with [] => false | _ => true end.
Definition statline_ok (l : statline) : bool :=
  match l with
  | SCpu lab rest => all_digits lab && rest_ok rest
  | SIntr t rest | SSoftirq t rest => is_dec t && rest_ok rest
  | SCtxt n | SBtime n => is_dec n
  | SOther k rest => other_key_ok k && rest_ok rest
  end.
Definition k_statline (l : statline) : bytes :=
  match l with
  | SCpu lab rest => bs "cpu" ++ lab ++ 32 :: rest ++ [10]
  | SIntr t rest => bs "intr " ++ t ++ rest ++ [10]
  | SCtxt n => bs "ctxt " ++ n ++ [10]
  | SBtime n => bs "btime " ++ n ++ [10]
  | SSoftirq t rest => bs "softirq " ++ t ++ rest ++ [10]
  | SOther k rest => k ++ 32 :: rest ++ [10]
  end.
Definition k_stat (ls : list statline) : bytes := concat (map k_statline ls).

(* first line of each kind *)
Fixpoint first_ctxt (ls : list statline) : option Z :=
  match ls with [] => None | SCtxt n :: _ => Some (dec_val n) | _ :: r => first_ctxt r end.
Fixpoint first_intr (ls : list statline) : option Z :=
  match ls with [] => None | SIntr t _ :: _ => Some (dec_val t) | _ :: r => first_intr r end.
Fixpoint first_softirq (ls : list statline) : option Z :=
  match ls with [] => None | SSoftirq t _ :: _ => Some (dec_val t) | _ :: r => first_softirq r end.
Fixpoint first_btime (ls : list statline) : option Z :=
  match ls with [] => None | SBtime n :: _ => Some (dec_val n) | _ :: r => first_btime r end.

(* one line of each kind, as every kernel prints *)
Fixpoint count_kind (f : statline -> bool) (ls : list statline) : nat :=
  match ls with [] => O | l :: r => (if f l then 1 else 0) + count_kind f r end.
Definition is_ctxt l := match l with SCtxt _ => true | _ => false end.
Definition is_intr l := match l with SIntr _ _ => true | _ => false end.
Definition is_softirq l := match l with SSoftirq _ _ => true | _ => false end.
Definition stat_ok (ls : list statline) : bool :=
  forallb statline_ok ls && Nat.eqb (count_kind is_ctxt ls) 1 && Nat.eqb (count_kind is_intr ls) 1
  && Nat.eqb (count_kind is_softirq ls) 1.

(* the counters of intr / softirq lines are followed by nothing or by " n n n ..." *)
Definition sp_or_nil (r : bytes) : bool := match r with [] => true | c :: _ => c =? 32 end.
Definition sl_ok (l : statline) : bool :=
  statline_ok l && match l with SIntr _ r | SSoftirq _ r => sp_or_nil r | _ => true end.
Definition is_btime l := match l with SBtime _ => true | _ => false end.
Definition stat_ok' (ls : list statline) : bool := forallb sl_ok ls && stat_ok ls.

(* number of per-CPU lines "cpuN ..." *)
Definition n_cpu_lines (ls : list statline) : Z :=
  fold_right (fun l a => match l with SCpu (_ :: _) _ => a + 1 | _ => a end) 0 ls.

(* ------------------------------------------------------------ /proc/cpuinfo *)
(* arch/x86/kernel/cpu/proc.c and arch/arm/kernel/setup.c: blocks of "key<TAB>[<TAB>]: value" lines, each block
   closed by an empty line.  x86: one block per logical CPU (processor, cpu MHz, physical id, core id,
   cpu cores among many others).  ARM: "processor : N" blocks, plus (kernels < 3.8) a "Processor : <model>"
   header line and a trailing Features/Hardware block. *)
Inductive cline :=
| CProcessor (n : bytes)
| CMhz (ip fp : bytes)               (* "%u.%03u" *)
| CPhysId (n : bytes)
| CCoreId (n : bytes)
| CCores (n : bytes)
| COther (key : bytes) (two_tabs : bool) (value : bytes).
Definition cblock := list cline.

Definition ckey (l : cline) : bytes :=
  match l with
  | CProcessor _ => bs "processor" | CMhz _ _ => bs "cpu MHz" | CPhysId _ => bs "physical id"
  | CCoreId _ => bs "core id" | CCores _ => bs "cpu cores" | COther k _ _ => k
  end.
Definition ctabs (l : cline) : bytes :=
  match l with
  | CMhz _ _ | CCoreId _ => [9]
  | COther _ t _ => if t then [9] else []
  | _ => []
  end.
Definition cvalue (l : cline) : bytes :=
  match l with
  | CProcessor n | CPhysId n | CCoreId n | CCores n => n
  | CMhz ip fp => ip ++ 46 :: fp
  | COther _ _ v => v
  end.
Definition k_cline (l : cline) : bytes := ckey l ++ 9 :: ctabs l ++ 58 :: 32 :: cvalue l ++ [10].
Definition k_cblock (b : cblock) : bytes := concat (map k_cline b) ++ [10].
Definition k_cpuinfo (bs_ : list cblock) : bytes := concat (map k_cblock bs_).

Definition key_char (c : Z) : bool := (32 <=? c) && (c <=? 126) && negb (c =? 58).
Definition key_ok (k : bytes) : bool :=
  match k with [] => false | c :: _ => negb (c =? 32) && forallb key_char k end.
Definition value_ok (v : bytes) : bool := forallb (fun c => (32 <=? c) && (c <=? 126)) v.
(* an "other" line is none of the typed ones *)
Definition cline_ok (l : cline) : bool :=
  match l with
  | CProcessor n | CPhysId n | CCoreId n | CCores n => is_dec n
  | CMhz ip fp => is_dec ip && is_dec fp
  | COther k _ v =>
    key_ok k && value_ok v && negb (prefixb (bs "processor") k) && negb (prefixb (bs "cpu mhz") (lower k))
    && negb (prefixb (bs "physical id") (lower k)) && negb (prefixb (bs "cpu cores") (lower k))
  end.
Definition cpuinfo_ok (blocks : list cblock) : bool := forallb (forallb cline_ok) blocks.

(* an "other" key that reads "processor..." when lower-cased: the ARM "Processor : ARMv7 ..." model line
   (only the code before commit d196a16 was sensitive to it) *)
Definition processor_like (l : cline) : bool :=
  match l with COther k _ _ => prefixb (bs "processor") (lower k) | _ => false end.
Definition no_processor_like (blocks : list cblock) : bool :=
  forallb (forallb (fun l => negb (processor_like l))) blocks.

Definition all_lines (blocks : list cblock) : list cline := concat blocks.

(* number of logical CPUs listed = number of "processor : N" lines *)
Definition n_processors (blocks : list cblock) : Z :=
  Z.of_nat (length (filter (fun l => match l with CProcessor _ => true | _ => false end) (all_lines blocks))).

(* "cpu MHz" values in file order *)
Definition mhz_value (ip fp : bytes) : Q :=
  match Z.pow 10 (Z.of_nat (length fp)) with
  | Zpos d => Qmake (dec_val ip * Zpos d + dec_val fp) d
  | _ => 0%Q
  end.
Definition spec_mhz_list (blocks : list cblock) : list Q :=
  flat_map (fun l => match l with CMhz ip fp => [mhz_value ip fp] | _ => [] end) (all_lines blocks).

(* cores = sum over packages (distinct physical id; a later block with the same id replaces the value)
   of "cpu cores"; a block contributes when it has both lines (the last of each) *)
Fixpoint pkg_set (k v : Z) (d : list (Z * Z)) : list (Z * Z) :=
  match d with
  | [] => [(k, v)]
  | (k', v') :: r => if k =? k' then (k, v) :: r else (k', v') :: pkg_set k v r
  end.
Definition last_of (f : cline -> option Z) (b : cblock) : option Z :=
  fold_left (fun acc l => match f l with Some v => Some v | None => acc end) b None.
Definition block_pkg (b : cblock) : option (Z * Z) :=
  match last_of (fun l => match l with CPhysId n => Some (dec_val n) | _ => None end) b,
        last_of (fun l => match l with CCores n => Some (dec_val n) | _ => None end) b with
  | Some p, Some c => Some (p, c)
  | _, _ => None
  end.
Definition spec_pkgs (blocks : list cblock) : list (Z * Z) :=
  fold_left (fun d b => match block_pkg b with Some (p, c) => pkg_set p c d | None => d end) blocks [].
Definition spec_cores (blocks : list cblock) : Z := fold_left Z.add (map snd (spec_pkgs blocks)) 0.

(* x86 block of one logical CPU (what the harness generates) *)
Record kproc := { kp_index : bytes; kp_mhz_int : bytes; kp_mhz_frac : bytes;
                  kp_physical_id : bytes; kp_cores : bytes }.
Definition proc_block (p : kproc) : cblock :=
  [CProcessor (kp_index p); COther (bs "model name") false (bs "Some CPU @ 2.40GHz");
   CMhz (kp_mhz_int p) (kp_mhz_frac p); CPhysId (kp_physical_id p); CCoreId (kp_index p); CCores (kp_cores p)].

(* current frequency taken from /proc/cpuinfo (when it lists as many "cpu MHz" values as there are cpufreq
   policies): MHz -> whole kHz (truncated) -> MHz; min/max still from the policy files *)
Definition via_khz (m : Q) : Q := (inject_Z (q_trunc (m * 1000)) / 1000)%Q.
Fixpoint zip_cpuinfo_cur (ms : list Q) (cs : list kcpu) : option (list freq) :=
  match ms, cs with
  | [], [] => Some []
  | m :: ms', Online _ mn mx :: cs' =>
    match zip_cpuinfo_cur ms' cs' with
    | Some r => Some ({| fq_cur := via_khz m; fq_min := mhz (dec_val mn); fq_max := mhz (dec_val mx) |} :: r)
    | None => None
    end
  | _, _ => None
  end.

(* logical CPUs when sysconf is unavailable: "processor" lines, else "cpuN" lines of /proc/stat, else unknown *)
Definition spec_logical (sysconf : option Z) (blocks : list cblock) (stat : list statline) : option Z :=
  match sysconf with
  | Some n => Some n
  | None =>
    if n_processors blocks =? 0
    then (if n_cpu_lines stat =? 0 then None else Some (n_cpu_lines stat))
    else Some (n_processors blocks)
  end.
