(* C19 -- model of psutil's sensors / battery / cpu_freq / cpu_count / cpu_stats /
   boot_time code (psutil/_pslinux.py 582-735, 1303-1569; psutil/__init__.py
   1635-1655, 1905-1943, 2281-2313; psutil/_common.py cat/bcat), transcribed
   from the code.  Floats are exact rationals (Q).

   What is NOT in the model (supplied by the harness as the argument lists):
   glob.glob, sorted(set(...)) of the basenames, the coretemp alt-name filter,
   the numeric sort of cpufreq policies, the set-iteration order of trip
   points (the list order IS that order).  A file is what open()+read() gives:
   content, ENOENT, or another OSError. *)
From Coq Require Export QArith.
From PV Require Export Base.Dec.
Open Scope Z_scope.

(* ------------------------------------------------------------ files *)
Inductive fres :=
| FC (b : bytes)      (* content *)
| FAbsent             (* FileNotFoundError *)
| FError.             (* PermissionError / EIO / ENODEV ... : another OSError *)

(* bcat(path) / cat(path) without fallback *)
Definition read_req (f : fres) : outcome bytes :=
  match f with FC b => Val b | _ => Exc OSError end.
(* bcat(path, fallback=None) *)
Definition read_opt (f : fres) : option bytes :=
  match f with FC b => Some b | _ => None end.

(* ------------------------------------------------------------ float() *)
Definition has_digit (l : bytes) : bool := existsb is_digit l.
Definition has_n (l : bytes) : bool := existsb (fun c => (c =? 110) || (c =? 78)) l.

(* digits '.' digits  (at least one digit overall), optional sign, surrounding whitespace *)
Definition parse_decimal (l : bytes) : option Q :=
  let body (r : bytes) : option Q :=
    match split_on 46 r with
    | [ip; fp] =>
      if all_digits ip && all_digits fp && negb (match ip, fp with [], [] => true | _, _ => false end)
      then let sc := Z.pow 10 (Z.of_nat (length fp)) in
           match sc with
           | Zpos p => Some (Qmake (dec_val ip * sc + dec_val fp) p)
           | _ => None
           end
      else None
    | _ => None
    end in
  match strip l with
  | c :: r =>
    if c =? 45 then option_map Qopp (body r)
    else if c =? 43 then body r
    else body (c :: r)
  | [] => None
  end.

(* float(x) on ASCII bytes/str: integers (int() grammar), plain decimals; other
   texts that could be floats (exponents, inf, nan, ...) are out of the model;
   a text with no digit and no 'n' is never a float -> ValueError *)
Definition py_float (l : bytes) : outcome Q :=
  match parse_int l with
  | Some z => Val (inject_Z z)
  | None =>
    match parse_decimal l with
    | Some q => Val q
    | None => if has_digit l || has_n l then OutOfModel else Exc ValueError
    end
  end.

(* int(x) on a float: truncation toward zero *)
Definition q_trunc (q : Q) : Z := Z.quot (Qnum q) (Zpos (Qden q)).

Definition milli (q : Q) : Q := (q / 1000)%Q.

(* ------------------------------------------------------------ defaultdict(list) *)
Fixpoint dict_append {V} (k : bytes) (v : V) (d : list (bytes * list V)) : list (bytes * list V) :=
  match d with
  | [] => [(k, [v])]
  | (k', l) :: r => if beqb k k' then (k', l ++ [v]) :: r else (k', l) :: dict_append k v r
  end.
Fixpoint dict_get {V} (k : bytes) (d : list (bytes * V)) : option V :=
  match d with
  | [] => None
  | (k', v) :: r => if beqb k k' then Some v else dict_get k r
  end.

(* ------------------------------------------------------------ sensors_temperatures (platform) *)
Record tentry := { t_input : fres; t_name : fres; t_max : fres; t_crit : fres; t_label : fres }.
Record treading := { tr_label : bytes; tr_cur : Q; tr_high : option Q; tr_crit : option Q }.
Definition tdict := list (bytes * list treading).

(* try: ... except (OSError, ValueError): continue *)
Definition guard {A} (o : outcome A) : outcome (option A) :=
  match o with
  | Val a => Val (Some a)
  | Exc OSError | Exc ValueError => Val None
  | Exc e => Exc e
  | OutOfModel => OutOfModel
  end.

(* current = float(bcat(path)) / 1000.0 ; unit_name = cat(path2).strip() *)
Definition temp_head (input name : fres) : outcome (Q * bytes) :=
  do c <- read_req input;
  do v <- py_float c;
  do n <- read_req name;
  Val (milli v, strip n).

(* x = bcat(f, fallback=None); if x is not None: try x = float(x)/1000.0 except ValueError: x = None *)
Definition threshold_of (x : option bytes) : outcome (option Q) :=
  match x with
  | None => Val None
  | Some b =>
    match py_float b with
    | Val v => Val (Some (milli v))
    | Exc ValueError => Val None
    | Exc e => Exc e
    | OutOfModel => OutOfModel
    end
  end.

(* cat(f, fallback='').strip() *)
Definition text_or_empty (f : fres) : bytes :=
  match f with FC b => strip b | _ => [] end.

Fixpoint temps_loop (es : list tentry) (d : tdict) : outcome tdict :=
  match es with
  | [] => Val d
  | e :: r =>
    do h <- guard (temp_head (t_input e) (t_name e));
    match h with
    | None => temps_loop r d
    | Some (cur, name) =>
      do hi <- threshold_of (read_opt (t_max e));
      do cr <- threshold_of (read_opt (t_crit e));
      temps_loop r (dict_append name
        {| tr_label := text_or_empty (t_label e); tr_cur := cur; tr_high := hi; tr_crit := cr |} d)
    end
  end.

(* thermal_zone fallback *)
Record trip := { tp_type : fres; tp_temp : fres }.
Record zentry := { z_temp : fres; z_type : fres; z_trips : list trip }.

Definition s_critical : bytes := bs "critical".
Definition s_high : bytes := bs "high".

(* state: (critical, high) as raw file contents *)
Definition trip_step (st : option bytes * option bytes) (t : trip) : option bytes * option bytes :=
  let ty := text_or_empty (tp_type t) in
  if beqb ty s_critical then (read_opt (tp_temp t), snd st)
  else if beqb ty s_high then (fst st, read_opt (tp_temp t))
  else st.

Fixpoint zones_loop (zs : list zentry) (d : tdict) : outcome tdict :=
  match zs with
  | [] => Val d
  | z :: r =>
    do h <- guard (temp_head (z_temp z) (z_type z));
    match h with
    | None => zones_loop r d
    | Some (cur, name) =>
      let st := fold_left trip_step (z_trips z) (None, None) in
      do hi <- threshold_of (snd st);
      do cr <- threshold_of (fst st);
      zones_loop r (dict_append name {| tr_label := []; tr_cur := cur; tr_high := hi; tr_crit := cr |} d)
    end
  end.

(* `if not basenames:` -- the fallback runs only when no hwmon temp file exists at all *)
Definition temps_platform (es : list tentry) (zs : list zentry) : outcome tdict :=
  match es with
  | [] => zones_loop zs []
  | _ => temps_loop es []
  end.

(* ------------------------------------------------------------ psutil.sensors_temperatures(fahrenheit) *)
Definition convert (fahr : bool) (q : Q) : Q :=
  if fahr then (q * 9 / 5 + 32)%Q else q.

(* Python truthiness of None / float *)
Definition truthy (o : option Q) : bool :=
  match o with Some q => negb (Qeq_bool q 0) | None => false end.

(* [legacy] = true is the code before commit 60747a2 (`if high and not critical`: truthiness, so a
   present 0.0 counted as missing); false = the code as it is (`is not None` / `is None`) *)
Definition backfill (legacy : bool) (hi cr : option Q) : option Q * option Q :=
  if legacy then
    if truthy hi && negb (truthy cr) then (hi, hi)
    else if truthy cr && negb (truthy hi) then (cr, cr)
    else (hi, cr)
  else
    match hi, cr with
    | Some _, None => (hi, hi)
    | None, Some _ => (cr, cr)
    | _, _ => (hi, cr)
    end.

Definition front_reading (legacy fahr : bool) (r : treading) : treading :=
  let hi := option_map (convert fahr) (tr_high r) in
  let cr := option_map (convert fahr) (tr_crit r) in
  let '(hi', cr') := backfill legacy hi cr in
  {| tr_label := tr_label r; tr_cur := convert fahr (tr_cur r); tr_high := hi'; tr_crit := cr' |}.

Definition sensors_temperatures_at (legacy : bool) (es : list tentry) (zs : list zentry) (fahr : bool) : outcome tdict :=
  do raw <- temps_platform es zs;
  Val (map (fun kv => (fst kv, map (front_reading legacy fahr) (snd kv))) raw).
Definition sensors_temperatures := sensors_temperatures_at false.

(* ------------------------------------------------------------ sensors_fans *)
Record fentry := { f_input : fres; f_name : fres; f_label : fres }.
Record freading := { fr_label : bytes; fr_cur : Z }.

(* [guarded_name] = true is the code as it is (name read inside the try block, commit e09e22a);
   false = the code before that repair (name read after the try block) *)
Fixpoint fans_loop (guarded_name : bool) (es : list fentry) (d : list (bytes * list freading))
  : outcome (list (bytes * list freading)) :=
  match es with
  | [] => Val d
  | e :: r =>
    match f_input e with
    | FC b =>
      do cur <- py_int b;                      (* only OSError is caught: ValueError escapes *)
      match f_name e with
      | FC n =>
        fans_loop guarded_name r
          (dict_append (strip n) {| fr_label := text_or_empty (f_label e); fr_cur := cur |} d)
      | _ => if guarded_name then fans_loop guarded_name r d else Exc OSError
      end
    | _ => fans_loop guarded_name r d
    end
  end.
Definition sensors_fans (guarded_name : bool) (es : list fentry) := fans_loop guarded_name es [].

(* the code before commit 1b69de5: basenames = glob('hwmon*/fan*_*'); if not basenames: basenames =
   glob('hwmon*/device/fan*_*') -- fan files below device/ were looked at only when there was no direct one.
   (Now both globs are united and sorted: the argument of [sensors_fans] is that sorted union.) *)
Definition fan_basenames_legacy (direct nested : list fentry) : list fentry :=
  match direct with [] => nested | _ => direct end.
Definition sensors_fans_legacy_tree (guarded_name : bool) (direct nested : list fentry) :=
  sensors_fans guarded_name (fan_basenames_legacy direct nested).

(* ------------------------------------------------------------ sensors_battery *)
Inductive mval := MI (z : Z) | MB (b : bytes).

(* multi_bcat(paths...) *)
Fixpoint multi_bcat (fs : list fres) : option mval :=
  match fs with
  | [] => None
  | FC b :: _ => Some (match parse_int b with Some z => MI z | None => MB (strip b) end)
  | _ :: r => multi_bcat r
  end.

Record batfiles := {
  b_energy_now : fres; b_charge_now : fres; b_power_now : fres; b_current_now : fres;
  b_energy_full : fres; b_charge_full : fres; b_time_to_empty : fres;
  b_capacity : fres; b_status : fres }.

Definition lower_byte (c : Z) : Z := if (65 <=? c) && (c <=? 90) then c + 32 else c.
Definition lower (l : bytes) : bytes := map lower_byte l.

Fixpoint has_sub (p l : bytes) : bool :=
  match l with
  | [] => match p with [] => true | _ => false end
  | _ :: r => prefixb p l || has_sub p r
  end.

(* x.startswith('BAT') or 'battery' in x.lower() *)
Definition is_battery_name (n : bytes) : bool :=
  prefixb (bs "BAT") n || has_sub (bs "battery") (lower n).

(* a < b for str (code points = bytes for ASCII names) *)
Fixpoint bytes_ltb (a b : bytes) : bool :=
  match a, b with
  | [], [] => false
  | [], _ :: _ => true
  | _ :: _, [] => false
  | x :: a', y :: b' => if x <? y then true else if y <? x then false else bytes_ltb a' b'
  end.

(* min(bats): first minimal element *)
Fixpoint min_entry {A} (cur : bytes * A) (l : list (bytes * A)) : bytes * A :=
  match l with
  | [] => cur
  | x :: r => if bytes_ltb (fst x) (fst cur) then min_entry x r else min_entry cur r
  end.

(* Python TYPES of the fields matter: secsleft IS one of the documented constants psutil.POWER_TIME_UNLIMITED /
   POWER_TIME_UNKNOWN (members of the BatteryTime IntEnum) or a plain int; percent is a float when computed from
   now/full and the kernel's int when taken from "capacity" *)
Inductive rsecs := RUnlimited | RUnknown | RSecs (z : Z).
Inductive rnum := RInt (z : Z) | RFloat (q : Q).
Definition rnum_q (x : rnum) : Q := match x with RInt z => inject_Z z | RFloat q => q end.

Record battery := { bt_percent : rnum; bt_secsleft : rsecs; bt_plugged : option bool }.

Definition s_discharging := bs "discharging".
Definition s_charging := bs "charging".
Definition s_full := bs "full".

(* percent: None = "return None" (no capacity information at all) *)
Definition percent_of (energy_full energy_now : option mval) (capacity : fres) : outcome (option rnum) :=
  match energy_full, energy_now with
  | Some f, Some n =>
    match f, n with
    | MI f, MI n => Val (Some (RFloat (if f =? 0 then 0%Q else (100 * inject_Z n / inject_Z f)%Q)))
    | _, _ => Exc TypeError
    end
  | _, _ =>
    match capacity with
    | FC c => do p <- py_int c; Val (if p =? -1 then None else Some (RInt p))
    | _ => Val None
    end
  end.

Definition plugged_of (online : option mval) (status : fres) : option bool :=
  match online with
  | Some v => Some (match v with MI 1 => true | _ => false end)
  | None =>
    let st := lower (text_or_empty status) in
    if beqb st s_discharging then Some false
    else if beqb st s_charging || beqb st s_full then Some true
    else None
  end.

(* [signed_div] = true: the code before commit 90bacb2 (energy_now / power_now, signed); false = the code as it
   is (energy_now / abs(power_now)) *)
Definition secs_of (signed_div : bool) (plugged : option bool) (energy_now power_now time_to_empty : option mval) : outcome rsecs :=
  match plugged with
  | Some true => Val RUnlimited
  | _ =>
    match energy_now, power_now with
    | Some n, Some p =>
      match n, p with
      | MI n, MI p => Val (if p =? 0 then RUnknown else RSecs (Z.quot (n * 3600) (if signed_div then p else Z.abs p)))
      | _, _ => Exc TypeError
      end
    | _, _ =>
      match time_to_empty with
      | Some (MI t) => Val (if t * 60 <? 0 then RUnknown else RSecs (t * 60))
      | Some (MB b) => do s <- py_int (concat (repeat b 60));
                       Val (if s <? 0 then RUnknown else RSecs s)
      | None => Val RUnknown
      end
    end
  end.

Definition battery_of_at (signed_div : bool) (bf : batfiles) (ac0 ac : fres) : outcome (option battery) :=
  let energy_now := multi_bcat [b_energy_now bf; b_charge_now bf] in
  let power_now := multi_bcat [b_power_now bf; b_current_now bf] in
  let energy_full := multi_bcat [b_energy_full bf; b_charge_full bf] in
  let time_to_empty := multi_bcat [b_time_to_empty bf] in
  do percent <- percent_of energy_full energy_now (b_capacity bf);
  match percent with
  | None => Val None
  | Some percent =>
    let plugged := plugged_of (multi_bcat [ac0; ac]) (b_status bf) in
    do secs <- secs_of signed_div plugged energy_now power_now time_to_empty;
    Val (Some {| bt_percent := percent; bt_secsleft := secs; bt_plugged := plugged |})
  end.
Definition battery_of := battery_of_at false.

(* [listing] = os.listdir(POWER_SUPPLY_PATH): None when the directory does not exist.
   [guarded_dir] = true is the code as it is (FileNotFoundError -> None, commit 3a32a00);
   false = the code before that repair. *)
Definition sensors_battery (guarded_dir : bool) (listing : option (list (bytes * batfiles))) (ac0 ac : fres)
  : outcome (option battery) :=
  match listing with
  | None => if guarded_dir then Val None else Exc OSError
  | Some l =>
    match filter (fun e => is_battery_name (fst e)) l with
    | [] => Val None
    | x :: r => battery_of (snd (min_entry x r)) ac0 ac
    end
  end.

(* ------------------------------------------------------------ /proc/cpuinfo, cpu_freq *)
Definition s_cpu_mhz := bs "cpu mhz".

(* [float(line.split(b':', 1)[1]) for line in f if line.lower().startswith(b'cpu mhz')] *)
Definition split1 (sep : Z) (l : bytes) : list bytes :=
  match find_byte sep l with
  | Some n => [firstn n l; skipn (S n) l]
  | None => [l]
  end.

Fixpoint cpuinfo_freqs_lines (ls : list bytes) : outcome (list Q) :=
  match ls with
  | [] => Val []
  | l :: r =>
    if prefixb s_cpu_mhz (lower l) then
      match split1 58 l with
      | [_; v] => do q <- py_float v; do qs <- cpuinfo_freqs_lines r; Val (q :: qs)
      | _ => Exc IndexError
      end
    else cpuinfo_freqs_lines r
  end.
Definition cpuinfo_freqs (cpuinfo : fres) : outcome (list Q) :=
  do c <- read_req cpuinfo; cpuinfo_freqs_lines (lines_keep c).

Record policy := {
  p_scaling_cur : fres; p_cpuinfo_cur : fres; p_min : fres; p_max : fres;
  p_online : fres  (* /sys/devices/system/cpu/cpu<i>/online, i = position in the sorted list *) }.
Record freq := { fq_cur : Q; fq_min : Q; fq_max : Q }.

Definition khz_file (f : fres) : outcome Q :=
  do b <- read_req f; do z <- py_int b; Val (milli (inject_Z z)).

Definition policy_freq (from_cpuinfo : option Q) (p : policy) : outcome freq :=
  let finish (cur : Q) :=
    do mx <- khz_file (p_max p);
    do mn <- khz_file (p_min p);
    Val {| fq_cur := cur; fq_min := mn; fq_max := mx |} in
  match from_cpuinfo with
  | Some mhz => finish (milli (inject_Z (q_trunc (mhz * 1000)%Q)))
  | None =>
    match read_opt (p_scaling_cur p) with
    | Some b => do z <- py_int b; finish (milli (inject_Z z))
    | None =>
      match read_opt (p_cpuinfo_cur p) with
      | Some b => do z <- py_int b; finish (milli (inject_Z z))
      | None =>
        match p_online p with
        | FC [48; 10] => Val {| fq_cur := 0; fq_min := 0; fq_max := 0 |}
        | _ => Exc NotImplementedError
        end
      end
    end
  end.

Fixpoint policies_loop (mhz : option (list Q)) (ps : list policy) : outcome (list freq) :=
  match ps with
  | [] => Val []
  | p :: r =>
    do f <- policy_freq (match mhz with Some (q :: _) => Some q | _ => None end) p;
    do fs <- policies_loop (match mhz with Some (_ :: t) => Some t | _ => None end) r;
    Val (f :: fs)
  end.

(* [sysfs] = which of the two implementations was bound at import time *)
Definition cpu_freq_platform (sysfs : bool) (cpuinfo : fres) (ps : list policy) : outcome (list freq) :=
  do fr <- cpuinfo_freqs cpuinfo;
  if sysfs then
    policies_loop (if Nat.eqb (length ps) (length fr) then Some fr else None) ps
  else Val (map (fun x => {| fq_cur := x; fq_min := 0; fq_max := 0 |}) fr).

Definition qsum (l : list Q) : Q := fold_left Qplus l 0%Q.

(* psutil.cpu_freq(percpu=False) *)
Definition cpu_freq_mean (ret : list freq) : option freq :=
  match ret with
  | [] => None
  | [f] => Some f
  | _ =>
    let n := inject_Z (Z.of_nat (length ret)) in
    Some {| fq_cur := (qsum (map fq_cur ret) / n)%Q;
            fq_min := (qsum (map fq_min ret) / n)%Q;
            fq_max := (qsum (map fq_max ret) / n)%Q |}
  end.

(* ------------------------------------------------------------ cpu_count *)
Definition s_processor := bs "processor".

Fixpoint count_where (f : bytes -> bool) (ls : list bytes) : Z :=
  match ls with
  | [] => 0
  | l :: r => (if f l then 1 else 0) + count_where f r
  end.

(* re.compile(r'cpu\d').match(line.split(' ')[0]) *)
Definition is_cpuN_line (l : bytes) : bool :=
  match hd [] (split_on 32 l) with
  | 99 :: 112 :: 117 :: d :: _ => is_digit d
  | _ => false
  end.

(* [sysconf] = os.sysconf("SC_NPROCESSORS_ONLN"): None when it raises ValueError.
   [legacy] = true: the code before commit d196a16 (line.lower().startswith(b'processor')) *)
Definition cpu_count_logical_at (legacy : bool) (sysconf : option Z) (cpuinfo stat : fres) : outcome (option Z) :=
  match sysconf with
  | Some n => Val (Some n)
  | None =>
    do c <- read_req cpuinfo;
    let num := count_where (fun l => prefixb s_processor (if legacy then lower l else l)) (lines_keep c) in
    if num =? 0 then
      do s <- read_req stat;
      let num2 := count_where is_cpuN_line (lines_keep s) in
      Val (if num2 =? 0 then None else Some num2)
    else Val (Some num)
  end.

Fixpoint distinct (l : list bytes) : list bytes :=
  match l with
  | [] => []
  | x :: r => if existsb (beqb x) r then distinct r else x :: distinct r
  end.

Definition s_physical_id := bs "physical id".
Definition s_cpu_cores := bs "cpu cores".
Definition tab_colon : bytes := [9; 58].

Fixpoint zdict_set (k v : Z) (d : list (Z * Z)) : list (Z * Z) :=
  match d with
  | [] => [(k, v)]
  | (k', v') :: r => if k =? k' then (k, v) :: r else (k', v') :: zdict_set k v r
  end.

(* state: mapping, current_info = (physical id, cpu cores) *)
Fixpoint cores_lines (ls : list bytes) (mapping : list (Z * Z)) (pid cores : option Z) : outcome (list (Z * Z)) :=
  match ls with
  | [] => Val mapping
  | l :: r =>
    let line := lower (strip l) in
    match line with
    | [] =>
      cores_lines r (match pid, cores with Some p, Some c => zdict_set p c mapping | _, _ => mapping end) None None
    | _ =>
      let is_pid := prefixb s_physical_id line in
      let is_cc := prefixb s_cpu_cores line in
      if is_pid || is_cc then
        match split_seq tab_colon line with
        | key :: (_ :: _) as rest =>
          (* split(b'\t:', 1): everything after the first separator *)
          let value := skipn (length key + 2) line in
          do v <- py_int value;
          if beqb key s_physical_id then cores_lines r mapping (Some v) cores
          else if beqb key s_cpu_cores then cores_lines r mapping pid (Some v)
          else cores_lines r mapping pid cores
        | _ => Exc ValueError
        end
      else cores_lines r mapping pid cores
    end
  end.

Definition cpu_count_logical := cpu_count_logical_at false.

(* [lists] = the files matched by glob(core_cpus_list) or glob(thread_siblings_list) *)
Definition cpu_count_cores (lists : list fres) (cpuinfo : fres) : outcome (option Z) :=
  do contents <- mapM read_req lists;
  let n := Z.of_nat (length (distinct (map strip contents))) in
  if negb (n =? 0) then Val (Some n)
  else
    do c <- read_req cpuinfo;
    do m <- cores_lines (lines_keep c) [] None None;
    let s := fold_left Z.add (map snd m) 0 in
    Val (if s =? 0 then None else Some s).

(* psutil.cpu_count(): ret < 1 -> None *)
Definition cpu_count_front (r : option Z) : option Z :=
  match r with Some n => if n <? 1 then None else Some n | None => None end.

(* ------------------------------------------------------------ cpu_stats, boot_time *)
Definition field1 (l : bytes) : outcome bytes :=
  of_option IndexError (nth_error (split_ws l) 1).

Fixpoint stats_lines (ls : list bytes) (ctx intr soft : option Z) : outcome (option Z * option Z * option Z) :=
  match ls with
  | [] => Val (ctx, intr, soft)
  | l :: r =>
    do st <-
      (if prefixb (bs "ctxt") l then do t <- field1 l; do v <- py_int t; Val (Some v, intr, soft)
       else if prefixb (bs "intr") l then do t <- field1 l; do v <- py_int t; Val (ctx, Some v, soft)
       else if prefixb (bs "softirq") l then do t <- field1 l; do v <- py_int t; Val (ctx, intr, Some v)
       else Val (ctx, intr, soft));
    let '(c, i, s) := st in
    match c, i, s with
    | Some _, Some _, Some _ => Val st
    | _, _, _ => stats_lines r c i s
    end
  end.

(* (ctx_switches, interrupts, soft_interrupts, syscalls) *)
Definition cpu_stats (stat : fres) : outcome (option Z * option Z * option Z * Z) :=
  do c <- read_req stat;
  do st <- stats_lines (lines_keep c) None None None;
  Val (st, 0).

Fixpoint boot_lines (ls : list bytes) : outcome Q :=
  match ls with
  | [] => Exc RuntimeError
  | l :: r =>
    if prefixb (bs "btime") l then do t <- field1 (strip l); py_float t
    else boot_lines r
  end.
Definition boot_time (stat : fres) : outcome Q :=
  do c <- read_req stat; boot_lines (lines_keep c).
