(* C19 -- sensors_temperatures(): hwmon walker, thermal-zone fallback, Fahrenheit and back-fill. *)
From PV Require Import C19.Lib.

(* what the platform layer reports for one sensor: Celsius, thresholds as found *)
Definition raw_reading (label : bytes) (cur : kf knum) (hi cr : option Q) : option treading :=
  match spec_milli cur with
  | Some c => Some {| tr_label := label; tr_cur := c; tr_high := hi; tr_crit := cr |}
  | None => None
  end.
Definition raw_sensor (s : ksensor) : option treading :=
  raw_reading (spec_text (ks_label s)) (ks_input s) (spec_milli (ks_max s)) (spec_milli (ks_crit s)).
Definition tag (name : kf bytes) (o : option treading) : option (bytes * treading) :=
  match name with Present m => option_map (pair m) o | _ => None end.

Definition mk_entry (name : kf bytes) (s : ksensor) : tentry :=
  {| t_input := to_fres k_knum (ks_input s); t_name := to_fres k_text name;
     t_max := to_fres k_knum (ks_max s); t_crit := to_fres k_knum (ks_crit s);
     t_label := to_fres k_text (ks_label s) |}.

Lemma chip_loop name : kf_ok text_ok name = true -> forall ss d rest,
  forallb ksensor_ok ss = true ->
  temps_loop (map (mk_entry name) ss ++ rest) d =
  temps_loop rest (fold_left app_opt (map (fun s => tag name (raw_sensor s)) ss) d).
Proof.
  intros Hn. induction ss as [|s ss IH]; intros d rest H; [reflexivity|].
  cbn [forallb] in H. apply andb_true_iff in H as [Hs Hss].
  unfold ksensor_ok in Hs. apply andb_true_iff in Hs as [Hs Hl].
  apply andb_true_iff in Hs as [Hs Hc]. apply andb_true_iff in Hs as [Hi Hm].
  cbn [map app temps_loop fold_left]. cbn [mk_entry t_input t_name t_max t_crit t_label].
  rewrite head_spec by assumption.
  unfold raw_sensor, raw_reading, tag.
  destruct (spec_milli (ks_input s)) as [c|]; cbn [obind].
  - destruct name as [m| |]; cbn [obind option_map app_opt].
    + rewrite !threshold_spec by assumption. cbn [obind].
      rewrite text_or_empty_spec by assumption. now apply IH.
    + now apply IH.
    + now apply IH.
  - destruct name; cbn [app_opt]; now apply IH.
Qed.

Lemma forallb_filter {A} (p q : A -> bool) l : forallb p l = true -> forallb p (filter q l) = true.
Proof.
  induction l as [|x l IH]; auto. cbn [forallb filter]. intros H.
  apply andb_true_iff in H as [Hx Hl]. destruct (q x); cbn [forallb]; auto. now rewrite Hx, IH.
Qed.

Definition chip_stream (c : kchip) : list (option (bytes * treading)) :=
  map (fun s => tag (kc_name c) (raw_sensor s)) (filter sensor_visible (kc_sensors c)).

Lemma chips_loop chips : forallb kchip_ok chips = true -> forall d,
  temps_loop (hwmon_entries chips) d = Val (fold_left app_opt (flat_map chip_stream chips) d).
Proof.
  induction chips as [|c chips IH]; intros H d; [reflexivity|].
  cbn [forallb] in H. apply andb_true_iff in H as [Hc Hcs].
  unfold kchip_ok in Hc. apply andb_true_iff in Hc as [Hn Hss].
  unfold hwmon_entries. cbn [flat_map]. fold (hwmon_entries chips).
  unfold chip_entries. fold (mk_entry (kc_name c)).
  rewrite chip_loop; [|exact Hn|now apply forallb_filter].
  rewrite IH by exact Hcs. now rewrite fold_left_app.
Qed.

Lemma invisible_raw s : sensor_visible s = false -> raw_sensor s = None.
Proof.
  unfold sensor_visible, raw_sensor, raw_reading. intros H.
  destruct (ks_input s) as [k| |]; cbn [exists_file] in H; auto;
    rewrite ?orb_true_r in H; cbn [orb] in H; try discriminate.
Qed.

Lemma somes_filter_visible ss :
  somes (map raw_sensor (filter sensor_visible ss)) = somes (map raw_sensor ss).
Proof.
  induction ss as [|s ss IH]; [reflexivity|]. cbn [filter map].
  destruct (sensor_visible s) eqn:E; cbn [map somes].
  - now rewrite IH.
  - rewrite (invisible_raw s E). exact IH.
Qed.

Lemma sel_stream n chips :
  sel n (flat_map chip_stream chips) =
  flat_map (fun c => name_is n (kc_name c) (somes (map raw_sensor (kc_sensors c)))) chips.
Proof.
  induction chips as [|c chips IH]; [reflexivity|]. cbn [flat_map]. rewrite sel_app, IH. f_equal.
  unfold chip_stream, tag.
  rewrite <- (map_map raw_sensor (fun o => match kc_name c with Present m => option_map (pair m) o | _ => None end)).
  rewrite sel_tagged. now rewrite somes_filter_visible.
Qed.

(* ------------------------------------------------------------ front end *)
Definition is_none {A} (o : option A) : bool := match o with None => true | _ => false end.

Lemma thr_truthy fahr f : fahr = true \/ zero_milli f = false ->
  let o := option_map (convert fahr) (spec_milli f) in o = None \/ truthy o = true.
Proof.
  intros H. destruct f as [[neg ds|b]| |]; cbn [spec_milli option_map]; auto.
  right. cbn [truthy]. apply negb_true_iff.
  destruct fahr.
  - apply fahr_nz.
  - destruct H as [H|H]; [discriminate|].
    cbn [convert]. apply milli_nz. cbn [zero_milli] in H. unfold sval. destruct neg; lia.
Qed.

Lemma backfill_now hi cr : backfill false hi cr = spec_fill hi cr.
Proof. destruct hi, cr; reflexivity. Qed.

Lemma backfill_spec hi cr :
  hi = None \/ truthy hi = true -> cr = None \/ truthy cr = true -> backfill true hi cr = spec_fill hi cr.
Proof.
  unfold backfill. intros [-> | Hh] [-> | Hc]; cbn [truthy andb negb spec_fill].
  - reflexivity.
  - rewrite Hc. destruct cr; [reflexivity|discriminate].
  - rewrite Hh. destruct hi; [reflexivity|discriminate].
  - rewrite Hh, Hc. cbn. destruct hi, cr; try discriminate; reflexivity.
Qed.

Lemma front_raw legacy fahr label cur hi cr :
  legacy = false \/ fahr = true \/ (zero_milli hi = false /\ zero_milli cr = false) ->
  option_map (front_reading legacy fahr) (raw_reading label cur (spec_milli hi) (spec_milli cr))
  = spec_reading fahr label cur (spec_milli hi) (spec_milli cr).
Proof.
  intros H. unfold raw_reading, spec_reading. destruct (spec_milli cur) as [c|]; [|reflexivity].
  cbn [option_map]. unfold front_reading. cbn [tr_label tr_cur tr_high tr_crit].
  assert (B : backfill legacy (option_map (convert fahr) (spec_milli hi)) (option_map (convert fahr) (spec_milli cr))
              = spec_fill (option_map (convert fahr) (spec_milli hi)) (option_map (convert fahr) (spec_milli cr))).
  { destruct legacy; [|apply backfill_now]. destruct H as [H|H]; [discriminate|].
    apply backfill_spec; apply thr_truthy; tauto. }
  rewrite B. change (convert fahr) with (spec_unit fahr). destruct (spec_fill _ _). reflexivity.
Qed.

Lemma map_name_is {A B} (f : A -> B) n name l : map f (name_is n name l) = name_is n name (map f l).
Proof. unfold name_is. destruct name as [m| |]; auto. destruct (beqb n m); auto. Qed.

Lemma map_somes {A B} (f : A -> B) (l : list (option A)) : map f (somes l) = somes (map (option_map f) l).
Proof. induction l as [|[x|] l IH]; cbn [somes map option_map]; auto. now rewrite IH. Qed.

Lemma nozero_sensor legacy fahr s :
  legacy = false \/ fahr = true \/ (negb (zero_milli (ks_max s)) && negb (zero_milli (ks_crit s))) = true ->
  option_map (front_reading legacy fahr) (raw_sensor s) = spec_sensor fahr s.
Proof.
  intros H. unfold raw_sensor, spec_sensor. apply front_raw.
  destruct H as [H|[H|H]]; [now left|right; now left|right; right].
  apply andb_true_iff in H as [H1 H2]. now apply negb_true_iff in H1, H2.
Qed.

Lemma front_stream legacy fahr n chips : legacy = false \/ fahr = true \/ no_zero_threshold chips = true ->
  map (front_reading legacy fahr)
      (flat_map (fun c => name_is n (kc_name c) (somes (map raw_sensor (kc_sensors c)))) chips)
  = spec_temps_of fahr n chips.
Proof.
  intros H. induction chips as [|c chips IH]; [reflexivity|].
  cbn [flat_map]. rewrite map_app. unfold spec_temps_of. cbn [flat_map]. fold (spec_temps_of fahr n chips).
  rewrite IH.
  2:{ destruct H as [H|[H|H]]; [now left|right; now left|right; right]. unfold no_zero_threshold in *. cbn [forallb] in H.
      now apply andb_true_iff in H as [_ H]. }
  f_equal. rewrite map_name_is, map_somes, map_map. f_equal. f_equal.
  assert (G : legacy = false \/ fahr = true \/ forallb (fun s => negb (zero_milli (ks_max s)) && negb (zero_milli (ks_crit s))) (kc_sensors c) = true).
  { destruct H as [H|[H|H]]; [now left|right; now left|right; right]. unfold no_zero_threshold in H. cbn [forallb] in H.
    now apply andb_true_iff in H as [H _]. }
  clear -G. induction (kc_sensors c) as [|s ss IHs]; [reflexivity|]. cbn [map]. f_equal.
  - apply nozero_sensor. destruct G as [G|[G|G]]; [now left|right; now left|right; right]. cbn [forallb] in G.
    now apply andb_true_iff in G as [G _].
  - apply IHs. destruct G as [G|[G|G]]; [now left|right; now left|right; right]. cbn [forallb] in G.
    now apply andb_true_iff in G as [_ G].
Qed.

Lemma match_map_nil {A B} (f : A -> B) (l : list A) :
  option_map (map f) (match l with [] => None | _ => Some l end)
  = match map f l with [] => None | _ => Some (map f l) end.
Proof. destruct l; reflexivity. Qed.

(* every hwmon layout: the call returns a value (never fails), whatever files are
   present, absent, unreadable or non-numeric *)
Theorem temps_total legacy chips zones fahr :
  forallb kchip_ok chips = true -> hwmon_entries chips <> [] ->
  exists d, sensors_temperatures_at legacy (hwmon_entries chips) zones fahr = Val d /\
    forall n, dict_get n d =
      match flat_map (fun c => name_is n (kc_name c) (somes (map raw_sensor (kc_sensors c)))) chips with
      | [] => None
      | l => Some (map (front_reading legacy fahr) l)
      end.
Proof.
  intros Hok Hne. unfold sensors_temperatures_at, temps_platform.
  destruct (hwmon_entries chips) as [|e es] eqn:E; [congruence|]. rewrite <- E.
  rewrite chips_loop by exact Hok. cbn [obind]. eexists. split; [reflexivity|].
  intros n. rewrite (dict_get_map (map (front_reading legacy fahr))).
  rewrite dict_get_fold_nil, sel_stream.
  destruct (flat_map _ chips); reflexivity.
Qed.

Theorem temps_values_at legacy chips zones fahr :
  forallb kchip_ok chips = true -> hwmon_entries chips <> [] ->
  legacy = false \/ fahr = true \/ no_zero_threshold chips = true ->
  exists d, sensors_temperatures_at legacy (hwmon_entries chips) zones fahr = Val d /\
    forall n, dict_get n d = match spec_temps_of fahr n chips with [] => None | l => Some l end.
Proof.
  intros Hok Hne Hz. destruct (temps_total legacy chips zones fahr Hok Hne) as [d [Hd Hg]].
  exists d. split; [exact Hd|]. intros n. rewrite Hg, <- (front_stream legacy fahr n chips Hz).
  destruct (flat_map _ chips); reflexivity.
Qed.

(* the code as it is: every layout, no exclusion *)
Theorem temps_values chips zones fahr :
  forallb kchip_ok chips = true -> hwmon_entries chips <> [] ->
  exists d, sensors_temperatures (hwmon_entries chips) zones fahr = Val d /\
    forall n, dict_get n d = match spec_temps_of fahr n chips with [] => None | l => Some l end.
Proof. intros Hok Hne. apply temps_values_at; auto. Qed.

(* present-but-zero threshold: treated as missing by the back-fill *)
Definition zero_witness : list kchip :=
  [{| kc_name := Present (bs "acpitz");
      kc_sensors := [{| ks_input := Present (KN false (bs "45000")); ks_max := Present (KN false (bs "0"));
                        ks_crit := Present (KN false (bs "100000")); ks_label := Absent; ks_other := false |}] |}].
Theorem temps_zero_refuted :
  exists chips d r, forallb kchip_ok chips = true /\ hwmon_entries chips <> [] /\
    sensors_temperatures_at true (hwmon_entries chips) [] false = Val d /\
    dict_get (bs "acpitz") d = Some [r] /\ tr_high r = Some (100000 / 1000)%Q /\
    exists r', spec_temps_of false (bs "acpitz") chips = [r'] /\ tr_high r' = Some (0 / 1000)%Q.
Proof.
  exists zero_witness. eexists. eexists. split; [reflexivity|]. split; [discriminate|].
  split; [vm_compute; reflexivity|]. split; [vm_compute; reflexivity|]. split; [vm_compute; reflexivity|].
  eexists. split; vm_compute; reflexivity.
Qed.

Example temps_values_example :
  let chips := [{| kc_name := Present (bs "coretemp");
      kc_sensors := [{| ks_input := Present (KN false (bs "45000")); ks_max := Present (KN false (bs "80000"));
                        ks_crit := Absent; ks_label := Present (bs "Core 0"); ks_other := false |};
                     {| ks_input := Unreadable; ks_max := Present (KJunk (bs "err"));
                        ks_crit := Absent; ks_label := Absent; ks_other := true |}] |}] in
  forallb kchip_ok chips = true /\ hwmon_entries chips <> [] /\ no_zero_threshold chips = true /\
  spec_temps_of false (bs "coretemp") chips =
    [{| tr_label := bs "Core 0"; tr_cur := (45000 / 1000)%Q; tr_high := Some (80000 / 1000)%Q; tr_crit := Some (80000 / 1000)%Q |}].
Proof. cbv zeta. split; [reflexivity|]. split; [discriminate|]. split; reflexivity. Qed.

(* ------------------------------------------------------------ thermal zones *)
Definition trip_of (t : ktrip) : trip :=
  {| tp_type := to_fres k_text (kt_type t); tp_temp := to_fres k_knum (kt_temp t) |}.

Definition raw_trip (ty : bytes) (trips : list ktrip) : option bytes :=
  match find (fun t => beqb (spec_text (kt_type t)) ty) (rev trips) with
  | Some t => read_opt (to_fres k_knum (kt_temp t))
  | None => None
  end.

Lemma trips_fold trips : forallb ktrip_ok trips = true ->
  fold_left trip_step (map trip_of trips) (None, None) = (raw_trip s_critical trips, raw_trip s_high trips).
Proof.
  induction trips as [|t trips IH] using rev_ind; intros H; [reflexivity|].
  rewrite forallb_app in H. apply andb_true_iff in H as [Hts Ht]. cbn [forallb] in Ht.
  rewrite andb_true_r in Ht. unfold ktrip_ok in Ht. apply andb_true_iff in Ht as [Hty Htm].
  rewrite map_app, fold_left_app, IH by exact Hts. cbn [map fold_left].
  unfold raw_trip. rewrite rev_app_distr. cbn [rev app find].
  unfold trip_step. cbn [trip_of tp_type tp_temp fst snd].
  rewrite text_or_empty_spec by exact Hty.
  destruct (beqb (spec_text (kt_type t)) s_critical) eqn:E1.
  - apply beqb_eq in E1. rewrite E1. change (beqb s_critical s_high) with false. reflexivity.
  - destruct (beqb (spec_text (kt_type t)) s_high); reflexivity.
Qed.

Lemma raw_trip_threshold ty trips : forallb ktrip_ok trips = true ->
  threshold_of (raw_trip ty trips) = Val (spec_trip ty trips).
Proof.
  intros H. unfold raw_trip, spec_trip.
  destruct (find _ (rev trips)) as [t|] eqn:E; [|reflexivity].
  apply find_some in E as [Hin _]. apply in_rev in Hin.
  rewrite forallb_forall in H. specialize (H t Hin). unfold ktrip_ok in H.
  apply andb_true_iff in H as [_ H]. now apply threshold_spec.
Qed.

Definition raw_zone (z : kzone) : option treading :=
  raw_reading [] (kz_temp z) (spec_trip (bs "high") (kz_trips z)) (spec_trip (bs "critical") (kz_trips z)).

Lemma zones_loop_spec zs : forallb kzone_ok zs = true -> forall d,
  zones_loop (map zone_entry zs) d = Val (fold_left app_opt (map (fun z => tag (kz_type z) (raw_zone z)) zs) d).
Proof.
  induction zs as [|z zs IH]; intros H d; [reflexivity|].
  cbn [forallb] in H. apply andb_true_iff in H as [Hz Hzs].
  unfold kzone_ok in Hz. apply andb_true_iff in Hz as [Hz Htr]. apply andb_true_iff in Hz as [Htemp Hty].
  cbn [map zones_loop fold_left]. cbn [zone_entry z_temp z_type z_trips].
  rewrite head_spec by assumption.
  fold trip_of. rewrite trips_fold by exact Htr. cbn [fst snd].
  unfold raw_zone, raw_reading, tag.
  destruct (spec_milli (kz_temp z)) as [c|]; cbn [obind].
  - destruct (kz_type z) as [m| |]; cbn [obind option_map app_opt].
    + rewrite !raw_trip_threshold by exact Htr. cbn [obind]. now apply IH.
    + now apply IH.
    + now apply IH.
  - destruct (kz_type z); cbn [app_opt]; now apply IH.
Qed.

Lemma sel_zones n zs :
  sel n (map (fun z => tag (kz_type z) (raw_zone z)) zs) =
  flat_map (fun z => name_is n (kz_type z) (somes [raw_zone z])) zs.
Proof.
  induction zs as [|z zs IH]; [reflexivity|]. cbn [map flat_map].
  change (tag (kz_type z) (raw_zone z) :: map (fun z => tag (kz_type z) (raw_zone z)) zs)
    with ([tag (kz_type z) (raw_zone z)] ++ map (fun z => tag (kz_type z) (raw_zone z)) zs).
  rewrite sel_app, IH. f_equal.
  change [tag (kz_type z) (raw_zone z)]
    with (map (fun o => match kz_type z with Present m => option_map (pair m) o | _ => None end) [raw_zone z]).
  apply sel_tagged.
Qed.

(* a zone's trip temperatures that are exactly 0: coarse exclusion for the back-fill finding *)
Lemma spec_trip_nz ty trips : forallb (fun t => negb (zero_milli (kt_temp t))) trips = true ->
  forall fahr, let o := option_map (convert fahr) (spec_trip ty trips) in o = None \/ truthy o = true.
Proof.
  intros H fahr. unfold spec_trip. destruct (find _ (rev trips)) as [t|] eqn:E; [|now left].
  apply find_some in E as [Hin _]. apply in_rev in Hin.
  rewrite forallb_forall in H. specialize (H t Hin). apply negb_true_iff in H.
  apply thr_truthy. now right.
Qed.
Lemma spec_trip_fahr ty trips :
  let o := option_map (convert true) (spec_trip ty trips) in o = None \/ truthy o = true.
Proof.
  unfold spec_trip. destruct (find _ (rev trips)) as [t|]; [|now left]. apply thr_truthy. now left.
Qed.

Lemma front_zone fahr z : option_map (front_reading false fahr) (raw_zone z) = spec_zone fahr z.
Proof.
  unfold raw_zone, spec_zone, raw_reading, spec_reading.
  destruct (spec_milli (kz_temp z)) as [c|]; [|reflexivity].
  cbn [option_map]. unfold front_reading. cbn [tr_label tr_cur tr_high tr_crit].
  rewrite backfill_now. change (convert fahr) with (spec_unit fahr). destruct (spec_fill _ _). reflexivity.
Qed.

Lemma front_zones fahr n zs :
  map (front_reading false fahr) (flat_map (fun z => name_is n (kz_type z) (somes [raw_zone z])) zs)
  = spec_zones_of fahr n zs.
Proof.
  induction zs as [|z zs IH]; [reflexivity|].
  cbn [flat_map]. rewrite map_app. unfold spec_zones_of. cbn [flat_map]. fold (spec_zones_of fahr n zs).
  rewrite IH. f_equal. rewrite map_name_is, map_somes. cbn [map]. now rewrite front_zone.
Qed.

(* thermal-zone fallback (no hwmon temperature file): critical/high come from the trip
   points, each scaled exactly once, for every iteration order of the trip points *)
Theorem zones_values zs fahr :
  forallb kzone_ok zs = true ->
  exists d, sensors_temperatures [] (map zone_entry zs) fahr = Val d /\
    forall n, dict_get n d = match spec_zones_of fahr n zs with [] => None | l => Some l end.
Proof.
  intros Hok. unfold sensors_temperatures, sensors_temperatures_at, temps_platform.
  rewrite zones_loop_spec by exact Hok. cbn [obind]. eexists. split; [reflexivity|].
  intros n. rewrite (dict_get_map (map (front_reading false fahr))).
  rewrite dict_get_fold_nil, sel_zones, <- (front_zones fahr n zs).
  destruct (flat_map _ zs); reflexivity.
Qed.

(* the input that the code before commit 28352a2 got wrong: two trip points *)
Example zones_two_trips :
  let z := {| kz_temp := Present (KN false (bs "50000")); kz_type := Present (bs "x86_pkg_temp");
              kz_trips := [{| kt_type := Present (bs "high"); kt_temp := Present (KN false (bs "80000")) |};
                           {| kt_type := Present (bs "critical"); kt_temp := Present (KN false (bs "95000")) |}] |} in
  forallb kzone_ok [z] = true /\ no_zero_trip [z] = true /\
  spec_zones_of false (bs "x86_pkg_temp") [z] =
    [{| tr_label := []; tr_cur := (50000 / 1000)%Q; tr_high := Some (80000 / 1000)%Q; tr_crit := Some (95000 / 1000)%Q |}].
Proof. cbv zeta. split; [reflexivity|]. split; reflexivity. Qed.
