(* C19 -- sensors_battery() *)
From PV Require Import C19.Lib.

Lemma multi_alt a : salt_ok a = true ->
  multi_bcat [to_fres k_snum (s_first a); to_fres k_snum (s_second a)] = option_map MI (spec_salt a).
Proof.
  unfold salt_ok, spec_salt. intros H. apply andb_true_iff in H as [H1 H2].
  destruct (s_first a) as [x| |]; cbn [kf_ok to_fres multi_bcat] in *.
  - now rewrite parse_int_snum.
  - destruct (s_second a) as [y| |]; cbn [kf_ok to_fres multi_bcat option_map] in *; auto. now rewrite parse_int_snum.
  - destruct (s_second a) as [y| |]; cbn [kf_ok to_fres multi_bcat option_map] in *; auto. now rewrite parse_int_snum.
Qed.

Lemma multi_one f : kf_ok snum_ok f = true ->
  multi_bcat [to_fres k_snum f] = match f with Present x => Some (MI (snum_val x)) | _ => None end.
Proof.
  destruct f as [x| |]; cbn [kf_ok to_fres multi_bcat]; auto. intros H. now rewrite parse_int_snum.
Qed.

Lemma percent_spec full now cap : dec_ok cap = true ->
  percent_of (option_map MI full) (option_map MI now) (to_fres k_dec cap) =
  Val (match full, now with
       | Some f, Some n => Some (RFloat (if f =? 0 then 0%Q else (100 * inject_Z n / inject_Z f)%Q))
       | _, _ => match cap with Present ds => Some (RInt (dec_val ds)) | _ => None end
       end).
Proof.
  intros Hc. unfold percent_of.
  assert (C : match to_fres k_dec cap with
              | FC c => do p <- py_int c; Val (if p =? -1 then None else Some (RInt p))
              | _ => Val None
              end = Val (match cap with Present ds => Some (RInt (dec_val ds)) | _ => None end)).
  { destruct cap as [ds| |]; cbn [to_fres]; auto. unfold dec_ok in Hc. cbn [kf_ok] in Hc.
    unfold k_dec, py_int. rewrite parse_int_nl by exact Hc. cbn [of_option obind].
    assert (0 <= dec_val ds).
    { apply dec_val_nonneg. destruct ds; [discriminate|exact Hc]. }
    assert (dec_val ds =? -1 = false) as -> by lia. reflexivity. }
  destruct full as [f|], now as [n|]; cbn [option_map]; auto.
Qed.

Lemma plugged_spec ac0 ac st :
  plugged_of (multi_bcat [to_fres k_online ac0; to_fres k_online ac]) (to_fres k_status st) = spec_plugged ac0 ac st.
Proof.
  destruct ac0 as [[|]| |], ac as [[|]| |], st as [[| | | |]| |]; vm_compute; reflexivity.
Qed.

Lemma tte_part tte : match tte with Some (MI t) => t < 0 | Some (MB _) => False | None => True end ->
  match tte with
  | Some (MI t) => Val (if t * 60 <? 0 then RUnknown else RSecs (t * 60))
  | Some (MB b) => do s <- py_int (concat (repeat b 60)); Val (if s <? 0 then RUnknown else RSecs s)
  | None => Val RUnknown
  end = Val RUnknown.
Proof.
  destruct tte as [[t|b]|]; intros H; [|contradiction|reflexivity].
  assert (t * 60 <? 0 = true) as -> by lia. reflexivity.
Qed.

Lemma secs_spec plugged now power tte :
  (match tte with Some (MI t) => t < 0 | Some (MB _) => False | None => True end
   \/ (exists n w, now = Some n /\ power = Some w)) ->
  secs_of false plugged (option_map MI now) (option_map MI power) tte =
  Val (match plugged with
       | Some true => RUnlimited
       | _ => match now, power with
              | Some n, Some w => if w =? 0 then RUnknown else RSecs (Z.quot (n * 3600) (Z.abs w))
              | _, _ => RUnknown
              end
       end).
Proof.
  intros Ht. unfold secs_of. destruct plugged as [[|]|]; [reflexivity| |];
    (destruct now as [n|], power as [w|]; cbn [option_map]; [reflexivity| | |]);
    (destruct Ht as [Ht|[n' [w' [E1 E2]]]]; [now apply tte_part|discriminate]).
Qed.

(* one battery, signed attribute values: percent = 100*now/full (or the kernel's capacity), seconds left, plugged *)
Theorem battery_values b ac0 ac : kbat_ok b = true -> tte_unused b = true ->
  battery_of (bat_files b) (to_fres k_online ac0) (to_fres k_online ac) = Val (spec_battery b ac0 ac).
Proof.
  intros Hok Ht. unfold kbat_ok in Hok.
  apply andb_true_iff in Hok as [Hok Hcap]. apply andb_true_iff in Hok as [Hok Htte].
  apply andb_true_iff in Hok as [Hok Hfull]. apply andb_true_iff in Hok as [Hnow Hpow].
  unfold battery_of, battery_of_at, spec_battery.
  cbn [bat_files b_energy_now b_charge_now b_power_now b_current_now b_energy_full b_charge_full
       b_time_to_empty b_capacity b_status].
  rewrite !multi_alt by assumption. rewrite percent_spec by exact Hcap. cbn [obind].
  destruct (match spec_salt (kb_full b), spec_salt (kb_now b) with
            | Some f, Some n => Some (RFloat (if f =? 0 then 0%Q else (100 * inject_Z n / inject_Z f)%Q))
            | _, _ => match kb_capacity b with Present ds => Some (RInt (dec_val ds)) | _ => None end
            end) as [p|]; [|reflexivity].
  rewrite plugged_spec. rewrite secs_spec; [reflexivity|].
  unfold tte_unused in Ht. apply orb_true_iff in Ht as [Ht|Ht].
  - left. rewrite multi_one by exact Htte. destruct (kb_tte b) as [x| |]; [lia|exact I|exact I].
  - right. destruct (spec_salt (kb_now b)) as [n|]; [|discriminate].
    destruct (spec_salt (kb_power b)) as [w|]; [|discriminate]. eauto.
Qed.

(* the TYPES of the answer: secsleft is the constant POWER_TIME_UNLIMITED exactly when plugged, a plain int exactly when
   it was computed from now and a non-zero power, the constant POWER_TIME_UNKNOWN otherwise; percent is a float when
   computed from now/full and the kernel's int when it is the "capacity" attribute *)
Lemma spec_battery_types b ac0 ac r : spec_battery b ac0 ac = Some r ->
  (bt_secsleft r = RUnlimited <-> bt_plugged r = Some true) /\
  (forall z, bt_secsleft r = RSecs z <->
     bt_plugged r <> Some true /\ exists n w, spec_salt (kb_now b) = Some n /\ spec_salt (kb_power b) = Some w /\
                                            w <> 0 /\ z = Z.quot (n * 3600) (Z.abs w)) /\
  (forall q, bt_percent r = RFloat q -> exists f n, spec_salt (kb_full b) = Some f /\ spec_salt (kb_now b) = Some n) /\
  (forall z, bt_percent r = RInt z -> exists ds, kb_capacity b = Present ds /\ z = dec_val ds).
Proof.
  unfold spec_battery. intros H.
  destruct (match spec_salt (kb_full b), spec_salt (kb_now b) with
            | Some f, Some n => Some (RFloat (if f =? 0 then 0%Q else (100 * inject_Z n / inject_Z f)%Q))
            | _, _ => match kb_capacity b with Present ds => Some (RInt (dec_val ds)) | _ => None end
            end) as [p|] eqn:Ep; [|discriminate].
  inversion H; subst r; clear H. cbn [bt_secsleft bt_plugged bt_percent].
  split; [|split; [|split]].
  - destruct (spec_plugged ac0 ac (kb_status b)) as [[|]|]; [tauto| |];
      (split; [|discriminate]);
      destruct (spec_salt (kb_now b)), (spec_salt (kb_power b)) as [w|]; try discriminate;
      destruct (w =? 0); discriminate.
  - intros z. destruct (spec_plugged ac0 ac (kb_status b)) as [[|]|].
    + split; [discriminate|]. intros [C _]. now contradiction C.
    + destruct (spec_salt (kb_now b)) as [n|], (spec_salt (kb_power b)) as [w|];
        try (split; [discriminate|intros [_ [n' [w' [E1 [E2 _]]]]]; discriminate]).
      destruct (Z.eqb_spec w 0) as [->|Hne].
      * split; [discriminate|]. intros [_ [n' [w' [_ [E2 [C _]]]]]]. inversion E2. congruence.
      * split.
        -- intros E. inversion E. split; [discriminate|]. exists n, w. auto.
        -- intros [_ [n' [w' [E1 [E2 [_ ->]]]]]]. inversion E1. inversion E2. reflexivity.
    + destruct (spec_salt (kb_now b)) as [n|], (spec_salt (kb_power b)) as [w|];
        try (split; [discriminate|intros [_ [n' [w' [E1 [E2 _]]]]]; discriminate]).
      destruct (Z.eqb_spec w 0) as [->|Hne].
      * split; [discriminate|]. intros [_ [n' [w' [_ [E2 [C _]]]]]]. inversion E2. congruence.
      * split.
        -- intros E. inversion E. split; [discriminate|]. exists n, w. auto.
        -- intros [_ [n' [w' [E1 [E2 [_ ->]]]]]]. inversion E1. inversion E2. reflexivity.
  - intros q E. subst p. destruct (spec_salt (kb_full b)) as [f|], (spec_salt (kb_now b)) as [n|]; eauto;
      destruct (kb_capacity b); discriminate.
  - intros z E. subst p. destruct (spec_salt (kb_full b)) as [f|], (spec_salt (kb_now b)) as [n|]; try discriminate;
      destruct (kb_capacity b) as [ds| |]; try discriminate; inversion Ep; eauto.
Qed.

Theorem battery_types b ac0 ac r : kbat_ok b = true -> tte_unused b = true ->
  battery_of (bat_files b) (to_fres k_online ac0) (to_fres k_online ac) = Val (Some r) ->
  (bt_secsleft r = RUnlimited <-> bt_plugged r = Some true) /\
  (forall z, bt_secsleft r = RSecs z <->
     bt_plugged r <> Some true /\ exists n w, spec_salt (kb_now b) = Some n /\ spec_salt (kb_power b) = Some w /\
                                            w <> 0 /\ z = Z.quot (n * 3600) (Z.abs w)) /\
  (forall q, bt_percent r = RFloat q -> exists f n, spec_salt (kb_full b) = Some f /\ spec_salt (kb_now b) = Some n) /\
  (forall z, bt_percent r = RInt z -> exists ds, kb_capacity b = Present ds /\ z = dec_val ds).
Proof.
  intros Hok Ht H. rewrite battery_values in H by assumption. inversion H as [E]. exact (spec_battery_types b ac0 ac r E).
Qed.

(* which entry: only battery-named entries count; none -> None *)
Lemma filter_listing l : supply_ok l = true ->
  filter (fun e => is_battery_name (fst e)) (supply_listing l) = map (fun e => (fst e, bat_files (snd e))) (batteries l).
Proof.
  induction l as [|[n [b|]] l IH]; intros H; [reflexivity| |];
    unfold supply_ok in H; cbn [forallb fst snd] in H; apply andb_true_iff in H as [Hn Hl];
    cbn [supply_listing map filter fst snd batteries flat_map app].
  - apply andb_true_iff in Hn as [Hn _]. rewrite Hn. cbn [map fst snd]. f_equal. now apply IH.
  - apply negb_true_iff in Hn. rewrite Hn. now apply IH.
Qed.

Lemma min_entry_map {A B} (f : A -> B) x l :
  min_entry (fst x, f (snd x)) (map (fun e => (fst e, f (snd e))) l) =
  (fst (min_entry x l), f (snd (min_entry x l))).
Proof.
  revert x. induction l as [|y l IH]; intros x; [reflexivity|]. cbn [map min_entry fst].
  destruct (bytes_ltb (fst y) (fst x)); apply IH.
Qed.

Lemma batteries_ok l : supply_ok l = true -> forallb (fun e => kbat_ok (snd e)) (batteries l) = true.
Proof.
  induction l as [|[n [b|]] l IH]; intros H; [reflexivity| |];
    unfold supply_ok in H; cbn [forallb fst snd] in H; apply andb_true_iff in H as [Hn Hl];
    cbn [batteries flat_map app forallb snd].
  - apply andb_true_iff in Hn as [_ Hn]. rewrite Hn. now apply IH.
  - now apply IH.
Qed.

Lemma min_entry_in {A} (x : bytes * A) l : In (min_entry x l) (x :: l).
Proof.
  revert x. induction l as [|y l IH]; intros x; [now left|]. cbn [min_entry].
  destruct (bytes_ltb (fst y) (fst x)).
  - right. apply IH.
  - destruct (IH x) as [H|H]; [now left|right; now right].
Qed.

Theorem battery_selection g l ac0 ac : supply_ok l = true ->
  match batteries l with
  | [] => sensors_battery g (Some (supply_listing l)) (to_fres k_online ac0) (to_fres k_online ac) = Val None
  | x :: r =>
    let b := snd (min_entry x r) in
    In (min_entry x r) (batteries l) /\
    (tte_unused b = true ->
     sensors_battery g (Some (supply_listing l)) (to_fres k_online ac0) (to_fres k_online ac)
     = Val (spec_battery b ac0 ac))
  end.
Proof.
  intros Hok. unfold sensors_battery. rewrite filter_listing by exact Hok.
  pose proof (batteries_ok l Hok) as Hb.
  destruct (batteries l) as [|x r]; [reflexivity|]. cbn zeta. split; [apply min_entry_in|].
  intros Ht. cbn [map]. rewrite (min_entry_map bat_files x r). cbn [snd].
  apply battery_values; [|exact Ht].
  rewrite forallb_forall in Hb. apply (Hb (min_entry x r)). apply min_entry_in.
Qed.

(* the chosen battery has the least name: no battery entry is strictly smaller *)
Lemma ltb_irrefl a : bytes_ltb a a = false.
Proof. induction a as [|x a IH]; [reflexivity|]. cbn [bytes_ltb]. rewrite Z.ltb_irrefl. exact IH. Qed.
Lemma ltb_trans a : forall b c, bytes_ltb a b = true -> bytes_ltb b c = true -> bytes_ltb a c = true.
Proof.
  induction a as [|x a IH]; intros [|y b] [|z c]; cbn [bytes_ltb]; try congruence.
  destruct (x <? y) eqn:E1, (y <? x) eqn:E2, (y <? z) eqn:E3, (z <? y) eqn:E4; try congruence; try lia;
    intros H1 H2.
  - assert (x <? z = true) as -> by lia. reflexivity.
  - assert (x <? z = true) as -> by lia. reflexivity.
  - assert (x <? z = true) as -> by lia. reflexivity.
  - assert (x = y) by lia. assert (y = z) by lia. subst.
    rewrite Z.ltb_irrefl. now apply (IH b c).
Qed.
Lemma ltb_asym a b : bytes_ltb a b = true -> bytes_ltb b a = false.
Proof.
  intros H. destruct (bytes_ltb b a) eqn:E; [|reflexivity].
  pose proof (ltb_trans a b a H E) as C. now rewrite ltb_irrefl in C.
Qed.

Lemma min_entry_least {A} (l : list (bytes * A)) : forall x seen,
  (forall z, In z seen -> bytes_ltb (fst z) (fst x) = false) ->
  forall z, In z (seen ++ x :: l) -> bytes_ltb (fst z) (fst (min_entry x l)) = false.
Proof.
  induction l as [|y l IH]; intros x seen Hs z Hz.
  - cbn [min_entry]. apply in_app_or in Hz as [Hz|[<-|[]]]; [now apply Hs|apply ltb_irrefl].
  - cbn [min_entry]. destruct (bytes_ltb (fst y) (fst x)) eqn:E.
    + apply (IH y (seen ++ [x])).
      * intros w Hw. apply in_app_or in Hw as [Hw|[<-|[]]].
        -- destruct (bytes_ltb (fst w) (fst y)) eqn:E2; [|reflexivity].
           pose proof (Hs w Hw) as C. rewrite (ltb_trans _ _ _ E2 E) in C. discriminate C.
        -- now apply ltb_asym.
      * rewrite <- app_assoc. exact Hz.
    + assert (Hz' : In z ((seen ++ [y]) ++ x :: l)).
      { rewrite <- app_assoc. cbn [app]. apply in_app_or in Hz as [Hz|[<-|[<-|Hz]]];
          apply in_or_app; [now left|right; right; now left|right; now left|right; right; now right]. }
      apply (IH x (seen ++ [y])); [|exact Hz'].
      intros w Hw. apply in_app_or in Hw as [Hw|[<-|[]]]; [now apply Hs|exact E].
Qed.

Theorem battery_first_by_name {A} (x : bytes * A) l :
  forall z, In z (x :: l) -> bytes_ltb (fst z) (fst (min_entry x l)) = false.
Proof. intros z Hz. apply (min_entry_least l x []); [intros w []|exact Hz]. Qed.

(* the power_supply directory does not exist: the code as it is fails *)
Theorem battery_nodir_refuted :
  sensors_battery false None FAbsent FAbsent = Exc OSError /\ sensors_battery true None FAbsent FAbsent = Val None.
Proof. split; reflexivity. Qed.

Definition sn (g : sgn) (ds : bytes) : snum := {| sn_lead := []; sn_sign := g; sn_digits := ds; sn_trail := [] |}.

(* the code before commit 90bacb2 ([battery_of_at true]: signed division): a fuel gauge that reports the discharge
   current as a negative number -- 3 Ah left at -1 A is three hours, that code answered -10800 *)
Definition neg_current_witness : kbat :=
  {| kb_now := {| s_first := Absent; s_second := Present (sn SgNone (bs "3000000")) |};
     kb_power := {| s_first := Absent; s_second := Present (sn SgMinus (bs "1000000")) |};
     kb_full := {| s_first := Absent; s_second := Present (sn SgNone (bs "4000000")) |};
     kb_tte := Present (sn SgMinus (bs "1")); kb_capacity := Present (bs "75"); kb_status := Present StDischarging |}.
Theorem battery_negative_power_refuted :
  exists b r r', kbat_ok b = true /\ tte_unused b = true /\
    battery_of_at true (bat_files b) FAbsent FAbsent = Val (Some r) /\ bt_secsleft r = RSecs (-10800) /\
    spec_battery b Absent Absent = Some r' /\ bt_secsleft r' = RSecs 10800 /\ bt_percent r = bt_percent r' /\
    battery_of (bat_files b) FAbsent FAbsent = Val (Some r').
Proof.
  exists neg_current_witness. eexists. eexists. split; [reflexivity|]. split; [reflexivity|].
  split; [vm_compute; reflexivity|]. split; [reflexivity|]. split; [vm_compute; reflexivity|].
  split; [reflexivity|]. split; [reflexivity|]. vm_compute; reflexivity.
Qed.

Example battery_example :
  let b := {| kb_now := {| s_first := Absent; s_second := Present (sn SgNone (bs "3000000")) |};
              kb_power := {| s_first := Present {| sn_lead := [32]; sn_sign := SgPlus; sn_digits := bs "1000000"; sn_trail := [32] |};
                             s_second := Absent |};
              kb_full := {| s_first := Absent; s_second := Present (sn SgNone (bs "4000000")) |};
              kb_tte := Present (sn SgMinus (bs "1")); kb_capacity := Present (bs "75"); kb_status := Present StDischarging |} in
  kbat_ok b = true /\ tte_unused b = true /\
  spec_battery b Absent Absent = Some {| bt_percent := RFloat (100 * 3000000 / 4000000)%Q; bt_secsleft := RSecs 10800; bt_plugged := Some false |}.
Proof. cbv zeta. repeat split. Qed.
