(* C19 -- sensors_battery() *)
From PV Require Import C19.Lib.

Lemma multi_alt a : kalt_ok a = true ->
  multi_bcat [to_fres k_dec (a_first a); to_fres k_dec (a_second a)] = option_map MI (spec_alt a).
Proof.
  unfold kalt_ok, dec_ok, spec_alt. intros H. apply andb_true_iff in H as [H1 H2].
  destruct (a_first a) as [ds| |]; cbn [kf_ok to_fres multi_bcat] in *.
  - unfold k_dec. now rewrite parse_int_nl.
  - destruct (a_second a) as [es| |]; cbn [kf_ok to_fres multi_bcat option_map] in *; auto.
    unfold k_dec. now rewrite parse_int_nl.
  - destruct (a_second a) as [es| |]; cbn [kf_ok to_fres multi_bcat option_map] in *; auto.
    unfold k_dec. now rewrite parse_int_nl.
Qed.

Lemma multi_one f : dec_ok f = true ->
  multi_bcat [to_fres k_dec f] = match f with Present ds => Some (MI (dec_val ds)) | _ => None end.
Proof.
  unfold dec_ok. destruct f as [ds| |]; cbn [kf_ok to_fres multi_bcat]; auto.
  intros H. unfold k_dec. now rewrite parse_int_nl.
Qed.

Lemma percent_spec full now cap : dec_ok cap = true ->
  percent_of (option_map MI full) (option_map MI now) (to_fres k_dec cap) =
  Val (match full, now with
       | Some f, Some n => Some (if f =? 0 then 0%Q else (100 * inject_Z n / inject_Z f)%Q)
       | _, _ => match cap with Present ds => Some (inject_Z (dec_val ds)) | _ => None end
       end).
Proof.
  intros Hc. unfold percent_of.
  assert (C : match to_fres k_dec cap with
              | FC c => do p <- py_int c; Val (if p =? -1 then None else Some (inject_Z p))
              | _ => Val None
              end = Val (match cap with Present ds => Some (inject_Z (dec_val ds)) | _ => None end)).
  { destruct cap as [ds| |]; cbn [to_fres]; auto. unfold dec_ok in Hc. cbn [kf_ok] in Hc.
    unfold k_dec, py_int. rewrite parse_int_nl by exact Hc. cbn [of_option obind].
    assert (0 <= dec_val ds).
    { apply dec_val_nonneg. destruct ds; [discriminate|exact Hc]. }
    assert (dec_val ds =? -1 = false) as -> by lia. reflexivity. }
  destruct full as [f|], now as [n|]; cbn [option_map]; auto.
Qed.

Lemma plugged_spec ac0 ac st :
  plugged_of (multi_bcat [to_fres k_online ac0; to_fres k_online ac]) (to_fres k_status st) = spec_plugged ac0 ac st.
Proof.
  destruct ac0 as [[|]| |], ac as [[|]| |], st as [[| | | |]| |]; vm_compute; reflexivity.
Qed.

Lemma spec_alt_nonneg a z : kalt_ok a = true -> spec_alt a = Some z -> 0 <= z.
Proof.
  unfold kalt_ok, dec_ok, spec_alt. intros H. apply andb_true_iff in H as [H1 H2].
  assert (D : forall ds, is_dec ds = true -> 0 <= dec_val ds).
  { intros ds Hd. apply dec_val_nonneg. destruct ds; [discriminate|exact Hd]. }
  destruct (a_first a) as [ds| |]; cbn [kf_ok] in *.
  - intros E. inversion E. now apply D.
  - destruct (a_second a) as [es| |]; cbn [kf_ok] in *; try discriminate. intros E. inversion E. now apply D.
  - destruct (a_second a) as [es| |]; cbn [kf_ok] in *; try discriminate. intros E. inversion E. now apply D.
Qed.

Lemma secs_spec plugged now power tte :
  (forall n, now = Some n -> 0 <= n) -> (forall w, power = Some w -> 0 <= w) ->
  tte = None \/ (exists n w, now = Some n /\ power = Some w) ->
  secs_of plugged (option_map MI now) (option_map MI power) tte =
  Val (match plugged with
       | Some true => POWER_TIME_UNLIMITED
       | _ => match now, power with
              | Some n, Some w => if w =? 0 then POWER_TIME_UNKNOWN else (n * 3600) / w
              | _, _ => POWER_TIME_UNKNOWN
              end
       end).
Proof.
  intros Hn Hw Ht. unfold secs_of.
  assert (G : match option_map MI now, option_map MI power with
              | Some n, Some p =>
                match n, p with
                | MI n, MI p => Val (if p =? 0 then POWER_TIME_UNKNOWN else Z.quot (n * 3600) p)
                | _, _ => Exc TypeError
                end
              | _, _ =>
                match tte with
                | Some (MI t) => Val (if t * 60 <? 0 then POWER_TIME_UNKNOWN else t * 60)
                | Some (MB b) => do s <- py_int (concat (repeat b 60));
                                 Val (if s <? 0 then POWER_TIME_UNKNOWN else s)
                | None => Val POWER_TIME_UNKNOWN
                end
              end = Val (match now, power with
                         | Some n, Some w => if w =? 0 then POWER_TIME_UNKNOWN else (n * 3600) / w
                         | _, _ => POWER_TIME_UNKNOWN
                         end)).
  { destruct now as [n|], power as [w|]; cbn [option_map].
    - destruct (Z.eqb_spec w 0) as [->|Hne]; [reflexivity|].
      specialize (Hn n eq_refl). specialize (Hw w eq_refl).
      rewrite Z.quot_div_nonneg by lia. reflexivity.
    - destruct Ht as [->|[n' [w' [_ E]]]]; [reflexivity|discriminate].
    - destruct Ht as [->|[n' [w' [E _]]]]; [reflexivity|discriminate].
    - destruct Ht as [->|[n' [w' [E _]]]]; [reflexivity|discriminate]. }
  destruct plugged as [[|]|]; auto.
Qed.

(* one battery: percent = 100*now/full (or the kernel's capacity), seconds left, plugged *)
Theorem battery_values b ac0 ac : kbat_ok b = true -> tte_unused b = true ->
  battery_of (bat_files b) (to_fres k_online ac0) (to_fres k_online ac) = Val (spec_battery b ac0 ac).
Proof.
  intros Hok Ht. unfold kbat_ok in Hok.
  apply andb_true_iff in Hok as [Hok Hcap]. apply andb_true_iff in Hok as [Hok Htte].
  apply andb_true_iff in Hok as [Hok Hfull]. apply andb_true_iff in Hok as [Hnow Hpow].
  unfold battery_of, spec_battery.
  cbn [bat_files b_energy_now b_charge_now b_power_now b_current_now b_energy_full b_charge_full
       b_time_to_empty b_capacity b_status].
  rewrite !multi_alt by assumption. rewrite percent_spec by exact Hcap. cbn [obind].
  destruct (match spec_alt (kb_full b), spec_alt (kb_now b) with
            | Some f, Some n => Some (if f =? 0 then 0%Q else (100 * inject_Z n / inject_Z f)%Q)
            | _, _ => match kb_capacity b with Present ds => Some (inject_Z (dec_val ds)) | _ => None end
            end) as [p|]; [|reflexivity].
  rewrite plugged_spec. rewrite secs_spec; [reflexivity| | |].
  - intros n E. now apply (spec_alt_nonneg (kb_now b)).
  - intros w E. now apply (spec_alt_nonneg (kb_power b)).
  - unfold tte_unused in Ht. apply orb_true_iff in Ht as [Ht|Ht].
    + left. rewrite multi_one by exact Htte. destruct (kb_tte b); [discriminate|reflexivity|reflexivity].
    + right. destruct (spec_alt (kb_now b)) as [n|]; [|discriminate].
      destruct (spec_alt (kb_power b)) as [w|]; [|discriminate]. eauto.
Qed.

(* which entry: only battery-named entries count; none -> None *)
Lemma filter_listing l : supply_ok l = true ->
  filter (fun e => is_battery_name (fst e)) (supply_listing l) = map (fun e => (fst e, bat_files (snd e))) (batteries l).
Proof.
  induction l as [|[n [b|]] l IH]; intros H; [reflexivity| |];
    unfold supply_ok in H; cbn [forallb fst snd] in H; apply andb_true_iff in H as [Hn Hl];
    cbn [supply_listing map filter fst snd batteries flat_map app].
  - apply andb_true_iff in Hn as [Hn _]. rewrite Hn. cbn [map fst snd]. f_equal. now apply IH.
  - apply negb_true_iff in Hn. rewrite Hn. now apply IH.
Qed.

Lemma min_entry_map {A B} (f : A -> B) x l :
  min_entry (fst x, f (snd x)) (map (fun e => (fst e, f (snd e))) l) =
  (fst (min_entry x l), f (snd (min_entry x l))).
Proof.
  revert x. induction l as [|y l IH]; intros x; [reflexivity|]. cbn [map min_entry fst].
  destruct (bytes_ltb (fst y) (fst x)); apply IH.
Qed.

Lemma batteries_ok l : supply_ok l = true -> forallb (fun e => kbat_ok (snd e)) (batteries l) = true.
Proof.
  induction l as [|[n [b|]] l IH]; intros H; [reflexivity| |];
    unfold supply_ok in H; cbn [forallb fst snd] in H; apply andb_true_iff in H as [Hn Hl];
    cbn [batteries flat_map app forallb snd].
  - apply andb_true_iff in Hn as [_ Hn]. rewrite Hn. now apply IH.
  - now apply IH.
Qed.

Lemma min_entry_in {A} (x : bytes * A) l : In (min_entry x l) (x :: l).
Proof.
  revert x. induction l as [|y l IH]; intros x; [now left|]. cbn [min_entry].
  destruct (bytes_ltb (fst y) (fst x)).
  - right. apply IH.
  - destruct (IH x) as [H|H]; [now left|right; now right].
Qed.

Theorem battery_selection g l ac0 ac : supply_ok l = true ->
  match batteries l with
  | [] => sensors_battery g (Some (supply_listing l)) (to_fres k_online ac0) (to_fres k_online ac) = Val None
  | x :: r =>
    let b := snd (min_entry x r) in
    In (min_entry x r) (batteries l) /\
    (tte_unused b = true ->
     sensors_battery g (Some (supply_listing l)) (to_fres k_online ac0) (to_fres k_online ac)
     = Val (spec_battery b ac0 ac))
  end.
Proof.
  intros Hok. unfold sensors_battery. rewrite filter_listing by exact Hok.
  pose proof (batteries_ok l Hok) as Hb.
  destruct (batteries l) as [|x r]; [reflexivity|]. cbn zeta. split; [apply min_entry_in|].
  intros Ht. cbn [map]. rewrite (min_entry_map bat_files x r). cbn [snd].
  apply battery_values; [|exact Ht].
  rewrite forallb_forall in Hb. apply (Hb (min_entry x r)). apply min_entry_in.
Qed.

(* the chosen battery has the least name: no battery entry is strictly smaller *)
Lemma ltb_irrefl a : bytes_ltb a a = false.
Proof. induction a as [|x a IH]; [reflexivity|]. cbn [bytes_ltb]. rewrite Z.ltb_irrefl. exact IH. Qed.
Lemma ltb_trans a : forall b c, bytes_ltb a b = true -> bytes_ltb b c = true -> bytes_ltb a c = true.
Proof.
  induction a as [|x a IH]; intros [|y b] [|z c]; cbn [bytes_ltb]; try congruence.
  destruct (x <? y) eqn:E1, (y <? x) eqn:E2, (y <? z) eqn:E3, (z <? y) eqn:E4; try congruence; try lia;
    intros H1 H2.
  - assert (x <? z = true) as -> by lia. reflexivity.
  - assert (x <? z = true) as -> by lia. reflexivity.
  - assert (x <? z = true) as -> by lia. reflexivity.
  - assert (x = y) by lia. assert (y = z) by lia. subst.
    rewrite Z.ltb_irrefl. now apply (IH b c).
Qed.
Lemma ltb_asym a b : bytes_ltb a b = true -> bytes_ltb b a = false.
Proof.
  intros H. destruct (bytes_ltb b a) eqn:E; [|reflexivity].
  pose proof (ltb_trans a b a H E) as C. now rewrite ltb_irrefl in C.
Qed.

Lemma min_entry_least {A} (l : list (bytes * A)) : forall x seen,
  (forall z, In z seen -> bytes_ltb (fst z) (fst x) = false) ->
  forall z, In z (seen ++ x :: l) -> bytes_ltb (fst z) (fst (min_entry x l)) = false.
Proof.
  induction l as [|y l IH]; intros x seen Hs z Hz.
  - cbn [min_entry]. apply in_app_or in Hz as [Hz|[<-|[]]]; [now apply Hs|apply ltb_irrefl].
  - cbn [min_entry]. destruct (bytes_ltb (fst y) (fst x)) eqn:E.
    + apply (IH y (seen ++ [x])).
      * intros w Hw. apply in_app_or in Hw as [Hw|[<-|[]]].
        -- destruct (bytes_ltb (fst w) (fst y)) eqn:E2; [|reflexivity].
           pose proof (Hs w Hw) as C. rewrite (ltb_trans _ _ _ E2 E) in C. discriminate C.
        -- now apply ltb_asym.
      * rewrite <- app_assoc. exact Hz.
    + assert (Hz' : In z ((seen ++ [y]) ++ x :: l)).
      { rewrite <- app_assoc. cbn [app]. apply in_app_or in Hz as [Hz|[<-|[<-|Hz]]];
          apply in_or_app; [now left|right; right; now left|right; now left|right; right; now right]. }
      apply (IH x (seen ++ [y])); [|exact Hz'].
      intros w Hw. apply in_app_or in Hw as [Hw|[<-|[]]]; [now apply Hs|exact E].
Qed.

Theorem battery_first_by_name {A} (x : bytes * A) l :
  forall z, In z (x :: l) -> bytes_ltb (fst z) (fst (min_entry x l)) = false.
Proof. intros z Hz. apply (min_entry_least l x []); [intros w []|exact Hz]. Qed.

(* the power_supply directory does not exist: the code as it is fails *)
Theorem battery_nodir_refuted :
  sensors_battery false None FAbsent FAbsent = Exc OSError /\ sensors_battery true None FAbsent FAbsent = Val None.
Proof. split; reflexivity. Qed.

Example battery_example :
  let b := {| kb_now := {| a_first := Absent; a_second := Present (bs "3000000") |};
              kb_power := {| a_first := Present (bs "1000000"); a_second := Absent |};
              kb_full := {| a_first := Absent; a_second := Present (bs "4000000") |};
              kb_tte := Absent; kb_capacity := Present (bs "75"); kb_status := Present StDischarging |} in
  kbat_ok b = true /\ tte_unused b = true /\
  spec_battery b Absent Absent = Some {| bt_percent := (100 * 3000000 / 4000000)%Q; bt_secsleft := 10800; bt_plugged := Some false |}.
Proof. cbv zeta. repeat split. Qed.
