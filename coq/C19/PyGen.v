(* A small statement language that fits psutil/_pslinux.py:sensors_battery() (the nested multi_bcat() helper
   and the body after `root = os.path.join(POWER_SUPPLY_PATH, min(bats))`) and the head of that function
   (listdir guard, battery-name filter, choice of the entry).  props/_c19_tr.py translates the CURRENT source
   into Gen/C19_Tables.v on every run, failing closed; ProofsGen.v proves the interpreter on the translated
   program equal to the hand-written model (Model.v: multi_bcat, battery_of, sensors_battery) for all inputs.
   No proofs here. *)
From Coq Require Import String.
From PV Require Export C19.Model.
Open Scope Z_scope.

(* ------------------------------------------------ the nested helper multi_bcat *)
(* for path in paths:
       ret = bcat(path, fallback=null)
       if ret != null:
           try: return <conv1>(ret)
           except <cls>: return <conv2>(ret)
   return None *)
Inductive mconv := MCInt | MCStrip | MCRaw.
Record multifn := {
  mf_guarded : bool;        (* the `if ret != null:` guard is there (a fallback value is skipped) *)
  mf_try : mconv;           (* return int(ret) *)
  mf_class : exn;           (* except ValueError *)
  mf_handler : mconv;       (* return ret.strip() *)
}.

Definition exn_eqb (a b : exn) : bool :=
  match a, b with
  | ValueError, ValueError | TypeError, TypeError | ZeroDivisionError, ZeroDivisionError
  | OSError, OSError | KeyError, KeyError | IndexError, IndexError => true
  | _, _ => false
  end.

Definition conv (c : mconv) (b : bytes) : outcome mval :=
  match c with
  | MCInt => do z <- py_int b; Val (MI z)
  | MCStrip => Val (MB (strip b))
  | MCRaw => Val (MB b)
  end.

(* the translator only emits mf_guarded = true; an unguarded loop would convert the `null` object *)
Fixpoint run_multi (f : multifn) (fs : list fres) : outcome (option mval) :=
  match fs with
  | [] => Val None
  | FC b :: _ =>
    match conv (mf_try f) b with
    | Exc e => if exn_eqb e (mf_class f) then omap Some (conv (mf_handler f) b) else Exc e
    | r => omap Some r
    end
  | _ :: r => if mf_guarded f then run_multi f r else OutOfModel
  end.

(* ------------------------------------------------ the body of sensors_battery() *)
Inductive path :=
| PRoot (s : string)       (* root + "/energy_now" *)
| PSupply (s : string).    (* os.path.join(POWER_SUPPLY_PATH, "AC0/online") *)

Inductive val :=
| VNone | VInt (z : Z) | VFloat (q : Q) | VStr (b : bytes) | VBool (b : bool)
| VTime (unlimited : bool)                 (* _common.POWER_TIME_UNLIMITED / POWER_TIME_UNKNOWN *)
| VBat (percent secs plugged : val).       (* _common.sbattery(percent, secsleft, power_plugged) *)

Inductive expr :=
| EVar (x : string)
| ENone | EInt (z : Z) | EFloat (z : Z) | EStr (b : bytes) | EBool (b : bool)
| ETime (unlimited : bool)
| EMulti (ps : list path)                  (* multi_bcat(p1, p2, ...) *)
| ECat (p : path) (fallback : expr)        (* cat(p, fallback=...) *)
| EStrip (e : expr) | ELower (e : expr)    (* .strip()  .lower() *)
| EIntOf (e : expr) | EAbs (e : expr)      (* int(e)  abs(e) *)
| EMul (a b : expr) | EDiv (a b : expr)    (* a * b   a / b (true division) *)
| EEq (a b : expr) | ELt (a b : expr)      (* a == b  a < b *)
| EInSet (a : expr) (l : list bytes)       (* a in {"..", ".."} *)
| EIsNone (neg : bool) (a : expr)          (* a is None / a is not None *)
| EAnd (a b : expr)                        (* a and b *)
| ESbattery (a b c : expr).

Inductive stmt :=
| SAssign (x : string) (e : expr)
| SIf (c : expr) (th el : list stmt)
| STry (body : stmt) (cls : exn) (h : list stmt)     (* try: <one statement> except cls: ... *)
| SReturn (e : expr).

Definition env := list (string * val).
Fixpoint lookup (x : string) (en : env) : outcome val :=
  match en with
  | [] => OutOfModel                                     (* UnboundLocalError *)
  | (y, v) :: r => if String.eqb x y then Val v else lookup x r
  end.

(* int(float): truncation toward zero *)
Definition Qtrunc (q : Q) : Z := Z.quot (Qnum q) (Z.pos (Qden q)).

Definition truthy (v : val) : outcome bool :=
  match v with
  | VNone => Val false
  | VBool b => Val b
  | VInt z => Val (negb (z =? 0))
  | VStr b => Val (match b with [] => false | _ => true end)
  | _ => OutOfModel
  end.

Definition path_eqb (a b : path) : bool :=
  match a, b with
  | PRoot s, PRoot t | PSupply s, PSupply t => String.eqb s t
  | _, _ => false
  end.
Fixpoint paths_eqb (a b : list path) : bool :=
  match a, b with
  | [], [] => true
  | x :: a', y :: b' => path_eqb x y && paths_eqb a' b'
  | _, _ => false
  end.
Fixpoint tbl_lookup (ps : list path) (t : list (list path * outcome (option mval))) : outcome (option mval) :=
  match t with
  | [] => OutOfModel
  | (qs, r) :: t' => if paths_eqb ps qs then r else tbl_lookup ps t'
  end.

Section Eval.
(* what the nested multi_bcat returns for each argument list occurring in the program (built by [mk_tbl] below from
   the translated multi_bcat and the files: a first-order table instead of a function, so that proofs can name the
   entries); an argument list that is not in the table is outside the model *)
Variable tbl : list (list path * outcome (option mval)).
Variable fs : path -> fres.                          (* the files below /sys/class/power_supply *)

Definition mb (ps : list path) : outcome (option mval) := tbl_lookup ps tbl.

Definition of_mval (m : option mval) : val :=
  match m with None => VNone | Some (MI z) => VInt z | Some (MB b) => VStr b end.

Fixpoint eval (en : env) (e : expr) {struct e} : outcome val :=
  match e with
  | EVar x => lookup x en
  | ENone => Val VNone
  | EInt z => Val (VInt z)
  | EFloat z => Val (VFloat (inject_Z z))
  | EStr b => Val (VStr b)
  | EBool b => Val (VBool b)
  | ETime u => Val (VTime u)
  | EMulti ps => do m <- mb ps; Val (of_mval m)
  | ECat p fb => match fs p with FC b => Val (VStr b) | _ => eval en fb end
  | EStrip a => do v <- eval en a; match v with VStr b => Val (VStr (strip b)) | _ => OutOfModel end
  | ELower a => do v <- eval en a; match v with VStr b => Val (VStr (lower b)) | _ => OutOfModel end
  | EIntOf a => do v <- eval en a;
                match v with
                | VInt z => Val (VInt z)
                | VStr b => do z <- py_int b; Val (VInt z)
                | VFloat q => Val (VInt (Qtrunc q))
                | _ => OutOfModel
                end
  | EAbs a => do v <- eval en a;
              match v with VInt z => Val (VInt (Z.abs z)) | VStr _ | VNone => Exc TypeError | _ => OutOfModel end
  | EMul a b => do x <- eval en a; do y <- eval en b;
                match x, y with
                | VInt m, VInt n => Val (VInt (m * n))
                | VFloat q, VInt n => Val (VFloat (q * inject_Z n))
                | VStr s, VInt n => Val (VStr (concat (repeat s (Z.to_nat n))))
                | VFloat _, VStr _ => Exc TypeError
                | _, _ => OutOfModel
                end
  | EDiv a b => do x <- eval en a; do y <- eval en b;
                match x, y with
                | VInt m, VInt n => if n =? 0 then Exc ZeroDivisionError else Val (VFloat (inject_Z m / inject_Z n))
                | VFloat q, VInt n => if n =? 0 then Exc ZeroDivisionError else Val (VFloat (q / inject_Z n))
                | (VInt _ | VFloat _ | VStr _), VStr _ | VStr _, VInt _ => Exc TypeError
                | _, _ => OutOfModel
                end
  | EEq a b => do x <- eval en a; do y <- eval en b;
               match x, y with
               | VInt m, VInt n => Val (VBool (m =? n))
               | VStr s, VStr t => Val (VBool (beqb s t))
               | VStr _, VInt _ | VInt _, VStr _ => Val (VBool false)
               | _, _ => OutOfModel
               end
  | ELt a b => do x <- eval en a; do y <- eval en b;
               match x, y with
               | VInt m, VInt n => Val (VBool (m <? n))
               | _, _ => OutOfModel
               end
  | EInSet a l => do x <- eval en a;
                  match x with VStr s => Val (VBool (existsb (beqb s) l)) | _ => OutOfModel end
  | EIsNone neg a => do x <- eval en a;
                     Val (VBool (xorb neg (match x with VNone => true | _ => false end)))
  | EAnd a b => do x <- eval en a; do t <- truthy x; if t then eval en b else Val x
  | ESbattery a b c => do x <- eval en a; do y <- eval en b; do z <- eval en c; Val (VBat x y z)
  end.

Inductive ctl := CNext (en : env) | CRet (v : val).

Fixpoint exec (s : stmt) (en : env) {struct s} : outcome ctl :=
  let fix block (l : list stmt) (en : env) {struct l} : outcome ctl :=
    match l with
    | [] => Val (CNext en)
    | s :: r => do c <- exec s en; match c with CNext en' => block r en' | CRet v => Val (CRet v) end
    end in
  match s with
  | SAssign x e => do v <- eval en e; Val (CNext ((x, v) :: en))
  | SIf c th el => do b <- eval en c; do t <- truthy b; if t then block th en else block el en
  | STry body cls h =>
    match exec body en with
    | Exc e => if exn_eqb e cls then block h en else Exc e
    | r => r
    end
  | SReturn e => do v <- eval en e; Val (CRet v)
  end.

Fixpoint exec_block (l : list stmt) (en : env) : outcome ctl :=
  match l with
  | [] => Val (CNext en)
  | s :: r => do c <- exec s en; match c with CNext en' => exec_block r en' | CRet v => Val (CRet v) end
  end.
End Eval.

(* the returned Python object as the model's record; anything else is outside the model *)
Definition to_battery (v : val) : outcome (option battery) :=
  match v with
  | VNone => Val None
  | VBat p s g =>
    match (match p with VFloat q => Some (RFloat q) | VInt z => Some (RInt z) | _ => None end),
          (match s with VTime true => Some RUnlimited | VTime false => Some RUnknown | VInt z => Some (RSecs z) | _ => None end),
          (match g with VNone => Some None | VBool b => Some (Some b) | _ => None end) with
    | Some p', Some s', Some g' => Val (Some {| bt_percent := p'; bt_secsleft := s'; bt_plugged := g' |})
    | _, _, _ => OutOfModel
    end
  | _ => OutOfModel
  end.

(* which record field a file name below the battery directory / the power_supply directory is
   (names from Documentation/ABI/testing/sysfs-class-power; hand-written) *)
Definition bat_fs (bf : batfiles) (ac0 ac : fres) (p : path) : fres :=
  match p with
  | PRoot s =>
    if String.eqb s "/energy_now" then b_energy_now bf
    else if String.eqb s "/charge_now" then b_charge_now bf
    else if String.eqb s "/power_now" then b_power_now bf
    else if String.eqb s "/current_now" then b_current_now bf
    else if String.eqb s "/energy_full" then b_energy_full bf
    else if String.eqb s "/charge_full" then b_charge_full bf
    else if String.eqb s "/time_to_empty_now" then b_time_to_empty bf
    else if String.eqb s "/capacity" then b_capacity bf
    else if String.eqb s "/status" then b_status bf
    else FAbsent
  | PSupply s =>
    if String.eqb s "AC0/online" then ac0
    else if String.eqb s "AC/online" then ac
    else FAbsent
  end.

(* every argument list of multi_bcat occurring in a program *)
Fixpoint multis_e (e : expr) : list (list path) :=
  match e with
  | EMulti ps => [ps]
  | ECat _ a | EStrip a | ELower a | EIntOf a | EAbs a | EInSet a _ | EIsNone _ a => multis_e a
  | EMul a b | EDiv a b | EEq a b | ELt a b | EAnd a b => multis_e a ++ multis_e b
  | ESbattery a b c => multis_e a ++ multis_e b ++ multis_e c
  | _ => []
  end.
Fixpoint multis_s (s : stmt) : list (list path) :=
  let fix go (l : list stmt) : list (list path) :=
    match l with [] => [] | s :: r => multis_s s ++ go r end in
  match s with
  | SAssign _ e | SReturn e => multis_e e
  | SIf c th el => multis_e c ++ go th ++ go el
  | STry b _ h => multis_s b ++ go h
  end.
Definition mk_tbl (m : multifn) (fs : path -> fres) (body : list stmt) : list (list path * outcome (option mval)) :=
  map (fun ps => (ps, run_multi m (map fs ps))) (flat_map multis_s body).

Definition run_body (m : multifn) (body : list stmt) (bf : batfiles) (ac0 ac : fres) : outcome (option battery) :=
  do c <- exec_block (mk_tbl m (bat_fs bf ac0 ac) body) (bat_fs bf ac0 ac) body [];
  match c with
  | CRet v => to_battery v
  | CNext _ => Val None                    (* falling off the end returns None *)
  end.

(* ------------------------------------------------ the head of sensors_battery() *)
(* try: names = os.listdir(POWER_SUPPLY_PATH)  except <cls>: return None
   bats = [x for x in names if x.startswith(<pre>) or <sub> in x.lower()]
   if not bats: return None
   root = os.path.join(POWER_SUPPLY_PATH, <pick>(bats)) *)
Inductive pick := PickMin | PickFirst.
Record headfn := {
  hd_guard : option bytes;     (* class caught around os.listdir, if any *)
  hd_prefix : bytes;           (* x.startswith('BAT') *)
  hd_sub : bytes;              (* 'battery' in x.lower() *)
  hd_empty_none : bool;        (* if not bats: return None *)
  hd_pick : pick }.

Definition catches_enoent (cls : bytes) : bool :=
  beqb cls (bs "FileNotFoundError") || beqb cls (bs "OSError") || beqb cls (bs "EnvironmentError")
  || beqb cls (bs "IOError") || beqb cls (bs "Exception") || beqb cls (bs "BaseException").

Definition run_head {A} (h : headfn) (listing : option (list (bytes * A))) : outcome (option (bytes * A)) :=
  match listing with
  | None => match hd_guard h with
            | Some c => if catches_enoent c then Val None else Exc OSError
            | None => Exc OSError
            end
  | Some l =>
    match filter (fun e => prefixb (hd_prefix h) (fst e) || has_sub (hd_sub h) (lower (fst e))) l with
    | [] => if hd_empty_none h then Val None else Exc ValueError     (* min([]) *)
    | x :: r => Val (Some (match hd_pick h with PickMin => min_entry x r | PickFirst => x end))
    end
  end.

Definition run_sensors_battery (h : headfn) (m : multifn) (body : list stmt)
           (listing : option (list (bytes * batfiles))) (ac0 ac : fres) : outcome (option battery) :=
  do e <- run_head h listing;
  match e with
  | None => Val None
  | Some e => run_body m body (snd e) ac0 ac
  end.
